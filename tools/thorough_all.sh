#!/bin/bash
# thorough_all.sh : setup, then every claimed check's thorough tier, three lanes in parallel; prints one line per property.
cd "$(dirname "$0")/.."
./check --setup | tail -1
lane() { for p in "$@"; do s=$(date +%s); VERIF_COQCHK=${VERIF_COQCHK:-1} ./check $p --tier thorough > build/thorough.$p.log 2>&1; rc=$?; echo "$p thorough exit=$rc $(( $(date +%s)-s ))s viol=$(grep -c VIOLATION build/thorough.$p.log) $(grep -E 'thorough tier, seed' build/thorough.$p.log | tail -1 | cut -c1-160)"; done; }
lane C01 C04 C07 C10 C13 C16 C19 &
lane C02 C05 C08 C11 C14 C17 C20 &
lane C03 C06 C09 C12 C15 C18 &
wait
echo THOROUGH-ALL-DONE
