#!/usr/bin/env python3
"""keep_seed.py <Cnn> <k> <detected: yes|no|partial> <by: oracle key / correspondence / ...> [note]
copies /tmp/seedout-Cnn/k into seeded/Cnn-k and records what was run."""
import json, os, shutil, sys
pid, k, detected, by = sys.argv[1:5]
note = sys.argv[5] if len(sys.argv) > 5 else ""
src = "/tmp/seedout-%s/%s" % (pid, k)
dst = "/verif/seeded/%s-%s" % (pid, k)
os.makedirs(dst, exist_ok=True)
for f in ("patch.diff", "demo_test.go.txt"):
    shutil.copy(os.path.join(src, f), os.path.join(dst, f))
m = json.load(open(os.path.join(src, "meta.json")))
m["breaks_property"] = pid
m["confirmed_by"] = ("tools/validate_seed.sh: scratch worktree of /repo HEAD; demo passes on the clean tree, fails with the patch; "
                     "go build ./... && go test -vet=off -count=1 ./... passes with the patch")
m["check_run"] = "tools/run_seed.sh %s seeded/%s-%s  (git -C /repo apply; ./check %s --tier quick; git -C /repo checkout -- .)" % (pid, pid, k, pid)
m["detected"] = detected
m["detected_by"] = by
if note:
    m["note"] = note
json.dump(m, open(os.path.join(dst, "meta.json"), "w"), indent=1)
# regenerate the table
rows = ["| id | property | what the change does | needs | detected | by |", "|---|---|---|---|---|---|"]
for d in sorted(os.listdir("/verif/seeded")):
    mp = os.path.join("/verif/seeded", d, "meta.json")
    if os.path.exists(mp):
        x = json.load(open(mp))
        rows.append("| %s | %s | %s | %s | %s | %s |" % (d, x.get("breaks_property"), x.get("summary", "").replace("|", "/")[:260],
                                                   x.get("needs", "").replace("|", "/")[:200], x.get("detected"), x.get("detected_by", "").replace("|", "/")))
open("/verif/tools/seeded.md", "w").write("\n".join(rows) + "\n")
