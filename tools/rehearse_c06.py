#!/usr/bin/env python3
"""Rehearsal of ./check C06 (BUILDER_GUIDE section 6): applies one mutant at a time to a scratch
worktree of the repository, runs its test suite and the check, reverts.  Informational only; never
run by the registered commands.

  tools/rehearse_c06.py <repo worktree> [name prefix ...]      -> checks/C06.rehearsal.json
"""
import subprocess, os, sys, json

VW = os.path.dirname(os.path.dirname(os.path.abspath(__file__)))
RW = sys.argv[1]
ONLY = sys.argv[2:]
ENV = dict(os.environ, GOFLAGS='-mod=mod', GOPROXY='off', GOSUMDB='off', GOTOOLCHAIN='local', VERIF_REPO=RW)
P = RW + '/graphql/parser/parser.go'
SC = RW + '/graphql/scanner/scanner.go'
AST = RW + '/graphql/ast/ast.go'
FILES = {'scanner': SC, 'ast': AST}


def once(old, new):
    def f(s):
        assert s.count(old) == 1, old
        return s.replace(old, new)
    return f


def in_fn(fn, old, new):
    def f(s):
        i = s.index('func (p *parser) %s(' % fn)
        j = s.find('\nfunc ', i + 1)
        j = len(s) if j < 0 else j
        seg = s[i:j]
        assert seg.count(old) == 1, (fn, old)
        return s[:i] + seg.replace(old, new) + s[j:]
    return f


def chain(*fs):
    def f(s):
        for g in fs:
            s = g(s)
        return s
    return f


def silent(s):
    m = s.replace('"expected selection"', '"a selection was expected here"').replace('"expected name"', '"name expected"').replace('"expected colon"', '"missing colon"')
    m = m.replace('\tellipsis := p.peek().Position\n\tp.consumeToken()\n', '\tdots := p.peek().Position\n\tp.consumeToken()\n').replace('Ellipsis:     ellipsis,', 'Ellipsis:     dots,').replace('\t\tEllipsis: ellipsis,', '\t\tEllipsis: dots,')
    m = m.replace('\t\t\tType:    typ,\n\t\t\tOpening: opening,\n\t\t\tClosing: closing,', '\t\t\tClosing: closing,\n\t\t\tOpening: opening,\n\t\t\tType:    typ,')
    return m


MUTANTS = [
 ('M1 exit() removed on the field path of parseSelection (defect 14 re-introduced; needs >= 994 siblings)',
  once('\t\tret := p.parseField()\n\t\tp.exit()\n\t\treturn ret\n', '\t\tret := p.parseField()\n\t\treturn ret\n')),
 ('M2 SelectionSet.Closing recorded after consuming the brace (position of the next token)',
  once('\t\t\tret.Closing = t.Position\n\t\t\tp.consumeToken()\n\t\t\tbreak\n', '\t\t\tp.consumeToken()\n\t\t\tret.Closing = p.peek().Position\n\t\t\tbreak\n')),
 ('M3 constant context dropped inside list values (variables allowed in nested defaults)',
  once('\t\t\t\tvalues = append(values, p.parseValue(constant))', '\t\t\t\tvalues = append(values, p.parseValue(false))')),
 ('M4 "!" accepted repeatedly (NonNull of NonNull)',
  once('\tif t := p.peek(); t.Token == token.PUNCTUATOR && t.Value == "!" {\n\t\tp.consumeToken()\n', '\tfor p.peek().Token == token.PUNCTUATOR && p.peek().Value == "!" {\n\t\tp.consumeToken()\n')),
 ('M5 alias and name swapped in parseField',
  once('\t\tret.Alias = ret.Name\n\t\tret.Name = p.parseName()\n', '\t\tret.Alias = p.parseName()\n')),
 ('M6 "$" consumed before the constant-value error (error one token late)',
  once('\t\t\tif constant {\n\t\t\t\tpanic(p.errorf("expected constant value"))', '\t\t\tif constant {\n\t\t\t\tp.consumeToken()\n\t\t\t\tpanic(p.errorf("expected constant value"))')),
 ('M7 ParseValue end-of-input check removed (finding re-introduced)',
  once('\tif !p.eof {\n\t\tpanic(p.errorf("expected end of input"))\n\t}\n', '')),
 ('M8 recursion limit off by one (>= for >; needs derivation height exactly 1000)',
  once('\tif p.recursion > maxRecursion {', '\tif p.recursion >= maxRecursion {')),
 ('M9 InlineFragment.Ellipsis taken after consuming "..."',
  once('\tret := &ast.InlineFragment{\n\t\tEllipsis: ellipsis,\n\t}\n', '\tret := &ast.InlineFragment{\n\t\tEllipsis: p.peek().Position,\n\t}\n')),
 ('M10 Directive.At taken after consuming "@"',
  once('\t\tat := p.peek().Position\n\t\tp.consumeToken()\n\t\tret = append(ret, &ast.Directive{', '\t\tp.consumeToken()\n\t\tat := p.peek().Position\n\t\tret = append(ret, &ast.Directive{')),
 ('M11 the guard "fragment name is not on" of parseSelection dropped at one nesting depth only (recursion == 7: a spread inside an inline fragment)',
  once('\tif t := p.peek(); t.Token == token.NAME && t.Value != "on" {\n\t\tret := &ast.FragmentSpread{', '\tif t := p.peek(); t.Token == token.NAME && (t.Value != "on" || p.recursion == 7) {\n\t\tret := &ast.FragmentSpread{')),
 ('L1 exit() removed from parseOperationType (needs ~1000 typed operations)', in_fn('parseOperationType', '\tp.exit()\n', '')),
 ('L2 exit() removed from parseTypeCondition (needs ~1000 type conditions)', in_fn('parseTypeCondition', '\tp.exit()\n', '')),
 ('L3 exit() removed from parseOptionalFragmentDefinition (needs ~1000 definitions)', in_fn('parseOptionalFragmentDefinition', '\tp.exit()\n', '')),
 ('L4 enter()/exit() removed from parseNamedType (limit shifted by one, for types and type conditions only)',
  chain(in_fn('parseNamedType', '\tp.enter()\n', ''), in_fn('parseNamedType', '\tp.exit()\n', ''))),
 ('L5 default values parsed with constant=false', in_fn('parseVariableDefinition', 'p.parseValue(true)', 'p.parseValue(false)')),
 ('L6 ObjectValue.Closing set to the opening brace',
  once('\t\t\t\t\t\tFields:  fields,\n\t\t\t\t\t\tOpening: opening,\n\t\t\t\t\t\tClosing: t.Position,', '\t\t\t\t\t\tFields:  fields,\n\t\t\t\t\t\tOpening: opening,\n\t\t\t\t\t\tClosing: opening,')),
 ('L7 exit() removed from parseVariable', in_fn('parseVariable', '\tp.exit()\n', '')),
 ('N1 end-of-input position read before Scan() (the position of the previous token is reported at EOF)',
  chain(once('\tif p.scanner.Scan() {\n\t\tp.nextToken = &parserToken{', '\tprev := p.scanner.Position()\n\tif p.scanner.Scan() {\n\t\tp.nextToken = &parserToken{'),
        once('\t\t\tValue:    "EOF",\n\t\t\tPosition: p.scanner.Position(),', '\t\t\tValue:    "EOF",\n\t\t\tPosition: prev,'))),
 ('N2 scanner errors of the Scan call that found the end of input are dropped (needs a lexical error after the last token)',
  once('\tfor _, err := range p.scanner.Errors()[p.scannerErrors:] {\n', '\tfor _, err := range p.scanner.Errors()[p.scannerErrors:] {\n\t\tif p.eof {\n\t\t\tbreak\n\t\t}\n')),
 ('N3 only the first new scanner error is taken per consumeToken, the others one call late (needs two errors inside one token)',
  once('\t\tp.scannerErrors++\n', '\t\tp.scannerErrors++\n\t\tbreak\n')),
 ('N4 token value taken from Literal() instead of StringValue() (needs a string token)',
  once('\t\t\tValue:    p.scanner.StringValue(),', '\t\t\tValue:    p.scanner.Literal(),')),
 ('N5 at most three directives per node (needs four)',
  in_fn('parseOptionalDirectives', '\tfor {\n\t\tif t := p.peek(); t.Token != token.PUNCTUATOR', '\tfor len(ret) < 3 {\n\t\tif t := p.peek(); t.Token != token.PUNCTUATOR')),
 ('N6 SCANNER: a lone CR does not start a new line (needs CR-only line ends before a token)',
  ('scanner', once("\tif r == '\\n' || (r == '\\r' && s.nextRune != '\\n') {", "\tif r == '\\n' {"))),
 ('N7 SCANNER: U+FEFF accepted as a byte order mark anywhere (needs an inner BOM)',
  ('scanner', once('\t\t\tif s.offset == 0 {\n\t\t\t\ts.token = token.UNICODE_BOM', '\t\t\tif s.offset >= 0 {\n\t\t\t\ts.token = token.UNICODE_BOM'))),
 ('P1 AST: (*Field).Position() ignores the alias (needs an aliased field)',
  ('ast', once('\tif n.Alias != nil {\n\t\treturn n.Alias.Position()\n\t}\n\treturn n.Name.Position()', '\treturn n.Name.Position()'))),
 ('P2 AST: (*OperationDefinition).Position() of a typed operation is its selection set (needs query/mutation/subscription)',
  ('ast', once('\tif n.OperationType != nil {\n\t\treturn n.OperationType.Position()\n\t}\n\treturn n.SelectionSet.Position()', '\treturn n.SelectionSet.Position()'))),
 ('P3 AST: (*ObjectField).Position() is the position of the value (needs an object value)',
  ('ast', once('func (n *ObjectField) Position() token.Position { return n.Name.Position() }', 'func (n *ObjectField) Position() token.Position { return n.Value.Position() }'))),
 ('P4 AST: (*ListType).Position() is the closing bracket (needs a list type)',
  ('ast', once('func (n *ListType) Position() token.Position { return n.Opening }', 'func (n *ListType) Position() token.Position { return n.Closing }'))),
 ('S1 silent: error messages reworded, locals renamed, composite-literal fields reordered', silent),
]


def sh(cmd, cwd, timeout=3600):
    p = subprocess.run(cmd, cwd=cwd, shell=True, env=ENV, stdout=subprocess.PIPE, stderr=subprocess.STDOUT, text=True, timeout=timeout)
    return p.returncode, p.stdout


def main():
    out_path = os.path.join(VW, 'checks', 'C06.rehearsal.json')
    prev = json.load(open(out_path)) if os.path.exists(out_path) and ONLY else {}
    clean = prev.get('clean_tree', [])
    if not ONLY:
        clean = []
        for seed in (1, 2, 3):
            rc, out = sh('VERIF_SEED=%d ./check C06 2>&1' % seed, VW)
            clean.append(dict(seed=seed, exit=rc, last=out.strip().splitlines()[-1]))
            print('clean', seed, rc, flush=True)
    results = {m['mutant']: m for m in prev.get('mutants', [])}
    for name, fn in MUTANTS:
        if ONLY and not any(name.startswith(o) for o in ONLY):
            continue
        path = P
        if isinstance(fn, tuple):
            path, fn = FILES[fn[0]], fn[1]
        src = open(path).read()
        m = fn(src)
        assert m != src, name
        open(path, 'w').write(m)
        try:
            rc, out = sh('go build ./... && go test -vet=off -count=1 ./... 2>&1 | grep -v "no test files" | grep -v "^ok" | head -20', RW)
            tests_ok = out.strip() == ''
            runs = []
            for seed in ((1, 2, 3) if name.startswith('S') else (1,)):
                rc2, out2 = sh('VERIF_SEED=%d ./check C06 2>&1' % seed, VW)
                runs.append(dict(seed=seed, exit=rc2, violations=[l for l in out2.splitlines() if l.startswith('VIOLATION')]))
            results[name] = dict(mutant=name, suite_passes=tests_ok, runs=runs)
            print(name, '| suite passes:', tests_ok, '|', [(r['exit'], r['violations']) for r in runs], flush=True)
        finally:
            sh('git checkout graphql/parser/parser.go graphql/scanner/scanner.go graphql/ast/ast.go', RW)
    json.dump(dict(clean_tree=clean, mutants=list(results.values())), open(out_path, 'w'), indent=1)


if __name__ == '__main__':
    main()
