#!/bin/bash
# merge_builder.sh <Cnn> [skip-commit-hash ...] : cherry-pick the builder's fix:/hook: commits into /repo,
# merge its /verif branch, remap commit hashes in its fragments, append findings lines.
set -u
P=$1; shift
SKIP=" $* "
export GOFLAGS=-mod=mod GOPROXY=off GOSUMDB=off GOTOOLCHAIN=local
cd /verif
git -C /repo diff --quiet || { echo "/repo dirty"; exit 2; }
MAP=/tmp/hashmap.$P.txt; : > $MAP
for c in $(git -C /repo rev-list --reverse main..fix-$P); do
  short=$(git -C /repo rev-parse --short=7 $c)
  if [[ "$SKIP" == *" $short "* ]]; then echo "skip $short"; continue; fi
  subj=$(git -C /repo log -1 --format=%s $c)
  # already applied (same subject on main)?
  if git -C /repo log --format=%s main | grep -Fxq "$subj"; then
     new=$(git -C /repo log --format='%h %s' main | grep -F " $subj" | head -1 | cut -d' ' -f1)
     echo "already on main: $short -> $new  $subj"; echo "$short $new" >> $MAP; continue
  fi
  if git -C /repo cherry-pick -x $c >/dev/null 2>&1; then
     new=$(git -C /repo rev-parse --short=7 HEAD)
     # drop the "(cherry picked from ...)" line to keep messages clean
     git -C /repo commit -q --amend -m "$(git -C /repo log -1 --format=%B | grep -v 'cherry picked from')"
     new=$(git -C /repo rev-parse --short=7 HEAD)
     echo "picked $short -> $new  $subj"; echo "$short $new" >> $MAP
  else
     echo "CONFLICT on $short $subj"; git -C /repo status --short | head; exit 3
  fi
done
(cd /repo && go build ./... && go test -vet=off -count=1 ./... 2>&1 | grep -v '^ok\|no test files' | head -20)
if ! git merge -q --no-edit b-$P; then
  # the only expected conflict: the property's own evidence file (rewritten on both sides)
  if ! git diff --name-only --diff-filter=U | grep -qv '^evidence/C[0-9]*\.json$'; then
    for f in $(git diff --name-only --diff-filter=U); do git checkout --theirs "$f" && git add "$f"; done
    git commit -qm "Merge branch 'b-$P'"
  else echo "verif merge conflict"; git diff --name-only --diff-filter=U; exit 4; fi
fi
while read old new; do
  grep -rl "$old" checks/$P.* 2>/dev/null | xargs -r sed -i "s/$old/$new/g"
done < $MAP
if [ -f checks/$P.findings.txt ]; then
  grep -E '^(known|fixed):' checks/$P.findings.txt | while IFS= read -r line; do
    # identity of a line: "known: property=X key=K" or "fixed: property=X <hash>"
    id=$(echo "$line" | awk '{print $1" "$2" "$3}')
    grep -Fq "$id" known_findings.txt || echo "$line" >> known_findings.txt
  done
fi
echo "merged $P"
