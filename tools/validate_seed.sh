#!/bin/bash
# validate_seed.sh <dir containing patch.diff and demo/ (a Go test file or program)>
#   1. scratch worktree of /repo HEAD, 2. baseline tests with patch, 3. demo fails with patch, passes without.
# demo convention: <dir>/demo_test.go.txt is copied to <worktree>/<pkgdir given in dir/meta.json "demo_pkg">/zz_seed_demo_test.go
#                  and run with: go test -count=1 -run '<meta.demo_run>' ./<demo_pkg>
set -u
D=$(realpath "$1")
export GOFLAGS=-mod=mod GOPROXY=off GOSUMDB=off GOTOOLCHAIN=local
WT=$(mktemp -d /tmp/seedval.XXXXXX)
git -C /repo worktree add -q --detach "$WT" HEAD || exit 2
cleanup() { git -C /repo worktree remove --force "$WT" >/dev/null 2>&1; rm -rf "$WT"; }
trap cleanup EXIT
PKG=$(python3 -c "import json;print(json.load(open('$D/meta.json'))['demo_pkg'])")
RUN=$(python3 -c "import json;print(json.load(open('$D/meta.json'))['demo_run'])")
cp "$D/demo_test.go.txt" "$WT/$PKG/zz_seed_demo_test.go"
echo "== demo on clean tree (must pass)"
(cd "$WT" && timeout 600 go test -vet=off -count=1 -run "$RUN" "./$PKG" 2>&1 | tail -5); CLEAN=${PIPESTATUS[0]}
(cd "$WT" && timeout 600 go test -vet=off -count=1 -run "$RUN" "./$PKG" >/dev/null 2>&1); CLEAN=$?
echo "== apply patch"
git -C "$WT" apply "$D/patch.diff" 2>/dev/null || git -C "$WT" apply --3way "$D/patch.diff" || { echo "PATCH DOES NOT APPLY"; exit 3; }
echo "== demo on patched tree (must fail)"
(cd "$WT" && timeout 600 go test -vet=off -count=1 -run "$RUN" "./$PKG" 2>&1 | tail -8)
(cd "$WT" && timeout 600 go test -vet=off -count=1 -run "$RUN" "./$PKG" >/dev/null 2>&1); PATCHED=$?
rm -f "$WT/$PKG/zz_seed_demo_test.go"
echo "== baseline suite on patched tree (must pass)"
(cd "$WT" && go build ./... && timeout 1500 go test -vet=off -count=1 ./... 2>&1 | grep -v '^ok\|no test files' | tail -15)
(cd "$WT" && go build ./... && timeout 1500 go test -vet=off -count=1 ./... >/dev/null 2>&1); BASE=$?
echo "RESULT clean_demo_exit=$CLEAN patched_demo_exit=$PATCHED baseline_exit=$BASE"
if [ $CLEAN -eq 0 ] && [ $PATCHED -ne 0 ] && [ $BASE -eq 0 ]; then echo "SEED VALID"; exit 0; else echo "SEED INVALID"; exit 1; fi
