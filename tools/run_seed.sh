#!/bin/bash
# run_seed.sh <Cnn> <seed dir> [tier]: apply seeded patch to /repo, run the check, undo.
set -u
P=$1; D=$(realpath "$2"); T=${3:-quick}
cd /verif
git -C /repo diff --quiet || { echo "/repo dirty"; exit 2; }
cp evidence/$P.json /tmp/evid.$$.json 2>/dev/null
git -C /repo apply "$D/patch.diff" 2>/dev/null || { git -C /repo apply --3way "$D/patch.diff" && git -C /repo reset -q; } || { echo "PATCH DOES NOT APPLY"; git -C /repo reset -q --hard HEAD; exit 3; }
./check $P --tier $T > /tmp/seedrun.$$.log 2>&1; RC=$?
git -C /repo checkout -- . ; git -C /repo clean -fdq
tail -6 /tmp/seedrun.$$.log; rm -f /tmp/seedrun.$$.log
echo "CHECK_EXIT=$RC"
[ -f /tmp/evid.$$.json ] && mv /tmp/evid.$$.json evidence/$P.json
