#!/usr/bin/env python3
"""assemble MANIFEST.json from checks/Cnn.manifest.json fragments (+ tools/manifest_head.json)."""
import json, glob, os, sys
ROOT = os.path.dirname(os.path.dirname(os.path.abspath(__file__)))
head = json.load(open(os.path.join(ROOT, "tools", "manifest_head.json")))
ids = [json.loads(l)["id"] for l in open(os.path.join(ROOT, "properties.jsonl")) if l.strip()]
hold = set(open(os.path.join(ROOT, "tools", "hold.txt")).read().split()) if os.path.exists(os.path.join(ROOT, "tools", "hold.txt")) else set()
checks = []
for pid in ids:
    if pid in hold:
        continue
    p = os.path.join(ROOT, "checks", pid + ".manifest.json")
    if os.path.exists(p) and os.path.exists(os.path.join(ROOT, "checks", pid + ".json")):
        c = json.load(open(p))
        c["property_id"] = pid
        c["quick_cmd"] = "./check %s --tier quick" % pid
        c["thorough_cmd"] = "./check %s --tier thorough" % pid
        c["evidence_file"] = "evidence/%s.json" % pid
        c["replay_cmd_template"] = "./check %s --replay {path}" % pid
        c["engine"] = "coq-proof+correspondence"
        checks.append(c)
claimed = [c["property_id"] for c in checks]
na_reasons = json.load(open(os.path.join(ROOT, "tools", "not_applicable.json")))
m = dict(head)
m["engines"][0]["serves_properties"] = claimed
m["checks"] = checks
m["not_applicable"] = [dict(property_id=i, reason=na_reasons.get(i, na_reasons["default"])) for i in ids if i not in claimed]
hooks = os.path.join(ROOT, "tools", "hook_commits.txt")
if os.path.exists(hooks):
    m["hooks"]["source_commits"] = [l.split()[0] for l in open(hooks) if l.strip() and not l.startswith("#")]
json.dump(m, open(os.path.join(ROOT, "MANIFEST.json"), "w"), indent=1)
print("claimed:", claimed)

# ---- DESIGN.md appendix B from checks/Cnn.design.md
import re
dp = os.path.join(ROOT, "DESIGN.md")
d = open(dp).read()
notes = []
for pid in ids:
    f = os.path.join(ROOT, "checks", pid + ".design.md")
    if os.path.exists(f):
        notes.append(open(f).read().rstrip() + "\n")
d = re.sub(r"(<!-- PROPNOTES-BEGIN -->).*?(<!-- PROPNOTES-END -->)", lambda m: m.group(1) + "\n" + "\n".join(notes) + m.group(2), d, flags=re.S)
for marker, fname in (("FINDINGS", "tools/findings.md"), ("SEEDED", "tools/seeded.md")):
    f = os.path.join(ROOT, fname)
    if os.path.exists(f):
        body = open(f).read().rstrip() + "\n"
        d = re.sub(r"(<!-- %s-BEGIN -->).*?(<!-- %s-END -->)" % (marker, marker), lambda m: m.group(1) + "\n" + body + m.group(2), d, flags=re.S)
open(dp, "w").write(d)
