#!/usr/bin/env python3
"""assemble MANIFEST.json from checks/Cnn.manifest.json fragments (+ tools/manifest_head.json)."""
import json, glob, os, sys
ROOT = os.path.dirname(os.path.dirname(os.path.abspath(__file__)))
head = json.load(open(os.path.join(ROOT, "tools", "manifest_head.json")))
ids = [json.loads(l)["id"] for l in open(os.path.join(ROOT, "properties.jsonl")) if l.strip()]
hold = set(open(os.path.join(ROOT, "tools", "hold.txt")).read().split()) if os.path.exists(os.path.join(ROOT, "tools", "hold.txt")) else set()
checks = []
for pid in ids:
    if pid in hold:
        continue
    p = os.path.join(ROOT, "checks", pid + ".manifest.json")
    if os.path.exists(p) and os.path.exists(os.path.join(ROOT, "checks", pid + ".json")):
        c = json.load(open(p))
        c["property_id"] = pid
        c["quick_cmd"] = "./check %s --tier quick" % pid
        c["thorough_cmd"] = "./check %s --tier thorough" % pid
        c["evidence_file"] = "evidence/%s.json" % pid
        c["replay_cmd_template"] = "./check %s --replay {path}" % pid
        c["engine"] = "coq-proof+correspondence"
        checks.append(c)
claimed = [c["property_id"] for c in checks]
na_reasons = json.load(open(os.path.join(ROOT, "tools", "not_applicable.json")))
m = dict(head)
m["engines"][0]["serves_properties"] = claimed
m["checks"] = checks
m["not_applicable"] = [dict(property_id=i, reason=na_reasons.get(i, na_reasons["default"])) for i in ids if i not in claimed]
hooks = os.path.join(ROOT, "tools", "hook_commits.txt")
if os.path.exists(hooks):
    m["hooks"]["source_commits"] = [l.split()[0] for l in open(hooks) if l.strip() and not l.startswith("#")]
json.dump(m, open(os.path.join(ROOT, "MANIFEST.json"), "w"), indent=1)
print("claimed:", claimed)

# ---- DESIGN.md appendix B from checks/Cnn.design.md
import re
dp = os.path.join(ROOT, "DESIGN.md")
d = open(dp).read()
notes = []
for pid in ids:
    f = os.path.join(ROOT, "checks", pid + ".design.md")
    if os.path.exists(f):
        notes.append(open(f).read().rstrip() + "\n")
d = re.sub(r"(<!-- PROPNOTES-BEGIN -->).*?(<!-- PROPNOTES-END -->)", lambda m: m.group(1) + "\n" + "\n".join(notes) + m.group(2), d, flags=re.S)
for marker, fname in (("FINDINGS", "tools/findings.md"), ("SEEDED", "tools/seeded.md")):
    f = os.path.join(ROOT, fname)
    if os.path.exists(f):
        body = open(f).read().rstrip() + "\n"
        d = re.sub(r"(<!-- %s-BEGIN -->).*?(<!-- %s-END -->)" % (marker, marker), lambda m: m.group(1) + "\n" + body + m.group(2), d, flags=re.S)
open(dp, "w").write(d)

# ---- status table (DESIGN 8b), generated
import collections, subprocess
def _count(pid):
    f = os.path.join(ROOT, "coq", "Properties", pid + ".v")
    if not os.path.exists(f): return (0, 0, 0)
    names = re.findall(r"^\s*Print Assumptions\s+([A-Za-z0-9_'.]+)\s*\.", open(f).read(), re.M)
    return (len(names), sum(1 for n in names if "_partial" in n), sum(1 for n in names if "refuted" in n))
kf = collections.Counter(); fx = collections.Counter()
for l in open(os.path.join(ROOT, "known_findings.txt")):
    m = re.match(r"(known|fixed):\s+property=(\S+)", l)
    if m: (kf if m.group(1) == "known" else fx)[m.group(2)] += 1
sd = collections.defaultdict(lambda: [0, 0, 0])
for f in glob.glob(os.path.join(ROOT, "seeded", "*", "meta.json")):
    x = json.load(open(f)); pid = x.get("breaks_property"); d = x.get("detected")
    sd[pid][0] += 1
    if d == "yes": sd[pid][1] += 1
    if d == "yes" and "after strengthening" in x.get("detected_by", ""): sd[pid][2] += 1
titles = {json.loads(l)["id"]: json.loads(l)["title"] for l in open(os.path.join(ROOT, "properties.jsonl")) if l.strip()}
rows = ["| id | property | theorems (of which `_partial` / witnesses) | known findings | repaired defects (`fixed:`) | seeded changes caught (after strengthening) |", "|---|---|---|---|---|---|"]
tot = [0, 0, 0, 0, 0, 0, 0]
for pid in ids:
    n, pa, rf = _count(pid)
    rows.append("| %s | %s | %d (%d / %d) | %d | %d | %d of %d (%d) |" % (pid, titles[pid][:70], n, pa, rf, kf[pid], fx[pid], sd[pid][1], sd[pid][0], sd[pid][2]))
    for i, v in enumerate((n, pa, rf, kf[pid], fx[pid], sd[pid][1], sd[pid][0])): tot[i] += v
rows.append("| | **total** | %d (%d / %d) | %d | %d | %d of %d |" % tuple(tot))
try:
    loc = subprocess.run("cat $(git -C %s ls-files 'coq/*.v') | wc -l" % ROOT, shell=True, cwd=ROOT, capture_output=True, text=True).stdout.strip()
except Exception:
    loc = "?"
body = "\n".join(rows) + "\n\nCoq development: %s lines in tracked `.v` files.  Every theorem counted above is closed under the global context (no axioms); `_partial` theorems keep the full statement beside them in `Properties/Cnn.v`.\n" % loc
d = open(dp).read()
if "<!-- STATUS-BEGIN -->" in d:
    d = re.sub(r"(<!-- STATUS-BEGIN -->).*?(<!-- STATUS-END -->)", lambda m: m.group(1) + "\n" + body + m.group(2), d, flags=re.S)
    open(dp, "w").write(d)
