#!/usr/bin/env python3
"""assemble MANIFEST.json from checks/Cnn.manifest.json fragments (+ tools/manifest_head.json)."""
import json, glob, os, sys
ROOT = os.path.dirname(os.path.dirname(os.path.abspath(__file__)))
head = json.load(open(os.path.join(ROOT, "tools", "manifest_head.json")))
ids = [json.loads(l)["id"] for l in open(os.path.join(ROOT, "properties.jsonl")) if l.strip()]
hold = set(open(os.path.join(ROOT, "tools", "hold.txt")).read().split()) if os.path.exists(os.path.join(ROOT, "tools", "hold.txt")) else set()
checks = []
for pid in ids:
    if pid in hold:
        continue
    p = os.path.join(ROOT, "checks", pid + ".manifest.json")
    if os.path.exists(p) and os.path.exists(os.path.join(ROOT, "checks", pid + ".json")):
        c = json.load(open(p))
        c["property_id"] = pid
        c["quick_cmd"] = "./check %s --tier quick" % pid
        c["thorough_cmd"] = "./check %s --tier thorough" % pid
        c["evidence_file"] = "evidence/%s.json" % pid
        c["replay_cmd_template"] = "./check %s --replay {path}" % pid
        c["engine"] = "coq-proof+correspondence"
        checks.append(c)
claimed = [c["property_id"] for c in checks]
na_reasons = json.load(open(os.path.join(ROOT, "tools", "not_applicable.json")))
m = dict(head)
m["engines"][0]["serves_properties"] = claimed
m["checks"] = checks
m["not_applicable"] = [dict(property_id=i, reason=na_reasons.get(i, na_reasons["default"])) for i in ids if i not in claimed]
hooks = os.path.join(ROOT, "tools", "hook_commits.txt")
if os.path.exists(hooks):
    m["hooks"]["source_commits"] = [l.split()[0] for l in open(hooks) if l.strip() and not l.startswith("#")]
json.dump(m, open(os.path.join(ROOT, "MANIFEST.json"), "w"), indent=1)
print("claimed:", claimed)

# ---- DESIGN.md appendix B from checks/Cnn.design.md
import re
dp = os.path.join(ROOT, "DESIGN.md")
d = open(dp).read()
notes = []
for pid in ids:
    f = os.path.join(ROOT, "checks", pid + ".design.md")
    if os.path.exists(f):
        notes.append(open(f).read().rstrip() + "\n")
d = re.sub(r"(<!-- PROPNOTES-BEGIN -->).*?(<!-- PROPNOTES-END -->)", lambda m: m.group(1) + "\n" + "\n".join(notes) + m.group(2), d, flags=re.S)
for marker, fname in (("FINDINGS", "tools/findings.md"), ("SEEDED", "tools/seeded.md")):
    f = os.path.join(ROOT, fname)
    if os.path.exists(f):
        body = open(f).read().rstrip() + "\n"
        d = re.sub(r"(<!-- %s-BEGIN -->).*?(<!-- %s-END -->)" % (marker, marker), lambda m: m.group(1) + "\n" + body + m.group(2), d, flags=re.S)
open(dp, "w").write(d)

# ---- status table (DESIGN 8b), generated
import collections, subprocess
def _count(pid):
    f = os.path.join(ROOT, "coq", "Properties", pid + ".v")
    if not os.path.exists(f): return (0, 0, 0)
    names = re.findall(r"^\s*Print Assumptions\s+([A-Za-z0-9_'.]+)\s*\.", open(f).read(), re.M)
    return (len(names), sum(1 for n in names if "_partial" in n), sum(1 for n in names if "refuted" in n))
kf = collections.Counter(); fx = collections.Counter()
for l in open(os.path.join(ROOT, "known_findings.txt")):
    m = re.match(r"(known|fixed):\s+property=(\S+)", l)
    if m: (kf if m.group(1) == "known" else fx)[m.group(2)] += 1
sd = collections.defaultdict(lambda: [0, 0, 0])
for f in glob.glob(os.path.join(ROOT, "seeded", "*", "meta.json")):
    x = json.load(open(f)); pid = x.get("breaks_property"); d = x.get("detected")
    sd[pid][0] += 1
    if d == "yes": sd[pid][1] += 1
    if d == "yes" and "after strengthening" in x.get("detected_by", ""): sd[pid][2] += 1
titles = {json.loads(l)["id"]: json.loads(l)["title"] for l in open(os.path.join(ROOT, "properties.jsonl")) if l.strip()}
rows = ["| id | property | theorems (of which `_partial` / witnesses) | known findings | repaired defects (`fixed:`) | seeded changes caught (after strengthening) |", "|---|---|---|---|---|---|"]
tot = [0, 0, 0, 0, 0, 0, 0]
for pid in ids:
    n, pa, rf = _count(pid)
    rows.append("| %s | %s | %d (%d / %d) | %d | %d | %d of %d (%d) |" % (pid, titles[pid][:70], n, pa, rf, kf[pid], fx[pid], sd[pid][1], sd[pid][0], sd[pid][2]))
    for i, v in enumerate((n, pa, rf, kf[pid], fx[pid], sd[pid][1], sd[pid][0])): tot[i] += v
rows.append("| | **total** | %d (%d / %d) | %d | %d | %d of %d |" % tuple(tot))
try:
    loc = subprocess.run("cat $(git -C %s ls-files 'coq/*.v') | wc -l" % ROOT, shell=True, cwd=ROOT, capture_output=True, text=True).stdout.strip()
except Exception:
    loc = "?"
body = "\n".join(rows) + "\n\nCoq development: %s lines in tracked `.v` files.  Every theorem counted above is closed under the global context (no axioms); `_partial` theorems keep the full statement beside them in `Properties/Cnn.v`.\n" % loc
d = open(dp).read()
if "<!-- STATUS-BEGIN -->" in d:
    d = re.sub(r"(<!-- STATUS-BEGIN -->).*?(<!-- STATUS-END -->)", lambda m: m.group(1) + "\n" + body + m.group(2), d, flags=re.S)
    open(dp, "w").write(d)

# ---- seeded-change statistics paragraph (DESIGN 10), generated
tot = len(glob.glob(os.path.join(ROOT, "seeded", "*", "meta.json")))
c_once = c_str = c_nb = c_part = c_no = 0
outside = []
for f in sorted(glob.glob(os.path.join(ROOT, "seeded", "*", "meta.json"))):
    x = json.load(open(f)); d = x.get("detected"); by = x.get("detected_by", "")
    if d == "yes" and "after strengthening" in by: c_str += 1
    elif d == "yes" and by.startswith("by C"): c_nb += 1
    elif d == "yes": c_once += 1
    elif d == "partial": c_part += 1
    else:
        c_no += 1
        if "OUTSIDE" in by: outside.append(os.path.basename(os.path.dirname(f)))
para = ("**How to read the table** (numbers regenerated from `seeded/*/meta.json`).  %d seeded changes, produced in up to four "
 "independent rounds of three per property by sub-agents that saw only the property's text and a scratch worktree (later rounds were "
 "told the earlier rounds' ideas and asked for other mechanisms).  Every change compiles, passes the unedited test suite and comes "
 "with a demonstration test that fails with it and passes without it (re-confirmed by `tools/validate_seed.sh` in a scratch worktree "
 "before it was kept).  %d were caught by the owning property's quick check as it stood; %d were **missed at first** and are caught "
 "after the check was strengthened - the generator (an input class nobody had thought of) or a new observation (stack use, the application's own storage, the caller's request object, an unread result at an idle entry) - for example: white-space-only query text, "
 "non-ASCII white space in block strings, typed-nil errors next to a value, one field node in two merged lists, lists of non-null "
 "lists, item nullability in response shapes, variables with defaults and an empty variable map, argument defaults differing between "
 "implementations of one interface, frames pipelined behind a closing trigger, server-initiated close during a handler call, a mute "
 "peer, a slow reader, chunked request bodies, id reuse on one socket, custom relationship resolvers sharing a map, features derived "
 "from the init hook, gated connection edge fields, deprecated members, two feature sets on one schema value, error message texts, a storage that applies writes late, a getter answering windows of its own storage, a schema built from Clone(), a client that stops reading, "
 "stack use of flat documents, abstract-typed fields resolved by promises; "
 "never a loosened oracle; %d break a mechanism that is another property's anchored code and are caught by that property's check "
 "(`detected_by` says which); %d are *partial* (so far caught by a neighbouring check only) and %d are *no*%s.  The misses are the most "
 "useful output of this exercise: each one is written into the owning check's design note as a rehearsal row with the replay key that "
 "now catches it.  Two seeders also reported crashes of the UNCHANGED tree they stumbled on (a non-pointer error value delivered "
 "through a promise; an explicit null for `includeDeprecated`): both were reproduced, repaired by `fix:` commits and are now covered "
 "by generator families.\n") % (tot, c_once, c_str, c_nb, c_part, c_no,
   (" (of which %s judged outside their property's quantifier and recorded as such)" % ", ".join(outside)) if outside else "")
d = open(dp).read()
if "<!-- SEEDSTAT-BEGIN -->" in d:
    d = re.sub(r"(<!-- SEEDSTAT-BEGIN -->).*?(<!-- SEEDSTAT-END -->)", lambda m: m.group(1) + "\n" + para + m.group(2), d, flags=re.S)
    open(dp, "w").write(d)
