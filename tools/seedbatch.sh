#!/bin/bash
# usage: seedbatch.sh "C14:1 C14:2 ..." 
cd /verif
for item in $1; do
  P=${item%%:*}; k=${item##*:}
  echo "=================== $P-$k"
  tools/validate_seed.sh /tmp/seedout-$P/$k 2>&1 | tail -2
  tools/run_seed.sh $P /tmp/seedout-$P/$k 2>&1 | grep -E "VIOLATION|OK|CHECK_EXIT|quick tier|PATCH" | cut -c1-260
done
echo BATCH-DONE
