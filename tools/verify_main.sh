#!/bin/bash
# verify_main.sh : assemble, setup (must say "setup ok"), all claimed checks in parallel, schema validation.
cd /verif
python3 tools/assemble.py >/dev/null
S=$(./check --setup 2>&1 | tail -1); echo "$S"
case "$S" in "setup ok"*) ;; *) echo "SETUP FAILED"; grep -n -A8 "Error" build/logs/make.log | head -30; exit 2;; esac
FAIL=0
for p in $(python3 -c "import json;print(' '.join(c['property_id'] for c in json.load(open('MANIFEST.json'))['checks']))"); do
  ( ./check $p --tier quick > /tmp/q.$p.log 2>&1; rc=$?; echo "$p exit=$rc $(grep -c VIOLATION /tmp/q.$p.log) viol; $(tail -1 /tmp/q.$p.log | cut -c1-110) [$(grep -o 'in [0-9.]*s' /tmp/q.$p.log | tail -1)]" ) &
done 2>/dev/null
wait 2>/dev/null
python3-vt - <<'P'
import json,jsonschema,glob
m=json.load(open('/verif/MANIFEST.json')); s=json.load(open('/root/.vp/MANIFEST.schema.json')); jsonschema.validate(m,s); print("manifest valid:", len(m['checks']), "claimed; not_applicable:", [x['property_id'] for x in m['not_applicable']])
es=json.load(open('/root/.vp/EVIDENCE.schema.json'))
for f in sorted(glob.glob('/verif/evidence/C*.json')):
    try: jsonschema.validate(json.load(open(f)),es)
    except Exception as e: print(f,"INVALID",str(e)[:200])
P
