(* Generic model runner.  One instance per property: Make(Cnn).  Reads one s-expression per line
   on stdin, converts it to the extracted Coq type [sexp], calls the extracted [check], prints the
   resulting s-expression on one line.  Nothing property-specific lives here.

   Syntax:  sexp ::= INT | SYMBOL | STRING | ( sexp* )
     INT     decimal with optional minus sign, or #x<hex> / -#x<hex> for values beyond 62 bits
     SYMBOL  letters, digits and _ + * / < > = ! ? . : - (not looking like a number)
     STRING  bytes between double quotes; escapes: backslash backslash, backslash quote and
             backslash x HH (every byte outside 0x20..0x7e is written that way) *)

module type MODEL = sig
  type positive = XI of positive | XO of positive | XH
  type n = N0 | Npos of positive
  type z = Z0 | Zpos of positive | Zneg of positive
  type ascii = Ascii of bool * bool * bool * bool * bool * bool * bool * bool
  type string = EmptyString | String of ascii * string
  type sexp = SZ of z | SSym of string | SStr of n list | SL of sexp list
  val check : sexp -> sexp
end

module Make (M : MODEL) = struct
  open M

  (* ---- numbers: via bit lists, no arithmetic trusted beyond OCaml's shifts on small ints ---- *)
  (* bits are little-endian booleans *)
  let rec pos_of_bits = function
    | [] -> failwith "pos_of_bits: zero"
    | [true] -> XH
    | b :: rest ->
      (* strip must have removed trailing falses, so rest is non-empty and ends in true *)
      let p = pos_of_bits rest in if b then XI p else XO p

  let strip_bits bits =
    let rec drop = function false :: r -> drop r | l -> l in
    List.rev (drop (List.rev bits))

  let bits_of_int (i : int) =
    let rec go i acc = if i = 0 then List.rev acc else go (i lsr 1) ((i land 1 = 1) :: acc) in
    go i []

  let bits_of_hex (s : Stdlib.String.t) =
    (* s: hex digits, most significant first *)
    let bits = ref [] in
    Stdlib.String.iter (fun c ->
        let v = match c with
          | '0'..'9' -> Char.code c - 48
          | 'a'..'f' -> Char.code c - 87
          | 'A'..'F' -> Char.code c - 55
          | _ -> failwith "bad hex digit" in
        (* prepend 4 bits, most significant first => we build big-endian then reverse *)
        bits := (v land 1 = 1) :: (v land 2 = 2) :: (v land 4 = 4) :: (v land 8 = 8) :: !bits) s;
    (* !bits currently: for digits d1 d2 .. dn (msd first) we pushed in order, so head is the lsb
       of the last digit: the list is little-endian overall *)
    strip_bits !bits

  let n_of_bits bits = match strip_bits bits with [] -> N0 | b -> Npos (pos_of_bits b)
  let n_of_int i = n_of_bits (bits_of_int i)

  let rec bits_of_pos = function
    | XH -> [true]
    | XO p -> false :: bits_of_pos p
    | XI p -> true :: bits_of_pos p

  let int_of_bits_opt bits =
    if List.length bits > 62 then None
    else Some (List.fold_right (fun b acc -> (acc lsl 1) lor (if b then 1 else 0)) bits 0)

  let hex_of_bits bits =
    let rec chunks = function
      | [] -> []
      | a :: b :: c :: d :: rest -> [a; b; c; d] :: chunks rest
      | l -> [l @ List.init (4 - List.length l) (fun _ -> false)] in
    let digit l = List.fold_right (fun b acc -> (acc lsl 1) lor (if b then 1 else 0)) l 0 in
    let ds = List.rev_map digit (chunks bits) in
    Stdlib.String.concat "" (List.map (Printf.sprintf "%x") ds)

  let string_of_pos p =
    let bits = bits_of_pos p in
    match int_of_bits_opt bits with
    | Some i -> string_of_int i
    | None -> "#x" ^ hex_of_bits bits

  let int_of_n = function
    | N0 -> 0
    | Npos p -> (match int_of_bits_opt (bits_of_pos p) with Some i -> i | None -> failwith "byte too large")

  (* ---- coq strings ---- *)
  let ascii_of_char c =
    let i = Char.code c in
    let b k = (i lsr k) land 1 = 1 in
    Ascii (b 0, b 1, b 2, b 3, b 4, b 5, b 6, b 7)
  let char_of_ascii (Ascii (b0, b1, b2, b3, b4, b5, b6, b7)) =
    let v b k = if b then 1 lsl k else 0 in
    Char.chr (v b0 0 + v b1 1 + v b2 2 + v b3 3 + v b4 4 + v b5 5 + v b6 6 + v b7 7)
  let coq_string_of (s : Stdlib.String.t) : M.string =
    let r = ref EmptyString in
    for i = Stdlib.String.length s - 1 downto 0 do r := String (ascii_of_char s.[i], !r) done;
    !r
  let ocaml_string_of (s : M.string) : Stdlib.String.t =
    let b = Buffer.create 16 in
    let rec go = function EmptyString -> () | String (a, r) -> Buffer.add_char b (char_of_ascii a); go r in
    go s; Buffer.contents b

  (* ---- reader ---- *)
  exception Parse_error of Stdlib.String.t

  let is_sym_char c = match c with
    | 'A'..'Z' | 'a'..'z' | '0'..'9' | '_' | '+' | '*' | '/' | '<' | '>' | '=' | '!' | '?' | '.' | ':' | '-' | '#' -> true
    | _ -> false

  let parse (s : Stdlib.String.t) : sexp =
    let len = Stdlib.String.length s in
    let pos = ref 0 in
    let peek () = if !pos < len then Some s.[!pos] else None in
    let rec skip () = match peek () with
      | Some (' ' | '\t' | '\r' | '\n') -> incr pos; skip ()
      | _ -> () in
    let hexv c = match c with
      | '0'..'9' -> Char.code c - 48 | 'a'..'f' -> Char.code c - 87 | 'A'..'F' -> Char.code c - 55
      | _ -> raise (Parse_error "bad \\x escape") in
    let rec sexp () : sexp =
      skip ();
      match peek () with
      | None -> raise (Parse_error "unexpected end")
      | Some '(' ->
        incr pos;
        let items = ref [] in
        let rec loop () =
          skip ();
          match peek () with
          | Some ')' -> incr pos
          | None -> raise (Parse_error "unterminated list")
          | _ -> items := sexp () :: !items; loop () in
        loop ();
        SL (List.rev !items)
      | Some ')' -> raise (Parse_error "unexpected )")
      | Some '"' ->
        incr pos;
        let bytes = ref [] in
        let rec loop () =
          if !pos >= len then raise (Parse_error "unterminated string");
          let c = s.[!pos] in
          incr pos;
          if c = '"' then ()
          else if c = '\\' then begin
            if !pos >= len then raise (Parse_error "bad escape");
            let e = s.[!pos] in
            incr pos;
            (match e with
             | '\\' -> bytes := 92 :: !bytes
             | '"' -> bytes := 34 :: !bytes
             | 'x' ->
               if !pos + 1 >= len then raise (Parse_error "bad \\x escape");
               let v = hexv s.[!pos] * 16 + hexv s.[!pos + 1] in
               pos := !pos + 2;
               bytes := v :: !bytes
             | _ -> raise (Parse_error "bad escape"));
            loop ()
          end else begin bytes := Char.code c :: !bytes; loop () end in
        loop ();
        SStr (List.rev_map n_of_int !bytes |> fun l -> l)
      | Some _ ->
        let start = !pos in
        while (match peek () with Some c -> is_sym_char c | None -> false) do incr pos done;
        if !pos = start then raise (Parse_error (Printf.sprintf "unexpected character at %d" start));
        let tok = Stdlib.String.sub s start (!pos - start) in
        atom tok
    and atom tok : sexp =
      let tl = Stdlib.String.length tok in
      let neg, body = if tl > 1 && tok.[0] = '-' then true, Stdlib.String.sub tok 1 (tl - 1) else false, tok in
      let bl = Stdlib.String.length body in
      let all_digits = bl > 0 && (let ok = ref true in Stdlib.String.iter (fun c -> if c < '0' || c > '9' then ok := false) body; !ok) in
      if all_digits then begin
        if bl > 18 then raise (Parse_error "decimal too long, use #x");
        let i = int_of_string body in
        if i = 0 then SZ Z0
        else let p = pos_of_bits (strip_bits (bits_of_int i)) in
          SZ (if neg then Zneg p else Zpos p)
      end else if bl > 2 && body.[0] = '#' && body.[1] = 'x' then begin
        let bits = bits_of_hex (Stdlib.String.sub body 2 (bl - 2)) in
        match bits with
        | [] -> SZ Z0
        | _ -> let p = pos_of_bits bits in SZ (if neg then Zneg p else Zpos p)
      end else SSym (coq_string_of tok)
    in
    let r = sexp () in
    skip ();
    if !pos <> len then raise (Parse_error "trailing input");
    r

  (* ---- printer ---- *)
  let rec print (b : Buffer.t) (x : sexp) : unit =
    match x with
    | SZ Z0 -> Buffer.add_char b '0'
    | SZ (Zpos p) -> Buffer.add_string b (string_of_pos p)
    | SZ (Zneg p) -> Buffer.add_char b '-'; Buffer.add_string b (string_of_pos p)
    | SSym s -> Buffer.add_string b (ocaml_string_of s)
    | SStr bytes ->
      Buffer.add_char b '"';
      List.iter (fun n ->
          let i = int_of_n n in
          if i = 92 then Buffer.add_string b "\\\\"
          else if i = 34 then Buffer.add_string b "\\\""
          else if i >= 0x20 && i <= 0x7e then Buffer.add_char b (Char.chr i)
          else Buffer.add_string b (Printf.sprintf "\\x%02x" (i land 255))) bytes;
      Buffer.add_char b '"'
    | SL l ->
      Buffer.add_char b '(';
      List.iteri (fun i y -> if i > 0 then Buffer.add_char b ' '; print b y) l;
      Buffer.add_char b ')'

  let main () =
    let b = Buffer.create 4096 in
    (try
       while true do
         let line = input_line stdin in
         if Stdlib.String.length line > 0 then begin
           Buffer.clear b;
           (match (try Ok (parse line) with Parse_error m -> Error m | Failure m -> Error m) with
            | Ok c -> print b (M.check c)
            | Error m -> Buffer.add_string b ("(bad-case parse \"" ^ Stdlib.String.escaped m ^ "\")"));
           print_string (Buffer.contents b);
           print_newline ()
         end
       done
     with End_of_file -> ());
    flush stdout
end
