(** * Cplx/SpreadLists.v — the hypothesis of the two fragment-walk bounds, executable (the check
    evaluates it on every case): the spread lists of the definitions are what they are in a syntax
    tree, where every selection set belongs to exactly one definition — together they are not
    longer than the number of fragment spreads of the document.  (On arbitrary tables a selection
    set can be shared between definitions or nested in itself, and [spreads_in] then lists a spread
    once per path.)  No proofs in this file. *)
From Coq Require Import List NArith ZArith Bool.
From ApiFu Require Import Cplx.Tables Cplx.MergeCountModel Cplx.FragmentWalkCount.
Import ListNotations.
Open Scope Z_scope.

(** the names of the spreads inside the definition whose selection set is [s], with repetitions *)
Definition spread_list (D : doc) (s : N) : list N :=
  spreads_in (arr_of_list (d_fields D)) (arr_of_list (d_sets D)) (S (length (d_sets D))) s [].

Definition spread_weight (D : doc) (fd : fragdef) : Z := Z.of_nat (length (spread_list D (fr_root fd))).
Definition frag_spread_total (D : doc) : Z := fold_right (fun fd acc => spread_weight D fd + acc) 0 (d_frags D).

Definition spreads_ok (D : doc) : bool :=
  (frag_spread_total D <=? Z.of_nat (total_spreads D))
  && forallb (fun o => frag_spread_total D + Z.of_nat (length (spread_list D (op_root o))) <=? Z.of_nat (total_spreads D)) (d_ops D)
  && forallb (fun fd => 0 <=? fr_nodes fd) (d_frags D).
