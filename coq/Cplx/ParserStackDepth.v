(** * Cplx/ParserStackDepth.v — the parser's recursion never nests deeper than the limit: in every
    state the parser goes through on any token stream, p.recursion <= maxRecursion, and the
    high-water mark [maxrec] (raised only in enter()) is at most maxRecursion + 1 - the value at
    which enter() panics.  Every production calls enter() first, so [maxrec] bounds the number
    of nested production frames, i.e. the Go stack the parser uses is at most limit + 1 frames of
    parse* functions (plus the constant depth of the scanner calls below a production). *)
From Coq Require Import List ZArith Bool Lia.
From ApiFu Require Import Cplx.ParserDepthModel Cplx.ComplexitySpec Cplx.ParserDepthProofs.
Import ListNotations.
Open Scope Z_scope.

Section Depth.
  Variable c : cfg.

  Definition I (s : pst) : Prop := rec_ s <= limit c /\ maxrec s <= limit c + 1.
  Definition J (s : pst) : Prop := maxrec s <= limit c + 1.

  Definition pres (a : act) : Prop :=
    forall s, I s -> match a s with Ok s' => I s' | Err _ s' => J s' | OutOfFuel => True end.

  Lemma pres_enter : pres (enter c).
  Proof.
    intros s [H1 H2]. unfold enter. destruct (limit c <? rec_ s + 1) eqn:E; unfold I, J; cbn [rec_ maxrec].
    - lia.
    - apply Z.ltb_ge in E. lia.
  Qed.
  Lemma pres_exit : pres exit_.
  Proof. intros s [H1 H2]. unfold exit_, I. cbn [rec_ maxrec]. lia. Qed.
  Lemma pres_consume : pres consume.
  Proof. intros s H. unfold consume. destruct (toks s); [exact H|]. destruct H as [H1 H2]. unfold I. cbn [rec_ maxrec]. lia. Qed.
  Lemma pres_skip : pres skip. Proof. intros s H. exact H. Qed.
  Lemma pres_fail : pres fail. Proof. intros s [H1 H2]. exact H2. Qed.
  Lemma pres_oof : pres oof. Proof. intros s H. exact Logic.I. Qed.
  Lemma pres_bind a b : pres a -> pres b -> pres (a >> b).
  Proof.
    intros Ha Hb s H. unfold bind. specialize (Ha s H). destruct (a s) as [s1|e s1|]; [apply Hb; exact Ha|exact Ha|exact Logic.I].
  Qed.
  Lemma pres_ifp p a b : pres a -> pres b -> pres (ifp p a b).
  Proof. intros Ha Hb s H. unfold ifp. destruct (p s); [apply Ha|apply Hb]; exact H. Qed.
  Lemma pres_if (x : bool) a b : pres a -> pres b -> pres (if x then a else b).
  Proof. destruct x; auto. Qed.
  Lemma pres_ext a b : (forall s, a s = b s) -> pres b -> pres a.
  Proof. intros E H s Hs. rewrite E. apply H. exact Hs. Qed.
  Lemma pres_eta a : pres a -> pres (fun s => a s).
  Proof. intros H s. apply H. Qed.
  Lemma pres_expect t : pres (expect t).
  Proof. apply pres_ifp; [apply pres_consume|apply pres_fail]. Qed.
  Lemma pres_selExit : pres (selExit c).
  Proof. unfold selExit. apply pres_if; [apply pres_exit|apply pres_skip]. Qed.

  Ltac step :=
    first [ apply pres_enter | apply pres_exit
          | apply pres_consume | apply pres_skip | apply pres_fail | apply pres_oof | apply pres_expect
          | apply pres_selExit | assumption
          | match goal with
            | |- pres (_ >> _) => apply pres_bind
            | |- pres (ifp _ _ _) => apply pres_ifp
            | |- pres (if _ then _ else _) => apply pres_if
            | |- pres (fun s => _ s) => apply pres_eta
            end ].
  Ltac go := repeat step.

  Lemma pres_parseName : pres (parseName c). Proof. unfold parseName. go. Qed.
  Hint Resolve pres_parseName : core.
  Lemma pres_parseNamedType : pres (parseNamedType c). Proof. unfold parseNamedType. go; try apply pres_parseName. Qed.
  Lemma pres_parseVariable : pres (parseVariable c). Proof. unfold parseVariable. go; try apply pres_parseName. Qed.
  Lemma pres_parseOperationType : pres (parseOperationType c). Proof. unfold parseOperationType. go. Qed.
  Lemma pres_parseTypeCondition : pres (parseTypeCondition c). Proof. unfold parseTypeCondition. go; try apply pres_parseNamedType. Qed.

  Lemma pres_parseType : forall f, pres (parseType c f).
  Proof.
    induction f as [|f IH]; cbn [parseType]; [apply pres_oof|].
    go; try apply pres_parseNamedType.
  Qed.

  Lemma pres_values : forall f,
    (forall k, pres (parseValue c f k)) /\ (forall k, pres (listLoop c f k)) /\ (forall k, pres (objectLoop c f k)).
  Proof.
    induction f as [|f (IH1 & IH2 & IH3)]; [repeat split; intros k; apply pres_oof|].
    repeat split; intros k.
    - cbn [parseValue]. apply pres_eta. apply pres_bind; [apply pres_bind; [apply pres_enter|]|apply pres_exit].
      intros s H. destruct (toks s) as [|t r] eqn:E; [apply pres_fail; exact H|].
      destruct t; try (apply pres_fail; exact H); try (apply pres_consume; exact H).
      + destruct k; [apply pres_fail|apply pres_parseVariable]; exact H.
      + apply (pres_bind consume (listLoop c f k) pres_consume (IH2 k)); exact H.
      + apply (pres_bind consume (objectLoop c f k) pres_consume (IH3 k)); exact H.
    - cbn [listLoop]. go; try apply IH1; try apply IH2.
    - cbn [objectLoop]. go; try apply pres_parseName; try apply IH1; try apply IH3.
  Qed.
  Lemma pres_parseValue f k : pres (parseValue c f k). Proof. apply pres_values. Qed.

  Lemma pres_parseArgument f : pres (parseArgument c f).
  Proof. unfold parseArgument. go; try apply pres_parseName; try apply pres_parseValue. Qed.

  Lemma pres_argumentsLoop : forall f b, pres (argumentsLoop c f b).
  Proof. induction f as [|f IH]; intros b; cbn [argumentsLoop]; [apply pres_oof|]. go; try apply pres_parseArgument; try apply IH. Qed.

  Lemma pres_parseOptionalArguments f : pres (parseOptionalArguments c f).
  Proof. unfold parseOptionalArguments. go; try apply pres_argumentsLoop. Qed.

  Lemma pres_directivesLoop : forall f, pres (directivesLoop c f).
  Proof. induction f as [|f IH]; cbn [directivesLoop]; [apply pres_oof|]. go; try apply pres_parseName; try apply pres_parseOptionalArguments. Qed.

  Lemma pres_parseOptionalDirectives f : pres (parseOptionalDirectives c f).
  Proof. unfold parseOptionalDirectives. go; try apply pres_directivesLoop. Qed.

  Lemma pres_parseVariableDefinition f : pres (parseVariableDefinition c f).
  Proof. unfold parseVariableDefinition. go; try apply pres_parseVariable; try apply pres_parseType; try apply pres_parseValue. Qed.

  Lemma pres_variableDefinitionsLoop : forall f b, pres (variableDefinitionsLoop c f b).
  Proof. induction f as [|f IH]; intros b; cbn [variableDefinitionsLoop]; [apply pres_oof|]. go; try apply pres_parseVariableDefinition; try apply IH. Qed.

  Lemma pres_parseOptionalVariableDefinitions f : pres (parseOptionalVariableDefinitions c f).
  Proof. unfold parseOptionalVariableDefinitions. go; try apply pres_variableDefinitionsLoop. Qed.

  Lemma pres_selections : forall f,
    pres (parseSelectionSet c f) /\ (forall b, pres (selectionsLoop c f b)) /\ pres (parseSelection c f)
    /\ pres (parseField c f) /\ pres (parseOptionalSelectionSet c f).
  Proof.
    induction f as [|f (IH1 & IH2 & IH3 & IH4 & IH5)].
    { split; [apply pres_oof|]. split; [intros b; apply pres_oof|]. repeat split; apply pres_oof. }
    split; [|split; [|split; [|split]]].
    - apply (pres_ext _ _ (parseSelectionSet_S c f)). go; try apply IH2.
    - intros b. apply (pres_ext _ _ (selectionsLoop_S c f b)). go; try apply IH3; try apply IH2.
    - apply (pres_ext _ _ (parseSelection_S c f)). go; try apply pres_parseName; try apply pres_parseOptionalDirectives;
        try apply pres_parseTypeCondition; try apply IH1; try apply IH4.
    - apply (pres_ext _ _ (parseField_S c f)). go; try apply pres_parseName; try apply pres_parseOptionalArguments;
        try apply pres_parseOptionalDirectives; try apply IH5.
    - apply (pres_ext _ _ (parseOptionalSelectionSet_S c f)). go; try apply IH1.
  Qed.

  Lemma pres_parseOptionalFragmentDefinition f : pres (parseOptionalFragmentDefinition c f).
  Proof.
    unfold parseOptionalFragmentDefinition. go; try apply pres_parseName; try apply pres_parseTypeCondition;
      try apply pres_parseOptionalDirectives; try apply pres_selections.
  Qed.

  Lemma pres_parseOperationDefinition f : pres (parseOperationDefinition c f).
  Proof.
    unfold parseOperationDefinition. go; try apply pres_parseName; try apply pres_parseOperationType;
      try apply pres_parseOptionalVariableDefinitions; try apply pres_parseOptionalDirectives; try apply pres_selections.
  Qed.

  Lemma pres_parseDefinition f : pres (parseDefinition c f).
  Proof. unfold parseDefinition. go; try apply pres_parseOptionalFragmentDefinition; try apply pres_parseOperationDefinition. Qed.

  Lemma pres_definitionsLoop : forall f b, pres (definitionsLoop c f b).
  Proof. induction f as [|f IH]; intros b; cbn [definitionsLoop]; [apply pres_oof|]. go; try apply pres_parseDefinition; try apply IH. Qed.

  Lemma pres_parseDocument f : pres (parseDocument c f).
  Proof. unfold parseDocument. go; try apply pres_definitionsLoop. Qed.
End Depth.

(** parser.ParseDocument on any token stream: the recursion counter never exceeds the limit in a
    state the parse continues from, and its high-water mark is at most limit + 1 *)
Theorem parse_depth_bounded : forall c ts, 0 <= limit c ->
  match parse c ts with
  | Ok s' => rec_ s' <= limit c /\ maxrec s' <= limit c + 1
  | Err _ s' => maxrec s' <= limit c + 1
  | OutOfFuel => True
  end.
Proof.
  intros c ts Hl. unfold parse.
  pose proof (pres_parseDocument c (doc_fuel ts) (init ts)) as H.
  assert (Hi : I c (init ts)) by (unfold I, init; cbn [rec_ maxrec]; lia).
  specialize (H Hi). destruct (parseDocument c (doc_fuel ts) (init ts)); exact H.
Qed.
