(** * Cplx/ComplexityDecode.v — decoding of one C12 case line into the inputs of the count models
    and the observations of the implementation.  Executable only. *)
From Coq Require Import List NArith ZArith Bool String.
From ApiFu Require Import Base.Sexp Cplx.Tables Cplx.ParserDepthModel Cplx.MergeCountModel.
Import ListNotations.
Open Scope string_scope.

Definition dec_tok (b : N) : option tok :=
  match b with
  | 102 => Some TFragment | 111 => Some TOn | 113 => Some TOpType | 110 => Some TName
  | 105 => Some TInt | 100 => Some TFloat | 115 => Some TString
  | 33 => Some TBang | 36 => Some TDollar | 40 => Some TLParen | 41 => Some TRParen
  | 58 => Some TColon | 61 => Some TEq | 64 => Some TAt | 91 => Some TLBrack | 93 => Some TRBrack
  | 123 => Some TLBrace | 124 => Some TPipe | 125 => Some TRBrace | 46 => Some TEllipsis
  | _ => None
  end%N.

Definition dec_flag (s : sexp) : option bool :=
  match s with SZ 0 => Some false | SZ 1 => Some true | _ => None end.

Definition dec_ty (s : sexp) : option (option ty) :=
  if is_sym "none" s then Some None
  else match s with
       | SL [SL ws; n; l] =>
           match map_opt dec_flag ws, as_N n, dec_flag l with
           | Some w, Some nm, Some lf => Some (Some {| t_wraps := w; t_name := nm; t_leaf := lf |})
           | _, _, _ => None
           end
       | _ => None
       end.

Definition dec_ptype (s : sexp) : option (option (N * bool)) :=
  if is_sym "none" s then Some None
  else match s with
       | SL [n; o] => match as_N n, dec_flag o with
                      | Some nm, Some ob => Some (Some (nm, ob))
                      | _, _ => None
                      end
       | _ => None
       end.

Definition dec_sub (s : sexp) : option (option N) :=
  match s with
  | SZ z => if Z.ltb z 0 then Some None else Some (Some (Z.to_N z))
  | _ => None
  end.

Definition dec_field (s : sexp) : option field :=
  match s with
  | SL [k; n; a; t; p; sub; w] =>
      match as_N k, as_N n, as_N a, dec_ty t, dec_ptype p, dec_sub sub, as_Z w with
      | Some k', Some n', Some a', Some t', Some p', Some s', Some w' =>
          Some {| f_key := k'; f_name := n'; f_args := a'; f_ty := t'; f_ptype := p'; f_sub := s'; f_weight := w' |}
      | _, _, _, _, _, _, _ => None
      end
  | _ => None
  end.

Definition dec_item (s : sexp) : option item :=
  match s with
  | SL [SSym t; x] =>
      match as_N x with
      | Some v => if String.eqb t "f" then Some (IField v)
                  else if String.eqb t "i" then Some (IInline v)
                  else if String.eqb t "s" then Some (ISpread v) else None
      | None => None
      end
  | _ => None
  end.

Definition dec_order (s : sexp) : option (N * nat) :=
  match s with
  | SL [a; b] => match as_N a, as_nat b with Some x, Some y => Some (x, y) | _, _ => None end
  | _ => None
  end.

Definition dec_frag (s : sexp) : option fragdef :=
  match s with
  | SL [a; b; c; d] =>
      match as_N a, as_N b, as_Z c, as_Z d with
      | Some x, Some y, Some z, Some h => Some {| fr_name := x; fr_root := y; fr_nodes := z; fr_hdr := h |}
      | _, _, _, _ => None
      end
  | _ => None
  end.

Definition dec_op (s : sexp) : option opdef :=
  match s with
  | SL [b; c; d] =>
      match as_N b, as_Z c, as_Z d with
      | Some y, Some z, Some h => Some {| op_root := y; op_nodes := z; op_hdr := h |}
      | _, _, _ => None
      end
  | _ => None
  end.

Definition dec_doc (l : list sexp) : option doc :=
  match field1 "fields" l, field1 "sets" l, field1 "order" l, field1 "frags" l, field1 "ops" l, field1 "nodes" l with
  | Some (SL fs), Some (SL ss), Some (SL os), Some (SL frs), Some (SL ops), Some nd =>
      match map_opt dec_field fs, map_opt (as_list_of dec_item) ss, map_opt dec_order os,
            map_opt dec_frag frs, map_opt dec_op ops, as_Z nd with
      | Some fs', Some ss', Some os', Some frs', Some ops', Some nd' =>
          Some {| d_fields := fs'; d_sets := ss'; d_order := os'; d_frags := frs'; d_ops := ops'; d_nodes := nd' |}
      | _, _, _, _, _, _ => None
      end
  | _, _, _, _, _, _ => None
  end.

(** every index in the tables is in range, every field has a non-negative weight *)
Definition doc_wf (D : doc) : bool :=
  let nf := N.of_nat (List.length (d_fields D)) in
  let ns := N.of_nat (List.length (d_sets D)) in
  forallb (fun f => match f_sub f with Some s => N.ltb s ns | None => true end && Z.leb 0 (f_weight f)) (d_fields D)
  && forallb (forallb (fun it => match it with IField i => N.ltb i nf | IInline s => N.ltb s ns | ISpread _ => true end)) (d_sets D)
  && forallb (fun o => N.ltb (fst o) ns) (d_order D)
  && forallb (fun fd => N.ltb (fr_root fd) ns && Z.leb 0 (fr_nodes fd) && Z.leb 0 (fr_hdr fd)) (d_frags D)
  && forallb (fun o => N.ltb (op_root o) ns && Z.leb 0 (op_nodes o) && Z.leb 0 (op_hdr o)) (d_ops D)
  && Z.leb 0 (d_nodes D).

(** (name value) entries *)
Definition num (k : string) (l : list sexp) : option Z :=
  match field1 k l with Some v => as_Z v | None => None end.
Definition num0 (k : string) (l : list sexp) : Z :=
  match num k l with Some z => z | None => 0 end.

Inductive outcome := OAccepted | OInvalid | OSyntax | ODepth | OPanic | OTimeout.
Definition dec_outcome (s : sexp) : option outcome :=
  match s with
  | SSym x => if String.eqb x "accepted" then Some OAccepted
              else if String.eqb x "invalid" then Some OInvalid
              else if String.eqb x "syntax" then Some OSyntax
              else if String.eqb x "depth" then Some ODepth
              else if String.eqb x "panic" then Some OPanic
              else if String.eqb x "timeout" then Some OTimeout else None
  | _ => None
  end.

Record costobs := { co_outcome : outcome; co_file : Z; co_all : Z; co_ns : Z }.

Record obs := {
  o_outcome : outcome;
  o_work : list sexp;          (* (component statements) *)
  o_calls : list sexp;         (* (function calls) *)
  o_cost : option costobs;
  o_ns : Z;
  o_timed : bool               (* thorough tier: the wall-clock clause is checked *)
}.

Definition dec_cost (s : sexp) : option (option costobs) :=
  if is_sym "none" s then Some None
  else match s with
       | SL l =>
           match field1 "outcome" l, num "file" l, num "all" l, num "ns" l with
           | Some o, Some f, Some a, Some t =>
               match dec_outcome o with
               | Some o' => Some (Some {| co_outcome := o'; co_file := f; co_all := a; co_ns := t |})
               | None => None
               end
           | _, _, _, _ => None
           end
       | _ => None
       end.

Definition dec_obs (l : list sexp) : option obs :=
  match field1 "outcome" l, Sexp.field "work" l, Sexp.field "calls" l, field1 "cost" l, Sexp.field "time" l with
  | Some o, Some w, Some c, Some k, Some [t; b] =>
      match dec_outcome o, dec_cost k, as_Z t, as_Z b with
      | Some o', Some k', Some t', Some b' =>
          Some {| o_outcome := o'; o_work := w; o_calls := c; o_cost := k'; o_ns := t'; o_timed := negb (Z.eqb b' 0) |}
      | _, _, _, _ => None
      end
  | _, _, _, _, _ => None
  end.

Record ccase := {
  c_family : string; c_n : Z; c_len : Z;
  c_toks : list tok; c_lexerrs : Z;
  c_text : option (list N);     (* the bytes of the document, when the case carries them (<= 400 bytes) *)
  c_doc : option doc;
  c_obs : obs
}.

Definition dec_case (l : list sexp) : option ccase :=
  match field1 "family" l, num "n" l, num "len" l, field1 "tokens" l, num "lexerrs" l, Sexp.field "obs" l with
  | Some (SSym fam), Some n, Some len, Some (SStr bs), Some le, Some ol =>
      match map_opt dec_tok bs, dec_obs ol with
      | Some ts, Some o =>
          let d := match Sexp.field "doc" l with
                   | Some dl => match dec_doc dl with Some D => Some (Some D) | None => None end
                   | None => Some None
                   end in
          match d with
          | Some d' => Some {| c_family := fam; c_n := n; c_len := len; c_toks := ts; c_lexerrs := le;
                           c_text := match field1 "text" l with Some (SStr tb) => Some tb | _ => None end;
                           c_doc := d'; c_obs := o |}
          | None => None
          end
      | _, _ => None
      end
  | _, _, _, _, _, _ => None
  end.
