(** * Cplx/TokenClass.v — what parser.go looks at in a token (kind; spelling of a NAME or
    PUNCTUATOR), as a function from the scanner model's tokens (Lex/LexModel.v, property C07) to
    the token classes of Cplx/ParserDepthModel.v.  It mirrors the harness function tokenClasses;
    the check recomputes the classes of every case text of at most 400 bytes with it and compares.
    A token no production ever tests for ('&', which the executable-document grammar does not use)
    is mapped to [TPipe], which no production tests for either.  No proofs in this file. *)
From Coq Require Import List NArith ZArith Bool.
From ApiFu Require Import Base.Sexp Lex.LexModel.
From ApiFu Require Cplx.ParserDepthModel.
Import ListNotations.


Definition kw_fragment : bytes := [102; 114; 97; 103; 109; 101; 110; 116]%N.
Definition kw_on : bytes := [111; 110]%N.
Definition kw_query : bytes := [113; 117; 101; 114; 121]%N.
Definition kw_mutation : bytes := [109; 117; 116; 97; 116; 105; 111; 110]%N.
Definition kw_subscription : bytes := [115; 117; 98; 115; 99; 114; 105; 112; 116; 105; 111; 110]%N.

Definition punct_class (lit : bytes) : ParserDepthModel.tok :=
  match lit with
  | [33] => ParserDepthModel.TBang | [36] => ParserDepthModel.TDollar | [40] => ParserDepthModel.TLParen | [41] => ParserDepthModel.TRParen | [58] => ParserDepthModel.TColon
  | [61] => ParserDepthModel.TEq | [64] => ParserDepthModel.TAt | [91] => ParserDepthModel.TLBrack | [93] => ParserDepthModel.TRBrack | [123] => ParserDepthModel.TLBrace
  | [124] => ParserDepthModel.TPipe | [125] => ParserDepthModel.TRBrace | [46; 46; 46] => ParserDepthModel.TEllipsis
  | _ => ParserDepthModel.TPipe
  end%N.

Definition tok_class (t : token) : ParserDepthModel.tok :=
  match t_kind t with
  | NAME =>
      if bytes_eqb (t_value t) kw_fragment then ParserDepthModel.TFragment
      else if bytes_eqb (t_value t) kw_on then ParserDepthModel.TOn
      else if bytes_eqb (t_value t) kw_query || bytes_eqb (t_value t) kw_mutation
              || bytes_eqb (t_value t) kw_subscription then ParserDepthModel.TOpType
      else ParserDepthModel.TName
  | INT_VALUE => ParserDepthModel.TInt
  | FLOAT_VALUE => ParserDepthModel.TFloat
  | STRING_VALUE => ParserDepthModel.TString
  | PUNCTUATOR => punct_class (t_value t)
  | _ => ParserDepthModel.TPipe
  end.


Definition classes_of_bytes (bs : bytes) : option (list ParserDepthModel.tok) :=
  match lex false bs with
  | Done ts _ => Some (map tok_class ts)
  | OutOfFuel => None
  end.

(** the number of runes DecodeRune cuts a byte string into (an invalid byte is a rune of size 1):
    what consumeRune is executed on (Cplx/ScanSteps.v) *)
Fixpoint rune_count (fuel : nat) (rest : bytes) : nat :=
  match fuel with
  | O => O
  | S f => match rest with
           | [] => O
           | _ => S (rune_count f (skipn (snd (read_next_rune rest)) rest))
           end
  end.
Definition runes (bs : bytes) : nat := rune_count (length bs) bs.
