(** * Cplx/ParserDepthModel.v — graphql/parser/parser.go reduced to what matters for nesting depth
    and for the amount of work: the token-class stream, the [recursion] counter with
    [enter()]/[exit()] exactly where parser.go has them on every return path, and a count of the
    production invocations.  No syntax tree is built.

    One Gallina function per Go function, same order of tests and calls.  A Go [panic(p.errorf(..))]
    is [fail] (the whole parse stops with a syntax error), the panic inside [enter()] is the
    distinct outcome [DepthErr].  Recursion is by explicit fuel, [OutOfFuel] is an outcome of its
    own (ParserDepthProofs.fuel_sufficient: 7 * |tokens| + 6 is always enough).

    [sel_exit] selects between parseSelection as repaired (calls [exit()] on all three return
    paths) and as on the pinned tree (defect 14: [exit()] only on the inline-fragment path).

    No proofs in this file. *)
From Coq Require Import List ZArith Bool.
Import ListNotations.
Open Scope Z_scope.

(** token classes: what parser.go tests of a token (kind, and for NAME / PUNCTUATOR the value) *)
Inductive tok :=
| TFragment | TOn | TOpType | TName               (* NAME: "fragment", "on", query|mutation|subscription, any other *)
| TInt | TFloat | TString
| TBang | TDollar | TLParen | TRParen | TColon | TEq | TAt | TLBrack | TRBrack | TLBrace | TPipe | TRBrace
| TEllipsis.

Definition tok_eqb (a b : tok) : bool :=
  match a, b with
  | TFragment, TFragment | TOn, TOn | TOpType, TOpType | TName, TName
  | TInt, TInt | TFloat, TFloat | TString, TString
  | TBang, TBang | TDollar, TDollar | TLParen, TLParen | TRParen, TRParen | TColon, TColon
  | TEq, TEq | TAt, TAt | TLBrack, TLBrack | TRBrack, TRBrack | TLBrace, TLBrace | TPipe, TPipe
  | TRBrace, TRBrace | TEllipsis, TEllipsis => true
  | _, _ => false
  end.

Definition is_name (t : tok) : bool :=
  match t with TFragment | TOn | TOpType | TName => true | _ => false end.

Record cfg := { limit : Z;          (* maxRecursion *)
                sel_exit : bool }.  (* parseSelection calls exit() on its field and spread paths *)

Definition go_cfg : cfg := {| limit := 1000; sel_exit := true |}.
Definition pinned_cfg : cfg := {| limit := 1000; sel_exit := false |}.

(** parser state: lookahead = head of [toks] (EOF when empty); [done] holds the consumed tokens,
    most recent first (only the theorems look at it); [rec_] is p.recursion; [steps] counts
    production invocations; [maxrec] is the high-water mark of [rec_]. *)
Record pst := { toks : list tok; done : list tok; rec_ : Z; steps : Z; maxrec : Z }.

Inductive perr := SyntaxErr | DepthErr.
Inductive res := Ok (s : pst) | Err (e : perr) (s : pst) | OutOfFuel.

Definition act := pst -> res.

Definition bind (a b : act) : act :=
  fun s => match a s with Ok s' => b s' | r => r end.
Infix ">>" := bind (at level 61, left associativity).

Definition skip : act := fun s => Ok s.
Definition fail : act := fun s => Err SyntaxErr s.                 (* panic(p.errorf(...)) *)
Definition oof : act := fun _ => OutOfFuel.

(** p.enter() *)
Definition enter (c : cfg) : act := fun s =>
  let r := rec_ s + 1 in
  let s' := {| toks := toks s; done := done s; rec_ := r; steps := steps s + 1; maxrec := Z.max (maxrec s) r |} in
  if limit c <? r then Err DepthErr s' else Ok s'.

(** p.exit() *)
Definition exit_ : act := fun s =>
  Ok {| toks := toks s; done := done s; rec_ := rec_ s - 1; steps := steps s; maxrec := maxrec s |}.

(** p.consumeToken() (at EOF the lookahead stays EOF) *)
Definition consume : act := fun s =>
  match toks s with
  | t :: r => Ok {| toks := r; done := t :: done s; rec_ := rec_ s; steps := steps s; maxrec := maxrec s |}
  | [] => Ok s
  end.

(** tests of the lookahead *)
Definition peek_is (t : tok) (s : pst) : bool :=
  match toks s with t' :: _ => tok_eqb t t' | [] => false end.
Definition peek_name (s : pst) : bool :=
  match toks s with t' :: _ => is_name t' | [] => false end.
Definition peek_name_not_on (s : pst) : bool :=
  match toks s with t' :: _ => is_name t' && negb (tok_eqb t' TOn) | [] => false end.
Definition at_eof (s : pst) : bool := match toks s with [] => true | _ => false end.

Definition ifp (b : pst -> bool) (x y : act) : act := fun s => if b s then x s else y s.
(** "if lookahead is not t { panic }; consumeToken()" *)
Definition expect (t : tok) : act := ifp (peek_is t) consume fail.

Section Productions.
  Variable c : cfg.

  Definition parseName (s : pst) : res :=
    (enter c >> ifp peek_name consume fail >> exit_) s.

  Definition parseNamedType (s : pst) : res :=
    (enter c >> parseName >> exit_) s.

  Definition parseVariable (s : pst) : res :=
    (enter c >> expect TDollar >> parseName >> exit_) s.

  Definition parseOperationType (s : pst) : res :=
    (enter c >> ifp (peek_is TOpType) consume fail >> exit_) s.

  Definition parseTypeCondition (s : pst) : res :=
    (enter c >> expect TOn >> parseNamedType >> exit_) s.

  Fixpoint parseType (fuel : nat) (s : pst) : res :=
    match fuel with
    | O => OutOfFuel
    | S f =>
        (enter c >>
        ifp (peek_is TLBrack)
            (consume >> parseType f >> expect TRBrack)
            parseNamedType >>
        ifp (peek_is TBang) consume skip >>
        exit_) s
    end.

  (** parseValue(constant), with its two loops *)
  Fixpoint parseValue (fuel : nat) (constant : bool) (s : pst) : res :=
    match fuel with
    | O => OutOfFuel
    | S f =>
        (enter c >>
        (fun s =>
           match toks s with
           | t :: _ =>
               match t with
               | TInt | TFloat | TString => consume s
               | TFragment | TOn | TOpType | TName => consume s      (* true/false/null/enum *)
               | TDollar => if constant then fail s else parseVariable s
               | TLBrack => (consume >> listLoop f constant) s
               | TLBrace => (consume >> objectLoop f constant) s
               | _ => fail s                                          (* ret == nil: "expected value" *)
               end
           | [] => fail s
           end) >>
        exit_) s
    end
  with listLoop (fuel : nat) (constant : bool) (s : pst) : res :=
    match fuel with
    | O => OutOfFuel
    | S f =>
        (ifp (peek_is TRBrack) consume (parseValue f constant >> listLoop f constant)) s
    end
  with objectLoop (fuel : nat) (constant : bool) (s : pst) : res :=
    match fuel with
    | O => OutOfFuel
    | S f =>
        (ifp (peek_is TRBrace) consume
                 (parseName >> expect TColon >> parseValue f constant >> objectLoop f constant)) s
    end.

  Definition parseArgument (fuel : nat) (s : pst) : res :=
    (enter c >> parseName >> expect TColon >> parseValue fuel false >> exit_) s.

  (** the loop of parseOptionalArguments; [first] <-> len(ret) == 0 *)
  Fixpoint argumentsLoop (fuel : nat) (first : bool) (s : pst) : res :=
    match fuel with
    | O => OutOfFuel
    | S f =>
        (ifp (peek_is TRParen)
                 (if first then fail else consume)
                 (parseArgument f >> argumentsLoop f false)) s
    end.

  Definition parseOptionalArguments (fuel : nat) (s : pst) : res :=
    (enter c >> ifp (peek_is TLParen) (consume >> argumentsLoop fuel true) skip >> exit_) s.

  Fixpoint directivesLoop (fuel : nat) (s : pst) : res :=
    match fuel with
    | O => OutOfFuel
    | S f =>
        (ifp (peek_is TAt)
                 (consume >> parseName >> parseOptionalArguments f >> directivesLoop f)
                 skip) s
    end.

  Definition parseOptionalDirectives (fuel : nat) (s : pst) : res :=
    (enter c >> directivesLoop fuel >> exit_) s.

  Definition parseVariableDefinition (fuel : nat) (s : pst) : res :=
    (enter c >> parseVariable >> expect TColon >> parseType fuel >>
    ifp (peek_is TEq) (consume >> parseValue fuel true) skip >>
    exit_) s.

  Fixpoint variableDefinitionsLoop (fuel : nat) (first : bool) (s : pst) : res :=
    match fuel with
    | O => OutOfFuel
    | S f =>
        (ifp (peek_is TRParen)
                 (if first then fail else consume)
                 (parseVariableDefinition f >> variableDefinitionsLoop f false)) s
    end.

  Definition parseOptionalVariableDefinitions (fuel : nat) (s : pst) : res :=
    (enter c >> ifp (peek_is TLParen) (consume >> variableDefinitionsLoop fuel true) skip >> exit_) s.

  (** on the pinned tree parseSelection returns without exit() on two of its three paths *)
  Definition selExit : act := if sel_exit c then exit_ else skip.

  Fixpoint parseSelectionSet (fuel : nat) (s : pst) : res :=
    match fuel with
    | O => OutOfFuel
    | S f =>
        (enter c >> expect TLBrace >> selectionsLoop f true >> exit_) s
    end
  with selectionsLoop (fuel : nat) (first : bool) (s : pst) : res :=
    match fuel with
    | O => OutOfFuel
    | S f =>
        (ifp (peek_is TRBrace)
                 (if first then fail else consume)
                 (parseSelection f >> selectionsLoop f false)) s
    end
  with parseSelection (fuel : nat) (s : pst) : res :=
    match fuel with
    | O => OutOfFuel
    | S f =>
        (enter c >>
        ifp (peek_is TEllipsis)
            (consume >>
             ifp peek_name_not_on
                 (parseName >> parseOptionalDirectives f >> selExit)              (* fragment spread *)
                 (ifp peek_name parseTypeCondition skip >>
                  parseOptionalDirectives f >> parseSelectionSet f >> exit_))     (* inline fragment *)
            (parseField f >> selExit)) s
    end
  with parseField (fuel : nat) (s : pst) : res :=
    match fuel with
    | O => OutOfFuel
    | S f =>
        (enter c >> parseName >>
        ifp (peek_is TColon) (consume >> parseName) skip >>
        parseOptionalArguments f >> parseOptionalDirectives f >> parseOptionalSelectionSet f >>
        exit_) s
    end
  with parseOptionalSelectionSet (fuel : nat) (s : pst) : res :=
    match fuel with
    | O => OutOfFuel
    | S f =>
        (enter c >> ifp (peek_is TLBrace) (parseSelectionSet f) skip >> exit_) s
    end.

  (** returns non-nil exactly when the lookahead was "fragment" (and nothing panicked) *)
  Definition parseOptionalFragmentDefinition (fuel : nat) (s : pst) : res :=
    (enter c >>
    ifp (peek_is TFragment)
        (consume >> ifp peek_name_not_on skip fail >>
         parseName >> parseTypeCondition >> parseOptionalDirectives fuel >> parseSelectionSet fuel)
        skip >>
    exit_) s.

  Definition parseOperationDefinition (fuel : nat) (s : pst) : res :=
    (enter c >>
    ifp (peek_is TLBrace)
        (parseOptionalSelectionSet fuel)                                  (* ss != nil *)
        (parseOptionalSelectionSet fuel >> parseOperationType >>
         ifp peek_name parseName skip >>
         parseOptionalVariableDefinitions fuel >> parseOptionalDirectives fuel >> parseSelectionSet fuel) >>
    exit_) s.

  Definition parseDefinition (fuel : nat) (s : pst) : res :=
    (enter c >>
    ifp (peek_is TFragment)
        (parseOptionalFragmentDefinition fuel)                            (* def != nil *)
        (parseOptionalFragmentDefinition fuel >> parseOperationDefinition fuel) >>
    exit_) s.

  (** "for !p.eof { append(parseDefinition()) }; if len == 0 { panic }" *)
  Fixpoint definitionsLoop (fuel : nat) (first : bool) (s : pst) : res :=
    match fuel with
    | O => OutOfFuel
    | S f =>
        (ifp at_eof
                 (if first then fail else skip)
                 (parseDefinition f >> definitionsLoop f false)) s
    end.

  Definition parseDocument (fuel : nat) (s : pst) : res :=
    (enter c >> definitionsLoop fuel true >> exit_) s.
End Productions.

Definition init (ts : list tok) : pst := {| toks := ts; done := []; rec_ := 0; steps := 0; maxrec := 0 |}.

Definition doc_fuel (ts : list tok) : nat := 7 * length ts + 6.

(** parser.ParseDocument on a token stream *)
Definition parse (c : cfg) (ts : list tok) : res := parseDocument c (doc_fuel ts) (init ts).
