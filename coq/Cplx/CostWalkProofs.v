(** * Cplx/CostWalkProofs.v — the cost walk of ValidateCost is exponential on a family of documents of
    linear size (defect 16, recorded as known: the walk cannot share work between two spreads of
    the same fragment because the cost functions see the context built by the enclosing fields).

    The family, as text:   {...F0}  fragment F0 on T{...F1 ...F1}  ...  fragment F(n-1) on T{...Fn ...Fn}
                           fragment Fn on T{i}
    (harness family cost-chain-flat).  [cost_family n] is its abstract document: selection set 0 is
    the operation's, selection set s (1 <= s <= n) the body of F(s-1), selection set n+1 the body of
    Fn; fragment Fj has name j. *)
From Coq Require Import List NArith ZArith Bool FMapPositive Lia PeanoNat.
From ApiFu Require Import Cplx.Tables Cplx.TablesProofs Cplx.MergeCountModel Cplx.CostWalkCount
     Cplx.ComplexityDecode Cplx.ComplexitySpec.
Import ListNotations.
Open Scope Z_scope.

Definition leaf_ty : ty := {| t_wraps := []; t_name := 0%N; t_leaf := true |}.
Definition leaf_field : field :=
  {| f_key := 0%N; f_name := 0%N; f_args := 0%N; f_ty := Some leaf_ty; f_ptype := Some (1%N, true);
     f_sub := None; f_weight := 2 |}.

Definition cf_set (n s : nat) : list item :=
  if Nat.eqb s 0 then [ISpread 0%N]
  else if Nat.eqb s (S n) then [IField 0%N]
  else [ISpread (N.of_nat s); ISpread (N.of_nat s)].

Definition cf_frag (n j : nat) : fragdef :=
  {| fr_name := N.of_nat j; fr_root := N.of_nat (S j); fr_nodes := (if Nat.eqb j n then 5 else 7); fr_hdr := 2 |}.

Definition cost_family (n : nat) : doc :=
  {| d_fields := [leaf_field];
     d_sets := map (cf_set n) (seq 0 (S (S n)));
     d_order := map (fun s => (N.of_nat s, O)) (seq 0 (S (S n)));
     d_frags := map (cf_frag n) (seq 0 (S n));
     d_ops := [{| op_root := 0%N; op_nodes := 4; op_hdr := 1 |}];
     d_nodes := 7 * Z.of_nat n + 10 |}.

Section Family.
  Variable n : nat.
  Let D := cost_family n.
  Let fields := arr_of_list (d_fields D).
  Let sets := arr_of_list (d_sets D).
  Let frags := frag_table D.

  Lemma cf_sets_at s : (s <= S n)%nat -> aget sets (N.of_nat s) = Some (cf_set n s).
  Proof.
    intros H. unfold sets, D, cost_family. cbn [d_sets].
    rewrite aget_map_seq; rewrite Nat2N.id; [reflexivity|lia].
  Qed.

  Lemma cf_frags_at j : (j <= n)%nat -> aget frags (N.of_nat j) = Some (cf_frag n j).
  Proof.
    intros H. unfold frags, frag_table, D, cost_family. cbn [d_frags].
    rewrite aget_map_of_assoc, map_map.
    change (fun x : nat => (fr_name (cf_frag n x), cf_frag n x)) with (fun i : nat => (N.of_nat i, cf_frag n i)).
    rewrite assoc_last_map_seq by lia. reflexivity.
  Qed.

  Lemma cf_field0 : aget fields 0%N = Some leaf_field.
  Proof. reflexivity. Qed.

  (** walking the body of F(s-1): 2^(n+2-s) - 2 expansions *)
  Lemma walk_body : forall k s fuel onpath st,
    (s + k = S n)%nat -> (1 <= s)%nat -> (k < fuel)%nat ->
    (forall j, (s <= j)%nat -> nmem (N.of_nat j) onpath = false) ->
    exists st', cost_set fields sets frags fuel (N.of_nat s) onpath st = COk st'
                /\ c_expansions st' = c_expansions st + (2 ^ Z.of_nat (S k) - 2)
                /\ c_fields st' = c_fields st + 2 ^ Z.of_nat k
                /\ c_steps st + 2 ^ Z.of_nat k <= c_steps st'.
  Proof.
    induction k as [|k IH]; intros s fuel onpath st Hs H1 Hf Hpath.
    - destruct fuel as [|f]; [lia|]. assert (s = S n) by lia. subst s.
      cbn [cost_set]. rewrite cf_sets_at by lia. unfold cf_set.
      rewrite Nat.eqb_refl. cbn [Nat.eqb]. rewrite cf_field0. cbn [leaf_field f_ty f_sub f_weight].
      eexists. split; [reflexivity|]. cbn [cfield ctick c_expansions c_fields c_steps].
      change (2 ^ Z.of_nat 0) with 1. repeat split; lia.
    - destruct fuel as [|f]; [lia|].
      cbn [cost_set]. rewrite cf_sets_at by lia. unfold cf_set.
      destruct (Nat.eqb_spec s 0) as [?|_]; [lia|]. destruct (Nat.eqb_spec s (S n)) as [?|_]; [lia|].
      rewrite Hpath by lia. rewrite cf_frags_at by lia. cbn [cf_frag fr_root fr_hdr].
      assert (Hpath' : forall j, (S s <= j)%nat -> nmem (N.of_nat j) (nadd (N.of_nat s) onpath) = false).
      { intros j Hj. rewrite nmem_nadd, Hpath by lia.
        destruct (N.eqb_spec (N.of_nat j) (N.of_nat s)); [lia|reflexivity]. }
      destruct (IH (S s) f (nadd (N.of_nat s) onpath) (cexpand 2 (ctick 2 (ctick 1 st))))
        as (st1 & E1 & X1 & F1 & S1); [lia|lia|lia|exact Hpath'|].
      rewrite E1.
      destruct (IH (S s) f (nadd (N.of_nat s) onpath) (cexpand 2 (ctick 2 st1)))
        as (st2 & E2 & X2 & F2 & S2); [lia|lia|lia|exact Hpath'|].
      rewrite E2. eexists. split; [reflexivity|].
      rewrite X2, F2. cbn [cexpand ctick c_expansions c_fields c_steps] in *. rewrite X1, F1.
      cbn [cexpand ctick c_expansions c_fields c_steps] in *.
      replace (Z.of_nat (S (S k))) with (Z.of_nat (S k) + 1) by lia.
      replace (Z.of_nat (S k)) with (Z.of_nat k + 1) in * by lia.
      rewrite !Z.pow_add_r, !Z.pow_1_r in * by lia. repeat split; lia.
  Qed.

  Theorem cost_family_expansions :
    exists st, cost_run D = COk st
               /\ c_expansions st = 2 ^ Z.of_nat (S n) - 1
               /\ c_fields st = 2 ^ Z.of_nat n
               /\ 2 ^ Z.of_nat n <= c_steps st.
  Proof.
    unfold cost_run. change (d_ops D) with [{| op_root := 0%N; op_nodes := 4; op_hdr := 1 |}].
    cbn [op_root op_hdr].
    assert (Hfuel : cost_fuel D = S (S (S (S n)))).
    { unfold cost_fuel, D, cost_family. cbn [d_sets]. now rewrite map_length, seq_length. }
    rewrite Hfuel. remember (S (S (S n))) as f0 eqn:Hf0. cbn [cost_set].
    change (arr_of_list (d_sets D)) with sets. change (arr_of_list (d_fields D)) with fields.
    change (frag_table D) with frags.
    pose proof (cf_sets_at 0 ltac:(lia)) as H0. cbn [N.of_nat] in H0. rewrite H0. clear H0.
    unfold cf_set at 1. cbn [Nat.eqb].
    rewrite nmem_nempty.
    pose proof (cf_frags_at 0 ltac:(lia)) as H0. cbn [N.of_nat] in H0. rewrite H0. clear H0.
    cbn [cf_frag fr_root fr_hdr].
    match goal with |- context [cost_set _ _ _ ?f (N.of_nat 1) ?p ?st] =>
      destruct (walk_body n 1 f p st) as (st1 & E1 & X1 & F1 & S1) end; [lia|lia|lia| |].
    { intros j Hj. rewrite nmem_nadd, nmem_nempty.
      destruct (N.eqb_spec (N.of_nat j) 0%N); [lia|reflexivity]. }
    rewrite E1. eexists. split; [reflexivity|]. rewrite X1, F1.
    cbn [cexpand ctick c_expansions c_fields c_steps length Nat.add] in *. repeat split; lia.
  Qed.
End Family.

(** the documents of the family have linear size and are well formed *)
Lemma cost_family_size n : doc_size (cost_family n) = 5 * Z.of_nat n + 11.
Proof.
  unfold doc_size, n_fields, n_sets, n_items, n_visits, n_frags, n_ops, max_weight, cost_family.
  cbn [d_fields d_sets d_order d_frags d_ops length fold_right leaf_field f_weight].
  rewrite !map_length, !seq_length.
  assert (H : forall m a, (1 <= a)%nat -> (a + m = S n)%nat ->
              length (concat (map (cf_set n) (seq a m))) = (2 * m)%nat).
  { induction m as [|m IH]; intros a Ha Hm; [reflexivity|].
    cbn [seq map concat]. rewrite app_length, IH by lia. unfold cf_set.
    destruct (Nat.eqb_spec a 0); [lia|]. destruct (Nat.eqb_spec a (S n)); [lia|]. cbn [length]. lia. }
  replace (S (S n)) with (S (n + 1))%nat at 2 by lia.
  cbn [seq map concat]. rewrite seq_app, map_app, concat_app, !app_length, (H n 1%nat) by lia.
  cbn [seq map concat Nat.add]. replace (1 + n)%nat with (S n) by lia. unfold cf_set at 2.
  rewrite Nat.eqb_refl. unfold cf_set. cbn [Nat.eqb length app]. lia.
Qed.

Lemma cost_family_wf n : doc_wf (cost_family n) = true.
Proof.
  unfold doc_wf, cost_family. cbn [d_fields d_sets d_order d_frags d_ops d_nodes].
  rewrite !map_length, !seq_length.
  rewrite !andb_true_iff. repeat split.
  - apply forallb_forall. intros its Hin. apply in_map_iff in Hin. destruct Hin as (s & <- & Hs).
    unfold cf_set. destruct (Nat.eqb s 0); [reflexivity|]. destruct (Nat.eqb s (S n)); reflexivity.
  - apply forallb_forall. intros o Hin. apply in_map_iff in Hin. destruct Hin as (s & <- & Hs).
    apply in_seq in Hs. cbn [fst]. apply N.ltb_lt. lia.
  - apply forallb_forall. intros fd Hin. apply in_map_iff in Hin. destruct Hin as (j & <- & Hj).
    apply in_seq in Hj. unfold cf_frag. cbn [fr_root fr_nodes fr_hdr].
    replace (N.of_nat (S j) <? N.of_nat (S (S n)))%N with true by (symmetry; apply N.ltb_lt; lia).
    destruct (Nat.eqb j n); reflexivity.
  - apply Z.leb_le. lia.
Qed.

(** the family in one statement: linear size, at least 2^n fragment expansions and 2^n visited
    field selections *)
Theorem cost_walk_exponential : forall n : nat,
  doc_wf (cost_family n) = true /\
  doc_size (cost_family n) = 5 * Z.of_nat n + 11 /\
  exists st, cost_run (cost_family n) = COk st
             /\ 2 ^ Z.of_nat n <= c_expansions st
             /\ 2 ^ Z.of_nat n <= c_fields st
             /\ 2 ^ Z.of_nat n <= c_steps st.
Proof.
  intros n. split; [apply cost_family_wf|]. split; [apply cost_family_size|].
  destruct (cost_family_expansions n) as (st & E & X & F & Hst).
  exists st. split; [exact E|]. rewrite X, F.
  replace (Z.of_nat (S n)) with (Z.of_nat n + 1) by lia. rewrite Z.pow_add_r, Z.pow_1_r by lia.
  assert (0 < 2 ^ Z.of_nat n) by (apply Z.pow_pos_nonneg; lia).
  repeat split; lia.
Qed.
