(** * Cplx/FragmentWalkProofs.v — polynomial bounds for the two other passes that follow fragment
    spreads: the cycle search of validateFragmentSpreads ([cycle_steps_le_bound]) and the fragment
    closure of validateVariables ([var_steps_le_bound]).

    Both are worklist algorithms that take every fragment name at most once per start point.  The
    potential is the weight of the fragment definitions whose name has not been taken yet,
      R g seen = sum over d_frags of (if the name is in [seen] then 0 else g fd);
    taking a name lowers it by at least g of the definition the name denotes. *)
From Coq Require Import List NArith ZArith Bool FMapPositive Lia PeanoNat.
From ApiFu Require Import Cplx.Tables Cplx.TablesProofs Cplx.MergeCountModel Cplx.FragmentWalkCount
     Cplx.ComplexityDecode Cplx.ComplexitySpec Cplx.SpreadLists.
Import ListNotations.
Open Scope Z_scope.

(** ** the potential *)
Section Potential.
  Variable frs : list fragdef.
  Variable g : fragdef -> Z.
  Hypothesis g_nonneg : forall fd, In fd frs -> 0 <= g fd.

  Definition Rg (l : list fragdef) (seen : nset) : Z :=
    fold_right (fun fd acc => (if nmem (fr_name fd) seen then 0 else g fd) + acc) 0 l.

  Lemma Rg_bounds l seen nm : (forall fd, In fd l -> 0 <= g fd) ->
    0 <= Rg l (nadd nm seen) <= Rg l seen.
  Proof.
    induction l as [|fd l IH]; intros H; cbn [Rg fold_right]; [lia|].
    fold (Rg l (nadd nm seen)). fold (Rg l seen).
    specialize (IH (fun fd' Hin => H fd' (or_intror Hin))). specialize (H fd (or_introl eq_refl)).
    rewrite nmem_nadd. destruct (N.eqb (fr_name fd) nm); cbn [orb]; destruct (nmem (fr_name fd) seen); lia.
  Qed.

  Lemma Rg_nonneg l seen : (forall fd, In fd l -> 0 <= g fd) -> 0 <= Rg l seen.
  Proof.
    induction l as [|fd l IH]; intros H; cbn [Rg fold_right]; [lia|]. fold (Rg l seen).
    specialize (IH (fun fd' Hin => H fd' (or_intror Hin))). specialize (H fd (or_introl eq_refl)).
    destruct (nmem (fr_name fd) seen); lia.
  Qed.

  Lemma Rg_take l seen fd : (forall fd, In fd l -> 0 <= g fd) ->
    In fd l -> nmem (fr_name fd) seen = false ->
    g fd <= Rg l seen - Rg l (nadd (fr_name fd) seen).
  Proof.
    induction l as [|fd' l IH]; intros H Hin Hn; [contradiction|]. cbn [Rg fold_right].
    fold (Rg l (nadd (fr_name fd) seen)). fold (Rg l seen).
    pose proof (Rg_bounds l seen (fr_name fd) (fun x Hx => H x (or_intror Hx))) as Hb.
    pose proof (H fd' (or_introl eq_refl)) as H0.
    destruct Hin as [->|Hin].
    - rewrite nmem_nadd, N.eqb_refl, Hn. cbn [orb]. lia.
    - specialize (IH (fun x Hx => H x (or_intror Hx)) Hin Hn).
      rewrite nmem_nadd. destruct (N.eqb (fr_name fd') (fr_name fd)); cbn [orb]; destruct (nmem (fr_name fd') seen); lia.
  Qed.

  Lemma Rg_le_total l seen : (forall fd, In fd l -> 0 <= g fd) ->
    Rg l seen <= fold_right (fun fd acc => g fd + acc) 0 l.
  Proof.
    induction l as [|fd l IH]; intros H; cbn [Rg fold_right]; [lia|]. fold (Rg l seen).
    specialize (IH (fun fd' Hin => H fd' (or_intror Hin))). specialize (H fd (or_introl eq_refl)).
    destruct (nmem (fr_name fd) seen); lia.
  Qed.

  Lemma Rg_nempty l : Rg l nempty = fold_right (fun fd acc => g fd + acc) 0 l.
  Proof. induction l as [|fd l IH]; cbn [Rg fold_right]; [reflexivity|]. fold (Rg l nempty). rewrite IH, nmem_nempty. reflexivity. Qed.
End Potential.

Lemma assoc_last_map_in {A B} (key : A -> N) (h : A -> B) k v : forall l,
  assoc_last k (map (fun a => (key a, h a)) l) = Some v -> exists a, In a l /\ key a = k /\ v = h a.
Proof.
  induction l as [|a l IH]; cbn [map assoc_last]; [discriminate|].
  destruct (assoc_last k (map (fun a => (key a, h a)) l)) as [x|] eqn:E.
  - intros H. inversion H; subst. destruct (IH eq_refl) as (a' & Hin & Hk & Hv). exists a'. split; [right; exact Hin|split; assumption].
  - destruct (N.eqb_spec k (key a)) as [->|]; [|discriminate]. intros H. inversion H; subst.
    exists a. split; [left; reflexivity|split; reflexivity].
Qed.

Lemma dedup_length : forall l seen, (length (dedup l seen) <= length l)%nat.
Proof.
  induction l as [|x l IH]; intros seen; cbn [dedup length]; [lia|].
  destruct (nmem x seen); [specialize (IH seen); lia|specialize (IH (nadd x seen)); cbn [length]; lia].
Qed.

(** ** the cycle search of validateFragmentSpreads *)

Section Cycle.
  Variable D : doc.
  Let deps := deps_table D.
  Let frs := d_frags D.
  Let g := spread_weight D.
  Let R := Rg g frs.

  Definition dl (x : N) : list N := match aget deps x with Some ds => ds | None => [] end.
  Definition Q2 (q : list N) : Z := fold_right (fun x acc => 1 + 2 * Z.of_nat (length (dl x)) + acc) 0 q.
  Definition Q1 (q : list N) : Z := fold_right (fun x acc => 1 + Z.of_nat (length (dl x)) + acc) 0 q.

  Lemma g_nonneg : forall fd, In fd frs -> 0 <= g fd.
  Proof. intros fd _. apply Nat2Z.is_nonneg. Qed.

  Lemma Q2_app a b : Q2 (a ++ b) = Q2 a + Q2 b.
  Proof. unfold Q2. induction a as [|x a IH]; cbn [app fold_right]; lia. Qed.
  Lemma Q1_app a b : Q1 (a ++ b) = Q1 a + Q1 b.
  Proof. unfold Q1. induction a as [|x a IH]; cbn [app fold_right]; lia. Qed.

  Lemma Q2_cons x q : Q2 (x :: q) = 1 + 2 * Z.of_nat (length (dl x)) + Q2 q. Proof. reflexivity. Qed.
  Lemma Q1_cons x q : Q1 (x :: q) = 1 + Z.of_nat (length (dl x)) + Q1 q. Proof. reflexivity. Qed.
  Lemma Q2_nonneg q : 0 <= Q2 q. Proof. induction q as [|x q IH]; [reflexivity|rewrite Q2_cons; lia]. Qed.
  Lemma Q1_nonneg q : 0 <= Q1 q. Proof. induction q as [|x q IH]; [reflexivity|rewrite Q1_cons; lia]. Qed.

  (** taking a fresh name pays for its dependency list *)
  Lemma dl_le_take x seen : nmem x seen = false ->
    Z.of_nat (length (dl x)) <= R seen - R (nadd x seen) /\ 0 <= R (nadd x seen) <= R seen.
  Proof.
    intros Hn. pose proof (Rg_bounds g frs seen x g_nonneg) as Hb. fold R in Hb. split; [|exact Hb].
    unfold dl, deps, deps_table. rewrite aget_map_of_assoc.
    replace (aget (PositiveMap.empty (list N)) x) with (@None (list N)) by (unfold aget; now rewrite PositiveMap.gempty).
    destruct (assoc_last x _) as [ds|] eqn:E; [|cbn [length]; lia].
    apply (assoc_last_map_in fr_name) in E. destruct E as (fd & Hin & Hk & Hv). subst x ds.
    pose proof (Rg_take g frs seen fd g_nonneg Hin Hn) as Ht. fold R in Ht.
    pose proof (dedup_length (rev (spread_list D (fr_root fd))) nempty) as Hd. rewrite rev_length in Hd.
    unfold g, spread_weight in Ht. unfold spread_list in *. lia.
  Qed.

  (** [seen] = the start name and everything encountered *)
  Definition seen_is (name : N) (enc seen : nset) : Prop :=
    forall t, nmem t seen = N.eqb t name || nmem t enc.

  Lemma scan_deps_ok name : forall ds queue enc steps seen, seen_is name enc seen ->
    match scan_deps name ds queue enc steps with
    | (found, queue', enc', steps') =>
        exists seen', seen_is name enc' seen'
          /\ steps' <= steps + Z.of_nat (length ds)
          /\ Q2 queue' + 2 * R seen' <= Q2 queue + 2 * R seen + Z.of_nat (length ds)
          /\ Q1 queue' + R seen' <= Q1 queue + R seen + Z.of_nat (length ds)
          /\ 0 <= R seen'
    end.
  Proof.
    induction ds as [|dep ds IH]; intros queue enc steps seen Hs; cbn [scan_deps length].
    - exists seen. pose proof (Rg_nonneg g frs seen g_nonneg). fold R in H. repeat split; try lia; exact Hs.
    - destruct (nmem dep enc) eqn:He.
      + specialize (IH queue enc (steps + 1) seen Hs).
        destruct (scan_deps name ds queue enc (steps + 1)) as [[[fo q'] e'] s'].
        destruct IH as (seen' & H1 & H2 & H3 & H4 & H5). exists seen'. repeat split; try lia; exact H1.
      + destruct (N.eqb_spec dep name) as [->|Hne].
        * exists seen. pose proof (Rg_nonneg g frs seen g_nonneg). fold R in H. repeat split; try lia; exact Hs.
        * assert (Hn : nmem dep seen = false).
          { rewrite Hs, He. destruct (N.eqb_spec dep name); [contradiction|reflexivity]. }
          destruct (dl_le_take dep seen Hn) as [Hd Hb].
          assert (Hs' : seen_is name (nadd dep enc) (nadd dep seen)).
          { intros t. rewrite !nmem_nadd, Hs. destruct (N.eqb t dep), (N.eqb t name); reflexivity. }
          specialize (IH (queue ++ [dep]) (nadd dep enc) (steps + 1) (nadd dep seen) Hs').
          destruct (scan_deps name ds (queue ++ [dep]) (nadd dep enc) (steps + 1)) as [[[fo q'] e'] s'].
          destruct IH as (seen' & H1 & H2 & H3 & H4 & H5). exists seen'.
          rewrite Q2_app, Q1_app, Q2_cons, Q1_cons in *. change (Q2 []) with 0 in *. change (Q1 []) with 0 in *. repeat split; try lia; exact H1.
  Qed.

  Lemma search_ok : forall fuel name queue enc steps seen, seen_is name enc seen ->
    Q1 queue + R seen < Z.of_nat fuel ->
    match search deps fuel name queue enc steps with
    | Some (_, k) => k <= steps + Q2 queue + 2 * R seen
    | None => False
    end.
  Proof.
    induction fuel as [|f IH]; intros name queue enc steps seen Hs Hf.
    - pose proof (Rg_nonneg g frs seen g_nonneg) as H. fold R in H.
      pose proof (Q1_nonneg queue). lia.
    - cbn [search]. destruct queue as [|x q].
      + pose proof (Rg_nonneg g frs seen g_nonneg) as H. fold R in H. change (Q2 []) with 0. lia.
      + pose proof (scan_deps_ok name (dl x) q enc (steps + 1) seen Hs) as H1. fold (dl x).
        destruct (scan_deps name (dl x) q enc (steps + 1)) as [[[fo q'] e'] s'].
        destruct H1 as (seen' & H1 & H2 & H3 & H4 & H5).
        rewrite Q2_cons, Q1_cons in *. pose proof (Q2_nonneg q). pose proof (Q2_nonneg q').
        pose proof (Rg_nonneg g frs seen g_nonneg) as HR. fold R in HR.
        destruct fo; [lia|].
        specialize (IH name q' e' s' seen' H1 ltac:(lia)).
        destruct (search deps f name q' e' s') as [[fo2 k]|]; [lia|exact IH].
  Qed.

  Hypothesis Hok : spreads_ok D = true.

  Lemma total_le : R nempty <= Z.of_nat (total_spreads D).
  Proof.
    unfold R. rewrite Rg_nempty. unfold spreads_ok in Hok. rewrite !andb_true_iff in Hok.
    destruct Hok as [[H _] _]. apply Z.leb_le in H. exact H.
  Qed.

  Theorem cycle_steps_le_bound :
    match cycle_search_run D with
    | Some w => w_steps w <= cycle_steps_bound D
    | None => False
    end.
  Proof.
    unfold cycle_search_run. fold deps.
    set (names := dedup (map fr_name (d_frags D)) nempty).
    assert (Hlen : Z.of_nat (length names) <= n_frags D).
    { unfold names, n_frags. pose proof (dedup_length (map fr_name (d_frags D)) nempty) as H. rewrite map_length in H. lia. }
    set (T := Z.of_nat (total_spreads D)).
    assert (Hgen : forall l w0,
               match fold_left (fun acc name =>
                        match acc with
                        | None => None
                        | Some w =>
                            match search deps (S (S (total_spreads D + length (d_frags D)))) name [name] nempty 0 with
                            | None => None
                            | Some (found, k) => Some {| w_steps := w_steps w + k + 1; w_found := w_found w + (if found then 1 else 0) |}
                            end
                        end) l (Some w0) with
               | Some w => w_steps w <= w_steps w0 + Z.of_nat (length l) * (2 * T + 3)
               | None => False
               end).
    { induction l as [|name l IH]; intros w0; cbn [fold_left length]; [lia|].
      assert (Hs : seen_is name nempty (nadd name nempty)).
      { intros t. rewrite nmem_nadd, nmem_nempty. reflexivity. }
      destruct (dl_le_take name nempty (nmem_nempty name)) as [Hd Hb]. pose proof total_le as Ht. fold T in Ht.
      pose proof (search_ok (S (S (total_spreads D + length (d_frags D)))) name [name] nempty 0 (nadd name nempty) Hs) as H1.
      rewrite Q1_cons, Q2_cons in H1. change (Q2 []) with 0 in H1. change (Q1 []) with 0 in H1.
      destruct (search deps (S (S (total_spreads D + length (d_frags D)))) name [name] nempty 0) as [[fo k]|].
      - specialize (H1 ltac:(unfold T in *; lia)).
        specialize (IH {| w_steps := w_steps w0 + k + 1; w_found := w_found w0 + (if fo then 1 else 0) |}).
        destruct (fold_left _ l _) as [w|]; [|exact IH]. cbn [w_steps] in IH. rewrite Nat2Z.inj_succ. nia.
      - exfalso. apply H1. unfold T in *. lia. }
    specialize (Hgen names {| w_steps := 0; w_found := 0 |}).
    destruct (fold_left _ names _) as [w|]; [|exact Hgen]. cbn [w_steps] in Hgen.
    unfold cycle_steps_bound. change (n_spreads D) with T.
    assert (0 <= T) by (unfold T; lia). nia.
  Qed.
End Cycle.

(** ** the fragment closure of validateVariables *)
Section VarWalk.
  Variable D : doc.
  Hypothesis Hok : spreads_ok D = true.
  Let fields := arr_of_list (d_fields D).
  Let sets := arr_of_list (d_sets D).
  Let frags := frag_table D.
  Let frs := d_frags D.
  Let g := spread_weight D.
  Let g2 := fun fd => 1 + fr_nodes fd.
  Let R := Rg g frs.
  Let R2 := Rg g2 frs.

  Lemma vg_nonneg : forall fd, In fd frs -> 0 <= g fd.
  Proof. intros fd _. apply Nat2Z.is_nonneg. Qed.

  Lemma vg2_nonneg : forall fd, In fd frs -> 0 <= g2 fd.
  Proof.
    intros fd Hin. unfold spreads_ok in Hok. rewrite !andb_true_iff in Hok. destruct Hok as [_ H].
    rewrite forallb_forall in H. specialize (H fd Hin). apply Z.leb_le in H. unfold g2. lia.
  Qed.

  Lemma frag_table_in nm fd : aget frags nm = Some fd -> In fd frs /\ fr_name fd = nm.
  Proof.
    unfold frags, frag_table. rewrite aget_map_of_assoc.
    replace (aget (PositiveMap.empty fragdef) nm) with (@None fragdef) by (unfold aget; now rewrite PositiveMap.gempty).
    destruct (assoc_last nm _) as [x|] eqn:E; [|discriminate]. intros H. inversion H; subst x.
    apply (assoc_last_map_in fr_name (fun fd => fd)) in E. destruct E as (a & Hin & Hk & Hv). subst. split; [exact Hin|reflexivity].
  Qed.

  Lemma var_closure_ok : forall fuel work validated steps,
    Z.of_nat (length work) + R validated < Z.of_nat fuel ->
    match var_closure fields sets frags (length (d_sets D)) fuel work validated steps with
    | Some k => k <= steps + Z.of_nat (length work) + R validated + R2 validated
    | None => False
    end.
  Proof.
    induction fuel as [|f IH]; intros work validated steps Hf.
    - pose proof (Rg_nonneg g frs validated vg_nonneg) as H. fold R in H. lia.
    - cbn [var_closure]. pose proof (Rg_nonneg g frs validated vg_nonneg) as HR. fold R in HR.
      pose proof (Rg_nonneg g2 frs validated vg2_nonneg) as HR2. fold R2 in HR2.
      destruct work as [|nm work]; [cbn [length]; lia|]. cbn [length] in Hf |- *.
      destruct (nmem nm validated) eqn:Hn.
      + specialize (IH work validated steps ltac:(lia)).
        destruct (var_closure fields sets frags (length (d_sets D)) f work validated steps); [lia|exact IH].
      + pose proof (Rg_bounds g frs validated nm vg_nonneg) as Hb. fold R in Hb.
        pose proof (Rg_bounds g2 frs validated nm vg2_nonneg) as Hb2. fold R2 in Hb2.
        destruct (aget frags nm) as [fd|] eqn:Efd.
        * destruct (frag_table_in nm fd Efd) as [Hin Hname]. subst nm.
          pose proof (Rg_take g frs validated fd vg_nonneg Hin Hn) as Ht. fold R in Ht.
          pose proof (Rg_take g2 frs validated fd vg2_nonneg Hin Hn) as Ht2. fold R2 in Ht2.
          change (spreads_in fields sets (S (length (d_sets D))) (fr_root fd) []) with (spread_list D (fr_root fd)).
          assert (Hlen : Z.of_nat (length (spread_list D (fr_root fd) ++ work)) = g fd + Z.of_nat (length work)).
          { rewrite app_length. unfold g, spread_weight. lia. }
          specialize (IH (spread_list D (fr_root fd) ++ work) (nadd (fr_name fd) validated) (steps + 1 + fr_nodes fd) ltac:(lia)).
          destruct (var_closure fields sets frags (length (d_sets D)) f _ _ _); [unfold g2 in *; lia|exact IH].
        * specialize (IH work (nadd nm validated) (steps + 1) ltac:(lia)).
          destruct (var_closure fields sets frags (length (d_sets D)) f work (nadd nm validated) (steps + 1)); [lia|exact IH].
  Qed.

  Lemma R2_nempty : R2 nempty = n_frags D + frag_nodes D.
  Proof.
    unfold R2. rewrite Rg_nempty. unfold n_frags, frag_nodes, frs, g2.
    induction (d_frags D) as [|fd l IH]; cbn [fold_right length]; [reflexivity|]. rewrite IH. lia.
  Qed.

  Theorem var_steps_le_bound :
    match var_walk_run D with
    | Some k => k <= var_steps_bound D
    | None => False
    end.
  Proof.
    unfold var_walk_run. fold fields sets frags.
    set (T := Z.of_nat (total_spreads D)).
    assert (HT : R nempty <= T).
    { unfold R. rewrite Rg_nempty. unfold spreads_ok in Hok. rewrite !andb_true_iff in Hok.
      destruct Hok as [[H _] _]. apply Z.leb_le in H. exact H. }
    assert (Hops : forall o, In o (d_ops D) -> R nempty + Z.of_nat (length (spread_list D (op_root o))) <= T).
    { intros o Hin. unfold R. rewrite Rg_nempty. unfold spreads_ok in Hok. rewrite !andb_true_iff in Hok.
      destruct Hok as [[_ H] _]. rewrite forallb_forall in H. specialize (H o Hin). apply Z.leb_le in H. exact H. }
    assert (Hgen : forall l, (forall o, In o l -> In o (d_ops D)) -> forall k0,
               match fold_left (fun acc op =>
                        match acc with
                        | None => None
                        | Some k =>
                            match var_closure fields sets frags (length (d_sets D)) (S (S (2 * total_spreads D)))
                                              (spreads_in fields sets (S (length (d_sets D))) (op_root op) []) nempty (k + op_nodes op) with
                            | None => None
                            | Some k' => Some k'
                            end
                        end) l (Some k0) with
               | Some k => k <= k0 + fold_right (fun o acc => op_nodes o + acc) 0 l
                                + Z.of_nat (length l) * (T + n_frags D + frag_nodes D)
               | None => False
               end).
    { induction l as [|o l IH]; intros Hl k0; cbn [fold_left fold_right length]; [lia|].
      change (spreads_in fields sets (S (length (d_sets D))) (op_root o) []) with (spread_list D (op_root o)).
      pose proof (Hops o (Hl o (or_introl eq_refl))) as Ho.
      pose proof (var_closure_ok (S (S (2 * total_spreads D))) (spread_list D (op_root o)) nempty (k0 + op_nodes o)
                                 ltac:(unfold T in *; lia)) as H1.
      destruct (var_closure fields sets frags (length (d_sets D)) (S (S (2 * total_spreads D))) (spread_list D (op_root o)) nempty (k0 + op_nodes o)) as [k1|].
      - specialize (IH (fun o' Hin => Hl o' (or_intror Hin)) k1). rewrite R2_nempty in H1.
        destruct (fold_left _ l (Some k1)) as [k|]; [|exact IH]. rewrite Nat2Z.inj_succ. nia.
      - clear IH. exfalso. exact H1. }
    specialize (Hgen (d_ops D) (fun o H => H) 0).
    destruct (fold_left _ (d_ops D) (Some 0)) as [k|]; [|exact Hgen].
    unfold var_steps_bound, op_nodes_sum, n_ops. change (n_spreads D) with T.
    fold (frag_nodes D) in *. nia.
  Qed.
End VarWalk.
