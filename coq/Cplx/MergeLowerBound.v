(** * Cplx/MergeLowerBound.v — defect 15 as a theorem about a family, for every n: the
    overlapping-fields pass of the pinned tree (nothing remembered, [memo = false]) calls
    validateSameResponseShape at least 6^(n-1) (>= 2^n) times on the document
      {...F0}  fragment Fi on T{a{...F(i+1)} a{...F(i+1)}} (i < n)  fragment Fn on T{i}
    of linear size.

    [mfam n] is that document with the tables indexed by functions: selection set 0 the
    operation's, 1+i the body of Fi (i <= n), n+2+i and 2n+2+i the sub-selections of its two fields
    (fields i and n+i); field 2n is the leaf of Fn. *)
From Coq Require Import List NArith ZArith Bool FMapPositive Lia PeanoNat.
From ApiFu Require Import Cplx.Tables Cplx.TablesProofs Cplx.MergeCountModel Cplx.ComplexityDecode
     Cplx.ComplexitySpec Cplx.MergeCountProofs.
Import ListNotations.
Open Scope Z_scope.

(** ** the number of validateSameResponseShape calls never decreases, and nothing runs out of fuel
    (for the algorithm with and without the checked pairs) *)
Section Mono.
  Variable memo : bool.
  Variable fields : arr field.
  Variable sets : arr (list item).
  Variable frags : arr fragdef.
  Variable nsets : nat.
  Hypothesis Hsets : forall s, (nsets <= N.to_nat s)%nat -> aget sets s = None.

  Definition mono (st : mst) (r : mres) : Prop :=
    match r with MOk st' | MErr st' => n_shape st <= n_shape st' | MOutOfFuel => False end.

  Lemma inner_loop_mono body x : forall r st,
    (forall y st, mono st (body x y st)) -> mono st (inner_loop body x r st).
  Proof.
    induction r as [|y r IH]; intros st Hb; cbn [inner_loop mono]; [lia|].
    pose proof (Hb y (tick 1 st)) as H1.
    destruct (body x y (tick 1 st)) as [st'|st'|]; cbn [mono tick n_shape] in H1 |- *; [|lia|exact H1].
    pose proof (IH st' Hb) as H2. destruct (inner_loop body x r st'); cbn [mono] in H2 |- *; lia.
  Qed.

  Lemma pairs_loop_mono body : forall l st,
    (forall x y st, mono st (body x y st)) -> mono st (pairs_loop body l st).
  Proof.
    induction l as [|x l IH]; intros st Hb; [cbn [pairs_loop mono]; lia|].
    rewrite pairs_loop_cons. pose proof (inner_loop_mono body x l st (Hb x)) as H1.
    destruct (inner_loop body x l st) as [st'|st'|]; cbn [mono] in H1 |- *; [|lia|exact H1].
    pose proof (IH st' Hb) as H2. destruct (pairs_loop body l st'); cbn [mono] in H2 |- *; lia.
  Qed.

  Lemma groups_loop_mono body : forall g st,
    (forall x y st, mono st (body x y st)) -> mono st (groups_loop body g st).
  Proof.
    induction g as [|[k l] g IH]; intros st Hb; cbn [groups_loop]; [cbn [mono]; lia|].
    pose proof (pairs_loop_mono body (rev l) st Hb) as H1.
    destruct (pairs_loop body (rev l) st) as [st'|st'|]; cbn [mono] in H1 |- *; [|lia|exact H1].
    pose proof (IH st' Hb) as H2. destruct (groups_loop body g st'); cbn [mono] in H2 |- *; lia.
  Qed.

  (** addFieldSelections leaves the counter alone; the resulting set is immaterial here *)
  Lemma add_fs_shape sub g st : gok fields g ->
    match add_fs fields sets frags nsets sub g st with
    | AOk g' _ st' => n_shape st' = n_shape st /\ gok fields g'
    | AErr st' => n_shape st' = n_shape st
    | AOutOfFuel => False
    end.
  Proof.
    intros Hg. pose proof (add_fs_ok fields sets frags nsets Hsets sub g st Hg) as H.
    destruct (add_fs fields sets frags nsets sub g st) as [g' v st'|st'|]; [|destruct H as [(_ & _ & H) _]; exact H|exact H].
    destruct H as ((_ & _ & H) & _ & _ & Hg'). split; assumption.
  Qed.

  Lemma same_shape_mono : forall d a b st, mono st (same_shape memo fields sets frags nsets d a b st).
  Proof.
    induction d as [|d IH]; intros a b st; cbn [same_shape]; [cbn [mono count_shape n_shape]; lia|].
    set (st1 := count_shape st). assert (H1 : n_shape st1 = n_shape st + 1) by reflexivity.
    destruct (tracked memo a b && pmem (fst a) (fst b) (m_shape st1)); [cbn [mono]; lia|].
    set (st2 := if tracked memo a b then set_shape (padd (fst a) (fst b) (m_shape st1)) st1 else st1).
    assert (H2 : n_shape st2 = n_shape st1) by (unfold st2; destruct (tracked memo a b); reflexivity).
    destruct (f_ty (snd a)) as [ta|]; [|cbn [mono]; lia].
    destruct (f_ty (snd b)) as [tb|]; [|cbn [mono]; lia].
    destruct (compare_types ta tb); try (cbn [mono]; lia).
    pose proof (add_fs_shape (f_sub (snd a)) [] st2 (gok_nil fields)) as H3.
    destruct (add_fs fields sets frags nsets (f_sub (snd a)) [] st2) as [g v st3|st3|]; [|cbn [mono]; lia|exact H3].
    destruct H3 as [H3 Hg].
    pose proof (add_fs_shape (f_sub (snd b)) g st3 Hg) as H4.
    destruct (add_fs fields sets frags nsets (f_sub (snd b)) g st3) as [g2 v2 st4|st4|]; [|cbn [mono]; lia|exact H4].
    destruct H4 as [H4 Hg2].
    pose proof (groups_loop_mono (same_shape memo fields sets frags nsets d) g2 st4 IH) as H5.
    destruct (groups_loop (same_shape memo fields sets frags nsets d) g2 st4); cbn [mono] in H5 |- *; lia.
  Qed.

  (** the body of the pair loop from the point where validateSameResponseShape has returned *)
  Definition after_shape (recur : groups -> mst -> mres) (a b : entry) (st : mst) : mres :=
    match f_ptype (snd a), f_ptype (snd b) with
    | Some (pa, oa), Some (pb, ob) =>
        if N.eqb pa pb || negb oa || negb ob then
          if negb (N.eqb (f_name (snd a)) (f_name (snd b))) then MErr st
          else
            let st := tick (f_weight (snd a) + f_weight (snd b)) st in
            if negb (N.eqb (f_args (snd a)) (f_args (snd b))) then MErr st
            else
              match add_fs fields sets frags nsets (f_sub (snd a)) [] st with
              | AOk g _ st =>
                  match add_fs fields sets frags nsets (f_sub (snd b)) g st with
                  | AOk g _ st => recur g st
                  | AErr st => MErr st
                  | AOutOfFuel => MOutOfFuel
                  end
              | AErr st => MErr st
              | AOutOfFuel => MOutOfFuel
              end
        else MOk st
    | _, _ => MErr st
    end.

  Lemma after_shape_mono recur a b st : (forall g st, mono st (recur g st)) -> mono st (after_shape recur a b st).
  Proof.
    intros Hrec. unfold after_shape.
    destruct (f_ptype (snd a)) as [[pa oa]|]; [|cbn [mono]; lia].
    destruct (f_ptype (snd b)) as [[pb ob]|]; [|cbn [mono]; lia].
    destruct (N.eqb pa pb || negb oa || negb ob); [|cbn [mono]; lia].
    destruct (negb (N.eqb (f_name (snd a)) (f_name (snd b)))); [cbn [mono]; lia|].
    cbv zeta. set (st3 := tick (f_weight (snd a) + f_weight (snd b)) st).
    assert (H3 : n_shape st3 = n_shape st) by reflexivity.
    destruct (negb (N.eqb (f_args (snd a)) (f_args (snd b)))); [cbn [mono]; lia|].
    pose proof (add_fs_shape (f_sub (snd a)) [] st3 (gok_nil fields)) as H4.
    destruct (add_fs fields sets frags nsets (f_sub (snd a)) [] st3) as [g v st4|st4|]; [|cbn [mono]; lia|exact H4].
    destruct H4 as [H4 Hg].
    pose proof (add_fs_shape (f_sub (snd b)) g st4 Hg) as H5.
    destruct (add_fs fields sets frags nsets (f_sub (snd b)) g st4) as [g2 v2 st5|st5|]; [|cbn [mono]; lia|exact H5].
    destruct H5 as [H5 Hg2]. pose proof (Hrec g2 st5) as H6.
    destruct (recur g2 st5); cbn [mono] in H6 |- *; lia.
  Qed.

  Lemma pair_body_unfold d recur a b st :
    pair_body memo fields sets frags nsets d recur a b st =
    if tracked memo a b && pmem (fst a) (fst b) (m_can st) then MOk st
    else match same_shape memo fields sets frags nsets d a b
                          (if tracked memo a b then set_can (padd (fst a) (fst b) (m_can st)) st else st) with
         | MOk st1 => after_shape recur a b st1
         | r => r
         end.
  Proof. reflexivity. Qed.

  Lemma pair_body_mono d recur a b st : (forall g st, mono st (recur g st)) ->
    mono st (pair_body memo fields sets frags nsets d recur a b st).
  Proof.
    intros Hrec. rewrite pair_body_unfold.
    destruct (tracked memo a b && pmem (fst a) (fst b) (m_can st)); [cbn [mono]; lia|].
    set (st0 := if tracked memo a b then set_can (padd (fst a) (fst b) (m_can st)) st else st).
    assert (H0 : n_shape st0 = n_shape st) by (unfold st0; destruct (tracked memo a b); reflexivity).
    pose proof (same_shape_mono d a b st0) as H1.
    destruct (same_shape memo fields sets frags nsets d a b st0) as [st1|st1|]; cbn [mono] in H1 |- *; [|lia|exact H1].
    pose proof (after_shape_mono recur a b st1 Hrec) as H2.
    destruct (after_shape recur a b st1); cbn [mono] in H2 |- *; lia.
  Qed.

  Lemma can_merge_mono : forall d g st, mono st (can_merge memo fields sets frags nsets d g st).
  Proof.
    induction d as [|d IH]; intros g st; cbn [can_merge].
    - pose proof (groups_loop_mono (pair_body memo fields sets frags nsets 0 (fun _ st => MErr st)) g (count_can st)
                    (fun x y st0 => pair_body_mono 0 (fun _ st => MErr st) x y st0 (fun _ st' => Z.le_refl (n_shape st')))) as H.
      destruct (groups_loop _ g (count_can st)); cbn [mono count_can n_shape] in H |- *; lia.
    - pose proof (groups_loop_mono (pair_body memo fields sets frags nsets (S d) (can_merge memo fields sets frags nsets d)) g (count_can st)
                    (fun x y st0 => pair_body_mono (S d) (can_merge memo fields sets frags nsets d) x y st0 IH)) as H.
      destruct (groups_loop _ g (count_can st)); cbn [mono count_can n_shape] in H |- *; lia.
  Qed.

  Lemma merge_pass_mono dmax : forall order skip st, mono st (merge_pass memo fields sets frags nsets dmax order skip st).
  Proof.
    induction order as [|[s nested] order IH]; intros skip st; cbn [merge_pass]; [cbn [mono]; lia|].
    destruct skip as [|k]; [|apply IH].
    pose proof (add_fs_shape (Some s) [] (tick 1 st) (gok_nil fields)) as H1.
    destruct (add_fs fields sets frags nsets (Some s) [] (tick 1 st)) as [g v st2|st2|]; [| |exact H1].
    - destruct H1 as [H1 _]. cbn [tick n_shape] in H1.
      pose proof (can_merge_mono dmax g st2) as H2.
      destruct (can_merge memo fields sets frags nsets dmax g st2) as [st3|st3|]; cbn [mono] in H2; [| |exact H2].
      + pose proof (IH O st3) as H3. destruct (merge_pass memo fields sets frags nsets dmax order 0 st3); cbn [mono] in H3 |- *; lia.
      + pose proof (IH nested (error_and_reset true st3)) as H3.
        destruct (merge_pass memo fields sets frags nsets dmax order nested (error_and_reset true st3)); cbn [mono error_and_reset n_shape] in H3 |- *; lia.
    - cbn [tick n_shape] in H1. pose proof (IH nested (error_and_reset false st2)) as H3.
      destruct (merge_pass memo fields sets frags nsets dmax order nested (error_and_reset false st2)); cbn [mono error_and_reset n_shape] in H3 |- *; lia.
  Qed.
End Mono.

(** ** the family *)
Definition obj_t : ty := {| t_wraps := []; t_name := 1%N; t_leaf := false |}.
Definition int_t : ty := {| t_wraps := []; t_name := 2%N; t_leaf := true |}.
Definition ofield (sub : nat) : field :=
  {| f_key := 1%N; f_name := 1%N; f_args := 0%N; f_ty := Some obj_t; f_ptype := Some (1%N, true);
     f_sub := Some (N.of_nat sub); f_weight := 2 |}.
Definition lfield : field :=
  {| f_key := 2%N; f_name := 2%N; f_args := 0%N; f_ty := Some int_t; f_ptype := Some (1%N, true);
     f_sub := None; f_weight := 2 |}.

Definition mfield (n k : nat) : field :=
  (if k <? n then ofield (n + 2 + k) else if k <? 2 * n then ofield (2 * n + 2 + (k - n)) else lfield)%nat.

Definition mset (n s : nat) : list item :=
  (if s =? 0 then [ISpread 0%N]
   else if s <=? n then [IField (N.of_nat (s - 1)); IField (N.of_nat (n + (s - 1)))]
   else if s =? n + 1 then [IField (N.of_nat (2 * n))]
   else if s <? 2 * n + 2 then [ISpread (N.of_nat (s - n - 2 + 1))]
   else [ISpread (N.of_nat (s - 2 * n - 2 + 1))])%nat.

Definition mfrag (j : nat) : fragdef :=
  {| fr_name := N.of_nat j; fr_root := N.of_nat (S j); fr_nodes := 13; fr_hdr := 2 |}.

Definition mfam (n : nat) : doc :=
  {| d_fields := map (mfield n) (seq 0 (2 * n + 1));
     d_sets := map (mset n) (seq 0 (3 * n + 2));
     d_order := map (fun s => (N.of_nat s, O)) (seq 0 (3 * n + 2));
     d_frags := map mfrag (seq 0 (S n));
     d_ops := [{| op_root := 0%N; op_nodes := 4; op_hdr := 1 |}];
     d_nodes := 13 * Z.of_nat n + 9 |}.

(** calls on the pair of the two fields of F(n-k): 1, 2, 13, 79, 475, ... *)
Fixpoint pw (k : nat) : Z :=
  match k with
  | O => 1
  | S k' => match k' with O => 2 | S _ => 1 + 6 * pw k' end
  end.

Lemma pw_pos k : 1 <= pw k.
Proof. induction k as [|[|k] IH]; cbn [pw] in *; lia. Qed.

Lemma pw_ge_pow2 k : 2 ^ Z.of_nat k <= pw k.
Proof.
  induction k as [|[|k] IH]; [cbn; lia|cbn; lia|].
  change (pw (S (S k))) with (1 + 6 * pw (S k)).
  replace (Z.of_nat (S (S k))) with (Z.of_nat (S k) + 1) by lia. rewrite Z.pow_add_r, Z.pow_1_r by lia. lia.
Qed.

Lemma pw_ge_pow6 k : 6 ^ Z.of_nat k <= 3 * pw (S k).
Proof.
  induction k as [|k IH]; [cbn; lia|].
  change (pw (S (S k))) with (1 + 6 * pw (S k)).
  replace (Z.of_nat (S k)) with (Z.of_nat k + 1) by lia. rewrite Z.pow_add_r, Z.pow_1_r by lia. lia.
Qed.

Fixpoint tri (m : nat) : Z := match m with O => 0 | S m' => Z.of_nat m' + tri m' end.

Definition lb (c : Z) (st : mst) (r : mres) : Prop :=
  match r with MOk st' | MErr st' => n_shape st + c <= n_shape st' | MOutOfFuel => False end.

Lemma inner_loop_lb body x c : 0 <= c -> forall r st,
  (forall y st, In y r -> exists st', body x y st = MOk st' /\ n_shape st + c <= n_shape st') ->
  exists st', inner_loop body x r st = MOk st' /\ n_shape st + Z.of_nat (length r) * c <= n_shape st'.
Proof.
  intros Hc. induction r as [|y r IH]; intros st Hb; cbn [inner_loop length].
  - exists st. split; [reflexivity|lia].
  - destruct (Hb y (tick 1 st) (or_introl eq_refl)) as (st1 & E1 & L1). rewrite E1.
    destruct (IH st1 (fun y0 st0 Hy => Hb y0 st0 (or_intror Hy))) as (st2 & E2 & L2).
    exists st2. split; [exact E2|]. cbn [tick n_shape] in L1. nia.
Qed.

Lemma pairs_loop_lb body c : 0 <= c -> forall l st,
  (forall x y st, In x l -> In y l -> exists st', body x y st = MOk st' /\ n_shape st + c <= n_shape st') ->
  exists st', pairs_loop body l st = MOk st' /\ n_shape st + tri (length l) * c <= n_shape st'.
Proof.
  intros Hc. induction l as [|x l IH]; intros st Hb.
  - exists st. split; [reflexivity|cbn [length tri]; lia].
  - rewrite pairs_loop_cons.
    destruct (inner_loop_lb body x c Hc l st (fun y st0 Hy => Hb x y st0 (or_introl eq_refl) (or_intror Hy))) as (st1 & E1 & L1).
    rewrite E1.
    destruct (IH st1 (fun x0 y0 st0 Hx Hy => Hb x0 y0 st0 (or_intror Hx) (or_intror Hy))) as (st2 & E2 & L2).
    exists st2. split; [exact E2|]. cbn [length tri]. nia.
Qed.

Section Family.
  Variable n : nat.
  Let D := mfam n.
  Let fields := arr_of_list (d_fields D).
  Let sets := arr_of_list (d_sets D).
  Let frags := frag_table D.
  Let nsets := length (d_sets D).

  Definition ea (i : nat) : entry := (N.of_nat i, mfield n i).
  Definition eb (i : nat) : entry := (N.of_nat (n + i), mfield n (n + i)).
  Definition el : entry := (N.of_nat (2 * n), mfield n (2 * n)).
  Definition lv (j : nat) : list entry := if (j <? n)%nat then [ea j; eb j] else [el].
  Definition push (l : list entry) (g : groups) : groups :=
    fold_left (fun g e => group_add (f_key (snd e)) e g) l g.

  Lemma nsets_eq : nsets = (3 * n + 2)%nat.
  Proof. unfold nsets, D, mfam. cbn [d_sets]. now rewrite map_length, seq_length. Qed.

  Lemma sets_at s : (s < 3 * n + 2)%nat -> aget sets (N.of_nat s) = Some (mset n s).
  Proof. intros H. unfold sets, D, mfam. cbn [d_sets]. rewrite aget_map_seq; rewrite Nat2N.id; [reflexivity|exact H]. Qed.

  Lemma fields_at k : (k < 2 * n + 1)%nat -> aget fields (N.of_nat k) = Some (mfield n k).
  Proof. intros H. unfold fields, D, mfam. cbn [d_fields]. rewrite aget_map_seq; rewrite Nat2N.id; [reflexivity|exact H]. Qed.

  Lemma frags_at j : (j <= n)%nat -> aget frags (N.of_nat j) = Some (mfrag j).
  Proof.
    intros H. unfold frags, frag_table, D, mfam. cbn [d_frags]. rewrite aget_map_of_assoc, map_map.
    change (fun x : nat => (fr_name (mfrag x), mfrag x)) with (fun i : nat => (N.of_nat i, mfrag i)).
    rewrite assoc_last_map_seq by lia. reflexivity.
  Qed.

  Lemma mfield_a j : (j < n)%nat -> mfield n j = ofield (n + 2 + j).
  Proof. intros H. unfold mfield. destruct (Nat.ltb_spec j n); [reflexivity|lia]. Qed.
  Lemma mfield_b j : (j < n)%nat -> mfield n (n + j) = ofield (2 * n + 2 + j).
  Proof.
    intros H. unfold mfield. destruct (Nat.ltb_spec (n + j) n); [lia|].
    destruct (Nat.ltb_spec (n + j) (2 * n)); [|lia]. f_equal. lia.
  Qed.
  Lemma mfield_l : mfield n (2 * n) = lfield.
  Proof. unfold mfield. destruct (Nat.ltb_spec (2 * n) n); [lia|]. destruct (Nat.ltb_spec (2 * n) (2 * n)); [lia|reflexivity]. Qed.

  (** visiting the body of Fj for the first time adds its fields *)
  Lemma visit_root j f g vs st : (j <= n)%nat -> nmem (N.of_nat (S j)) vs = false ->
    exists vs' st', add_fs_cd fields sets frags (S f) (N.of_nat (S j)) g vs st = AOk (push (lv j) g) vs' st'
                    /\ n_shape st' = n_shape st.
  Proof.
    intros Hj Hn. rewrite add_fs_cd_S. cbv zeta. rewrite Hn. unfold items. rewrite sets_at by lia.
    unfold mset, lv. destruct (Nat.eqb_spec (S j) 0); [lia|].
    destruct (Nat.leb_spec (S j) n) as [Hlt|Hge].
    - destruct (Nat.ltb_spec j n); [|lia]. cbn [each_loop].
      replace (S j - 1)%nat with j by lia.
      rewrite (fields_at j), (fields_at (n + j)) by lia.
      eexists. eexists. split; [reflexivity|reflexivity].
    - destruct (Nat.eqb_spec (S j) (n + 1)); [|lia]. destruct (Nat.ltb_spec j n); [lia|].
      cbn [each_loop]. rewrite (fields_at (2 * n)) by lia.
      eexists. eexists. split; [reflexivity|reflexivity].
  Qed.

  (** addFieldSelections on a selection set that consists of the spread of Fj *)
  Lemma add_fs_spread sA j g st : (sA < 3 * n + 2)%nat -> mset n sA = [ISpread (N.of_nat j)] -> (j <= n)%nat -> S j <> sA ->
    exists vs' st', add_fs fields sets frags nsets (Some (N.of_nat sA)) g st = AOk (push (lv j) g) vs' st'
                    /\ n_shape st' = n_shape st.
  Proof.
    intros HsA Hset Hj Hne. unfold add_fs. rewrite add_fs_cd_S. cbv zeta. rewrite nmem_nempty.
    unfold items. rewrite sets_at by exact HsA. rewrite Hset. cbn [each_loop]. rewrite frags_at by exact Hj.
    cbn [mfrag fr_root].
    destruct (visit_root j nsets g (nadd (N.of_nat sA) nempty) (tick 1 (count_addfscd (count_addfs st))) Hj) as (vs' & st' & E & Hs).
    { rewrite nmem_nadd, nmem_nempty. destruct (N.eqb_spec (N.of_nat (S j)) (N.of_nat sA)); [lia|reflexivity]. }
    rewrite E. exists vs', st'. split; [reflexivity|exact Hs].
  Qed.

  (** the sub-selection of a field of Fi (i < n) is the spread of F(i+1) *)
  Lemma add_fs_sub i x g st : (i < n)%nat -> In x (lv i) ->
    exists vs' st', add_fs fields sets frags nsets (f_sub (snd x)) g st = AOk (push (lv (S i)) g) vs' st'
                    /\ n_shape st' = n_shape st.
  Proof.
    intros Hi Hx. unfold lv in Hx. destruct (Nat.ltb_spec i n); [|lia].
    destruct Hx as [<-|[<-|[]]]; cbn [ea eb snd].
    - rewrite mfield_a by exact Hi. cbn [ofield f_sub]. apply add_fs_spread; try lia.
      unfold mset. destruct (Nat.eqb_spec (n + 2 + i) 0); [lia|]. destruct (Nat.leb_spec (n + 2 + i) n); [lia|].
      destruct (Nat.eqb_spec (n + 2 + i) (n + 1)); [lia|]. destruct (Nat.ltb_spec (n + 2 + i) (2 * n + 2)); [|lia].
      do 3 f_equal. lia.
    - rewrite mfield_b by exact Hi. cbn [ofield f_sub]. apply add_fs_spread; try lia.
      unfold mset. destruct (Nat.eqb_spec (2 * n + 2 + i) 0); [lia|]. destruct (Nat.leb_spec (2 * n + 2 + i) n); [lia|].
      destruct (Nat.eqb_spec (2 * n + 2 + i) (n + 1)); [lia|]. destruct (Nat.ltb_spec (2 * n + 2 + i) (2 * n + 2)); [lia|].
      do 3 f_equal. lia.
  Qed.

  Lemma lv_ty_obj i x : (i < n)%nat -> In x (lv i) -> f_ty (snd x) = Some obj_t /\ f_key (snd x) = 1%N.
  Proof.
    intros Hi Hx. unfold lv in Hx. destruct (Nat.ltb_spec i n); [|lia].
    destruct Hx as [<-|[<-|[]]]; cbn [ea eb snd]; [rewrite mfield_a by exact Hi|rewrite mfield_b by exact Hi]; split; reflexivity.
  Qed.

  Lemma lv_n x : In x (lv n) -> x = el /\ f_ty (snd x) = Some int_t.
  Proof.
    unfold lv. destruct (Nat.ltb_spec n n); [lia|]. intros [<-|[]]. split; [reflexivity|].
    cbn [el snd]. now rewrite mfield_l.
  Qed.

  (** the merged set of two fields of Fi *)
  Lemma merged_set i : (i < n)%nat ->
    push (lv (S i)) (push (lv (S i)) []) =
    if (S i <? n)%nat then [(1%N, [eb (S i); ea (S i); eb (S i); ea (S i)])] else [(2%N, [el; el])].
  Proof.
    intros Hi. unfold lv. destruct (Nat.ltb_spec (S i) n) as [Hlt|Hge].
    - unfold push. cbn [fold_left ea eb snd]. rewrite (mfield_a (S i)), (mfield_b (S i)) by exact Hlt. cbn [ofield f_key group_add N.eqb Pos.eqb]. reflexivity.
    - unfold push. cbn [fold_left el snd]. rewrite mfield_l. cbn [lfield f_key group_add N.eqb Pos.eqb]. reflexivity.
  Qed.

  (** validateSameResponseShape on two fields of F(n-k) calls itself at least [pw k] times *)
  Lemma same_shape_lb : forall k i d, (i + k = n)%nat -> (k < d)%nat ->
    forall x y, In x (lv i) -> In y (lv i) -> forall st,
      exists st', same_shape false fields sets frags nsets d x y st = MOk st' /\ n_shape st + pw k <= n_shape st'.
  Proof.
    induction k as [|k IH]; intros i d Hik Hd x y Hx Hy st; (destruct d as [|d]; [lia|]).
    - assert (i = n) by lia. subst i. destruct (lv_n x Hx) as [-> Tx]. destruct (lv_n y Hy) as [-> Ty].
      cbn [same_shape tracked andb]. rewrite Tx. cbn [pw].
      eexists. split; [reflexivity|]. cbn [count_shape n_shape]. lia.
    - assert (Hi : (i < n)%nat) by lia.
      destruct (lv_ty_obj i x Hi Hx) as [Tx _]. destruct (lv_ty_obj i y Hi Hy) as [Ty _].
      cbn [same_shape tracked andb]. rewrite Tx, Ty.
      change (compare_types obj_t obj_t) with ShapeComposite. cbv iota.
      destruct (add_fs_sub i x [] (count_shape st) Hi Hx) as (v1 & st1 & E1 & S1). rewrite E1.
      destruct (add_fs_sub i y (push (lv (S i)) []) st1 Hi Hy) as (v2 & st2 & E2 & S2). rewrite E2.
      rewrite merged_set by exact Hi.
      assert (Hin : forall z, In z (if (S i <? n)%nat then [ea (S i); eb (S i); ea (S i); eb (S i)] else [el; el]) -> In z (lv (S i))).
      { intros z Hz. unfold lv. destruct (S i <? n)%nat; cbn [In] in *; intuition. }
      destruct (Nat.ltb_spec (S i) n) as [Hlt|Hge].
      + cbn [groups_loop rev app].
        destruct (pairs_loop_lb (same_shape false fields sets frags nsets d) (pw k) ltac:(pose proof (pw_pos k); lia)
                                [ea (S i); eb (S i); ea (S i); eb (S i)] st2) as (st3 & E3 & L3).
        { intros a b st0 Ha Hb. apply (IH (S i) d); try lia; apply Hin; assumption. }
        rewrite E3. exists st3. split; [reflexivity|].
        destruct k as [|k]; [lia|]. change (pw (S (S k))) with (1 + 6 * pw (S k)).
        cbn [length tri] in L3. cbn [count_shape n_shape] in S1. lia.
      + cbn [groups_loop rev app].
        destruct (pairs_loop_lb (same_shape false fields sets frags nsets d) (pw k) ltac:(pose proof (pw_pos k); lia)
                                [el; el] st2) as (st3 & E3 & L3).
        { intros a b st0 Ha Hb. apply (IH (S i) d); try lia; apply Hin; assumption. }
        rewrite E3. exists st3. split; [reflexivity|].
        assert (k = 0)%nat by lia. subst k. cbn [pw length tri] in *. cbn [count_shape n_shape] in S1. lia.
  Qed.
End Family.

Section Top.
  Variable n : nat.
  Hypothesis Hn : (1 <= n)%nat.
  Let D := mfam n.
  Let fields := arr_of_list (d_fields D).
  Let sets := arr_of_list (d_sets D).
  Let frags := frag_table D.
  Let nsets := length (d_sets D).

  Lemma mfam_Hsets : forall s, (nsets <= N.to_nat s)%nat -> aget sets s = None.
  Proof. exact (doc_Hsets D). Qed.

  Theorem merge_exponential_before_fix :
    match merge_run false (mfam n) with
    | MOk st | MErr st => pw n <= n_shape st
    | MOutOfFuel => False
    end.
  Proof.
    unfold merge_run. fold D. fold fields sets frags nsets.
    set (dmax := S (length (d_fields D))).
    assert (Hord : d_order D = (0%N, O) :: map (fun s => (N.of_nat s, O)) (seq 1 (3 * n + 1))).
    { unfold D, mfam. cbn [d_order]. replace (3 * n + 2)%nat with (S (3 * n + 1)) by lia. reflexivity. }
    rewrite Hord. cbn [merge_pass].
    (* the operation's selection set is the spread of F0 *)
    destruct (add_fs_spread n 0 0 [] (tick 1 mst0) ltac:(lia) eq_refl ltac:(lia) ltac:(lia)) as (v & st1 & E1 & S1).
    change (N.of_nat 0) with 0%N in E1. fold D fields sets frags nsets in E1. rewrite E1.
    assert (Hg : push (lv n 0) [] = [(1%N, [eb n 0; ea n 0])]).
    { unfold lv. destruct (Nat.ltb_spec 0 n); [|lia]. unfold push. cbn [fold_left ea eb snd].
      rewrite (mfield_a n 0), (mfield_b n 0) by lia. cbn [ofield f_key group_add N.eqb Pos.eqb]. reflexivity. }
    rewrite Hg.
    (* the one pair of that set *)
    assert (Hcm : lb (pw n) st1 (can_merge false fields sets frags nsets dmax [(1%N, [eb n 0; ea n 0])] st1)).
    { unfold dmax. cbn [can_merge groups_loop rev app]. rewrite pairs_loop_cons. cbn [inner_loop].
      rewrite pair_body_unfold. cbn [tracked andb].
      assert (Hd : (n < S (length (d_fields D)))%nat).
      { unfold D, mfam. cbn [d_fields]. rewrite map_length, seq_length. lia. }
      destruct (same_shape_lb n n 0 (S (length (d_fields D))) ltac:(lia) Hd (ea n 0) (eb n 0)) with (st := tick 1 (count_can st1))
        as (st2 & E2 & L2).
      { unfold lv. destruct (Nat.ltb_spec 0 n); [left; reflexivity|lia]. }
      { unfold lv. destruct (Nat.ltb_spec 0 n); [right; left; reflexivity|lia]. }
      fold D fields sets frags nsets in E2. rewrite E2.
      pose proof (after_shape_mono fields sets frags nsets mfam_Hsets
                    (can_merge false fields sets frags nsets (length (d_fields D))) (ea n 0) (eb n 0) st2
                    (can_merge_mono false fields sets frags nsets mfam_Hsets (length (d_fields D)))) as H3.
      cbn [tick count_can n_shape] in L2.
      destruct (after_shape fields sets frags nsets _ (ea n 0) (eb n 0) st2) as [st3|st3|]; cbn [mono lb] in H3 |- *; [|lia|exact H3].
      cbn [pairs_loop]. cbn [lb]. lia. }
    cbn [tick mst0 n_shape] in S1.
    destruct (can_merge false fields sets frags nsets dmax [(1%N, [eb n 0; ea n 0])] st1) as [st3|st3|]; cbn [lb] in Hcm; [| |exact Hcm].
    - pose proof (merge_pass_mono false fields sets frags nsets mfam_Hsets dmax
                    (map (fun s => (N.of_nat s, O)) (seq 1 (3 * n + 1))) O st3) as H4.
      destruct (merge_pass false fields sets frags nsets dmax _ 0 st3); cbn [mono] in H4 |- *; lia.
    - pose proof (merge_pass_mono false fields sets frags nsets mfam_Hsets dmax
                    (map (fun s => (N.of_nat s, O)) (seq 1 (3 * n + 1))) O (error_and_reset true st3)) as H4.
      destruct (merge_pass false fields sets frags nsets dmax _ 0 (error_and_reset true st3)); cbn [mono error_and_reset n_shape] in H4 |- *; lia.
  Qed.
End Top.

Lemma mfam_size n : doc_size (mfam n) = 13 * Z.of_nat n + 11.
Proof.
  unfold doc_size, n_fields, n_sets, n_items, n_visits, n_frags, n_ops, max_weight, mfam.
  cbn [d_fields d_sets d_order d_frags d_ops].
  rewrite !map_length, !seq_length.
  assert (Hitems : forall m a, (a + m <= 3 * n + 2)%nat ->
            Z.of_nat (length (concat (map (mset n) (seq a m)))) =
            Z.of_nat m + Z.of_nat (length (filter (fun s => (1 <=? s) && (s <=? n))%nat (seq a m)))).
  { induction m as [|m IH]; intros a Ha; [reflexivity|].
    cbn [seq map concat filter]. rewrite app_length, Nat2Z.inj_add, IH by lia.
    unfold mset. destruct (Nat.eqb_spec a 0) as [->|Hne]; [cbn [Nat.leb andb length]; lia|].
    destruct (Nat.leb_spec a n).
    - replace (1 <=? a)%nat with true by (symmetry; apply Nat.leb_le; lia). cbn [andb length]. lia.
    - replace ((1 <=? a)%nat && false) with false by (destruct (1 <=? a)%nat; reflexivity).
      destruct (a =? n + 1)%nat; [cbn [length]; lia|]. destruct (a <? 2 * n + 2)%nat; cbn [length]; lia. }
  rewrite (Hitems (3 * n + 2)%nat 0%nat) by lia.
  assert (Hf : forall m a, length (filter (fun s => (1 <=? s) && (s <=? n))%nat (seq a m)) =
                           (Nat.min (a + m) (S n) - Nat.max a 1)%nat).
  { induction m as [|m IH]; intros a; cbn [seq filter length]; [lia|].
    destruct (Nat.leb_spec 1 a), (Nat.leb_spec a n); cbn [andb length]; rewrite IH; lia. }
  rewrite Hf.
  assert (Hw : fold_right (fun f m => Z.max (f_weight f) m) 0 (map (mfield n) (seq 0 (2 * n + 1))) = 2).
  { assert (H : forall l, l <> [] -> fold_right (fun f m => Z.max (f_weight f) m) 0 (map (mfield n) l) = 2).
    { induction l as [|k l IH]; intros Hl; [congruence|]. cbn [map fold_right].
      assert (Hk : f_weight (mfield n k) = 2) by (unfold mfield; destruct (k <? n)%nat; [reflexivity|destruct (k <? 2 * n)%nat; reflexivity]).
      rewrite Hk. destruct l as [|k' l]; [cbn; lia|]. rewrite IH by congruence. lia. }
    apply H. replace (2 * n + 1)%nat with (S (2 * n)) by lia. cbn [seq]. congruence. }
  rewrite Hw. cbn [length]. lia.
Qed.

(** the family in one statement *)
Theorem merge_family_exponential_before_fix : forall n : nat, (1 <= n)%nat ->
  doc_size (mfam n) = 13 * Z.of_nat n + 11 /\
  match merge_run false (mfam n) with
  | MOk st | MErr st => 2 ^ Z.of_nat n <= n_shape st /\ 6 ^ Z.of_nat (n - 1) <= 3 * n_shape st
  | MOutOfFuel => False
  end.
Proof.
  intros n Hn. split; [apply mfam_size|].
  pose proof (merge_exponential_before_fix n Hn) as H. pose proof (pw_ge_pow2 n) as H2.
  pose proof (pw_ge_pow6 (n - 1)) as H6. replace (S (n - 1)) with n in H6 by lia.
  destruct (merge_run false (mfam n)); [split; lia|split; lia|exact H].
Qed.
