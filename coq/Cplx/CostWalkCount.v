(** * Cplx/CostWalkCount.v — graphql/validator/validate_cost.go, [visitNode]: the walk over the
    selected operation that expands a fragment definition at every spread of it.  [fragments] (the
    names on the current expansion path) is added to before and deleted from after each expansion,
    so the same fragment is walked again for every spread that reaches it.  Counted: visited
    selections, weighted by the AST nodes ast.Inspect touches for them.  Any error (unknown field,
    undefined fragment, fragment cycle) ends the count (the real walk stops descending).
    No proofs in this file. *)
From Coq Require Import List NArith ZArith Bool FMapPositive.
From ApiFu Require Import Cplx.Tables Cplx.MergeCountModel.
Import ListNotations.
Open Scope Z_scope.

Record cst := { c_steps : Z; c_fields : Z; c_expansions : Z }.
Inductive cres := COk (st : cst) | CErr (st : cst) | COutOfFuel.

Definition ctick (k : Z) (st : cst) : cst :=
  {| c_steps := c_steps st + k; c_fields := c_fields st; c_expansions := c_expansions st |}.
Definition cfield (k : Z) (st : cst) : cst :=
  {| c_steps := c_steps st + k; c_fields := c_fields st + 1; c_expansions := c_expansions st |}.
Definition cexpand (k : Z) (st : cst) : cst :=
  {| c_steps := c_steps st + k; c_fields := c_fields st; c_expansions := c_expansions st + 1 |}.

Section Cost.
  Variable fields : arr field.
  Variable sets : arr (list item).
  Variable frags : arr fragdef.

  (** ast.Inspect over one selection set with the visitor of ValidateCost *)
  Fixpoint cost_set (fuel : nat) (s : N) (onpath : nset) (st : cst) : cres :=
    match fuel with
    | O => COutOfFuel
    | S f =>
        (fix each (its : list item) (st : cst) : cres :=
           match its with
           | [] => COk st
           | it :: its' =>
               match it with
               | IField fid =>
                   match aget fields fid with
                   | None => each its' st
                   | Some fr =>
                       match f_ty fr with
                       | None => CErr (cfield (f_weight fr) st)            (* unknown field type *)
                       | Some _ =>
                           let st := cfield (f_weight fr) st in
                           match f_sub fr with
                           | None => each its' st
                           | Some s' => match cost_set f s' onpath st with
                                        | COk st' => each its' st'
                                        | r => r
                                        end
                           end
                       end
                   end
               | IInline s' =>
                   match cost_set f s' onpath (ctick 3 st) with
                   | COk st' => each its' st'
                   | r => r
                   end
               | ISpread nm =>
                   let st := ctick 2 st in
                   if nmem nm onpath then CErr st                          (* fragment cycle detected *)
                   else match aget frags nm with
                        | None => CErr st                                  (* undefined fragment *)
                        | Some fd =>
                            match cost_set f (fr_root fd) (nadd nm onpath) (cexpand (fr_hdr fd) st) with
                            | COk st' => each its' st'                     (* delete(fragments, name) *)
                            | r => r
                            end
                        end
               end
           end) (match aget sets s with Some its => its | None => [] end) (ctick 1 st)
    end.
End Cost.

(** nesting of the walk: a selection set belongs to one definition, a definition is expanded at
    most once on a path, so no selection set occurs twice on a path *)
Definition cost_fuel (D : doc) : nat := S (S (length (d_sets D))).

(** the walk of ValidateCost("", ...): the two loops over doc.Definitions, then the selected
    operation; with "" exactly one operation must exist, else nothing is walked *)
Definition cost_run (D : doc) : cres :=
  let base := Z.of_nat (length (d_ops D) + length (d_frags D)) in
  match d_ops D with
  | [op] => cost_set (arr_of_list (d_fields D)) (arr_of_list (d_sets D)) (frag_table D)
                     (cost_fuel D) (op_root op) nempty
                     {| c_steps := base + op_hdr op; c_fields := 0; c_expansions := 0 |}
  | _ => COk {| c_steps := base; c_fields := 0; c_expansions := 0 |}
  end.
