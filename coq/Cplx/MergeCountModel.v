(** * Cplx/MergeCountModel.v — graphql/validator/validate_fields.go, second pass of validateFields:
    [addFieldSelections(WithCycleDetection)], [validateFieldsInSetCanMerge],
    [validateSameResponseShape], [alreadyChecked] as call-counting functions over an abstract
    document.  The recursion structure, the order of the tests, the early returns on the first
    error, the per-call [visited] set, the [depth] bound and the two sets of checked pairs are
    transcribed literally; what a step costs is a count ([m_steps]) of calls and loop iterations.

    The abstract document (built by the harness from the parsed AST and validator.NewTypeInfo):
    - [d_fields]: one record per ast.Field, index = identity of the node;
    - [d_sets]: one item list per ast.SelectionSet, index = identity of the node;
    - [d_order]: the selection sets in the order ast.Inspect meets them, each with the number of
      selection sets nested in it (what is skipped when the callback returns false);
    - [d_frags]: fragment definitions in document order (Go builds a map: the last one wins).

    [memo] = false gives the algorithm of the pinned tree (nothing is remembered).
    No proofs in this file. *)
From Coq Require Import List NArith ZArith Bool FMapPositive.
From ApiFu Require Import Cplx.Tables.
Import ListNotations.
Open Scope Z_scope.

(** a schema type as validateSameResponseShape looks at it: wrappers from the outside in
    ([true] = NonNull, [false] = List), identity of the named type, scalar-or-enum *)
Record ty := { t_wraps : list bool; t_name : N; t_leaf : bool }.

Record field := {
  f_key : N;                       (* response key: alias or name *)
  f_name : N;
  f_args : N;                      (* identity of the argument list up to valuesAreIdentical *)
  f_ty : option ty;                (* typeInfo.FieldDefinitions[f].Type; __typename: String!; None: unknown field *)
  f_ptype : option (N * bool);     (* typeInfo.SelectionSetTypes[parent]: identity, IsObjectType *)
  f_sub : option N;                (* f.SelectionSet *)
  f_weight : Z                     (* AST nodes of the field outside its selection set *)
}.

Inductive item := IField (fid : N) | IInline (ss : N) | ISpread (name : N).

Record fragdef := { fr_name : N; fr_root : N; fr_nodes : Z; fr_hdr : Z }.
Record opdef := { op_root : N; op_nodes : Z; op_hdr : Z }.

Record doc := {
  d_fields : list field;
  d_sets : list (list item);
  d_order : list (N * nat);
  d_frags : list fragdef;
  d_ops : list opdef;
  d_nodes : Z
}.

Definition entry := (N * field)%type.                  (* fieldAndParent: node identity + what is read of it *)
Definition groups := list (N * list entry).            (* map[string][]fieldAndParent, each slice newest first *)

Record mst := {
  m_steps : Z;
  m_can : pairset;                (* checked.canMerge *)
  m_shape : pairset;              (* checked.sameResponseShape *)
  m_inserts : Z;                  (* pairs put into either set since the beginning *)
  n_can : Z;                      (* calls of validateFieldsInSetCanMerge *)
  n_shape : Z;                    (* calls of validateSameResponseShape *)
  n_addfs : Z;                    (* calls of addFieldSelections *)
  n_addfscd : Z;                  (* calls of addFieldSelectionsWithCycleDetection *)
  m_errors : Z                    (* errors appended to ret by the merge pass *)
}.

Definition mst0 : mst :=
  {| m_steps := 0; m_can := pempty; m_shape := pempty; m_inserts := 0;
     n_can := 0; n_shape := 0; n_addfs := 0; n_addfscd := 0; m_errors := 0 |}.

Definition tick (k : Z) (st : mst) : mst :=
  {| m_steps := m_steps st + k; m_can := m_can st; m_shape := m_shape st; m_inserts := m_inserts st;
     n_can := n_can st; n_shape := n_shape st; n_addfs := n_addfs st; n_addfscd := n_addfscd st;
     m_errors := m_errors st |}.
Definition count_can (st : mst) : mst :=
  {| m_steps := m_steps st + 1; m_can := m_can st; m_shape := m_shape st; m_inserts := m_inserts st;
     n_can := n_can st + 1; n_shape := n_shape st; n_addfs := n_addfs st; n_addfscd := n_addfscd st;
     m_errors := m_errors st |}.
Definition count_shape (st : mst) : mst :=
  {| m_steps := m_steps st + 1; m_can := m_can st; m_shape := m_shape st; m_inserts := m_inserts st;
     n_can := n_can st; n_shape := n_shape st + 1; n_addfs := n_addfs st; n_addfscd := n_addfscd st;
     m_errors := m_errors st |}.
Definition count_addfs (st : mst) : mst :=
  {| m_steps := m_steps st + 1; m_can := m_can st; m_shape := m_shape st; m_inserts := m_inserts st;
     n_can := n_can st; n_shape := n_shape st; n_addfs := n_addfs st + 1; n_addfscd := n_addfscd st;
     m_errors := m_errors st |}.
Definition count_addfscd (st : mst) : mst :=
  {| m_steps := m_steps st + 1; m_can := m_can st; m_shape := m_shape st; m_inserts := m_inserts st;
     n_can := n_can st; n_shape := n_shape st; n_addfs := n_addfs st; n_addfscd := n_addfscd st + 1;
     m_errors := m_errors st |}.
Definition set_can (p : pairset) (st : mst) : mst :=
  {| m_steps := m_steps st; m_can := p; m_shape := m_shape st; m_inserts := m_inserts st + 1;
     n_can := n_can st; n_shape := n_shape st; n_addfs := n_addfs st; n_addfscd := n_addfscd st;
     m_errors := m_errors st |}.
Definition set_shape (p : pairset) (st : mst) : mst :=
  {| m_steps := m_steps st; m_can := m_can st; m_shape := p; m_inserts := m_inserts st + 1;
     n_can := n_can st; n_shape := n_shape st; n_addfs := n_addfs st; n_addfscd := n_addfscd st;
     m_errors := m_errors st |}.
(** ret = append(ret, err); checked = newCheckedFieldPairs() *)
Definition error_and_reset (reset : bool) (st : mst) : mst :=
  {| m_steps := m_steps st; m_can := if reset then pempty else m_can st;
     m_shape := if reset then pempty else m_shape st; m_inserts := m_inserts st;
     n_can := n_can st; n_shape := n_shape st; n_addfs := n_addfs st; n_addfscd := n_addfscd st;
     m_errors := m_errors st + 1 |}.

Inductive mres := MOk (st : mst) | MErr (st : mst) | MOutOfFuel.
Inductive ares := AOk (g : groups) (vs : nset) (st : mst) | AErr (st : mst) | AOutOfFuel.

(** fieldsForName[name] = append(fieldsForName[name], e) *)
Fixpoint group_add (k : N) (e : entry) (g : groups) : groups :=
  match g with
  | [] => [(k, [e])]
  | (k', l) :: g' => if N.eqb k k' then (k', e :: l) :: g' else (k', l) :: group_add k e g'
  end.

Inductive shape := ShapeErr | ShapeLeafOk | ShapeComposite.

Section Merge.
  Variable memo : bool.
  Variable fields : arr field.
  Variable sets : arr (list item).
  Variable frags : arr fragdef.          (* by name *)

  (** addFieldSelectionsWithCycleDetection on a non-nil selection set *)
  Fixpoint add_fs_cd (fuel : nat) (s : N) (g : groups) (vs : nset) (st : mst) : ares :=
    match fuel with
    | O => AOutOfFuel
    | S f =>
        let st := count_addfscd st in
        if nmem s vs then AOk g vs st                      (* already visited: its fields are there *)
        else
          let vs := nadd s vs in
          (fix each (its : list item) (g : groups) (vs : nset) (st : mst) : ares :=
             match its with
             | [] => AOk g vs st
             | it :: its' =>
                 let st := tick 1 st in
                 match it with
                 | IField fid =>
                     match aget fields fid with
                     | Some fr => each its' (group_add (f_key fr) (fid, fr) g) vs st
                     | None => each its' g vs st
                     end
                 | IInline s' =>
                     match add_fs_cd f s' g vs st with
                     | AOk g' vs' st' => each its' g' vs' st'
                     | r => r
                     end
                 | ISpread nm =>
                     match aget frags nm with
                     | None => AErr st                         (* undefined fragment *)
                     | Some fd =>
                         match add_fs_cd f (fr_root fd) g vs st with
                         | AOk g' vs' st' => each its' g' vs' st'
                         | r => r
                         end
                     end
                 end
             end) (match aget sets s with Some its => its | None => [] end) g vs st
    end.

  Variable nsets : nat.   (* number of selection sets: nesting of add_fs_cd cannot exceed it *)

  (** addFieldSelections(fieldsForName, selectionSet, fragmentDefinitions): a fresh visited set *)
  Definition add_fs (sub : option N) (g : groups) (st : mst) : ares :=
    let st := count_addfs st in
    match sub with
    | None => AOk g nempty (count_addfscd st)                 (* selectionSet == nil *)
    | Some s => add_fs_cd (S (S nsets)) s g nempty st
    end.

  (** alreadyChecked(set, a, b) for the two sets *)
  Definition tracked (a b : entry) : bool :=
    memo && (match f_sub (snd a) with Some _ => true | None => false end
             || match f_sub (snd b) with Some _ => true | None => false end).

  (** the for i / for j loops over one slice, oldest first *)
  Definition pairs_loop (body : entry -> entry -> mst -> mres) : list entry -> mst -> mres :=
    fix outer (l : list entry) (st : mst) : mres :=
      match l with
      | [] => MOk st
      | x :: r =>
          match (fix inner (r : list entry) (st : mst) : mres :=
                   match r with
                   | [] => MOk st
                   | y :: r' => match body x y (tick 1 st) with
                                | MOk st' => inner r' st'
                                | e => e
                                end
                   end) r st with
          | MOk st' => outer r st'
          | e => e
          end
      end.

  (** for _, fields := range fieldsForName *)
  Definition groups_loop (body : entry -> entry -> mst -> mres) : groups -> mst -> mres :=
    fix go (g : groups) (st : mst) : mres :=
      match g with
      | [] => MOk st
      | (_, l) :: g' => match pairs_loop body (rev l) st with
                        | MOk st' => go g' st'
                        | e => e
                        end
      end.

  (** the unwrapping loop of validateSameResponseShape; None = "cannot merge ..." *)
  Fixpoint unwrap (fuel : nat) (wa wb : list bool) : option unit :=
    match fuel with
    | O => None
    | S f =>
        let nn w := match w with true :: _ => true | _ => false end in
        let ls w := match w with false :: _ => true | _ => false end in
        let step2 wa wb :=
            if ls wa || ls wb then
              if ls wa && ls wb then unwrap f (tl wa) (tl wb) else None
            else Some tt in
        if nn wa || nn wb then
          if nn wa && nn wb then step2 (tl wa) (tl wb) else None
        else step2 wa wb
    end.

  Definition compare_types (ta tb : ty) : shape :=
    match unwrap (S (length (t_wraps ta) + length (t_wraps tb))) (t_wraps ta) (t_wraps tb) with
    | None => ShapeErr
    | Some _ =>
        if t_leaf ta || t_leaf tb then
          if N.eqb (t_name ta) (t_name tb) then ShapeLeafOk else ShapeErr
        else ShapeComposite
    end.

  (** validateSameResponseShape(fieldA, fieldB, ..., depth, checked) *)
  Fixpoint same_shape (d : nat) (a b : entry) (st : mst) : mres :=
    let st := count_shape st in
    match d with
    | O => MErr st                                           (* depth <= 0 *)
    | S d' =>
        let hit := tracked a b && pmem (fst a) (fst b) (m_shape st) in
        if hit then MOk st
        else
          let st := if tracked a b then set_shape (padd (fst a) (fst b) (m_shape st)) st else st in
          match f_ty (snd a), f_ty (snd b) with
          | Some ta, Some tb =>
              match compare_types ta tb with
              | ShapeErr => MErr st
              | ShapeLeafOk => MOk st
              | ShapeComposite =>
                  match add_fs (f_sub (snd a)) [] st with
                  | AOk g _ st =>
                      match add_fs (f_sub (snd b)) g st with
                      | AOk g _ st => groups_loop (same_shape d') g st
                      | AErr st => MErr st
                      | AOutOfFuel => MOutOfFuel
                      end
                  | AErr st => MErr st
                  | AOutOfFuel => MOutOfFuel
                  end
              end
          | _, _ => MErr st                                  (* no type info for field *)
          end
    end.

  (** the body of the j loop of validateFieldsInSetCanMerge *)
  Definition pair_body (d : nat) (recur : groups -> mst -> mres) (a b : entry) (st : mst) : mres :=
    let hit := tracked a b && pmem (fst a) (fst b) (m_can st) in
    if hit then MOk st                                       (* continue *)
    else
      let st := if tracked a b then set_can (padd (fst a) (fst b) (m_can st)) st else st in
      match same_shape d a b st with
      | MOk st =>
          match f_ptype (snd a), f_ptype (snd b) with
          | Some (pa, oa), Some (pb, ob) =>
              if N.eqb pa pb || negb oa || negb ob then
                if negb (N.eqb (f_name (snd a)) (f_name (snd b))) then MErr st
                else
                  let st := tick (f_weight (snd a) + f_weight (snd b)) st in
                  if negb (N.eqb (f_args (snd a)) (f_args (snd b))) then MErr st
                  else
                    match add_fs (f_sub (snd a)) [] st with
                    | AOk g _ st =>
                        match add_fs (f_sub (snd b)) g st with
                        | AOk g _ st => recur g st
                        | AErr st => MErr st
                        | AOutOfFuel => MOutOfFuel
                        end
                    | AErr st => MErr st
                    | AOutOfFuel => MOutOfFuel
                    end
              else MOk st
          | _, _ => MErr st                                  (* no type info for selection set *)
          end
      | r => r
      end.

  (** validateFieldsInSetCanMerge(fieldsForName, ..., depth, checked); at depth 0 the recursive
      call is never reached because validateSameResponseShape(…, 0, …) has failed before *)
  Fixpoint can_merge (d : nat) (g : groups) (st : mst) : mres :=
    let recur := match d with O => fun _ st => MErr st | S d' => can_merge d' end in
    groups_loop (pair_body d recur) g (count_can st).

  (** the second ast.Inspect of validateFields over the selection sets of the document;
      [skip] = how many of the next selection sets lie beneath one for which the callback
      returned false *)
  Fixpoint merge_pass (dmax : nat) (order : list (N * nat)) (skip : nat) (st : mst) : mres :=
    match order with
    | [] => MOk st
    | (s, nested) :: rest =>
        match skip with
        | S k => merge_pass dmax rest k st
        | O =>
            let st := tick 1 st in
            match add_fs (Some s) [] st with
            | AOutOfFuel => MOutOfFuel
            | AErr st => merge_pass dmax rest nested (error_and_reset false st)
            | AOk g _ st =>
                match can_merge dmax g st with
                | MOutOfFuel => MOutOfFuel
                | MErr st => merge_pass dmax rest nested (error_and_reset true st)
                | MOk st => merge_pass dmax rest O st
                end
            end
        end
    end.
End Merge.

Definition frag_table (D : doc) : arr fragdef :=
  map_of_assoc (map (fun fd => (fr_name fd, fd)) (d_frags D)) (PositiveMap.empty fragdef).

(** the merge pass of validateFields(doc): maxDepth = 1 + number of fields *)
Definition merge_run (memo : bool) (D : doc) : mres :=
  merge_pass memo (arr_of_list (d_fields D)) (arr_of_list (d_sets D)) (frag_table D)
             (length (d_sets D)) (S (length (d_fields D))) (d_order D) O mst0.
