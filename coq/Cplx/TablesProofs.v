(** * Cplx/TablesProofs.v — characteristic lemmas of the containers of Tables.v. *)
From Coq Require Import List NArith ZArith Bool FMapPositive Lia PeanoNat.
From ApiFu Require Import Cplx.Tables.
Import ListNotations.

Lemma key_inj i j : key i = key j -> i = j.
Proof. unfold key. intros H. apply (f_equal Pos.pred_N) in H. now rewrite !N.pos_pred_succ in H. Qed.

(** ** arrays *)
Lemma aget_arr_from {A} (l : list A) : forall i m k,
  aget (arr_from i l m) k =
  if (i <=? k)%N && (k <? i + N.of_nat (length l))%N then nth_error l (N.to_nat (k - i)) else aget m k.
Proof.
  induction l as [|a l IH]; intros i m k; cbn [arr_from length].
  - destruct (i <=? k)%N eqn:E1; [|reflexivity]. cbn [andb].
    destruct (k <? i + N.of_nat 0)%N eqn:E2; [|reflexivity]. exfalso.
    apply N.leb_le in E1. apply N.ltb_lt in E2. lia.
  - rewrite IH.
    assert (Hadd : aget (PositiveMap.add (key i) a m) k = if N.eqb k i then Some a else aget m k).
    { unfold aget. destruct (N.eqb_spec k i) as [->|Hne].
      - apply PositiveMap.gss.
      - apply PositiveMap.gso. intros H. apply key_inj in H. contradiction. }
    rewrite Hadd. clear Hadd.
    destruct (N.eqb_spec k i) as [->|Hne].
    + replace (N.succ i <=? i)%N with false by (symmetry; apply N.leb_gt; lia).
      cbn [andb]. rewrite N.leb_refl.
      replace (i <? i + N.of_nat (S (length l)))%N with true by (symmetry; apply N.ltb_lt; lia).
      cbn [andb]. now rewrite N.sub_diag.
    + destruct (N.succ i <=? k)%N eqn:E1.
      * apply N.leb_le in E1.
        replace (i <=? k)%N with true by (symmetry; apply N.leb_le; lia).
        replace (k <? i + N.of_nat (S (length l)))%N with (k <? N.succ i + N.of_nat (length l))%N
          by (f_equal; lia).
        cbn [andb]. destruct (k <? N.succ i + N.of_nat (length l))%N; [|reflexivity].
        replace (N.to_nat (k - i)) with (S (N.to_nat (k - N.succ i))) by lia. reflexivity.
      * apply N.leb_gt in E1. cbn [andb].
        replace (i <=? k)%N with false by (symmetry; apply N.leb_gt; lia). reflexivity.
Qed.

Lemma aget_arr_of_list {A} (l : list A) k : aget (arr_of_list l) k = nth_error l (N.to_nat k).
Proof.
  unfold arr_of_list. rewrite aget_arr_from.
  replace (0 <=? k)%N with true by (symmetry; apply N.leb_le; lia).
  rewrite N.sub_0_r, N.add_0_l. cbn [andb].
  destruct (k <? N.of_nat (length l))%N eqn:E; [reflexivity|].
  apply N.ltb_ge in E. unfold aget. rewrite PositiveMap.gempty.
  symmetry. apply nth_error_None. lia.
Qed.

Lemma nth_error_map_seq {A} (f : nat -> A) a m i : i < m -> nth_error (map f (seq a m)) i = Some (f (a + i)).
Proof.
  intros H. rewrite nth_error_map, nth_error_nth' with (d := 0) by (rewrite seq_length; exact H).
  now rewrite seq_nth.
Qed.

Lemma aget_map_seq {A} (f : nat -> A) m k :
  N.to_nat k < m -> aget (arr_of_list (map f (seq 0 m))) k = Some (f (N.to_nat k)).
Proof. intros H. now rewrite aget_arr_of_list, nth_error_map_seq. Qed.

Lemma aget_some_lt {A} (l : list A) k a : aget (arr_of_list l) k = Some a -> N.to_nat k < length l.
Proof. rewrite aget_arr_of_list. intros H. apply nth_error_Some. congruence. Qed.

(** ** association lists *)
Fixpoint assoc_last {A} (k : N) (l : list (N * A)) : option A :=
  match l with
  | [] => None
  | (k', a) :: l' => match assoc_last k l' with
                     | Some x => Some x
                     | None => if N.eqb k k' then Some a else None
                     end
  end.

Lemma aget_map_of_assoc {A} (l : list (N * A)) : forall m k,
  aget (map_of_assoc l m) k = match assoc_last k l with Some a => Some a | None => aget m k end.
Proof.
  induction l as [|[k' a] l IH]; intros m k; cbn [map_of_assoc assoc_last]; [reflexivity|].
  rewrite IH. destruct (assoc_last k l); [reflexivity|].
  unfold aget. destruct (N.eqb_spec k k') as [->|Hne].
  - now rewrite PositiveMap.gss.
  - rewrite PositiveMap.gso; [reflexivity|]. intros H. apply key_inj in H. contradiction.
Qed.

Lemma assoc_last_map_seq {A} (g : nat -> A) m : forall a j,
  a <= j < a + m ->
  assoc_last (N.of_nat j) (map (fun i => (N.of_nat i, g i)) (seq a m)) = Some (g j).
Proof.
  induction m as [|m IH]; intros a j H; [lia|].
  cbn [seq map assoc_last].
  destruct (Nat.eq_dec j a) as [->|Hne].
  - assert (Hnone : forall m' b, a < b -> assoc_last (N.of_nat a) (map (fun i => (N.of_nat i, g i)) (seq b m')) = None).
    { induction m' as [|m' IHm]; intros b Hb; cbn [seq map assoc_last]; [reflexivity|].
      rewrite IHm by lia. destruct (N.eqb_spec (N.of_nat a) (N.of_nat b)); [lia|reflexivity]. }
    rewrite Hnone by lia. now rewrite N.eqb_refl.
  - rewrite IH by lia. reflexivity.
Qed.

(** ** sets of N *)
Lemma nmem_nadd i j s : nmem i (nadd j s) = N.eqb i j || nmem i s.
Proof.
  unfold nmem, nadd. destruct (N.eqb_spec i j) as [->|Hne].
  - now rewrite PositiveMap.gss.
  - rewrite PositiveMap.gso; [reflexivity|]. intros H. apply key_inj in H. contradiction.
Qed.

Lemma nmem_nempty i : nmem i nempty = false.
Proof. unfold nmem, nempty. now rewrite PositiveMap.gempty. Qed.

(** ** sets of pairs *)
Lemma pmem_padd a b c d s : pmem a b (padd c d s) = (N.eqb a c && N.eqb b d) || pmem a b s.
Proof.
  unfold pmem, padd. destruct (N.eqb_spec a c) as [->|Hne].
  - rewrite PositiveMap.gss, nmem_nadd. cbn [andb].
    destruct (PositiveMap.find (key c) s); [reflexivity|]. now rewrite nmem_nempty.
  - rewrite PositiveMap.gso; [reflexivity|]. intros H. apply key_inj in H. contradiction.
Qed.

Lemma pmem_pempty a b : pmem a b pempty = false.
Proof. unfold pmem, pempty. now rewrite PositiveMap.gempty. Qed.
