(** * Cplx/MergeFamily.v — the family of defect 15 as an abstract document, and what the count model of
    the overlapping-fields pass does on it with and without the sets of checked pairs.

    As text (harness family chain15):
      {...F0}  fragment F0 on T{a{...F1} a{...F1}}  ...  fragment F(n-1) on T{a{...Fn} a{...Fn}}
      fragment Fn on T{i}
    Selection set 0 is the operation's; 1+3i is the body of Fi, 2+3i and 3+3i are the sub-selections
    of its two fields (fields 2i and 2i+1); 1+3n is the body of Fn (field 2n). *)
From Coq Require Import List NArith ZArith Bool.
From ApiFu Require Import Cplx.Tables Cplx.MergeCountModel Cplx.ComplexityDecode Cplx.ComplexitySpec.
Import ListNotations.
Open Scope Z_scope.

Definition obj_ty : ty := {| t_wraps := []; t_name := 1%N; t_leaf := false |}.
Definition int_ty : ty := {| t_wraps := []; t_name := 2%N; t_leaf := true |}.
Definition mf_field (sub : option N) : field :=
  {| f_key := 1%N; f_name := 1%N; f_args := 0%N; f_ty := Some obj_ty; f_ptype := Some (1%N, true);
     f_sub := sub; f_weight := 2 |}.
Definition mf_leaf : field :=
  {| f_key := 2%N; f_name := 2%N; f_args := 0%N; f_ty := Some int_ty; f_ptype := Some (1%N, true);
     f_sub := None; f_weight := 2 |}.
Definition merge_family (n : nat) : doc :=
  {| d_fields := flat_map (fun i => [mf_field (Some (N.of_nat (2 + 3 * i))); mf_field (Some (N.of_nat (3 + 3 * i)))]) (seq 0 n)
                 ++ [mf_leaf];
     d_sets := [ISpread 0%N]
               :: flat_map (fun i => [[IField (N.of_nat (2 * i)); IField (N.of_nat (2 * i + 1))];
                                      [ISpread (N.of_nat (S i))]; [ISpread (N.of_nat (S i))]]) (seq 0 n)
               ++ [[IField (N.of_nat (2 * n))]];
     d_order := (0%N, O)
                :: flat_map (fun i => [(N.of_nat (1 + 3 * i), 2%nat); (N.of_nat (2 + 3 * i), O); (N.of_nat (3 + 3 * i), O)]) (seq 0 n)
                ++ [(N.of_nat (1 + 3 * n), O)];
     d_frags := map (fun i => {| fr_name := N.of_nat i; fr_root := N.of_nat (1 + 3 * i);
                                 fr_nodes := (if Nat.eqb i n then 5 else 13); fr_hdr := 2 |}) (seq 0 (S n));
     d_ops := [{| op_root := 0%N; op_nodes := 4; op_hdr := 1 |}];
     d_nodes := 13 * Z.of_nat n + 9 |}.

Definition shape_calls (memo : bool) (n : nat) : Z :=
  match merge_run memo (merge_family n) with MOk st => n_shape st | MErr st => -1 | MOutOfFuel => -2 end.
Definition msteps (memo : bool) (n : nat) : Z :=
  match merge_run memo (merge_family n) with MOk st => m_steps st | MErr st => -1 | MOutOfFuel => -2 end.

(** the algorithm of the pinned tree (nothing remembered): calls of validateSameResponseShape for
    n = 1..6 — the numbers measured on the pinned tree (DESIGN section 6 row 15: 6, 71, 632, 5027) and
    two more; each level multiplies the work by more than 7.  With the checked pairs: 28 n - 37. *)
Theorem merge_exponential_before_fix_witness :
  map (shape_calls false) (seq 1 6) = [6; 71; 632; 5027; 37574; 269921]
  /\ map (shape_calls true) (seq 1 6) = [3; 19; 47; 75; 103; 131]
  /\ forallb (fun n => 7 * shape_calls false n <=? shape_calls false (S n)) (seq 1 5) = true
  /\ forallb (fun n => doc_wf (merge_family n)) (seq 0 8) = true
  /\ forallb (fun n => doc_size (merge_family n) =? 13 * Z.of_nat n + 11) (seq 0 8) = true.
Proof. vm_compute. repeat split; reflexivity. Qed.

(** after the repair the same family is linear far beyond what the old algorithm could finish *)
Theorem merge_family_after_fix_witness :
  forallb (fun n => msteps true n =? 217 * Z.of_nat n - 170) [2; 3; 10; 40; 80; 160]%nat = true
  /\ forallb (fun n => msteps true n <=? merge_steps_bound (merge_family n)) [0; 1; 2; 3; 10; 40; 80; 160]%nat = true.
Proof. vm_compute. split; reflexivity. Qed.
