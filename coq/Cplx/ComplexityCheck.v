(** * Cplx/ComplexityCheck.v — C12 correspondence: decode a case, run the count models and the Spec
    oracle, compare with what the implementation did.  Executable only.

    Compared (mismatch when violated):
    - the parser's outcome class, exactly (accepted-by-the-parser / syntax error / "maximum
      recursion depth" error), modulo lexical errors, which the model does not see;
    - work, two-sided within the factor [K] around  unit * model steps  (the property's equivalence
      is "same growth"): scanner, parser, overlapping-fields pass, fragment rules, variable rule,
      the validator as a whole, the cost walk.  Where the amount of work of the implementation
      depends on Go's map iteration order (after the first merge conflict, after the first fragment
      cycle) only the Spec's bound applies.
    Exact call counts are compared too, but only reported as classes. *)
From Coq Require Import List NArith ZArith Bool String.
From ApiFu Require Import Base.Sexp Cplx.Tables Cplx.ParserDepthModel Cplx.MergeCountModel
     Cplx.CostWalkCount Cplx.FragmentWalkCount Cplx.SpreadLists Cplx.TokenClass Cplx.ComplexityDecode Cplx.ComplexitySpec Cplx.ComplexityRun.
Import ListNotations.
Open Scope string_scope.
Open Scope list_scope.
Open Scope Z_scope.

Definition K : Z := 4.          (* measured: every component of every case of the quick and thorough
                                   tiers agrees within a factor 3; at 2 about 100 quick cases differ *)
Definition K_vars : Z := 8.     (* validateVariables spends about 30 statements on a variable definition
                                   (3 nodes) and about 2 on any other node: measured ratio up to 5.2 *)
Definition slack : Z := 400.    (* statements; keeps tiny cases (a few blocks) out of the ratio test *)
(** the two loops over doc.Definitions at the beginning of ValidateCost: statements per definition *)
Definition unit_cost_loop : Z := 2.
Definition K_other : Z := 2.    (* the other rules: 32 .. 49 statements per AST node, unit 40 *)

(** work and unit * steps agree within the factor K *)
Definition within (work unit_ steps : Z) : bool :=
  (work <=? K * unit_ * steps + slack) && (unit_ * steps <=? K * work + slack).
Definition at_most (work unit_ steps : Z) : bool := work <=? K * unit_ * steps + slack.
Definition within_k (k work expected : Z) : bool :=
  (work <=? k * expected + slack) && (expected <=? k * work + slack).

Definition valid_work (o : obs) : Z :=
  num0 "ast" (o_work o) + num0 "fields" (o_work o) + num0 "frags" (o_work o) + num0 "vars" (o_work o)
  + num0 "vother" (o_work o).

Definition mk_run (cc : ccase) : run :=
  let o := c_obs cc in
  {| r_limit := limit go_cfg; r_toks := c_toks cc; r_len := c_len cc; r_outcome := o_outcome o;
     r_enter := num0 "enter" (o_calls o); r_exit := num0 "exit" (o_calls o);
     r_work_scan := num0 "scan" (o_work o); r_work_parse := num0 "parse" (o_work o);
     r_work_fields := num0 "fields" (o_work o); r_work_frags := num0 "frags" (o_work o);
     r_work_vars := num0 "vars" (o_work o); r_work_valid := valid_work o;
     r_work_other := num0 "vother" (o_work o);
     r_runes := num0 "runes" (o_calls o); r_peeks := num0 "peeks" (o_calls o); r_decodes := num0 "decodes" (o_calls o);
     r_doc := c_doc cc;
     r_cost := match o_cost o with Some k => Some (co_outcome k, co_all k) | None => None end;
     r_ns := o_ns o; r_cost_ns := match o_cost o with Some k => co_ns k | None => 0 end;
     r_timed := o_timed o |}.

Definition mism (what : string) (a b : Z) : option sexp := Some (v_mismatch what [SZ a; SZ b]).

Definition first_some (l : list (option sexp)) : option sexp :=
  fold_right (fun x acc => match x with Some _ => x | None => acc end) None l.

Fixpoint toks_eqb (a b : list tok) : bool :=
  match a, b with
  | [], [] => true
  | x :: a', y :: b' => tok_eqb x y && toks_eqb a' b'
  | _, _ => false
  end.

(** the token classes the harness computed with the real scanner = the classes of the scanner
    model's tokens (C07) under [tok_class], on every case that carries its text *)
Definition token_classes_agree (cc : ccase) : option sexp :=
  match c_text cc with
  | None => None
  | Some bs =>
      match classes_of_bytes bs with
      | Some cl => if toks_eqb cl (c_toks cc) then None else Some (v_mismatch "token-classes" [])
      | None => Some (v_mismatch "scanner-model-out-of-fuel" [])
      end
  end.

(** Cplx/ScanSteps.v: consumeRune runs once per rune of the part of the input the parser asked the
    scanner for - never more often than the text has runes, and exactly that often when the parser
    reached the end of the input.  (0 observed calls: the function no longer exists under that name.) *)
Definition rune_reads_agree (cc : ccase) : option sexp :=
  match c_text cc with
  | None => None
  | Some bs =>
      let total := Z.of_nat (runes bs) in
      let seen := num0 "runes" (o_calls (c_obs cc)) in
      let at_end := match o_outcome (c_obs cc) with OAccepted | OInvalid => true | _ => false end in
      if (seen =? 0) || is_crash (o_outcome (c_obs cc)) then None
      else if (total <? seen) || (at_end && negb (seen =? total)) then Some (v_mismatch "rune-reads" [SZ seen; SZ total])
      else None
  end.

Definition compare (cc : ccase) (x : numbers) : option sexp :=
  let o := c_obs cc in
  let crashed := is_crash (o_outcome o) in
  let lex := negb (c_lexerrs cc =? 0) in
  let parser_accepts := match x_pout x with POk => true | _ => false end in
  let outcome_ok :=
      match x_pout x, o_outcome o with
      | PFuel, _ => false
      | _, OPanic | _, OTimeout => true                       (* the oracle's business *)
      | POk, OAccepted | POk, OInvalid => negb lex
      | POk, OSyntax => lex
      | PSyntax, OSyntax => true
      | PDepth, ODepth => true
      | _, _ => false
      end in
  let wp := num0 "parse" (o_work o) in
  let ws := num0 "scan" (o_work o) in
  first_some [
    token_classes_agree cc;
    rune_reads_agree cc;
    (if outcome_ok then None else Some (v_mismatch "parser-outcome" []));
    (if negb (x_ok x) then Some (v_mismatch "model-out-of-fuel" []) else None);
    (if crashed then None else
     first_some [
       (if within wp unit_parse (x_psteps x) then None else mism "parse-work" wp (x_psteps x));
       (if (if parser_accepts then within ws unit_scan (c_len cc + 1) else at_most ws unit_scan (c_len cc + 1))
        then None else mism "scan-work" ws (c_len cc));
       (match c_doc cc with
        | None => if parser_accepts && negb lex then Some (v_mismatch "document-missing" []) else None
        | Some D =>
            if negb (parser_accepts && negb lex) then Some (v_mismatch "document-unexpected" []) else
            let nd := d_nodes D in
            let wf := num0 "fields" (o_work o) in
            let wg := num0 "frags" (o_work o) in
            let wv := num0 "vars" (o_work o) in
            let wt := valid_work o in
            let clean := (x_merge_err x =? 0) && (x_cycle_found x =? 0) in
            first_some [
              (if negb (x_merge_err x =? 0) || within wf unit_fields (2 * nd + x_merge x)
               then None else mism "merge-work" wf (x_merge x));
              (if negb (x_cycle_found x =? 0) || within wg unit_frags (2 * nd + x_cycle x)
               then None else mism "fragment-cycle-search-work" wg (x_cycle x));
              (if within_k K_vars wv (unit_vars * (n_ops D + n_frags D + x_var x)) then None else mism "variable-walk-work" wv (x_var x));
              (if within_k K_other (num0 "vother" (o_work o)) (unit_other * nd) then None
               else mism "other-rules-work" (num0 "vother" (o_work o)) nd);
              (if negb clean || within wt unit_valid (linear_passes * nd + x_merge x + x_cycle x + x_var x)
               then None else mism "validate-work" wt (x_merge x + x_cycle x + x_var x));
              (match o_cost o with
               | Some k =>
                   match co_outcome k with
                   | OAccepted =>
                       if x_cost_err x then Some (v_mismatch "cost-walk-outcome" [])
                       else if within_k K (co_all k) (unit_cost * (x_cost x - (n_ops D + n_frags D))
                                                      + unit_cost_loop * (n_ops D + n_frags D)) then None
                       else mism "cost-walk-work" (co_all k) (x_cost x)
                   | _ => None
                   end
               | None => None
               end)
            ]
        end)
     ])
  ].

(** classes for the evidence *)
Definition classes (cc : ccase) (x : numbers) : list string :=
  let o := c_obs cc in
  let nest := maxnest (c_toks cc) in
  let ntok := Z.of_nat (List.length (c_toks cc)) in
  ([c_family cc]
   ++ [match o_outcome o with
       | OAccepted => "accepted" | OInvalid => "invalid" | OSyntax => "syntax-error"
       | ODepth => "depth-error" | OPanic => "panic" | OTimeout => "timeout" end]
   ++ (if num0 "prods" (o_calls o) =? x_psteps x then ["productions-exact"] else ["productions-differ"])
   ++ (match c_text cc with
       | Some bs => if num0 "runes" (o_calls o) =? Z.of_nat (runes bs) then ["runes-exact"] else ["runes-differ"]
       | None => []
       end)
   ++ (if 1000 <=? ntok then ["tokens-1000+"] else if 100 <=? ntok then ["tokens-100+"] else [])
   ++ (if 240 <=? nest then ["nesting-240+"] else if 20 <=? nest then ["nesting-20+"] else [])
   ++ (if (ntok >=? 1000) && (nest <=? 3) then ["flat-and-wide"] else [])
   ++ match c_doc cc with
      | None => []
      | Some D =>
          (if (num0 "sameshape" (o_calls o) =? x_nshape x) && (num0 "canmerge" (o_calls o) =? x_ncan x)
              && (num0 "addfscd" (o_calls o) =? x_naddfscd x)
           then ["merge-calls-exact"] else ["merge-calls-differ"])
          ++ (if 0 <? x_inserts x then ["pairs-remembered"] else [])
          ++ (if x_inserts x <? x_nshape x + x_ncan x - 2 * n_visits D then ["pair-reached-again"] else [])
          ++ (if negb (x_merge_err x =? 0) then ["merge-conflict"] else [])
          ++ (if negb (x_cycle_found x =? 0) then ["fragment-cycle"] else [])
          ++ (if 0 <? n_spreads D then ["spreads"] else [])
          ++ (if 0 <? x_cost_exp x then ["cost-expansions"] else [])
          ++ (match o_cost o with Some _ => ["cost-measured"] | None => [] end)
      end
   ++ (if (240 <=? nest) || (1000 <=? ntok)
          || match c_doc cc with Some D => (0 <? x_inserts x) | None => false end
       then ["nontrivial"] else [])).

Definition check (c : sexp) : sexp :=
  match tagged "case" c with
  | Some l =>
      match Sexp.field "skipped" l with
      | Some _ => v_ok ["skipped"]
      | None =>
      match Sexp.field "stackprobe" l with
      | Some pl =>
          (* a flat document validated in a child process with a lowered stack limit: it must come
             back, whatever its width (the scanner's loop and the parser's loops over siblings use
             constant stack; only nesting costs stack, and nesting is limited) *)
          match field1 "family" l, num "n" l, field1 "result" pl with
          | Some (SSym fam), Some n, Some r =>
              if is_sym "ok" r then v_ok ["stack-probe"; fam; "nontrivial"]
              else v_oracle_fail "stack-grows-with-flat-width" [SSym fam; SZ n]
          | _, _, _ => v_bad "decode-stackprobe"
          end
      | None =>
          match dec_case l with
          | None => v_bad "decode"
          | Some cc =>
              if negb (match c_doc cc with Some D => doc_wf D | None => true end) then v_bad "document-tables"
              else if negb (match c_doc cc with Some D => spreads_ok D | None => true end) then v_bad "spread-lists"
              else
                match oracle (mk_run cc) with
                | Some key => v_oracle_fail key [SSym (c_family cc); SZ (c_n cc)]
                | None =>
                    let x := run_models (c_toks cc) (c_doc cc)
                                        (match o_cost (c_obs cc) with Some _ => true | None => false end) in
                    match compare cc x with
                    | Some v => v
                    | None => v_ok (classes cc x)
                    end
                end
          end
      end
      end
  | None => v_bad "shape"
  end.
