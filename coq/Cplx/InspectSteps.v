(** * Cplx/InspectSteps.v — every rule of the validator that is an ast.Inspect pass calls its visitor
    at most once per node of the tree it is started on (entering) and at most once more (leaving),
    whatever the visitor does and whatever state it keeps.

    [Vld/Inspect.v] (property C04's model of graphql/ast/inspect.go, tied to the code by C04's
    check) is generic in the visitor; the counting is added from outside: [enter_c] / [leave_c] wrap
    any visitor with a counter, the wrapped traversal computes the same state ([count_transparent])
    and its counters obey the bounds ([count_le], equality [count_all] when the visitor never
    prunes).  [rule_visits_linear] instantiates it for the rules of C04's ValidatorModel. *)
From Coq Require Import List NArith Bool Lia.
From ApiFu Require Import Base.Sexp Vld.Ast Vld.Inspect Vld.InspectProofs.
Import ListNotations.

Lemma inspect_T {St} (e : St -> node -> St * bool) (l : St -> St) n cs s :
  inspect e l (T n cs) s =
  match e s n with
  | (s1, true) => l (fold_left (fun acc c => inspect e l c acc) cs s1)
  | (s1, false) => s1
  end.
Proof. reflexivity. Qed.

Section Count.
  Variable St : Type.
  Variable enter : St -> node -> St * bool.
  Variable leave : St -> St.

  (** state x (visitor calls on entering, visitor calls with nil) *)
  Definition enter_c (sk : St * (nat * nat)) (n : node) : St * (nat * nat) * bool :=
    let '(s1, b) := enter (fst sk) n in ((s1, (S (fst (snd sk)), snd (snd sk))), b).
  Definition leave_c (sk : St * (nat * nat)) : St * (nat * nat) :=
    (leave (fst sk), (fst (snd sk), S (snd (snd sk)))).

  Definition nodes (t : tree) : nat := length (tree_nodes t).

  Lemma fold_children (cs : list tree)
        (IH : Forall (fun c => forall s a b,
                        fst (inspect enter_c leave_c c (s, (a, b))) = inspect enter leave c s
                        /\ (a < fst (snd (inspect enter_c leave_c c (s, (a, b)))) <= a + nodes c)%nat
                        /\ (b <= snd (snd (inspect enter_c leave_c c (s, (a, b)))) <= b + nodes c)%nat) cs) :
    forall s a b,
      fst (fold_left (fun acc c => inspect enter_c leave_c c acc) cs (s, (a, b)))
      = fold_left (fun acc c => inspect enter leave c acc) cs s
      /\ (a <= fst (snd (fold_left (fun acc c => inspect enter_c leave_c c acc) cs (s, (a, b))))
          <= a + length (flat_map tree_nodes cs))%nat
      /\ (b <= snd (snd (fold_left (fun acc c => inspect enter_c leave_c c acc) cs (s, (a, b))))
          <= b + length (flat_map tree_nodes cs))%nat.
  Proof.
    induction IH as [|c cs Hc _ IHcs]; intros s a b; cbn [fold_left flat_map length]; [cbn [fst snd]; repeat split; lia|].
    destruct (inspect enter_c leave_c c (s, (a, b))) as [s1 [a1 b1]] eqn:E.
    destruct (Hc s a b) as (H1 & H2 & H3). rewrite E in H1, H2, H3. cbn [fst snd] in H1, H2, H3.
    destruct (IHcs s1 a1 b1) as (G1 & G2 & G3). rewrite <- H1. rewrite app_length. unfold nodes in *.
    repeat split; try lia. exact G1.
  Qed.

  Theorem count_spec : forall t s a b,
    fst (inspect enter_c leave_c t (s, (a, b))) = inspect enter leave t s
    /\ (a < fst (snd (inspect enter_c leave_c t (s, (a, b)))) <= a + nodes t)%nat
    /\ (b <= snd (snd (inspect enter_c leave_c t (s, (a, b)))) <= b + nodes t)%nat.
  Proof.
    induction t as [n cs IH] using tree_ind'. intros s a b.
    rewrite !inspect_T.
    destruct (enter s n) as [s1 bb] eqn:E.
    assert (Ec : enter_c (s, (a, b)) n = ((s1, (S a, b)), bb)) by (unfold enter_c; cbn [fst snd]; rewrite E; reflexivity).
    rewrite Ec. unfold nodes. cbn [tree_nodes length].
    destruct bb.
    - destruct (fold_children cs IH s1 (S a) b) as (G1 & G2 & G3).
      set (F := fold_left (fun acc c => inspect enter_c leave_c c acc) cs (s1, (S a, b))) in *.
      change (fst (leave_c F)) with (leave (fst F)). change (fst (snd (leave_c F))) with (fst (snd F)).
      change (snd (snd (leave_c F))) with (S (snd (snd F))). rewrite G1. repeat split; lia.
    - cbn [fst snd]. repeat split; lia.
  Qed.

  Corollary count_transparent t s : fst (inspect enter_c leave_c t (s, (0, 0)%nat)) = inspect enter leave t s.
  Proof. exact (proj1 (count_spec t s 0 0)). Qed.

  Corollary count_le t s :
    let c := snd (inspect enter_c leave_c t (s, (0, 0)%nat)) in
    (1 <= fst c <= nodes t)%nat /\ (snd c <= nodes t)%nat.
  Proof. destruct (count_spec t s 0 0) as (_ & H2 & H3). cbv zeta. lia. Qed.
End Count.

Theorem inspect_visits_linear :
  forall (St : Type) (enter : St -> node -> St * bool) (leave : St -> St) (t : tree) (s : St),
    fst (inspect (enter_c St enter) (leave_c St leave) t (s, (0, 0)%nat)) = inspect enter leave t s
    /\ (let c := snd (inspect (enter_c St enter) (leave_c St leave) t (s, (0, 0)%nat)) in
        (1 <= fst c <= nodes t)%nat /\ (snd c <= nodes t)%nat).
Proof. intros. split; [apply count_transparent|apply count_le]. Qed.

(** ** the rules of C04's validator model that are Inspect passes over the whole document *)
From ApiFu Require Import Vld.ValidatorModel.

Definition doc_nodes (D : document) : nat := length (tree_nodes (tree_doc D)).

(** number of calls of a visitor (entering, leaving) when the pass is started on the document *)
Definition visits {St} (enter : St -> node -> St * bool) (leave : St -> St) (D : document) (s0 : St) : nat * nat :=
  snd (inspect (enter_c St enter) (leave_c St leave) (tree_doc D) (s0, (0, 0)%nat)).

Theorem rule_visits_linear : forall (q : quirks) (pi : order) (S : schema) (F : features) (D : document),
  let ok (c : nat * nat) := (1 <= fst c <= doc_nodes D)%nat /\ (snd c <= doc_nodes D)%nat in
  (forall s0, ok (visits (arguments_enter q pi S) (fun s => s) D s0))          (* validateArguments *)
  /\ (forall s0, ok (visits (directives_enter q S) (fun s => s) D s0))          (* validateDirectives *)
  /\ (forall s0, ok (visits (values_enter q pi S) (fun s => s) D s0))           (* validateValues *)
  /\ (forall s0, ok (visits (fields_enter S F) pop D s0))                       (* validateFields, first visitor *)
  /\ (forall s0, ok (visits (decl_enter S F) (fun s => s) D s0))                (* validateFragmentDeclarations *)
  /\ (forall s0, ok (visits (spreads_enter q pi S F D) pop D s0))               (* validateFragmentSpreads, spread visitor *)
  /\ (forall s0, ok (visits (merge_enter_m q pi S D) (fun s => s) D s0)).       (* validateFields, second visitor (per selection set: C12_merge_steps_poly) *)
Proof.
  intros q pi S F D ok. unfold ok, visits, doc_nodes.
  repeat match goal with |- _ /\ _ => split end; intros s0; apply (count_le _ _ _ (tree_doc D) s0).
Qed.
