(** * Cplx/FragmentWalkCount.v — the two other places where the validator follows fragment spreads:
    - validate_fragments.go, validateFragmentSpreads: for every fragment name a breadth-first search
      through [directFragmentDependencies] with an [encountered] set ("fragment cycle search per
      fragment");
    - validate_variables.go, validateVariables: for every operation a walk over the operation and
      over every fragment reachable from it, each once ([validatedFragmentSpreads]).
    Counted: loop iterations, resp. AST nodes inspected.  No proofs in this file. *)
From Coq Require Import List NArith ZArith Bool FMapPositive.
From ApiFu Require Import Cplx.Tables Cplx.MergeCountModel.
Import ListNotations.
Open Scope Z_scope.

Section Walks.
  Variable fields : arr field.
  Variable sets : arr (list item).

  (** the names of the fragment spreads inside a definition (ast.Inspect does not follow spreads),
      with repetitions, in document order *)
  Fixpoint spreads_in (fuel : nat) (s : N) (acc : list N) : list N :=
    match fuel with
    | O => acc
    | S f =>
        fold_left (fun acc it =>
                     match it with
                     | IField fid => match aget fields fid with
                                     | Some fr => match f_sub fr with Some s' => spreads_in f s' acc | None => acc end
                                     | None => acc
                                     end
                     | IInline s' => spreads_in f s' acc
                     | ISpread nm => nm :: acc
                     end)
                  (match aget sets s with Some its => its | None => [] end) acc
    end.
End Walks.

Definition total_spreads (D : doc) : nat :=
  length (filter (fun it => match it with ISpread _ => true | _ => false end) (concat (d_sets D))).

(** deps := map[string]struct{}: distinct names *)
Fixpoint dedup (l : list N) (seen : nset) : list N :=
  match l with
  | [] => []
  | x :: r => if nmem x seen then dedup r seen else x :: dedup r (nadd x seen)
  end.

Record wst := { w_steps : Z; w_found : Z }.

Section CycleSearch.
  Variable deps : arr (list N).       (* directFragmentDependencies, by fragment name *)

  (** for dep := range directFragmentDependencies[toVisit[i]] *)
  Fixpoint scan_deps (name : N) (ds : list N) (queue : list N) (enc : nset) (steps : Z)
    : bool * list N * nset * Z :=
    match ds with
    | [] => (false, queue, enc, steps)
    | dep :: ds' =>
        let steps := steps + 1 in
        if nmem dep enc then scan_deps name ds' queue enc steps
        else if N.eqb dep name then (true, queue, enc, steps)            (* cycleFound; break *)
        else scan_deps name ds' (queue ++ [dep]) (nadd dep enc) steps
    end.

  (** for i := 0; i < len(toVisit) && !cycleFound; i++ — [queue] is toVisit[i:] *)
  Fixpoint search (fuel : nat) (name : N) (queue : list N) (enc : nset) (steps : Z) : option (bool * Z) :=
    match fuel with
    | O => None
    | S f =>
        match queue with
        | [] => Some (false, steps)
        | x :: q =>
            let '(found, q', enc', steps') :=
              scan_deps name (match aget deps x with Some ds => ds | None => [] end) q enc (steps + 1) in
            if found then Some (true, steps') else search f name q' enc' steps'
        end
    end.
End CycleSearch.

Definition deps_table (D : doc) : arr (list N) :=
  let fields := arr_of_list (d_fields D) in
  let sets := arr_of_list (d_sets D) in
  map_of_assoc (map (fun fd => (fr_name fd, dedup (rev (spreads_in fields sets (S (length (d_sets D))) (fr_root fd) [])) nempty))
                    (d_frags D))
               (PositiveMap.empty (list N)).

(** for name, def := range fragmentsByName: every distinct fragment name once *)
Definition cycle_search_run (D : doc) : option wst :=
  let deps := deps_table D in
  let names := dedup (map fr_name (d_frags D)) nempty in
  fold_left (fun acc name =>
               match acc with
               | None => None
               | Some w =>
                   match search deps (S (S (total_spreads D + length (d_frags D)))) name [name] nempty 0 with
                   | None => None
                   | Some (found, k) => Some {| w_steps := w_steps w + k + 1; w_found := w_found w + (if found then 1 else 0) |}
                   end
               end)
            names (Some {| w_steps := 0; w_found := 0 |}).

(** validateVariables: per operation, the operation and every reachable fragment, each once *)
Section VarWalk.
  Variable fields : arr field.
  Variable sets : arr (list item).
  Variable frags : arr fragdef.
  Variable nsets : nat.

  (** for len(unvalidatedFragmentSpreads) > 0 { for name := range ... } *)
  Fixpoint var_closure (fuel : nat) (work : list N) (validated : nset) (steps : Z) : option Z :=
    match fuel with
    | O => None
    | S f =>
        match work with
        | [] => Some steps
        | nm :: work' =>
            if nmem nm validated then var_closure f work' validated steps
            else
              let validated := nadd nm validated in
              match aget frags nm with
              | None => var_closure f work' validated (steps + 1)
              | Some fd =>
                  var_closure f (spreads_in fields sets (S nsets) (fr_root fd) [] ++ work') validated
                              (steps + 1 + fr_nodes fd)
              end
        end
    end.
End VarWalk.

Definition var_walk_run (D : doc) : option Z :=
  let fields := arr_of_list (d_fields D) in
  let sets := arr_of_list (d_sets D) in
  let frags := frag_table D in
  fold_left (fun acc op =>
               match acc with
               | None => None
               | Some k =>
                   match var_closure fields sets frags (length (d_sets D))
                                     (S (S (2 * total_spreads D)))
                                     (spreads_in fields sets (S (length (d_sets D))) (op_root op) [])
                                     nempty (k + op_nodes op) with
                   | None => None
                   | Some k' => Some k'
                   end
               end)
            (d_ops D) (Some 0).
