(** * Cplx/CostWalkPaths.v — the growth function of the cost walk, as a theorem about every document:
    the number of fragment definitions the walk of ValidateCost expands equals the number of
    spread paths that start in the operation — [paths]: a spread reached in a selection set
    (through fields and inline fragments) counts once, plus once for every path that starts in the
    body of the fragment it names.  If no fragment body contains a spread, that is the number of
    spread occurrences below the operation (linear); with bodies that spread again it multiplies
    along every level (Cplx/CostWalkProofs.v: 2^(n+1) - 1 on a chain with two spreads per level). *)
From Coq Require Import List NArith ZArith Bool FMapPositive Lia PeanoNat.
From ApiFu Require Import Cplx.Tables Cplx.TablesProofs Cplx.MergeCountModel Cplx.CostWalkCount
     Cplx.FragmentWalkCount.
Import ListNotations.
Open Scope Z_scope.

Section Paths.
  Variable fields : arr field.
  Variable sets : arr (list item).
  Variable frags : arr fragdef.

  Definition items_of (s : N) : list item := match aget sets s with Some its => its | None => [] end.

  (** spread paths starting in selection set [s] *)
  Fixpoint paths (fuel : nat) (s : N) : Z :=
    match fuel with
    | O => 0
    | S f =>
        fold_right (fun it acc =>
                      match it with
                      | IField fid => match aget fields fid with
                                      | Some fr => match f_sub fr with Some s' => paths f s' | None => 0 end
                                      | None => 0
                                      end
                      | IInline s' => paths f s'
                      | ISpread nm => match aget frags nm with
                                      | Some fd => 1 + paths f (fr_root fd)
                                      | None => 0
                                      end
                      end + acc) 0 (items_of s)
    end.

  (** spread occurrences below [s], not entering fragment bodies *)
  Fixpoint occurrences (fuel : nat) (s : N) : Z :=
    match fuel with
    | O => 0
    | S f =>
        fold_right (fun it acc =>
                      match it with
                      | IField fid => match aget fields fid with
                                      | Some fr => match f_sub fr with Some s' => occurrences f s' | None => 0 end
                                      | None => 0
                                      end
                      | IInline s' => occurrences f s'
                      | ISpread nm => 1
                      end + acc) 0 (items_of s)
    end.

  Lemma paths_nonneg : forall fuel s, 0 <= paths fuel s.
  Proof.
    induction fuel as [|f IH]; intros s; cbn [paths]; [lia|].
    induction (items_of s) as [|it l IHl]; cbn [fold_right]; [lia|].
    destruct it as [fid|s'|nm].
    - destruct (aget fields fid) as [fr|]; [destruct (f_sub fr) as [s'|]; [specialize (IH s')|]|]; lia.
    - specialize (IH s'). lia.
    - destruct (aget frags nm) as [fd|]; [specialize (IH (fr_root fd))|]; lia.
  Qed.

  Lemma occurrences_nonneg : forall fuel s, 0 <= occurrences fuel s.
  Proof.
    induction fuel as [|f IH]; intros s; cbn [occurrences]; [lia|].
    induction (items_of s) as [|it l IHl]; cbn [fold_right]; [lia|].
    destruct it as [fid|s'|nm].
    - destruct (aget fields fid) as [fr|]; [destruct (f_sub fr) as [s'|]; [specialize (IH s')|]|]; lia.
    - specialize (IH s'). lia.
    - lia.
  Qed.

  (** the walk, when it ends without error, has expanded exactly [paths] definitions *)
  Theorem cost_set_expansions : forall fuel s onpath st st',
    cost_set fields sets frags fuel s onpath st = COk st' ->
    c_expansions st' = c_expansions st + paths fuel s.
  Proof.
    induction fuel as [|f IH]; intros s onpath st st' H; [discriminate|].
    cbn [cost_set paths] in *. fold (items_of s) in *.
    assert (Ht : c_expansions (ctick 1 st) = c_expansions st) by reflexivity.
    rewrite <- Ht. clear Ht. revert H. generalize (ctick 1 st). clear st.
    induction (items_of s) as [|it l IHl]; intros st H; cbn [fold_right].
    - inversion H; subst. lia.
    - destruct it as [fid|s'|nm].
      + destruct (aget fields fid) as [fr|]; [|rewrite (IHl st H); lia].
        destruct (f_ty fr); [|discriminate].
        destruct (f_sub fr) as [s'|].
        * destruct (cost_set fields sets frags f s' onpath (cfield (f_weight fr) st)) as [st1| |] eqn:E; try discriminate.
          rewrite (IHl st1 H), (IH _ _ _ _ E). cbn [cfield c_expansions]. lia.
        * rewrite (IHl _ H). cbn [cfield c_expansions]. lia.
      + destruct (cost_set fields sets frags f s' onpath (ctick 3 st)) as [st1| |] eqn:E; try discriminate.
        rewrite (IHl st1 H), (IH _ _ _ _ E). cbn [ctick c_expansions]. lia.
      + destruct (nmem nm onpath); [discriminate|].
        destruct (aget frags nm) as [fd|]; [|discriminate].
        destruct (cost_set fields sets frags f (fr_root fd) (nadd nm onpath) (cexpand (fr_hdr fd) (ctick 2 st))) as [st1| |] eqn:E; try discriminate.
        rewrite (IHl st1 H), (IH _ _ _ _ E). cbn [cexpand ctick c_expansions]. lia.
  Qed.

  (** fragment bodies without spreads: one expansion per spread occurrence below the operation *)
  Hypothesis bodies_flat : forall nm fd fuel, aget frags nm = Some fd -> occurrences fuel (fr_root fd) = 0.

  Lemma paths_of_flat : forall fuel s, occurrences fuel s = 0 -> paths fuel s = 0.
  Proof.
    induction fuel as [|f IH]; intros s; cbn [paths occurrences]; [reflexivity|].
    induction (items_of s) as [|it l IHl]; cbn [fold_right]; [reflexivity|].
    assert (Hacc : 0 <= fold_right (fun it acc =>
                      match it with
                      | IField fid => match aget fields fid with
                                      | Some fr => match f_sub fr with Some s' => occurrences f s' | None => 0 end
                                      | None => 0
                                      end
                      | IInline s' => occurrences f s'
                      | ISpread nm => 1
                      end + acc) 0 l).
    { clear. induction l as [|it l IHl]; cbn [fold_right]; [lia|].
      destruct it as [fid|s'|nm];
        [destruct (aget fields fid) as [fr|]; [destruct (f_sub fr) as [s'|]; [pose proof (occurrences_nonneg f s')|]|]
        |pose proof (occurrences_nonneg f s')|]; lia. }
    destruct it as [fid|s'|nm].
    - destruct (aget fields fid) as [fr|]; [destruct (f_sub fr) as [s'|]|]; intros H; try (rewrite IHl by lia; lia).
      pose proof (occurrences_nonneg f s'). rewrite IHl, (IH s') by lia. lia.
    - intros H. pose proof (occurrences_nonneg f s'). rewrite IHl, (IH s') by lia. lia.
    - intros H. lia.
  Qed.

  Theorem paths_linear_when_bodies_flat : forall fuel s, paths fuel s <= occurrences fuel s.
  Proof.
    induction fuel as [|f IH]; intros s; cbn [paths occurrences]; [lia|].
    induction (items_of s) as [|it l IHl]; cbn [fold_right]; [lia|].
    destruct it as [fid|s'|nm].
    - destruct (aget fields fid) as [fr|]; [destruct (f_sub fr) as [s'|]; [specialize (IH s')|]|]; lia.
    - specialize (IH s'). lia.
    - destruct (aget frags nm) as [fd|] eqn:E; [|lia].
      rewrite (paths_of_flat f (fr_root fd) (bodies_flat nm fd f E)). lia.
  Qed.
End Paths.

(** the whole walk of ValidateCost on a document *)
Theorem cost_run_expansions D st :
  cost_run D = COk st ->
  c_expansions st =
  match d_ops D with
  | [op] => paths (arr_of_list (d_fields D)) (arr_of_list (d_sets D)) (frag_table D) (cost_fuel D) (op_root op)
  | _ => 0
  end.
Proof.
  unfold cost_run. destruct (d_ops D) as [|op [|op2 l]]; intros H; try (inversion H; subst; reflexivity).
  apply cost_set_expansions in H. exact H.
Qed.

Theorem cost_run_linear_when_bodies_flat D st :
  (forall nm fd fuel, aget (frag_table D) nm = Some fd ->
                      occurrences (arr_of_list (d_fields D)) (arr_of_list (d_sets D)) fuel (fr_root fd) = 0) ->
  cost_run D = COk st ->
  c_expansions st <=
  match d_ops D with
  | [op] => occurrences (arr_of_list (d_fields D)) (arr_of_list (d_sets D)) (cost_fuel D) (op_root op)
  | _ => 0
  end.
Proof.
  intros Hflat H. rewrite (cost_run_expansions D st H).
  destruct (d_ops D) as [|op [|op2 l]]; try lia.
  apply paths_linear_when_bodies_flat. exact Hflat.
Qed.
