(** * Cplx/Tables.v — the small containers the count models run on (no proofs here):
    arrays indexed by [N] (a [PositiveMap] built from a list: position = index), sets of [N],
    sets of pairs of [N].  Their characteristic lemmas are in TablesProofs.v. *)
From Coq Require Import List NArith ZArith Bool FMapPositive.
Import ListNotations.

Definition key (i : N) : positive := N.succ_pos i.

(** ** arrays *)
Definition arr (A : Type) := PositiveMap.t A.

Fixpoint arr_from {A} (i : N) (l : list A) (m : arr A) : arr A :=
  match l with
  | [] => m
  | a :: l' => arr_from (N.succ i) l' (PositiveMap.add (key i) a m)
  end.
Definition arr_of_list {A} (l : list A) : arr A := arr_from 0%N l (PositiveMap.empty A).
Definition aget {A} (m : arr A) (i : N) : option A := PositiveMap.find (key i) m.

(** association list to map, later entries override earlier ones (Go: m[k] = v in document order) *)
Fixpoint map_of_assoc {A} (l : list (N * A)) (m : arr A) : arr A :=
  match l with
  | [] => m
  | (k, a) :: l' => map_of_assoc l' (PositiveMap.add (key k) a m)
  end.

(** ** sets of N *)
Definition nset := PositiveMap.t unit.
Definition nempty : nset := PositiveMap.empty unit.
Definition nmem (i : N) (s : nset) : bool :=
  match PositiveMap.find (key i) s with Some _ => true | None => false end.
Definition nadd (i : N) (s : nset) : nset := PositiveMap.add (key i) tt s.

(** ** sets of pairs *)
Definition pairset := PositiveMap.t nset.
Definition pempty : pairset := PositiveMap.empty nset.
Definition pmem (a b : N) (s : pairset) : bool :=
  match PositiveMap.find (key a) s with Some r => nmem b r | None => false end.
Definition padd (a b : N) (s : pairset) : pairset :=
  let r := match PositiveMap.find (key a) s with Some r => r | None => nempty end in
  PositiveMap.add (key a) (nadd b r) s.
