(** * Cplx/ScanSteps.v — the scanner (property C07's model, Lex/LexModel.v) goes through the input
    once: the state after the last Scan() is reached from the initial state by [consume_rune]
    transitions only (and error reports), one per rune of the input, each moving the offset forward
    by at least one byte.  Hence consumeRune is executed exactly [runes bs] <= |bs| times for every
    byte string, valid UTF-8 or not, with or without lexical errors, in both modes.

    [nsteps d k st st'] is C07's trace relation (Lex/LexProgress.v): [st'] is reached from [st] by
    exactly k consumeRune transitions. *)
From Coq Require Import List NArith ZArith Bool Lia.
From ApiFu Require Import Base.Sexp Lex.LexModel Lex.LexProgress Cplx.TokenClass.
Import ListNotations.

Lemma rune_count_le : forall fuel rest, (rune_count fuel rest <= length rest)%nat.
Proof.
  induction fuel as [|f IH]; intros rest; cbn [rune_count]; [lia|].
  destruct rest as [|b t] eqn:E; [cbn; lia|]. rewrite <- E.
  assert (Hne : rest <> []) by (subst; congruence).
  pose proof (read_next_rune_size_pos rest Hne). pose proof (read_next_rune_size_le rest).
  specialize (IH (skipn (snd (read_next_rune rest)) rest)). rewrite skipn_length in IH. lia.
Qed.

Lemma rune_count_S f rest : rest <> [] ->
  rune_count (S f) rest = S (rune_count f (skipn (snd (read_next_rune rest)) rest)).
Proof. intros H. cbn [rune_count]. destruct rest; [congruence|reflexivity]. Qed.

Lemma nsteps_count d k st st' : nsteps d k st st' -> is_done st' = true ->
  forall fuel, (length (s_rest st) <= fuel)%nat -> k = rune_count fuel (s_rest st).
Proof.
  induction 1 as [d st|d k st st' Hd Hv H IH|k st st' Hd H IH|d k st st' H IH]; intros Hdone fuel Hf.
  - unfold is_done in Hdone. destruct (s_rest st); [|discriminate]. destruct fuel; reflexivity.
  - apply is_done_false in Hd. destruct fuel as [|f]; [destruct (s_rest st); [congruence|cbn in Hf; lia]|].
    rewrite rune_count_S by exact Hd. f_equal.
    pose proof (read_next_rune_size_pos (s_rest st) Hd).
    specialize (IH Hdone f). unfold consume_rune in IH. cbn [s_rest] in IH. unfold next_size in IH.
    apply IH. rewrite skipn_length. lia.
  - apply is_done_false in Hd. destruct fuel as [|f]; [destruct (s_rest st); [congruence|cbn in Hf; lia]|].
    rewrite rune_count_S by exact Hd. f_equal.
    pose proof (read_next_rune_size_pos (s_rest st) Hd).
    specialize (IH Hdone f). unfold consume_rune in IH. cbn [s_rest] in IH. unfold next_size in IH.
    apply IH. rewrite skipn_length. lia.
  - apply (IH Hdone fuel). exact Hf.
Qed.

(** all the Scan() calls of one run, as one trace *)
Lemma scan_all_trace m : forall fuel st, (length (s_rest st) < fuel)%nat ->
  exists ts es st', scan_all fuel m st = Done ts es /\ steps (length ts) st st' /\ is_done st' = true.
Proof.
  induction fuel as [|f IH]; intros st Hf; [lia|].
  cbn [scan_all].
  destruct (scan_ok m (S (fuel_of st)) st) as [(st' & H1 & [K1 _] & D1)|(t & st0 & st' & H1 & [K1 _] & T1)];
    [unfold fuel_of; lia| |]; rewrite H1.
  - exists [], (s_errs st'), st'. split; [reflexivity|]. split; [exact K1|exact D1].
  - pose proof (ta_steps _ _ _ T1) as TS.
    pose proof (steps_length _ _ _ K1) as L0. pose proof (steps_length _ _ _ TS) as L1.
    destruct (IH st') as (ts & es & st2 & H2 & S2 & D2); [lia|]. rewrite H2.
    exists (t :: ts), es, st2. split; [reflexivity|]. split; [|exact D2].
    cbn [length]. eapply steps_weaken; [eapply steps_trans; [eapply steps_trans; [exact K1|exact TS]|exact S2]|lia].
Qed.

(** for every byte string: the scanner terminates, and the state at the end is reached by exactly
    [runes bs] consumeRune transitions — at least one per token, at most one per byte *)
Theorem scan_steps_linear : forall (m : bool) (bs : bytes),
  exists ts es st' k,
    lex m bs = Done ts es
    /\ nsteps false k (init bs) st' /\ is_done st' = true
    /\ k = runes bs
    /\ (length ts <= k <= length bs)%nat.
Proof.
  intros m bs. unfold lex.
  destruct (scan_all_trace m (S (length bs)) (init bs)) as (ts & es & st' & H & (k & Hk & N) & D).
  { cbn [init s_rest]. lia. }
  exists ts, es, st', k. split; [exact H|]. split; [exact N|]. split; [exact D|].
  pose proof (nsteps_count _ _ _ _ N D (length bs) (le_n _)) as Hc. cbn [init s_rest] in Hc.
  split; [exact Hc|]. split; [exact Hk|]. rewrite Hc. apply rune_count_le.
Qed.
