(** * Cplx/ComplexitySpec.v — C12, the reference: what "polynomially bounded" and "the depth limit is
    about depth only" mean, written from the property statement.

    - nesting depth of a token stream = the largest number of brackets ( [ { open at once
      ([maxnest], a plain scan; nothing about the grammar);
    - the depth limit: a "maximum recursion depth" error only if  4 * nesting + 6 > limit
      (so breadth never matters), and nesting > limit is never accepted;
    - work bounds: explicit polynomials in the sizes of the document
      ([parse_steps_bound], [merge_steps_bound], [cycle_steps_bound], [var_steps_bound]);
    - the oracle applied to every observed run of the implementation: outcome class, the depth
      clauses, counter balance, and  work <= headroom * unit * bound  per component.

    [unit_*] is the number of Go statements the clean tree executes per counted model step
    (measured medians, see checks/C12.design.md); [headroom] = 100. *)
From Coq Require Import List NArith ZArith Bool String.
From ApiFu Require Import Cplx.Tables Cplx.ParserDepthModel Cplx.MergeCountModel Cplx.ComplexityDecode.
Import ListNotations.
Open Scope Z_scope.

(** ** nesting depth of a token stream *)
Definition delta (t : tok) : Z :=
  match t with
  | TLBrace | TLBrack | TLParen => 1
  | TRBrace | TRBrack | TRParen => -1
  | _ => 0
  end.

(** [open] brackets after the prefix read so far, [m] the maximum so far *)
Fixpoint nest_scan (open m : Z) (ts : list tok) : Z * Z :=
  match ts with
  | [] => (open, m)
  | t :: r => let o := open + delta t in nest_scan o (Z.max m o) r
  end.
Definition maxnest (ts : list tok) : Z := snd (nest_scan 0 0 ts).

(** productions entered above the outermost bracket, productions per bracket level (a selection
    set inside a field costs parseSelectionSet, parseSelection, parseField,
    parseOptionalSelectionSet) *)
Definition depth_base : Z := 6.
Definition depth_per_level : Z := 4.

(** ** sizes of an abstract document *)
Definition n_fields (D : doc) : Z := Z.of_nat (List.length (d_fields D)).
Definition n_sets (D : doc) : Z := Z.of_nat (List.length (d_sets D)).
Definition n_items (D : doc) : Z := Z.of_nat (List.length (List.concat (d_sets D))).
Definition n_visits (D : doc) : Z := Z.of_nat (List.length (d_order D)).
Definition n_frags (D : doc) : Z := Z.of_nat (List.length (d_frags D)).
Definition n_ops (D : doc) : Z := Z.of_nat (List.length (d_ops D)).
Definition n_spreads (D : doc) : Z :=
  Z.of_nat (List.length (filter (fun it => match it with ISpread _ => true | _ => false end) (List.concat (d_sets D)))).
Definition max_weight (D : doc) : Z := fold_right (fun f m => Z.max (f_weight f) m) 0 (d_fields D).
Definition frag_nodes (D : doc) : Z := fold_right (fun fd k => fr_nodes fd + k) 0 (d_frags D).
Definition op_nodes_sum (D : doc) : Z := fold_right (fun o k => op_nodes o + k) 0 (d_ops D).

(** |D|: everything the abstraction counts *)
Definition doc_size (D : doc) : Z :=
  n_fields D + n_sets D + n_items D + n_visits D + n_frags D + n_ops D + max_weight D.

(** ** the polynomials *)
Definition parse_steps_bound (ntok : Z) : Z := 8 * ntok + 8.

(** one addFieldSelections call; entries it can add; pairs of a merged set *)
Definition addfs_cost (D : doc) : Z := 2 * n_items D + 3.
Definition merged_pairs (D : doc) : Z := (2 * n_items D) * (2 * n_items D).
Definition leaf_shape_cost : Z := 6.
Definition leaf_pair_cost (D : doc) : Z := leaf_shape_cost + 2 * max_weight D + 6.
Definition shape_body_cost (D : doc) : Z :=
  1 + 2 * addfs_cost D + merged_pairs D * (1 + leaf_shape_cost).
Definition pair_body_cost (D : doc) : Z :=
  leaf_shape_cost + 2 * max_weight D + 2 * addfs_cost D + 1 + merged_pairs D * (1 + leaf_pair_cost D).
Definition top_cost (D : doc) : Z :=
  3 + addfs_cost D + n_items D * n_items D * (1 + leaf_pair_cost D).
(** [resets]: how often the sets of checked pairs were emptied (once per reported conflict) *)
Definition merge_steps_bound_r (D : doc) (resets : Z) : Z :=
  n_visits D * top_cost D
  + (resets + 1) * (n_fields D * n_fields D) * (pair_body_cost D + shape_body_cost D).
Definition merge_steps_bound (D : doc) : Z := merge_steps_bound_r D (n_visits D).

Definition cycle_steps_bound (D : doc) : Z := n_frags D * (2 * n_spreads D + 3).
Definition var_steps_bound (D : doc) : Z := op_nodes_sum D + n_ops D * (frag_nodes D + n_spreads D + n_frags D + 1).
(** what a polynomial cost walk would be allowed: every spread expands one definition once *)
Definition cost_steps_allowance (D : doc) : Z := (n_spreads D + 1) * (d_nodes D + 1).

(** does a fragment definition contain a fragment spread (the shape behind defect 16)? *)
Definition spread_in_set (D : doc) (s : N) : bool :=
  match nth_error (d_sets D) (N.to_nat s) with
  | Some its => existsb (fun it => match it with ISpread _ => true | _ => false end) its
  | None => false
  end.
Definition has_spreads (D : doc) : bool :=
  existsb (existsb (fun it => match it with ISpread _ => true | _ => false end)) (d_sets D).
Definition spreads_total_ge2 (D : doc) : bool := 2 <=? n_spreads D.

(** ** units and headroom *)
Definition headroom : Z := 100.
Definition unit_scan : Z := 14.
Definition unit_parse : Z := 12.
Definition unit_fields : Z := 6.
Definition unit_frags : Z := 7.
Definition unit_vars : Z := 2.
Definition unit_valid : Z := 9.
Definition unit_cost : Z := 20.

(** the validator rules that do not follow fragment spreads (arguments, directives, values,
    operations, fragment declarations, type info: every file of graphql/validator other than
    validate_fields / _fragments / _variables / _cost) are ast.Inspect passes that do a bounded amount
    of work per AST node: measured 32 .. 49 statements per node on every document of the corpus *)
Definition unit_other : Z := 40.

(** linear passes of the validator (type info, one ast.Inspect per rule) *)
Definition linear_passes : Z := 10.

(** ** the oracle: [None] = the observed run satisfies the property, [Some key] = it does not *)
Record run := {
  r_limit : Z;
  r_toks : list tok;
  r_len : Z;
  r_outcome : outcome;
  r_enter : Z; r_exit : Z;
  r_work_scan : Z; r_work_parse : Z; r_work_fields : Z; r_work_frags : Z; r_work_vars : Z; r_work_valid : Z;
  r_work_other : Z;
  r_runes : Z; r_peeks : Z; r_decodes : Z;   (* calls of the scanner's consumeRune, peek, readNextRune *)
  r_doc : option doc;
  r_cost : option (outcome * Z);       (* run with ValidateCost: outcome, extra statements *)
  r_ns : Z; r_cost_ns : Z; r_timed : bool
}.

Definition is_refusal (o : outcome) : bool := match o with OSyntax | ODepth => true | _ => false end.
Definition is_crash (o : outcome) : bool := match o with OPanic | OTimeout => true | _ => false end.

Definition oracle (r : run) : option string :=
  let ntok := Z.of_nat (List.length (r_toks r)) in
  let nest := maxnest (r_toks r) in
  let cost_crash := match r_cost r with Some (o, _) => is_crash o | None => false end in
  if match r_outcome r with OPanic => true | _ => false end then Some "crash"%string
  else if match r_outcome r with OTimeout => true | _ => false end then Some "timeout"%string
  else if match r_outcome r with ODepth => true | _ => false end
          && (depth_base + depth_per_level * nest <=? r_limit r)
       then Some "depth-error-on-shallow-document"%string
  else if (r_limit r <? nest) && negb (is_refusal (r_outcome r))
       then Some "deep-document-not-refused"%string
  else if negb (is_refusal (r_outcome r)) && negb (r_enter r =? r_exit r)
       then Some "recursion-counter-leak"%string
  else if headroom * unit_scan * (r_len r + 1) <? r_work_scan r then Some "scan-work"%string
  (* Cplx/ScanSteps.v: one consumeRune per rune, at most one per byte; one DecodeRune per consumeRune
     and one for New; peek() at most twice per rune (observed: <= 1.1) *)
  else if (r_len r <? r_runes r) || (r_len r + 1 <? r_decodes r) || (2 * r_len r + 2 <? r_peeks r)
  then Some "scan-reads"%string
  else if headroom * unit_parse * parse_steps_bound ntok <? r_work_parse r then Some "parse-work"%string
  else
    match r_doc r with
    | None => None
    | Some D =>
        if headroom * unit_fields * (2 * d_nodes D + merge_steps_bound D) <? r_work_fields r
        then Some "merge-work"%string
        else if headroom * unit_frags * (2 * d_nodes D + cycle_steps_bound D) <? r_work_frags r
        then Some "fragment-cycle-search-work"%string
        else if headroom * unit_vars * (n_ops D + n_frags D + var_steps_bound D) <? r_work_vars r
        then Some "variable-walk-work"%string
        else if headroom * unit_other * (d_nodes D + 1) <? r_work_other r
        then Some "other-rules-work"%string
        else if headroom * unit_valid * (linear_passes * d_nodes D + merge_steps_bound D + cycle_steps_bound D + var_steps_bound D)
                <? r_work_valid r
        then Some "validate-work"%string
        else if cost_crash then Some "cost-walk-crash"%string
        else if match r_cost r with
                | Some (_, w) => headroom * unit_cost * cost_steps_allowance D <? w
                | None => false
                end
        then Some (if has_spreads D && spreads_total_ge2 D then "cost-walk-reexpansion" else "cost-walk-work")%string
        else if r_timed r && (50000000 + 200 * (r_work_scan r + r_work_parse r + r_work_valid r) <? r_ns r)
        then Some "slow-step"%string
        else None
    end.
