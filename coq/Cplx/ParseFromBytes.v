(** * Cplx/ParseFromBytes.v — the parser bounds stated from the BYTES of the request, by composing
    with the scanner model of property C07 (Lex/LexModel.v, tied to graphql/scanner by C07's own
    check): the scanner terminates on every byte string with tokens of at least one byte each
    (C07, lex_progress), so there are at most as many tokens as bytes, and the parser enters at most
    8 |bytes| + 6 productions.

    [tok_class] is what parser.go looks at in a token (the harness function tokenClasses): kind, and
    the spelling of a NAME or PUNCTUATOR.  A token no production ever tests for ('&', which the
    executable-document grammar does not use) is mapped to [TPipe], which no production tests for
    either. *)
From Coq Require Import List NArith ZArith Bool Lia.
From ApiFu Require Import Base.Sexp Lex.LexModel Lex.LexProgress Cplx.TokenClass.
From ApiFu Require Cplx.ParserDepthModel Cplx.ComplexitySpec Cplx.ParserDepthProofs.
Import ListNotations.
Open Scope Z_scope.


Lemma extents_count bs : forall ts from, 0 <= from -> extents_ok bs from ts ->
  from + Z.of_nat (length ts) <= Z.of_nat (length bs).
Proof.
  induction ts as [|t ts IH]; intros from H0 X; cbn [extents_ok length] in *; [lia|].
  destruct X as (X1 & X2 & X3 & _ & _ & X5). specialize (IH (t_off t + t_len t) ltac:(lia) X5). lia.
Qed.

(** what the parser does on the tokens the scanner delivers for ANY byte string *)
Theorem parse_from_bytes_linear : forall bs : bytes,
  exists ts es,
    lex false bs = Done ts es
    /\ (length ts <= length bs)%nat
    /\ match ParserDepthModel.parse ParserDepthModel.go_cfg (map tok_class ts) with
       | ParserDepthModel.Ok s' | ParserDepthModel.Err _ s' => ParserDepthModel.steps s' <= 8 * Z.of_nat (length bs) + 6
       | ParserDepthModel.OutOfFuel => False
       end
    /\ (forall s', ParserDepthModel.parse ParserDepthModel.go_cfg (map tok_class ts) = ParserDepthModel.Err ParserDepthModel.DepthErr s' ->
                   1000 < 6 + 4 * ComplexitySpec.maxnest (map tok_class ts)).
Proof.
  intros bs. destruct (lex_progress false bs) as (ts & es & H & X).
  exists ts, es. split; [exact H|].
  pose proof (extents_count bs ts 0 ltac:(lia) X) as Hc.
  split; [lia|]. split.
  - pose proof (ParserDepthProofs.parse_steps_linear ParserDepthModel.go_cfg eq_refl (map tok_class ts)) as Hs.
    rewrite map_length in Hs. destruct (ParserDepthModel.parse ParserDepthModel.go_cfg (map tok_class ts)); [lia|lia|exact Hs].
  - exact (proj1 (ParserDepthProofs.depth_limit_iff (map tok_class ts))).
Qed.
