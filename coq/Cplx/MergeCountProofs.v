(** * Cplx/MergeCountProofs.v — the overlapping-fields pass with the sets of checked pairs does a
    polynomial number of steps (defect 15 repaired): [merge_steps_poly].

    Argument: amortisation over the two sets of checked pairs.  With
      Phi st = m_steps st - Bp * |m_can st| - Bs * |m_shape st|
    (|.| counts the pairs of field indices below the number of fields), a call of
    validateSameResponseShape raises Phi by at most [leaf_shape_cost] and the body of the pair loop
    of validateFieldsInSetCanMerge by at most [leaf_pair_cost]: a pair that is put into a set pays
    for the whole body of its check (two addFieldSelections and one loop over at most (2 n_items)^2
    pairs) by lowering Phi by Bs resp. Bp; a pair found in the set costs one step.  A reported
    conflict empties both sets and so raises Phi by at most (Bp + Bs) * fields^2. *)
From Coq Require Import List NArith ZArith Bool FMapPositive Lia PeanoNat.
From ApiFu Require Import Cplx.Tables Cplx.TablesProofs Cplx.MergeCountModel Cplx.ComplexityDecode Cplx.ComplexitySpec.
Import ListNotations.
Open Scope Z_scope.

(** ** sums over an initial segment of the indices *)
Fixpoint sum_to (n : nat) (f : nat -> Z) : Z :=
  match n with O => 0 | S k => sum_to k f + f k end.

Lemma sum_to_ext n f g : (forall t, (t < n)%nat -> f t = g t) -> sum_to n f = sum_to n g.
Proof. induction n as [|n IH]; intros H; cbn [sum_to]; [reflexivity|]. rewrite IH, H by (intros; try apply H; lia). reflexivity. Qed.

Lemma sum_to_update n f g t0 :
  (forall t, t <> t0 -> f t = g t) -> (t0 < n)%nat -> sum_to n g = sum_to n f + (g t0 - f t0).
Proof.
  induction n as [|n IH]; intros H Hlt; [lia|]. cbn [sum_to].
  destruct (Nat.eq_dec t0 n) as [->|Hne].
  - rewrite (sum_to_ext n g f) by (intros t Ht; symmetry; apply H; lia). lia.
  - rewrite IH by (assumption || lia). rewrite <- (H n) by congruence. lia.
Qed.

Lemma sum_to_bounds n f lo hi : (forall t, (t < n)%nat -> lo <= f t <= hi) ->
  Z.of_nat n * lo <= sum_to n f <= Z.of_nat n * hi.
Proof.
  induction n as [|n IH]; intros H; cbn [sum_to]; [lia|].
  specialize (IH (fun t Ht => H t (Nat.lt_lt_succ_r _ _ Ht))). specialize (H n (Nat.lt_succ_diag_r n)). nia.
Qed.

(** ** weight of the selection sets not yet visited *)
Section Weights.
  Variable nsets : nat.
  Variable w : nat -> Z.
  Hypothesis w_nonneg : forall t, 0 <= w t.

  Definition wsum (vs : nset) : Z := sum_to nsets (fun t => if nmem (N.of_nat t) vs then 0 else w t).

  Lemma wsum_nonneg vs : 0 <= wsum vs.
  Proof.
    unfold wsum. pose proof (sum_to_bounds nsets (fun t => if nmem (N.of_nat t) vs then 0 else w t) 0 (sum_to nsets w + 1)) as H.
    assert (forall n, 0 <= sum_to n w) as Hs by (induction n; cbn [sum_to]; [lia|specialize (w_nonneg n); lia]).
    assert (Hle : forall n t, (t < n)%nat -> w t <= sum_to n w).
    { induction n as [|n IH]; intros t Ht; [lia|]. cbn [sum_to]. destruct (Nat.eq_dec t n) as [->|].
      - specialize (Hs n). lia.
      - specialize (IH t ltac:(lia)). specialize (w_nonneg n). lia. }
    destruct H as [H _]; [|lia]. intros t Ht. destruct (nmem _ _); [specialize (Hs nsets); lia|].
    specialize (Hle nsets t Ht). specialize (w_nonneg t). lia.
  Qed.

  Lemma wsum_nempty : wsum nempty = sum_to nsets w.
  Proof. unfold wsum. apply sum_to_ext. intros t _. now rewrite nmem_nempty. Qed.

  Lemma wsum_nadd_in s vs : nmem s vs = false -> (N.to_nat s < nsets)%nat ->
    wsum (nadd s vs) = wsum vs - w (N.to_nat s).
  Proof.
    intros Hn Hlt. unfold wsum.
    rewrite (sum_to_update nsets (fun t => if nmem (N.of_nat t) vs then 0 else w t)
                           (fun t => if nmem (N.of_nat t) (nadd s vs) then 0 else w t) (N.to_nat s)); [|
      intros t Ht; rewrite nmem_nadd; destruct (N.eqb_spec (N.of_nat t) s); [subst s; rewrite Nat2N.id in Ht; congruence|reflexivity] | exact Hlt].
    rewrite N2Nat.id, nmem_nadd, N.eqb_refl, Hn. cbn [orb]. lia.
  Qed.

  Lemma wsum_nadd_out s vs : (nsets <= N.to_nat s)%nat -> wsum (nadd s vs) = wsum vs.
  Proof.
    intros Hge. unfold wsum. apply sum_to_ext. intros t Ht. rewrite nmem_nadd.
    destruct (N.eqb_spec (N.of_nat t) s); [subst s; rewrite Nat2N.id in Hge; lia|reflexivity].
  Qed.
End Weights.

(** ** number of pairs below [F] x [F] in a set of pairs *)
Definition pcount (F : nat) (s : pairset) : Z :=
  sum_to F (fun a => sum_to F (fun b => if pmem (N.of_nat a) (N.of_nat b) s then 1 else 0)).

Lemma pcount_bounds F s : 0 <= pcount F s <= Z.of_nat F * Z.of_nat F.
Proof.
  unfold pcount.
  pose proof (sum_to_bounds F (fun a => sum_to F (fun b => if pmem (N.of_nat a) (N.of_nat b) s then 1 else 0)) 0 (Z.of_nat F)) as H.
  destruct H as [H1 H2]; [|lia]. intros a _.
  pose proof (sum_to_bounds F (fun b => if pmem (N.of_nat a) (N.of_nat b) s then 1 else 0) 0 1) as H.
  destruct H as [H1 H2]; [|lia]. intros b _. destruct (pmem _ _ _); lia.
Qed.

Lemma pcount_pempty F : pcount F pempty = 0.
Proof.
  unfold pcount. pose proof (sum_to_bounds F (fun a => sum_to F (fun b => if pmem (N.of_nat a) (N.of_nat b) pempty then 1 else 0)) 0 0) as H.
  destruct H as [H1 H2]; [|lia]. intros a _.
  pose proof (sum_to_bounds F (fun b => if pmem (N.of_nat a) (N.of_nat b) pempty then 1 else 0) 0 0) as H.
  destruct H as [H1 H2]; [|lia]. intros b _. rewrite pmem_pempty. lia.
Qed.

Lemma pcount_padd F a b s : pmem a b s = false -> (N.to_nat a < F)%nat -> (N.to_nat b < F)%nat ->
  pcount F (padd a b s) = pcount F s + 1.
Proof.
  intros Hn Ha Hb. unfold pcount.
  rewrite (sum_to_update F (fun a' => sum_to F (fun b' => if pmem (N.of_nat a') (N.of_nat b') s then 1 else 0))
                         (fun a' => sum_to F (fun b' => if pmem (N.of_nat a') (N.of_nat b') (padd a b s) then 1 else 0))
                         (N.to_nat a)); [| |exact Ha].
  - rewrite (sum_to_update F (fun b' => if pmem (N.of_nat (N.to_nat a)) (N.of_nat b') s then 1 else 0)
                           (fun b' => if pmem (N.of_nat (N.to_nat a)) (N.of_nat b') (padd a b s) then 1 else 0)
                           (N.to_nat b)); [| |exact Hb].
    + rewrite !N2Nat.id, pmem_padd, !N.eqb_refl, Hn. cbn [andb orb]. lia.
    + intros t Ht. rewrite pmem_padd. destruct (N.eqb_spec (N.of_nat t) b) as [E|_]; [subst b; rewrite Nat2N.id in Ht; congruence|].
      now rewrite andb_false_r.
  - intros t Ht. apply sum_to_ext. intros t' _. rewrite pmem_padd.
    destruct (N.eqb_spec (N.of_nat t) a) as [E|_]; [subst a; rewrite Nat2N.id in Ht; congruence|]. reflexivity.
Qed.

(** ** addFieldSelections *)
Definition gsize (g : groups) : Z := fold_right (fun kl acc => Z.of_nat (length (snd kl)) + acc) 0 g.

Fixpoint each_loop (fields : arr field) (frags : arr fragdef) (rec : N -> groups -> nset -> mst -> ares)
         (its : list item) (g : groups) (vs : nset) (st : mst) : ares :=
  match its with
  | [] => AOk g vs st
  | it :: its' =>
      let st := tick 1 st in
      match it with
      | IField fid =>
          match aget fields fid with
          | Some fr => each_loop fields frags rec its' (group_add (f_key fr) (fid, fr) g) vs st
          | None => each_loop fields frags rec its' g vs st
          end
      | IInline s' =>
          match rec s' g vs st with
          | AOk g' vs' st' => each_loop fields frags rec its' g' vs' st'
          | r => r
          end
      | ISpread nm =>
          match aget frags nm with
          | None => AErr st
          | Some fd =>
              match rec (fr_root fd) g vs st with
              | AOk g' vs' st' => each_loop fields frags rec its' g' vs' st'
              | r => r
              end
          end
      end
  end.

Definition sets_eq (st st' : mst) : Prop := m_can st' = m_can st /\ m_shape st' = m_shape st /\ n_shape st' = n_shape st.

Lemma sets_eq_refl st : sets_eq st st. Proof. repeat split; reflexivity. Qed.
Lemma sets_eq_trans a b c : sets_eq a b -> sets_eq b c -> sets_eq a c.
Proof. unfold sets_eq. intros (? & ? & ?) (? & ? & ?). repeat split; congruence. Qed.

Ltac se := unfold sets_eq in *; intuition congruence.

Section AddFs.
  Variable fields : arr field.
  Variable sets : arr (list item).
  Variable frags : arr fragdef.
  Variable nsets : nat.
  Hypothesis Hsets : forall s, (nsets <= N.to_nat s)%nat -> aget sets s = None.

  Definition items (s : N) : list item := match aget sets s with Some its => its | None => [] end.
  Definition wI (t : nat) : Z := Z.of_nat (length (items (N.of_nat t))).
  Definition W (vs : nset) : Z := wsum nsets wI vs.
  Definition U (vs : nset) : Z := wsum nsets (fun _ => 1) vs.
  Definition NI : Z := sum_to nsets wI.

  Lemma wI_nonneg t : 0 <= wI t. Proof. unfold wI. lia. Qed.
  Lemma W_nonneg vs : 0 <= W vs. Proof. apply wsum_nonneg, wI_nonneg. Qed.
  Lemma U_nonneg vs : 0 <= U vs. Proof. apply wsum_nonneg. intros; lia. Qed.
  Lemma NI_nonneg : 0 <= NI. Proof. unfold NI. rewrite <- wsum_nempty. apply W_nonneg. Qed.
  Lemma U_nempty : U nempty = Z.of_nat nsets.
  Proof.
    unfold U. rewrite wsum_nempty.
    pose proof (sum_to_bounds nsets (fun _ => 1) 1 1 ltac:(intros; lia)). lia.
  Qed.

  Definition eok (e : entry) : Prop := aget fields (fst e) = Some (snd e).
  Definition gok (g : groups) : Prop := Forall (fun kl => Forall eok (snd kl)) g.

  Lemma gsize_group_add k e g : gsize (group_add k e g) = gsize g + 1.
  Proof.
    induction g as [|[k' l] g IH]; cbn [group_add gsize fold_right snd length]; [lia|].
    destruct (N.eqb k k'); cbn [gsize fold_right snd length]; [lia|]. fold (gsize (group_add k e g)). fold (gsize g). lia.
  Qed.

  Lemma gok_group_add k e g : eok e -> gok g -> gok (group_add k e g).
  Proof.
    intros He. induction g as [|[k' l] g IH]; intros Hg; cbn [group_add].
    - repeat constructor. exact He.
    - inversion Hg as [|? ? Hl Hg']; subst. destruct (N.eqb k k').
      + constructor; [constructor; assumption|assumption].
      + constructor; [assumption|apply IH; assumption].
  Qed.

  Lemma add_fs_cd_S f s g vs st :
    add_fs_cd fields sets frags (S f) s g vs st =
    let st := count_addfscd st in
    if nmem s vs then AOk g vs st
    else each_loop fields frags (add_fs_cd fields sets frags f) (items s) g (nadd s vs) st.
  Proof.
    cbn [add_fs_cd]. cbv zeta. destruct (nmem s vs); [reflexivity|].
    unfold items. generalize (match aget sets s with Some its => its | None => [] end).
    generalize (nadd s vs). generalize (count_addfscd st). revert g.
    intros g st0 vs0 l. revert g vs0 st0.
    induction l as [|it l IH]; intros g vs0 st0; [reflexivity|].
    cbn [each_loop]. destruct it as [fid|s'|nm].
    - destruct (aget fields fid); apply IH.
    - destruct (add_fs_cd fields sets frags f s' g vs0 (tick 1 st0)); try reflexivity. apply IH.
    - destruct (aget frags nm); [|reflexivity].
      destruct (add_fs_cd fields sets frags f (fr_root f0) g vs0 (tick 1 st0)); try reflexivity. apply IH.
  Qed.

  (** what a (partial) run of addFieldSelectionsWithCycleDetection does: [ks] steps and [kg] entries
      beyond twice resp. once the weight of the newly visited selection sets *)
  Definition a_ok (ks kg : Z) (g : groups) (vs : nset) (st : mst) (r : ares) : Prop :=
    match r with
    | AOutOfFuel => False
    | AErr st' => sets_eq st st' /\ m_steps st' <= m_steps st + ks + 2 * W vs
    | AOk g' vs' st' =>
        sets_eq st st' /\ W vs' <= W vs /\ U vs' <= U vs
        /\ m_steps st' <= m_steps st + ks + 2 * (W vs - W vs')
        /\ gsize g' <= gsize g + kg + (W vs - W vs')
        /\ gok g'
    end.

  Lemma each_loop_ok f
        (IHf : forall s g vs st, U vs < Z.of_nat f -> gok g -> a_ok 1 0 g vs st (add_fs_cd fields sets frags f s g vs st)) :
    forall its g vs st, U vs < Z.of_nat f -> gok g ->
      a_ok (2 * Z.of_nat (length its)) (Z.of_nat (length its)) g vs st
           (each_loop fields frags (add_fs_cd fields sets frags f) its g vs st).
  Proof.
    induction its as [|it its IH]; intros g vs st HU Hg.
    - cbn [each_loop a_ok length]. pose proof (W_nonneg vs). repeat split; try lia. exact Hg.
    - cbn [each_loop]. set (st1 := tick 1 st).
      assert (Hst1 : sets_eq st st1 /\ m_steps st1 = m_steps st + 1) by (repeat split; reflexivity).
      destruct Hst1 as [Hse1 Hm1].
      assert (Hlen : Z.of_nat (length (it :: its)) = Z.of_nat (length its) + 1) by (cbn [length]; lia).
      rewrite Hlen. clear Hlen.
      (* continuation after a recursive call *)
      assert (Hrec : forall s', a_ok (2 * (Z.of_nat (length its) + 1)) (Z.of_nat (length its) + 1) g vs st
                                     match add_fs_cd fields sets frags f s' g vs st1 with
                                     | AOk g' vs' st' => each_loop fields frags (add_fs_cd fields sets frags f) its g' vs' st'
                                     | r => r
                                     end).
      { intros s'. pose proof (IHf s' g vs st1 HU Hg) as H1.
        destruct (add_fs_cd fields sets frags f s' g vs st1) as [g' vs' st'|st'|]; cbn [a_ok] in H1 |- *.
        - destruct H1 as (Hse & HW & HU' & Hs & Hgs & Hg').
          pose proof (IH g' vs' st' ltac:(lia) Hg') as H2.
          destruct (each_loop fields frags (add_fs_cd fields sets frags f) its g' vs' st') as [g2 vs2 st2|st2|]; cbn [a_ok] in H2 |- *.
          + destruct H2 as (Hse2 & HW2 & HU2 & Hs2 & Hgs2 & Hg2).
            split; [se|].
            repeat split; try lia. exact Hg2.
          + destruct H2 as (Hse2 & Hs2). pose proof (W_nonneg vs').
            split; [se|]. lia.
          + exact H2.
        - destruct H1 as (Hse & Hs). pose proof (W_nonneg vs).
          split; [se|]. lia.
        - exact H1. }
      destruct it as [fid|s'|nm].
      + destruct (aget fields fid) as [fr|] eqn:Efr.
        * pose proof (IH (group_add (f_key fr) (fid, fr) g) vs st1 HU (gok_group_add (f_key fr) (fid, fr) g Efr Hg)) as H2.
          destruct (each_loop fields frags (add_fs_cd fields sets frags f) its _ vs st1) as [g2 vs2 st2|st2|]; cbn [a_ok] in H2 |- *.
          -- destruct H2 as (Hse2 & HW2 & HU2 & Hs2 & Hgs2 & Hg2). rewrite gsize_group_add in Hgs2.
             split; [se|]. repeat split; try lia. exact Hg2.
          -- destruct H2 as (Hse2 & Hs2). split; [se|]. lia.
          -- exact H2.
        * pose proof (IH g vs st1 HU Hg) as H2.
          destruct (each_loop fields frags (add_fs_cd fields sets frags f) its g vs st1) as [g2 vs2 st2|st2|]; cbn [a_ok] in H2 |- *.
          -- destruct H2 as (Hse2 & HW2 & HU2 & Hs2 & Hgs2 & Hg2).
             split; [se|]. repeat split; try lia. exact Hg2.
          -- destruct H2 as (Hse2 & Hs2). split; [se|]. lia.
          -- exact H2.
      + apply Hrec.
      + destruct (aget frags nm) as [fd|]; [apply Hrec|].
        cbn [a_ok]. pose proof (W_nonneg vs). split; [exact Hse1|]. lia.
  Qed.

  Lemma add_fs_cd_ok : forall f s g vs st, U vs < Z.of_nat f -> gok g ->
    a_ok 1 0 g vs st (add_fs_cd fields sets frags f s g vs st).
  Proof.
    induction f as [|f IHf]; intros s g vs st HU Hg; [pose proof (U_nonneg vs); lia|].
    rewrite add_fs_cd_S. cbv zeta. set (st1 := count_addfscd st).
    assert (Hse1 : sets_eq st st1) by (repeat split; reflexivity).
    assert (Hm1 : m_steps st1 = m_steps st + 1) by reflexivity.
    destruct (nmem s vs) eqn:Hmem.
    - cbn [a_ok]. repeat split; try lia. exact Hg.
    - destruct (Nat.lt_ge_cases (N.to_nat s) nsets) as [Hin|Hout].
      + pose proof (wsum_nadd_in nsets wI s vs Hmem Hin) as HW0. fold (W (nadd s vs)) in HW0. fold (W vs) in HW0.
        pose proof (wsum_nadd_in nsets (fun _ => 1) s vs Hmem Hin) as HU0. fold (U (nadd s vs)) in HU0. fold (U vs) in HU0. cbv beta in HU0.
        assert (HwI : wI (N.to_nat s) = Z.of_nat (length (items s))) by (unfold wI; now rewrite N2Nat.id).
        pose proof (each_loop_ok f IHf (items s) g (nadd s vs) st1 ltac:(lia) Hg) as H2.
        destruct (each_loop fields frags (add_fs_cd fields sets frags f) (items s) g (nadd s vs) st1) as [g2 vs2 st2|st2|]; cbn [a_ok] in H2 |- *.
        * destruct H2 as (Hse2 & HW2 & HU2 & Hs2 & Hgs2 & Hg2).
          split; [se|]. repeat split; try lia. exact Hg2.
        * destruct H2 as (Hse2 & Hs2). split; [se|]. lia.
        * exact H2.
      + unfold items. rewrite (Hsets s Hout). cbn [each_loop a_ok].
        pose proof (wsum_nadd_out nsets wI s vs Hout) as HW0. fold (W (nadd s vs)) in HW0. fold (W vs) in HW0.
        pose proof (wsum_nadd_out nsets (fun _ => 1) s vs Hout) as HU0. fold (U (nadd s vs)) in HU0. fold (U vs) in HU0.
        repeat split; try lia. exact Hg.
  Qed.

  Definition addfs_A : Z := 2 * NI + 3.

  (** addFieldSelections: at most [addfs_A] steps, at most [NI] new entries, never out of fuel *)
  Lemma add_fs_ok sub g st : gok g ->
    match add_fs fields sets frags nsets sub g st with
    | AOutOfFuel => False
    | AErr st' => sets_eq st st' /\ m_steps st' <= m_steps st + addfs_A
    | AOk g' _ st' => sets_eq st st' /\ m_steps st' <= m_steps st + addfs_A /\ gsize g' <= gsize g + NI /\ gok g'
    end.
  Proof.
    intros Hg. unfold add_fs, addfs_A. pose proof NI_nonneg as HN.
    destruct sub as [s|].
    - set (st1 := count_addfs st).
      assert (HW0 : W nempty = NI) by (unfold W, NI; apply wsum_nempty).
      pose proof (add_fs_cd_ok (S (S nsets)) s g nempty st1 ltac:(rewrite U_nempty; lia) Hg) as H.
      destruct (add_fs_cd fields sets frags (S (S nsets)) s g nempty st1) as [g2 vs2 st2|st2|]; cbn [a_ok] in H.
      + destruct H as (Hse2 & HW2 & HU2 & Hs2 & Hgs2 & Hg2). pose proof (W_nonneg vs2).
        change (m_steps st1) with (m_steps st + 1) in Hs2.
        split; [eapply sets_eq_trans; [|exact Hse2]; repeat split; reflexivity|]. repeat split; try lia. exact Hg2.
      + destruct H as (Hse2 & Hs2). change (m_steps st1) with (m_steps st + 1) in Hs2.
        split; [eapply sets_eq_trans; [|exact Hse2]; repeat split; reflexivity|]. lia.
      + exact H.
    - cbn [count_addfscd count_addfs m_steps]. repeat split; try lia. exact Hg.
  Qed.
End AddFs.

(** ** the loops over the pairs of a merged set *)
Fixpoint inner_loop (body : entry -> entry -> mst -> mres) (x : entry) (r : list entry) (st : mst) : mres :=
  match r with
  | [] => MOk st
  | y :: r' => match body x y (tick 1 st) with
               | MOk st' => inner_loop body x r' st'
               | e => e
               end
  end.

Lemma pairs_loop_cons body x r st :
  pairs_loop body (x :: r) st =
  match inner_loop body x r st with MOk st' => pairs_loop body r st' | e => e end.
Proof.
  cbn [pairs_loop].
  assert (H : forall r st,
             (fix inner (r0 : list entry) (st0 : mst) {struct r0} : mres :=
                match r0 with
                | [] => MOk st0
                | y :: r' => match body x y (tick 1 st0) with MOk st' => inner r' st' | e => e end
                end) r st = inner_loop body x r st).
  { clear. induction r as [|y r IH]; intros st; [reflexivity|]. cbn [inner_loop].
    destruct (body x y (tick 1 st)); try reflexivity. apply IH. }
  rewrite H. reflexivity.
Qed.

Lemma gsize_nonneg g : 0 <= gsize g.
Proof. induction g as [|[k l] g IH]; cbn [gsize fold_right snd]; [lia|]. fold (gsize g). lia. Qed.

Definition gin (x : entry) (g : groups) : Prop := exists kl, In kl g /\ In x (snd kl).

Section Amortised.
  Variable fields : arr field.
  Variable sets : arr (list item).
  Variable frags : arr fragdef.
  Variable nsets : nat.
  Variable F : nat.
  Variable MW : Z.
  Hypothesis Hsets : forall s, (nsets <= N.to_nat s)%nat -> aget sets s = None.
  Hypothesis Hfields : forall fid fr, aget fields fid = Some fr -> (N.to_nat fid < F)%nat /\ f_weight fr <= MW.
  Hypothesis HMW : 0 <= MW.

  Let NI := NI sets nsets.
  Let A := addfs_A sets nsets.
  Definition pairsP : Z := (2 * NI) * (2 * NI).
  Definition cS : Z := 6.
  Definition cP : Z := cS + 2 * MW + 6.
  Definition Bs : Z := 1 + 2 * A + pairsP * (1 + cS).
  Definition Bp : Z := cS + 2 * MW + 2 * A + 1 + pairsP * (1 + cP).

  Definition Phi (st : mst) : Z := m_steps st - Bp * pcount F (m_can st) - Bs * pcount F (m_shape st).

  Definition good (c : Z) (st : mst) (r : mres) : Prop :=
    match r with MOk st' | MErr st' => Phi st' <= Phi st + c | MOutOfFuel => False end.

  Lemma NI_ge0 : 0 <= NI. Proof. apply NI_nonneg. Qed.
  Lemma A_eq : A = 2 * NI + 3. Proof. reflexivity. Qed.
  Lemma pairsP_ge0 : 0 <= pairsP. Proof. unfold pairsP. pose proof NI_ge0. nia. Qed.
  Lemma cP_ge0 : 0 <= cP. Proof. unfold cP, cS. lia. Qed.
  Lemma Bs_ge0 : 0 <= Bs. Proof. unfold Bs, cS. pose proof pairsP_ge0. pose proof NI_ge0. rewrite A_eq. nia. Qed.
  Lemma Bp_ge0 : 0 <= Bp. Proof. unfold Bp. pose proof pairsP_ge0. pose proof NI_ge0. pose proof cP_ge0. unfold cS. rewrite A_eq. nia. Qed.

  Lemma Phi_sets_eq st st' : sets_eq st st' -> Phi st' = Phi st + (m_steps st' - m_steps st).
  Proof. intros (H1 & H2 & _). unfold Phi. rewrite H1, H2. lia. Qed.

  Lemma inner_loop_good body x c : 0 <= c ->
    forall r st, (forall y st, In y r -> good c st (body x y st)) ->
      good (Z.of_nat (length r) * (1 + c)) st (inner_loop body x r st).
  Proof.
    intros Hc. induction r as [|y r IH]; intros st Hb; cbn [inner_loop length].
    - cbn [good]. lia.
    - pose proof (Hb y (tick 1 st) (or_introl eq_refl)) as H1.
      assert (Ht : Phi (tick 1 st) = Phi st + 1) by (unfold Phi; cbn [tick m_steps m_can m_shape]; lia).
      destruct (body x y (tick 1 st)) as [st'|st'|]; cbn [good] in H1 |- *.
      + pose proof (IH st' (fun y0 st0 Hy => Hb y0 st0 (or_intror Hy))) as H2.
        destruct (inner_loop body x r st') as [st2|st2|]; cbn [good] in H2 |- *; nia.
      + nia.
      + exact H1.
  Qed.

  Lemma pairs_loop_good body c : 0 <= c ->
    forall l st, (forall x y st, In x l -> In y l -> good c st (body x y st)) ->
      good (Z.of_nat (length l) * Z.of_nat (length l) * (1 + c)) st (pairs_loop body l st).
  Proof.
    intros Hc. induction l as [|x l IH]; intros st Hb.
    - cbn [pairs_loop good length]. lia.
    - rewrite pairs_loop_cons.
      pose proof (inner_loop_good body x c Hc l st (fun y st0 Hy => Hb x y st0 (or_introl eq_refl) (or_intror Hy))) as H1.
      destruct (inner_loop body x l st) as [st'|st'|]; cbn [good] in H1 |- *.
      + pose proof (IH st' (fun x0 y0 st0 Hx Hy => Hb x0 y0 st0 (or_intror Hx) (or_intror Hy))) as H2.
        destruct (pairs_loop body l st') as [st2|st2|]; cbn [good length] in H2 |- *; nia.
      + cbn [length]. nia.
      + exact H1.
  Qed.

  Lemma groups_loop_good body c : 0 <= c ->
    forall g st, (forall x y st, gin x g -> gin y g -> good c st (body x y st)) ->
      good (gsize g * gsize g * (1 + c)) st (groups_loop body g st).
  Proof.
    intros Hc. induction g as [|[k l] g IH]; intros st Hb.
    - cbn [groups_loop good gsize fold_right]. lia.
    - cbn [groups_loop].
      assert (Hin : forall x, In x (rev l) -> gin x ((k, l) :: g)).
      { intros x Hx. exists (k, l). split; [left; reflexivity|]. cbn [snd]. now apply in_rev. }
      pose proof (pairs_loop_good body c Hc (rev l) st (fun x y st0 Hx Hy => Hb x y st0 (Hin x Hx) (Hin y Hy))) as H1.
      rewrite rev_length in H1.
      assert (Hgs : gsize ((k, l) :: g) = Z.of_nat (length l) + gsize g) by reflexivity.
      pose proof (gsize_nonneg g) as Hg0.
      destruct (pairs_loop body (rev l) st) as [st'|st'|]; cbn [good] in H1 |- *.
      + assert (Hb' : forall x y st0, gin x g -> gin y g -> good c st0 (body x y st0)).
        { intros x y st0 (kl & Hk & Hx) (kl' & Hk' & Hy). apply Hb; [exists kl|exists kl']; (split; [right; assumption|assumption]). }
        pose proof (IH st' Hb') as H2.
        destruct (groups_loop body g st') as [st2|st2|]; cbn [good] in H2 |- *; rewrite ?Hgs; nia.
      + rewrite Hgs. nia.
      + exact H1.
  Qed.

  Lemma gok_gin g x : gok fields g -> gin x g -> eok fields x.
  Proof.
    intros Hg (kl & Hk & Hx). unfold gok in Hg. rewrite Forall_forall in Hg.
    specialize (Hg kl Hk). rewrite Forall_forall in Hg. exact (Hg x Hx).
  Qed.

  Lemma gok_nil : gok fields []. Proof. constructor. Qed.

  (** two addFieldSelections into a fresh set *)
  Lemma two_add_fs sa sb st :
    match add_fs fields sets frags nsets sa [] st with
    | AOk g _ st1 =>
        match add_fs fields sets frags nsets sb g st1 with
        | AOk g2 _ st2 => Phi st2 <= Phi st + 2 * A /\ gsize g2 <= 2 * NI /\ gok fields g2
        | AErr st2 => Phi st2 <= Phi st + 2 * A
        | AOutOfFuel => False
        end
    | AErr st1 => Phi st1 <= Phi st + 2 * A
    | AOutOfFuel => False
    end.
  Proof.
    pose proof (add_fs_ok fields sets frags nsets Hsets sa [] st gok_nil) as H1.
    pose proof NI_ge0 as HN. pose proof A_eq as HA.
    destruct (add_fs fields sets frags nsets sa [] st) as [g v st1|st1|]; [|destruct H1 as [Hse Hs]|exact H1].
    - destruct H1 as (Hse & Hs & Hgs & Hg). change (gsize []) with 0 in Hgs.
      pose proof (add_fs_ok fields sets frags nsets Hsets sb g st1 Hg) as H2.
      destruct (add_fs fields sets frags nsets sb g st1) as [g2 v2 st2|st2|]; [|destruct H2 as [Hse2 Hs2]|exact H2].
      + destruct H2 as (Hse2 & Hs2 & Hgs2 & Hg2).
        rewrite (Phi_sets_eq st1 st2 Hse2), (Phi_sets_eq st st1 Hse). fold NI in Hgs, Hgs2. fold A in Hs, Hs2.
        repeat split; try lia. exact Hg2.
      + rewrite (Phi_sets_eq st1 st2 Hse2), (Phi_sets_eq st st1 Hse). fold A in Hs, Hs2. lia.
    - rewrite (Phi_sets_eq st st1 Hse). fold A in Hs. lia.
  Qed.

  Lemma untracked_subs a b : tracked true a b = false -> f_sub (snd a) = None /\ f_sub (snd b) = None.
  Proof. unfold tracked. cbn [andb]. destruct (f_sub (snd a)), (f_sub (snd b)); cbn; intros; try discriminate; split; reflexivity. Qed.

  Lemma eok_range a : eok fields a -> (N.to_nat (fst a) < F)%nat /\ f_weight (snd a) <= MW.
  Proof. intros H. exact (Hfields _ _ H). Qed.

  (** validateSameResponseShape *)
  Lemma same_shape_good : forall d a b st, eok fields a -> eok fields b ->
    good cS st (same_shape true fields sets frags nsets d a b st).
  Proof.
    induction d as [|d IH]; intros a b st Ha Hb.
    - cbn [same_shape good]. unfold Phi, cS. cbn [count_shape m_steps m_can m_shape]. lia.
    - cbn [same_shape]. set (st1 := count_shape st).
      assert (H1 : Phi st1 = Phi st + 1) by (unfold Phi; cbn [st1 count_shape m_steps m_can m_shape]; lia).
      pose proof Bs_ge0 as HBs. pose proof pairsP_ge0 as HP. pose proof NI_ge0 as HN.
      destruct (tracked true a b) eqn:T.
      + cbn [andb]. destruct (pmem (fst a) (fst b) (m_shape st1)) eqn:Pm.
        * cbn [good]. unfold cS. lia.
        * set (st2 := set_shape (padd (fst a) (fst b) (m_shape st1)) st1).
          assert (H2 : Phi st2 = Phi st1 - Bs).
          { unfold Phi. cbn [st2 set_shape m_steps m_can m_shape].
            rewrite (pcount_padd F _ _ _ Pm (proj1 (eok_range a Ha)) (proj1 (eok_range b Hb))). lia. }
          destruct (f_ty (snd a)) as [ta|]; [|cbn [good]; unfold cS; lia].
          destruct (f_ty (snd b)) as [tb|]; [|cbn [good]; unfold cS; lia].
          destruct (compare_types ta tb); try (cbn [good]; unfold cS; lia).
          pose proof (two_add_fs (f_sub (snd a)) (f_sub (snd b)) st2) as H3.
          destruct (add_fs fields sets frags nsets (f_sub (snd a)) [] st2) as [g v st3|st3|]; [|cbn [good]; unfold Bs in *; unfold cS in *; lia|exact H3].
          destruct (add_fs fields sets frags nsets (f_sub (snd b)) g st3) as [g2 v2 st4|st4|]; [|cbn [good]; unfold Bs in *; unfold cS in *; lia|exact H3].
          destruct H3 as (H3 & Hgs & Hg2).
          pose proof (groups_loop_good (same_shape true fields sets frags nsets d) cS ltac:(unfold cS; lia) g2 st4
                        (fun x y st0 Hx Hy => IH x y st0 (gok_gin g2 x Hg2 Hx) (gok_gin g2 y Hg2 Hy))) as H4.
          pose proof (gsize_nonneg g2) as Hg0.
          assert (Hsq : gsize g2 * gsize g2 <= pairsP) by (unfold pairsP; nia).
          destruct (groups_loop (same_shape true fields sets frags nsets d) g2 st4) as [st5|st5|]; cbn [good] in H4 |- *;
            [| |exact H4]; unfold Bs in *; unfold cS in *; nia.
      + cbn [andb]. destruct (untracked_subs a b T) as [Ea Eb].
        destruct (f_ty (snd a)) as [ta|]; [|cbn [good]; unfold cS; lia].
        destruct (f_ty (snd b)) as [tb|]; [|cbn [good]; unfold cS; lia].
        destruct (compare_types ta tb); try (cbn [good]; unfold cS; lia).
        rewrite Ea, Eb. cbn [add_fs groups_loop good].
        unfold Phi in *. cbn [count_addfscd count_addfs m_steps m_can m_shape] in *. unfold cS. lia.
  Qed.

  (** the body of the pair loop of validateFieldsInSetCanMerge *)
  Lemma pair_body_good d recur :
    (forall g st, gok fields g -> good (1 + gsize g * gsize g * (1 + cP)) st (recur g st)) ->
    forall a b st, eok fields a -> eok fields b ->
      good cP st (pair_body true fields sets frags nsets d recur a b st).
  Proof.
    intros Hrec a b st Ha Hb. unfold pair_body.
    pose proof Bp_ge0 as HBp. pose proof pairsP_ge0 as HP. pose proof NI_ge0 as HN. pose proof cP_ge0 as HcP.
    assert (HPc : 0 <= pairsP * (1 + cP)) by nia.
    destruct (eok_range a Ha) as [Hra Hwa]. destruct (eok_range b Hb) as [Hrb Hwb].
    destruct (tracked true a b) eqn:T.
    - cbn [andb]. destruct (pmem (fst a) (fst b) (m_can st)) eqn:Pm; [cbn [good]; lia|].
      set (st1 := set_can (padd (fst a) (fst b) (m_can st)) st).
      assert (H1 : Phi st1 = Phi st - Bp).
      { unfold Phi. cbn [st1 set_can m_steps m_can m_shape]. rewrite (pcount_padd F _ _ _ Pm Hra Hrb). lia. }
      pose proof (same_shape_good d a b st1 Ha Hb) as H2.
      destruct (same_shape true fields sets frags nsets d a b st1) as [st2|st2|]; cbn [good] in H2;
        [|cbn [good]; unfold cP in *; lia|exact H2].
      destruct (f_ptype (snd a)) as [[pa oa]|]; [|cbn [good]; unfold cP in *; lia].
      destruct (f_ptype (snd b)) as [[pb ob]|]; [|cbn [good]; unfold cP in *; lia].
      destruct (N.eqb pa pb || negb oa || negb ob); [|cbn [good]; unfold cP in *; lia].
      destruct (negb (N.eqb (f_name (snd a)) (f_name (snd b)))); [cbn [good]; unfold cP in *; lia|].
      set (st3 := tick (f_weight (snd a) + f_weight (snd b)) st2).
      assert (H3 : Phi st3 <= Phi st2 + 2 * MW) by (unfold Phi; cbn [st3 tick m_steps m_can m_shape]; lia).
      destruct (negb (N.eqb (f_args (snd a)) (f_args (snd b)))); [cbn [good]; unfold cP in *; lia|].
      pose proof (two_add_fs (f_sub (snd a)) (f_sub (snd b)) st3) as H4.
      destruct (add_fs fields sets frags nsets (f_sub (snd a)) [] st3) as [g v st4|st4|]; [|cbn [good]; unfold Bp in *; unfold cP in *; lia|exact H4].
      destruct (add_fs fields sets frags nsets (f_sub (snd b)) g st4) as [g2 v2 st5|st5|]; [|cbn [good]; unfold Bp in *; unfold cP in *; lia|exact H4].
      destruct H4 as (H4 & Hgs & Hg2).
      pose proof (Hrec g2 st5 Hg2) as H5. pose proof (gsize_nonneg g2) as Hg0.
      assert (Hsq : gsize g2 * gsize g2 <= pairsP) by (unfold pairsP; nia).
      destruct (recur g2 st5) as [st6|st6|]; cbn [good] in H5 |- *; [| |exact H5]; unfold Bp in *; nia.
    - cbn [andb]. destruct (untracked_subs a b T) as [Ea Eb].
      pose proof (same_shape_good d a b st Ha Hb) as H2.
      destruct (same_shape true fields sets frags nsets d a b st) as [st2|st2|]; cbn [good] in H2;
        [|cbn [good]; unfold cP in *; lia|exact H2].
      destruct (f_ptype (snd a)) as [[pa oa]|]; [|cbn [good]; unfold cP in *; lia].
      destruct (f_ptype (snd b)) as [[pb ob]|]; [|cbn [good]; unfold cP in *; lia].
      destruct (N.eqb pa pb || negb oa || negb ob); [|cbn [good]; unfold cP in *; lia].
      destruct (negb (N.eqb (f_name (snd a)) (f_name (snd b)))); [cbn [good]; unfold cP in *; lia|].
      set (st3 := tick (f_weight (snd a) + f_weight (snd b)) st2).
      assert (H3 : Phi st3 <= Phi st2 + 2 * MW) by (unfold Phi; cbn [st3 tick m_steps m_can m_shape]; lia).
      destruct (negb (N.eqb (f_args (snd a)) (f_args (snd b)))); [cbn [good]; unfold cP in *; lia|].
      rewrite Ea, Eb. cbn [add_fs].
      set (st5 := count_addfscd (count_addfs (count_addfscd (count_addfs st3)))).
      assert (H4 : Phi st5 = Phi st3 + 4) by (unfold Phi; cbn [st5 count_addfscd count_addfs m_steps m_can m_shape]; lia).
      pose proof (Hrec [] st5 gok_nil) as H5. change (gsize []) with 0 in H5.
      destruct (recur [] st5) as [st6|st6|]; cbn [good] in H5 |- *; [| |exact H5]; unfold cP in *; lia.
  Qed.

  (** validateFieldsInSetCanMerge *)
  Lemma can_merge_good : forall d g st, gok fields g ->
    good (1 + gsize g * gsize g * (1 + cP)) st (can_merge true fields sets frags nsets d g st).
  Proof.
    pose proof cP_ge0 as HcP.
    induction d as [|d IH]; intros g st Hg; cbn [can_merge].
    - set (st1 := count_can st).
      assert (H1 : Phi st1 = Phi st + 1) by (unfold Phi; cbn [st1 count_can m_steps m_can m_shape]; lia).
      pose proof (groups_loop_good (pair_body true fields sets frags nsets 0 (fun _ st => MErr st)) cP HcP g st1) as H2.
      pose proof (gsize_nonneg g) as Hg0.
      destruct (groups_loop (pair_body true fields sets frags nsets 0 (fun _ st => MErr st)) g st1) as [st2|st2|];
        cbn [good] in H2 |- *.
      1,2: (assert (H3 : Phi st2 <= Phi st1 + gsize g * gsize g * (1 + cP)); [|lia]; apply H2).
      3: apply H2.
      all: intros x y st0 Hx Hy; apply pair_body_good;
        [intros g0 st' _; cbn [good]; pose proof (gsize_nonneg g0); nia
        |exact (gok_gin g x Hg Hx)|exact (gok_gin g y Hg Hy)].
    - set (st1 := count_can st).
      assert (H1 : Phi st1 = Phi st + 1) by (unfold Phi; cbn [st1 count_can m_steps m_can m_shape]; lia).
      pose proof (groups_loop_good (pair_body true fields sets frags nsets (S d) (can_merge true fields sets frags nsets d)) cP HcP g st1) as H2.
      destruct (groups_loop (pair_body true fields sets frags nsets (S d) (can_merge true fields sets frags nsets d)) g st1) as [st2|st2|];
        cbn [good] in H2 |- *.
      1,2: (assert (H3 : Phi st2 <= Phi st1 + gsize g * gsize g * (1 + cP)); [|lia]; apply H2).
      3: apply H2.
      all: intros x y st0 Hx Hy; apply pair_body_good;
        [intros g0 st' Hg0; apply IH; exact Hg0
        |exact (gok_gin g x Hg Hx)|exact (gok_gin g y Hg Hy)].
  Qed.
End Amortised.

(** ** the pass over the selection sets of the document *)
Section Pass.
  Variable fields : arr field.
  Variable sets : arr (list item).
  Variable frags : arr fragdef.
  Variable nsets : nat.
  Variable F : nat.
  Variable MW : Z.
  Hypothesis Hsets : forall s, (nsets <= N.to_nat s)%nat -> aget sets s = None.
  Hypothesis Hfields : forall fid fr, aget fields fid = Some fr -> (N.to_nat fid < F)%nat /\ f_weight fr <= MW.
  Hypothesis HMW : 0 <= MW.

  Let NI := NI sets nsets.
  Let A := addfs_A sets nsets.
  Let Phi := Phi sets nsets F MW.
  Let Bp := Bp sets nsets MW.
  Let Bs := Bs sets nsets.
  Let cP := cP MW.

  Definition topC : Z := 3 + A + NI * NI * (1 + cP).
  Definition resetC : Z := (Bp + Bs) * (Z.of_nat F * Z.of_nat F).

  Lemma resetC_ge0 : 0 <= resetC.
  Proof. unfold resetC. pose proof (Bp_ge0 sets nsets MW HMW). pose proof (Bs_ge0 sets nsets). fold Bp in H. fold Bs in H0. nia. Qed.

  Lemma topC_ge0 : 0 <= topC.
  Proof. unfold topC. pose proof (NI_nonneg sets nsets). fold NI in H. pose proof (cP_ge0 sets nsets MW HMW). fold cP in H0. unfold A, addfs_A. fold NI. nia. Qed.

  Lemma Phi_reset st : Phi (error_and_reset true st) <= Phi st + resetC.
  Proof.
    unfold Phi, MergeCountProofs.Phi, resetC. cbn [error_and_reset m_steps m_can m_shape]. rewrite !pcount_pempty.
    pose proof (pcount_bounds F (m_can st)). pose proof (pcount_bounds F (m_shape st)).
    pose proof (Bp_ge0 sets nsets MW HMW) as H1. pose proof (Bs_ge0 sets nsets) as H2. fold Bp in H1 |- *. fold Bs in H2 |- *. nia.
  Qed.

  Lemma Phi_noreset st : Phi (error_and_reset false st) = Phi st.
  Proof. reflexivity. Qed.

  Lemma merge_pass_good dmax : forall order skip st,
    match merge_pass true fields sets frags nsets dmax order skip st with
    | MOk st' | MErr st' => Phi st' <= Phi st + Z.of_nat (length order) * (topC + resetC)
    | MOutOfFuel => False
    end.
  Proof.
    pose proof resetC_ge0 as HR. pose proof topC_ge0 as HT.
    induction order as [|[s nested] order IH]; intros skip st; cbn [merge_pass length]; [lia|].
    destruct skip as [|k].
    - set (st1 := tick 1 st).
      assert (H1 : Phi st1 = Phi st + 1) by (unfold Phi, MergeCountProofs.Phi; cbn [st1 tick m_steps m_can m_shape]; lia).
      pose proof (add_fs_ok fields sets frags nsets Hsets (Some s) [] st1 (gok_nil fields)) as H2.
      destruct (add_fs fields sets frags nsets (Some s) [] st1) as [g v st2|st2|]; [| |exact H2].
      + destruct H2 as (Hse & Hs & Hgs & Hg). change (gsize []) with 0 in Hgs.
        pose proof (Phi_sets_eq sets nsets F MW st1 st2 Hse) as H3. fold Phi in H3.
        pose proof (can_merge_good fields sets frags nsets F MW Hsets Hfields HMW dmax g st2 Hg) as H4.
        fold Phi in H4. pose proof (gsize_nonneg g) as Hg0. fold NI in Hgs. fold A in Hs.
        assert (Hsq : gsize g * gsize g * (1 + cP) <= NI * NI * (1 + cP)).
        { pose proof (cP_ge0 sets nsets MW HMW) as Hc. fold cP in Hc. apply Z.mul_le_mono_nonneg_r; [lia|nia]. }
        unfold good in H4. fold Phi in H4. fold cP in H4.
        destruct (can_merge true fields sets frags nsets dmax g st2) as [st3|st3|]; [| |exact H4].
        * specialize (IH O st3).
          assert (Hstep : Phi st3 <= Phi st + topC) by (unfold topC; lia).
          destruct (merge_pass true fields sets frags nsets dmax order 0 st3); [| |exact IH]; rewrite Nat2Z.inj_succ; nia.
        * specialize (IH nested (error_and_reset true st3)). pose proof (Phi_reset st3) as H5.
          assert (Hstep : Phi st3 <= Phi st + topC) by (unfold topC; lia).
          destruct (merge_pass true fields sets frags nsets dmax order nested (error_and_reset true st3)); [| |exact IH]; rewrite Nat2Z.inj_succ; nia.
      + destruct H2 as (Hse & Hs). pose proof (Phi_sets_eq sets nsets F MW st1 st2 Hse) as H3. fold Phi in H3. fold A in Hs.
        specialize (IH nested (error_and_reset false st2)). rewrite Phi_noreset in IH.
        pose proof (NI_nonneg sets nsets) as HN. fold NI in HN. pose proof (cP_ge0 sets nsets MW HMW) as Hc. fold cP in Hc.
        assert (Hstep : Phi st2 <= Phi st + topC) by (unfold topC; nia).
        destruct (merge_pass true fields sets frags nsets dmax order nested (error_and_reset false st2)); [| |exact IH]; rewrite Nat2Z.inj_succ; nia.
    - specialize (IH k st).
      destruct (merge_pass true fields sets frags nsets dmax order k st); [| |exact IH]; rewrite Nat2Z.inj_succ; nia.
  Qed.
End Pass.

(** ** the theorem for documents *)

Lemma sum_lengths_concat (l : list (list item)) :
  sum_to (length l) (fun t => Z.of_nat (length (match nth_error l t with Some its => its | None => [] end)))
  = Z.of_nat (length (concat l)).
Proof.
  induction l as [|x l IH] using rev_ind; [reflexivity|].
  rewrite app_length. cbn [length]. rewrite Nat.add_1_r. cbn [sum_to].
  rewrite concat_app, app_length. cbn [concat]. rewrite app_nil_r.
  rewrite nth_error_app2, Nat.sub_diag by lia. cbn [nth_error].
  rewrite (sum_to_ext (length l) _ (fun t => Z.of_nat (length (match nth_error l t with Some its => its | None => [] end)))).
  - rewrite IH. lia.
  - intros t Ht. now rewrite nth_error_app1.
Qed.

Lemma weight_le_max (l : list field) fr : In fr l -> f_weight fr <= fold_right (fun f m => Z.max (f_weight f) m) 0 l.
Proof.
  induction l as [|x l IH]; intros H; [contradiction|]. cbn [fold_right].
  destruct H as [->|H]; [lia|]. specialize (IH H). lia.
Qed.

Lemma max_weight_nonneg D : 0 <= max_weight D.
Proof. unfold max_weight. induction (d_fields D) as [|x l IH]; cbn [fold_right]; lia. Qed.

Section Doc.
  Variable D : doc.
  Let fields := arr_of_list (d_fields D).
  Let sets := arr_of_list (d_sets D).
  Let nsets := length (d_sets D).
  Let F := length (d_fields D).
  Let MW := max_weight D.

  Lemma doc_Hsets : forall s, (nsets <= N.to_nat s)%nat -> aget sets s = None.
  Proof. intros s H. unfold sets. rewrite aget_arr_of_list. apply nth_error_None. exact H. Qed.

  Lemma doc_Hfields : forall fid fr, aget fields fid = Some fr -> (N.to_nat fid < F)%nat /\ f_weight fr <= MW.
  Proof.
    intros fid fr H. split; [exact (aget_some_lt _ _ _ H)|].
    unfold fields in H. rewrite aget_arr_of_list in H. apply nth_error_In in H.
    unfold MW, max_weight. now apply weight_le_max.
  Qed.

  Lemma doc_NI : NI sets nsets = n_items D.
  Proof.
    unfold NI, n_items, nsets. rewrite <- sum_lengths_concat. apply sum_to_ext. intros t _.
    unfold wI, items, sets. now rewrite aget_arr_of_list, Nat2N.id.
  Qed.

  Lemma doc_topC : topC sets nsets MW = top_cost D.
  Proof. unfold topC, top_cost, addfs_A, addfs_cost, cP, cS, leaf_pair_cost, leaf_shape_cost. rewrite doc_NI. unfold MW. ring. Qed.

  Lemma doc_resetC : resetC sets nsets F MW = (n_fields D * n_fields D) * (pair_body_cost D + shape_body_cost D).
  Proof.
    unfold resetC, Bp, Bs, pairsP, pair_body_cost, shape_body_cost, merged_pairs, addfs_A, addfs_cost, cP, cS,
      leaf_pair_cost, leaf_shape_cost, n_fields. rewrite doc_NI. unfold MW, F. ring.
  Qed.

  (** the overlapping-fields pass of validateFields on any document (no well-formedness needed),
      whatever it reports: never out of fuel, and at most [merge_steps_bound D] steps — a polynomial
      of degree 6 in the size of the document *)
  Theorem merge_steps_poly :
    match merge_run true D with
    | MOk st | MErr st => m_steps st <= merge_steps_bound D
    | MOutOfFuel => False
    end.
  Proof.
    unfold merge_run.
    pose proof (merge_pass_good fields sets (frag_table D) nsets F MW doc_Hsets doc_Hfields (max_weight_nonneg D)
                                (S (length (d_fields D))) (d_order D) O mst0) as H.
    fold fields sets nsets.
    assert (H0 : Phi sets nsets F MW mst0 = 0).
    { unfold Phi. cbn [mst0 m_steps m_can m_shape]. rewrite !pcount_pempty. lia. }
    assert (Hfin : forall st, m_steps st <= Phi sets nsets F MW st + resetC sets nsets F MW).
    { intros st. unfold Phi, resetC.
      pose proof (pcount_bounds F (m_can st)). pose proof (pcount_bounds F (m_shape st)).
      pose proof (Bp_ge0 sets nsets MW (max_weight_nonneg D)). pose proof (Bs_ge0 sets nsets). nia. }
    assert (Hb : merge_steps_bound D = n_visits D * topC sets nsets MW + (n_visits D + 1) * resetC sets nsets F MW).
    { unfold merge_steps_bound, merge_steps_bound_r. rewrite doc_topC, doc_resetC. ring. }
    rewrite Hb. unfold n_visits.
    destruct (merge_pass true fields sets (frag_table D) nsets (S (length (d_fields D))) (d_order D) 0 mst0) as [st|st|];
      [| |exact H]; specialize (Hfin st); nia.
  Qed.
End Doc.

Lemma pow4_le_pow6 S : 1 <= S -> 0 <= S * (S * S * S) <= S * S * S * S * S * S.
Proof.
  intros H. assert (H1 : 1 <= S * S) by nia. assert (H2 : 0 <= S * S * S * S) by nia.
  split; [nia|].
  replace (S * S * S * S * S * S) with (S * S * S * S * (S * S)) by ring.
  replace (S * (S * S * S)) with (S * S * S * S * 1) by ring.
  apply Z.mul_le_mono_nonneg_l; lia.
Qed.

(** the bound is a polynomial of degree 6 in [doc_size] *)
Theorem merge_steps_bound_poly D : merge_steps_bound D <= 150 * (doc_size D + 1) ^ 6.
Proof.
  unfold merge_steps_bound, merge_steps_bound_r, top_cost, pair_body_cost, shape_body_cost, leaf_pair_cost,
    leaf_shape_cost, merged_pairs, addfs_cost, doc_size.
  pose proof (max_weight_nonneg D) as Hw.
  assert (Hf : 0 <= n_fields D) by (unfold n_fields; lia).
  assert (Hs : 0 <= n_sets D) by (unfold n_sets; lia).
  assert (Hi : 0 <= n_items D) by (unfold n_items; lia).
  assert (Hv : 0 <= n_visits D) by (unfold n_visits; lia).
  assert (Hr : 0 <= n_frags D) by (unfold n_frags; lia).
  assert (Ho : 0 <= n_ops D) by (unfold n_ops; lia).
  set (S := n_fields D + n_sets D + n_items D + n_visits D + n_frags D + n_ops D + max_weight D + 1).
  assert (HS : 1 <= S) by (unfold S; lia).
  assert (H1 : n_fields D <= S) by (unfold S; lia).
  assert (H2 : n_items D <= S) by (unfold S; lia).
  assert (H3 : n_visits D + 1 <= S) by (unfold S; lia).
  assert (H4 : max_weight D <= S) by (unfold S; lia).
  clearbody S.
  set (f := n_fields D) in *. set (i := n_items D) in *. set (v := n_visits D) in *. set (w := max_weight D) in *.
  clearbody f i v w.
  replace (S ^ 6) with (S * S * S * S * S * S) by ring.
  assert (HS2 : S <= S * S) by nia.
  assert (HS3 : S * S <= S * S * S) by nia.
  assert (Hii : i * i <= S * S) by nia.
  assert (Hff : f * f <= S * S) by nia.
  assert (Hff0 : 0 <= f * f) by nia.
  set (shape := 1 + 2 * (2 * i + 3) + 2 * i * (2 * i) * (1 + 6)).
  assert (Hshape : 0 <= shape <= 39 * (S * S)) by (unfold shape; nia).
  assert (HcP : 0 <= 1 + (6 + 2 * w + 6) <= 15 * S) by lia.
  assert (Hic : 0 <= i * i * (1 + (6 + 2 * w + 6)) <= S * S * (15 * S)).
  { split; [nia|]. apply Z.mul_le_mono_nonneg; nia. }
  assert (Hpc : 0 <= 2 * i * (2 * i) * (1 + (6 + 2 * w + 6)) <= 4 * (S * S * (15 * S))) by nia.
  set (pair := 6 + 2 * w + 2 * (2 * i + 3) + 1 + 2 * i * (2 * i) * (1 + (6 + 2 * w + 6))).
  assert (Hpair : 0 <= pair <= 79 * (S * S * S)) by (unfold pair; nia).
  set (top := 3 + (2 * i + 3) + i * i * (1 + (6 + 2 * w + 6))).
  assert (Htop : 0 <= top <= 23 * (S * S * S)) by (unfold top; nia).
  assert (Hsum : 0 <= pair + shape <= 118 * (S * S * S)) by nia.
  assert (Hvt : v * top <= S * (23 * (S * S * S))) by (apply Z.mul_le_mono_nonneg; lia).
  assert (Hfs : f * f * (pair + shape) <= S * S * (118 * (S * S * S))) by (apply Z.mul_le_mono_nonneg; lia).
  assert (Hfs0 : 0 <= f * f * (pair + shape)) by nia.
  assert (Hall : (v + 1) * (f * f) * (pair + shape) <= S * (S * S * (118 * (S * S * S)))).
  { rewrite <- Z.mul_assoc. apply Z.mul_le_mono_nonneg; lia. }
  pose proof (pow4_le_pow6 S HS) as H46.
  clearbody shape pair top. clear - Hvt Hall H46.
  set (T4 := S * (S * S * S)) in *. set (T6 := S * S * S * S * S * S) in *.
  replace (S * (23 * (S * S * S))) with (23 * T4) in Hvt by (unfold T4; ring).
  replace (S * (S * S * (118 * (S * S * S)))) with (118 * T6) in Hall by (unfold T6; ring).
  lia.
Qed.
