(** * Cplx/ComplexityRun.v — runs all count models on one decoded case.  Executable only. *)
From Coq Require Import List NArith ZArith Bool String.
From ApiFu Require Import Base.Sexp Cplx.Tables Cplx.ParserDepthModel Cplx.MergeCountModel
     Cplx.CostWalkCount Cplx.FragmentWalkCount Cplx.ComplexityDecode.
Import ListNotations.
Open Scope Z_scope.

Inductive pout := POk | PSyntax | PDepth | PFuel.

Record numbers := {
  x_pout : pout;              (* parser outcome *)
  x_psteps : Z;               (* production invocations *)
  x_prec : Z;                 (* recursion counter at the end *)
  x_pmaxrec : Z;
  x_ok : bool;                (* no model ran out of fuel *)
  x_merge : Z;                (* steps of the merge pass *)
  x_merge_err : Z;            (* errors found by the merge pass *)
  x_ncan : Z; x_nshape : Z; x_naddfs : Z; x_naddfscd : Z; x_inserts : Z;
  x_cycle : Z;                (* iterations of the fragment cycle search *)
  x_cycle_found : Z;
  x_var : Z;                  (* nodes inspected by validateVariables *)
  x_cost : Z;                 (* weighted visits of the cost walk *)
  x_cost_err : bool;
  x_cost_exp : Z              (* fragment expansions *)
}.

Definition run_parser (ts : list tok) : pout * Z * Z * Z :=
  match parse go_cfg ts with
  | Ok s => (POk, steps s, rec_ s, maxrec s)
  | Err SyntaxErr s => (PSyntax, steps s, rec_ s, maxrec s)
  | Err DepthErr s => (PDepth, steps s, rec_ s, maxrec s)
  | OutOfFuel => (PFuel, 0, 0, 0)
  end.

Definition run_models (ts : list tok) (d : option doc) (with_cost : bool) : numbers :=
  let '(po, ps, pr, pm) := run_parser ts in
  match d with
  | None =>
      {| x_pout := po; x_psteps := ps; x_prec := pr; x_pmaxrec := pm; x_ok := true;
         x_merge := 0; x_merge_err := 0; x_ncan := 0; x_nshape := 0; x_naddfs := 0; x_naddfscd := 0; x_inserts := 0;
         x_cycle := 0; x_cycle_found := 0; x_var := 0; x_cost := 0; x_cost_err := false; x_cost_exp := 0 |}
  | Some D =>
      let '(mok, mst) := match merge_run true D with
                         | MOk st => (true, st) | MErr st => (true, st) | MOutOfFuel => (false, mst0)
                         end in
      let '(cok, cyc) := match cycle_search_run D with
                         | Some w => (true, w) | None => (false, {| w_steps := 0; w_found := 0 |})
                         end in
      let '(vok, vw) := match var_walk_run D with Some k => (true, k) | None => (false, 0) end in
      let '(kok, kerr, kst) :=
        if with_cost then
          match cost_run D with
          | COk st => (true, false, st) | CErr st => (true, true, st)
          | COutOfFuel => (false, false, {| c_steps := 0; c_fields := 0; c_expansions := 0 |})
          end
        else (true, false, {| c_steps := 0; c_fields := 0; c_expansions := 0 |}) in
      {| x_pout := po; x_psteps := ps; x_prec := pr; x_pmaxrec := pm; x_ok := mok && cok && vok && kok;
         x_merge := m_steps mst; x_merge_err := m_errors mst;
         x_ncan := n_can mst; x_nshape := n_shape mst; x_naddfs := n_addfs mst; x_naddfscd := n_addfscd mst;
         x_inserts := m_inserts mst;
         x_cycle := w_steps cyc; x_cycle_found := w_found cyc; x_var := vw;
         x_cost := c_steps kst; x_cost_err := kerr; x_cost_exp := c_expansions kst |}
  end.

(** debugging / calibration aid: the model's numbers for one case line *)
Definition measure (c : sexp) : sexp :=
  match tagged "case" c with
  | Some l =>
      match dec_case l with
      | Some cc =>
          let x := run_models (c_toks cc) (c_doc cc) (match o_cost (c_obs cc) with Some _ => true | None => false end) in
          SL [SSym "dbg";
              SZ (match x_pout x with POk => 0 | PSyntax => 1 | PDepth => 2 | PFuel => 3 end);
              SZ (x_psteps x); SZ (x_prec x); SZ (x_pmaxrec x); of_bool (x_ok x);
              SZ (x_merge x); SZ (x_merge_err x); SZ (x_ncan x); SZ (x_nshape x); SZ (x_naddfs x); SZ (x_naddfscd x);
              SZ (x_inserts x); SZ (x_cycle x); SZ (x_cycle_found x); SZ (x_var x);
              SZ (x_cost x); of_bool (x_cost_err x); SZ (x_cost_exp x)]
      | None => v_bad "decode"
      end
  | None => v_bad "shape"
  end.
