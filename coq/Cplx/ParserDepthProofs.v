(** * Cplx/ParserDepthProofs.v — theorems about the parser model for every token stream:
    the recursion counter is balanced, the number of production invocations is linear in the
    number of tokens, the depth error is about bracket nesting only. *)
From Coq Require Import List ZArith Bool Lia.
From ApiFu Require Import Cplx.ParserDepthModel Cplx.ComplexitySpec.
Import ListNotations.
Open Scope Z_scope.

(** ** observables of a parser state (ghost: computed from the consumed tokens) *)
Definition opens (s : pst) : Z := fst (nest_scan 0 0 (rev (done s))).
Definition maxopen (s : pst) : Z := snd (nest_scan 0 0 (rev (done s))).
Definition cons (s : pst) : Z := Z.of_nat (length (done s)).
Definition rem (s : pst) : Z := Z.of_nat (length (toks s)).
Definition orig (s : pst) : list tok := rev (done s) ++ toks s.

Lemma nest_scan_app o m l1 l2 :
  nest_scan o m (l1 ++ l2) = nest_scan (fst (nest_scan o m l1)) (snd (nest_scan o m l1)) l2.
Proof. revert o m; induction l1 as [|t l1 IH]; intros o m; simpl; [reflexivity|apply IH]. Qed.

Lemma nest_scan_snd_ge o m l : m <= snd (nest_scan o m l).
Proof. revert o m; induction l as [|t l IH]; intros o m; simpl; [lia|]. specialize (IH (o + delta t) (Z.max m (o + delta t))). lia. Qed.

Lemma nest_scan_fst_le o m l : o <= m -> fst (nest_scan o m l) <= snd (nest_scan o m l).
Proof. revert o m; induction l as [|t l IH]; intros o m H; simpl; [lia|]. apply IH. lia. Qed.

Lemma opens_le_maxopen s : opens s <= maxopen s.
Proof. unfold opens, maxopen. apply nest_scan_fst_le. lia. Qed.

Lemma maxopen_nonneg s : 0 <= maxopen s.
Proof. unfold maxopen. apply nest_scan_snd_ge. Qed.

(** the nesting seen so far never exceeds the nesting of the whole input *)
Lemma maxopen_le_maxnest s : maxopen s <= maxnest (orig s).
Proof.
  unfold maxopen, maxnest, orig. rewrite nest_scan_app. apply nest_scan_snd_ge.
Qed.

Lemma maxopen_eq_maxnest s : toks s = [] -> maxopen s = maxnest (orig s).
Proof. intro H. unfold maxopen, maxnest, orig. rewrite H, app_nil_r. reflexivity. Qed.

(** ** effects of the primitives on the observables *)
Record same_input (s s' : pst) : Prop := {
  si_toks : toks s' = toks s; si_done : done s' = done s }.

Lemma same_input_obs s s' : same_input s s' ->
  opens s' = opens s /\ maxopen s' = maxopen s /\ cons s' = cons s /\ rem s' = rem s /\ orig s' = orig s.
Proof. intros [H1 H2]. unfold opens, maxopen, cons, rem, orig. rewrite H1, H2. repeat split. Qed.

Lemma enter_ok c s s' : enter c s = Ok s' ->
  rec_ s' = rec_ s + 1 /\ steps s' = steps s + 1 /\
  rec_ s + 1 <= limit c /\
  opens s' = opens s /\ maxopen s' = maxopen s /\ cons s' = cons s /\ rem s' = rem s /\ orig s' = orig s /\
  toks s' = toks s.
Proof.
  unfold enter. destruct (limit c <? rec_ s + 1) eqn:E; intro H; inversion H; subst; clear H.
  apply Z.ltb_ge in E. cbn. repeat split; try lia; reflexivity.
Qed.

Lemma enter_err c s k s' : enter c s = Err k s' ->
  k = DepthErr /\ steps s' = steps s + 1 /\ rec_ s' = rec_ s + 1 /\
  limit c < rec_ s + 1 /\
  opens s' = opens s /\ maxopen s' = maxopen s /\ cons s' = cons s /\ rem s' = rem s /\ orig s' = orig s.
Proof.
  unfold enter. destruct (limit c <? rec_ s + 1) eqn:E; intro H; inversion H; subst; clear H.
  apply Z.ltb_lt in E. cbn. repeat split; try lia; reflexivity.
Qed.

Lemma enter_not_oof c s : enter c s <> OutOfFuel.
Proof. unfold enter. destruct (limit c <? rec_ s + 1); discriminate. Qed.

Lemma exit_ok s s' : exit_ s = Ok s' ->
  rec_ s' = rec_ s - 1 /\ steps s' = steps s /\
  opens s' = opens s /\ maxopen s' = maxopen s /\ cons s' = cons s /\ rem s' = rem s /\ orig s' = orig s /\
  toks s' = toks s.
Proof. unfold exit_. intro H; inversion H; subst; clear H. cbn. repeat split. Qed.

Lemma consume_at x s t r s' : toks s = t :: r -> consume s = Ok s' ->
  rec_ s' = rec_ s /\ steps s' = steps s /\
  opens s' = opens s + delta t /\ maxopen s <= maxopen s' /\
  (maxopen s <= x -> opens s + delta t <= x -> maxopen s' <= x) /\
  cons s' = cons s + 1 /\ rem s' = rem s - 1 /\ orig s' = orig s /\ toks s' = r.
Proof.
  unfold consume. intros Ht. rewrite Ht. intro H; inversion H; subst; clear H.
  unfold opens, maxopen, cons, rem, orig. cbn [toks done rec_ steps maxrec]. rewrite Ht.
  cbn [rev length]. rewrite nest_scan_app. cbn [nest_scan fst snd].
  repeat split; try lia.
  rewrite <- app_assoc. reflexivity.
Qed.

Lemma peek_is_true t s : peek_is t s = true -> exists r, toks s = t :: r.
Proof.
  unfold peek_is. destruct (toks s) as [|t' r]; [discriminate|]. intro H. exists r.
  destruct t, t'; try discriminate; reflexivity.
Qed.

Lemma peek_name_true s : peek_name s = true -> exists t r, toks s = t :: r /\ delta t = 0.
Proof.
  unfold peek_name. destruct (toks s) as [|t r]; [discriminate|]. intro H. exists t, r. split; [reflexivity|].
  destruct t; try discriminate; reflexivity.
Qed.

Lemma peek_name_not_on_true s : peek_name_not_on s = true -> peek_name s = true /\ peek_is TOn s = false.
Proof.
  unfold peek_name_not_on, peek_name, peek_is. destruct (toks s) as [|t r]; [discriminate|].
  destruct t; cbn; intro H; try discriminate; split; reflexivity.
Qed.

Lemma rem_nonneg s : 0 <= rem s. Proof. unfold rem. lia. Qed.
Lemma cons_nonneg s : 0 <= cons s. Proof. unfold cons. lia. Qed.

(** ** the contract of a production
    [m]: tokens consumed at least (on normal return); [d], [e]: slack of the step bound on normal
    return / on an error; [h]: productions nested above the next bracket; [dop]: brackets left open
    (0 for a production, -1 for the loop that consumes the closing bracket of its caller);
    [oofc]: what running out of fuel means. *)
Section Contracts.
  Variable c : cfg.

  (** room for [h] more nested productions before the next bracket is consumed *)
  Definition room (h : Z) (s : pst) : Prop := rec_ s + h <= 6 + 4 * opens s.
  (** every open bracket is owned by an active production; no nesting beyond the limit so far *)
  Definition nestok (s : pst) : Prop := maxopen s <= limit c /\ opens s <= rec_ s.

  Definition spec (oofc : Prop) (m d e h dop : Z) (s : pst) (r : res) : Prop :=
    match r with
    | Ok s' =>
        rec_ s' = rec_ s /\ orig s' = orig s /\ opens s' = opens s + dop /\
        cons s + m <= cons s' /\ rem s' = rem s - (cons s' - cons s) /\
        steps s' <= steps s + 8 * (cons s' - cons s) + d /\
        (nestok s -> maxopen s' <= limit c)
    | Err k s' =>
        orig s' = orig s /\ cons s <= cons s' /\ rem s' = rem s - (cons s' - cons s) /\
        steps s' <= steps s + 8 * (cons s' - cons s) + e /\
        match k with
        | DepthErr => limit c < rec_ s' /\ (room h s -> rec_ s' <= 6 + 4 * opens s')
        | SyntaxErr => True
        end
    | OutOfFuel => oofc
    end.
End Contracts.

Lemma consume_total s : exists s', consume s = Ok s'.
Proof. unfold consume. destruct (toks s); eexists; reflexivity. Qed.

Lemma fail_eq s : fail s = Err SyntaxErr s. Proof. reflexivity. Qed.
Lemma skip_eq s : skip s = Ok s. Proof. reflexivity. Qed.

(** symbolic execution of a production body, one call at a time *)
Ltac destr_conj H :=
  repeat match type of H with
         | _ /\ _ => let H1 := fresh "F" in destruct H as [H1 H]
         end.

Ltac open_body := unfold expect; unfold bind, ifp, skip, fail; cbv beta.

Ltac exec_enter :=
  cbv beta iota;
  match goal with
  | |- context [enter ?c ?s] =>
      let E := fresh "E" in let s1 := fresh "s" in let k := fresh "k" in
      destruct (enter c s) as [s1|k s1|] eqn:E;
      [ apply enter_ok in E; destr_conj E
      | apply enter_err in E; destr_conj E; subst k
      | exfalso; exact (enter_not_oof _ _ E) ]
  end.

Ltac exec_exit :=
  cbv beta iota;
  match goal with
  | |- context [exit_ ?s] =>
      let E := fresh "E" in let s1 := fresh "s" in
      destruct (exit_ s) as [s1| |] eqn:E; [ apply exit_ok in E; destr_conj E | discriminate E | discriminate E ]
  end.

Ltac exec_consume :=
  cbv beta iota;
  match goal with
  | H : toks ?s = ?t :: ?r |- spec ?c _ _ _ _ _ _ _ ?body =>
      lazymatch body with context [consume s] => idtac end;
      let E := fresh "E" in let s1 := fresh "s" in
      destruct (consume s) as [s1| |] eqn:E;
      [ apply (consume_at (limit c) _ _ _ _ H) in E; destr_conj E
      | exfalso; unfold consume in E; rewrite H in E; discriminate E
      | exfalso; unfold consume in E; rewrite H in E; discriminate E ]
  end.

Ltac exec_peek :=
  cbv beta iota;
  match goal with
  | |- context [peek_is ?t ?s] =>
      let E := fresh "P" in let r := fresh "r" in
      destruct (peek_is t s) eqn:E; [ pose proof (peek_is_true _ _ E) as [r ?] | ]
  | |- context [peek_name_not_on ?s] =>
      let E := fresh "P" in
      destruct (peek_name_not_on s) eqn:E; [ pose proof (peek_name_not_on_true _ E) as [? ?] | ]
  | |- context [peek_name ?s] =>
      let E := fresh "P" in let t := fresh "t" in let r := fresh "r" in
      destruct (peek_name s) eqn:E; [ pose proof (peek_name_true _ E) as [t [r [? ?]]] | ]
  end.

Ltac state_facts :=
  repeat match goal with
         | s : pst |- _ =>
             lazymatch goal with
             | _ : opens s <= maxopen s |- _ => fail
             | _ => pose proof (opens_le_maxopen s); pose proof (rem_nonneg s); pose proof (cons_nonneg s)
             end
         end.

(** forward chaining through the conditional facts, oldest first *)
Ltac chain :=
  repeat match goal with
         | H : ?A -> ?B |- _ =>
             match type of A with
             | Prop => let HA := fresh in assert (HA : A) by (clear H; lia); specialize (H HA); clear HA
             end
         end.

Ltac prep :=
  cbv beta iota; unfold spec, room, nestok in *; cbn [delta] in *; state_facts.

Ltac finish :=
  prep;
  repeat match goal with k : perr |- _ => destruct k end;
  repeat match goal with
         | |- _ /\ _ => split
         | |- _ -> _ => intro
         | |- True => exact I
         end;
  repeat match goal with H : _ /\ _ |- _ => destruct H end;
  try congruence;
  chain; try lia.

(** use the contract [lem] of the call [p s] that is next in the goal *)
Ltac exec_call p s lem :=
  let H := fresh "C" in let E := fresh "E" in let s1 := fresh "s" in let k := fresh "k" in
  cbv beta iota;
  pose proof lem as H; destruct (p s) as [s1|k s1|] eqn:E; unfold spec in H;
  [destr_conj H | destr_conj H | try contradiction].


(** ** level 0: productions without recursion *)
Lemma parseName_spec c s : spec c False 1 (-7) 1 1 0 s (parseName c s).
Proof.
  unfold parseName. open_body.
  exec_enter; [|finish].
  exec_peek; cbv beta iota; [|finish].
  exec_consume. exec_exit. finish.
Qed.
Ltac x_name := match goal with |- context [parseName ?c ?s] => exec_call (parseName c) s (parseName_spec c s) end.

Lemma parseNamedType_spec c s : spec c False 1 (-6) 2 2 0 s (parseNamedType c s).
Proof.
  unfold parseNamedType. open_body.
  exec_enter; [|finish].
  x_name; [|finish].
  exec_exit. finish.
Qed.
Ltac x_namedType := match goal with |- context [parseNamedType ?c ?s] => exec_call (parseNamedType c) s (parseNamedType_spec c s) end.

Lemma parseVariable_spec c s : spec c False 2 (-14) 1 2 0 s (parseVariable c s).
Proof.
  unfold parseVariable. open_body.
  exec_enter; [|finish].
  exec_peek; cbv beta iota; [|finish].
  exec_consume. x_name; [|finish].
  exec_exit. finish.
Qed.
Ltac x_variable := match goal with |- context [parseVariable ?c ?s] => exec_call (parseVariable c) s (parseVariable_spec c s) end.

Lemma parseOperationType_spec c s : spec c False 1 (-7) 1 1 0 s (parseOperationType c s).
Proof.
  unfold parseOperationType. open_body.
  exec_enter; [|finish].
  exec_peek; cbv beta iota; [|finish].
  exec_consume. exec_exit. finish.
Qed.
Ltac x_operationType := match goal with |- context [parseOperationType ?c ?s] => exec_call (parseOperationType c) s (parseOperationType_spec c s) end.

Lemma parseTypeCondition_spec c s : spec c False 2 (-13) 1 3 0 s (parseTypeCondition c s).
Proof.
  unfold parseTypeCondition. open_body.
  exec_enter; [|finish].
  exec_peek; cbv beta iota; [|finish].
  exec_consume. x_namedType; [|finish].
  exec_exit. finish.
Qed.
Ltac x_typeCondition := match goal with |- context [parseTypeCondition ?c ?s] => exec_call (parseTypeCondition c) s (parseTypeCondition_spec c s) end.

(** ** level 1: types and values *)
Definition fuel_short (fuel : nat) (r : Z) (s : pst) : Prop := Z.of_nat fuel < 3 * rem s + r.

Lemma parseType_S c f s : parseType c (S f) s =
  (enter c >> ifp (peek_is TLBrack) (consume >> parseType c f >> expect TRBrack) (parseNamedType c) >>
   ifp (peek_is TBang) consume skip >> exit_) s.
Proof. reflexivity. Qed.

Lemma parseType_spec c f : forall s, spec c (fuel_short f 1 s) 1 (-5) 3 3 0 s (parseType c f s).
Proof.
  induction f as [|f IH]; intro s.
  - cbn [parseType]. unfold spec, fuel_short. pose proof (rem_nonneg s). lia.
  - rewrite parseType_S. open_body.
    exec_enter; [|finish].
    exec_peek; cbv beta iota.
    + exec_consume.
      exec_call (parseType c f) s1 (IH s1); [| finish | unfold fuel_short in *; finish].
      exec_peek; cbv beta iota; [|finish].
      exec_consume.
      exec_peek; cbv beta iota.
      * exec_consume. exec_exit. finish.
      * exec_exit. finish.
    + x_namedType; [|finish].
      exec_peek; cbv beta iota.
      * exec_consume. exec_exit. finish.
      * exec_exit. finish.
Qed.
Ltac x_type := match goal with |- context [parseType ?c ?f ?s] => exec_call (parseType c f) s (parseType_spec c f s) end.

Lemma parseValue_S c f k s : parseValue c (S f) k s =
  (enter c >>
   (fun s => match toks s with
             | t :: _ =>
                 match t with
                 | TInt | TFloat | TString => consume s
                 | TFragment | TOn | TOpType | TName => consume s
                 | TDollar => if k then fail s else parseVariable c s
                 | TLBrack => (consume >> listLoop c f k) s
                 | TLBrace => (consume >> objectLoop c f k) s
                 | _ => fail s
                 end
             | [] => fail s
             end) >> exit_) s.
Proof. reflexivity. Qed.
Lemma listLoop_S c f k s : listLoop c (S f) k s =
  ifp (peek_is TRBrack) consume (parseValue c f k >> listLoop c f k) s.
Proof. reflexivity. Qed.
Lemma objectLoop_S c f k s : objectLoop c (S f) k s =
  ifp (peek_is TRBrace) consume (parseName c >> expect TColon >> parseValue c f k >> objectLoop c f k) s.
Proof. reflexivity. Qed.

Definition value_specs c f : Prop :=
  (forall k s, spec c (fuel_short f 1 s) 1 (-7) 2 3 0 s (parseValue c f k s)) /\
  (forall k s, spec c (fuel_short f 2 s) 1 (-8) 2 3 (-1) s (listLoop c f k s)) /\
  (forall k s, spec c (fuel_short f 1 s) 1 (-8) 2 3 (-1) s (objectLoop c f k s)).

Lemma value_specs_all c f : value_specs c f.
Proof.
  induction f as [|f [IHv [IHl IHo]]].
  - repeat split; intros k s; cbn; unfold spec, fuel_short; pose proof (rem_nonneg s); lia.
  - repeat split; intros k s.
    + rewrite parseValue_S. open_body.
      exec_enter; [|finish].
      destruct (toks s0) as [|t r] eqn:Ht; cbv beta iota; [finish|].
      destruct t; cbv beta iota;
        try (exec_consume; exec_exit; finish);
        try solve [finish].
      * (* $ *) destruct k; [finish|]. x_variable; [|finish]. exec_exit. finish.
      * (* [ *) exec_consume.
        exec_call (listLoop c f k) s1 (IHl k s1); [| finish | unfold fuel_short in *; finish].
        exec_exit. finish.
      * (* { *) exec_consume.
        exec_call (objectLoop c f k) s1 (IHo k s1); [| finish | unfold fuel_short in *; finish].
        exec_exit. finish.
    + rewrite listLoop_S. open_body.
      exec_peek; cbv beta iota.
      * exec_consume. finish.
      * exec_call (parseValue c f k) s (IHv k s); [| finish | unfold fuel_short in *; finish].
        exec_call (listLoop c f k) s0 (IHl k s0); [finish | finish | unfold fuel_short in *; finish].
    + rewrite objectLoop_S. open_body.
      exec_peek; cbv beta iota.
      * exec_consume. finish.
      * x_name; [|finish].
        exec_peek; cbv beta iota; [|finish].
        exec_consume.
        exec_call (parseValue c f k) s1 (IHv k s1); [| finish | unfold fuel_short in *; finish].
        exec_call (objectLoop c f k) s2 (IHo k s2); [finish | finish | unfold fuel_short in *; finish].
Qed.

Lemma parseValue_spec c f k s : spec c (fuel_short f 1 s) 1 (-7) 2 3 0 s (parseValue c f k s).
Proof. apply value_specs_all. Qed.
Ltac x_value := match goal with |- context [parseValue ?c ?f ?k ?s] => exec_call (parseValue c f k) s (parseValue_spec c f k s) end.

(** ** level 2: arguments, directives, variable definitions *)
Ltac oof_case := unfold fuel_short in *; finish.

Lemma parseArgument_spec c f s : spec c (fuel_short f 0 s) 3 (-21) 2 4 0 s (parseArgument c f s).
Proof.
  unfold parseArgument. open_body.
  exec_enter; [|finish].
  x_name; [|finish].
  exec_peek; [|finish].
  exec_consume.
  x_value; [|finish|oof_case].
  exec_exit. finish.
Qed.
Ltac x_argument := match goal with |- context [parseArgument ?c ?f ?s] => exec_call (parseArgument c f) s (parseArgument_spec c f s) end.

Lemma argumentsLoop_S c f b s : argumentsLoop c (S f) b s =
  ifp (peek_is TRParen) (if b then fail else consume) (parseArgument c f >> argumentsLoop c f false) s.
Proof. reflexivity. Qed.

Lemma argumentsLoop_spec c f : forall b s, spec c (fuel_short f 1 s) 1 (-8) 2 4 (-1) s (argumentsLoop c f b s).
Proof.
  induction f as [|f IH]; intros b s.
  - cbn. unfold spec, fuel_short. pose proof (rem_nonneg s). lia.
  - rewrite argumentsLoop_S. open_body.
    exec_peek.
    + destruct b; [finish|]. exec_consume. finish.
    + x_argument; [|finish|oof_case].
      exec_call (argumentsLoop c f false) s0 (IH false s0); [finish|finish|oof_case].
Qed.
Ltac x_argumentsLoop := match goal with |- context [argumentsLoop ?c ?f ?b ?s] => exec_call (argumentsLoop c f b) s (argumentsLoop_spec c f b s) end.

Lemma parseOptionalArguments_spec c f s : spec c (fuel_short f 0 s) 0 1 1 1 0 s (parseOptionalArguments c f s).
Proof.
  unfold parseOptionalArguments. open_body.
  exec_enter; [|finish].
  exec_peek.
  - exec_consume. x_argumentsLoop; [|finish|oof_case]. exec_exit. finish.
  - exec_exit. finish.
Qed.
Ltac x_optionalArguments := match goal with |- context [parseOptionalArguments ?c ?f ?s] => exec_call (parseOptionalArguments c f) s (parseOptionalArguments_spec c f s) end.

Lemma directivesLoop_S c f s : directivesLoop c (S f) s =
  ifp (peek_is TAt) (consume >> parseName c >> parseOptionalArguments c f >> directivesLoop c f) skip s.
Proof. reflexivity. Qed.

Lemma directivesLoop_spec c f : forall s, spec c (fuel_short f 1 s) 0 0 0 1 0 s (directivesLoop c f s).
Proof.
  induction f as [|f IH]; intros s.
  - cbn. unfold spec, fuel_short. pose proof (rem_nonneg s). lia.
  - rewrite directivesLoop_S. open_body.
    exec_peek; [|finish].
    exec_consume. x_name; [|finish].
    x_optionalArguments; [|finish|oof_case].
    exec_call (directivesLoop c f) s2 (IH s2); [finish|finish|oof_case].
Qed.
Ltac x_directivesLoop := match goal with |- context [directivesLoop ?c ?f ?s] => exec_call (directivesLoop c f) s (directivesLoop_spec c f s) end.

Lemma parseOptionalDirectives_spec c f s : spec c (fuel_short f 1 s) 0 1 1 2 0 s (parseOptionalDirectives c f s).
Proof.
  unfold parseOptionalDirectives. open_body.
  exec_enter; [|finish].
  x_directivesLoop; [|finish|oof_case].
  exec_exit. finish.
Qed.
Ltac x_optionalDirectives := match goal with |- context [parseOptionalDirectives ?c ?f ?s] => exec_call (parseOptionalDirectives c f) s (parseOptionalDirectives_spec c f s) end.

Lemma parseVariableDefinition_spec c f s : spec c (fuel_short f 0 s) 4 (-26) 2 4 0 s (parseVariableDefinition c f s).
Proof.
  unfold parseVariableDefinition. open_body.
  exec_enter; [|finish].
  x_variable; [|finish].
  exec_peek; [|finish].
  exec_consume.
  x_type; [|finish|oof_case].
  exec_peek.
  - exec_consume. x_value; [|finish|oof_case]. exec_exit. finish.
  - exec_exit. finish.
Qed.
Ltac x_variableDefinition := match goal with |- context [parseVariableDefinition ?c ?f ?s] => exec_call (parseVariableDefinition c f) s (parseVariableDefinition_spec c f s) end.

Lemma variableDefinitionsLoop_S c f b s : variableDefinitionsLoop c (S f) b s =
  ifp (peek_is TRParen) (if b then fail else consume) (parseVariableDefinition c f >> variableDefinitionsLoop c f false) s.
Proof. reflexivity. Qed.

Lemma variableDefinitionsLoop_spec c f : forall b s, spec c (fuel_short f 1 s) 1 (-8) 2 4 (-1) s (variableDefinitionsLoop c f b s).
Proof.
  induction f as [|f IH]; intros b s.
  - cbn. unfold spec, fuel_short. pose proof (rem_nonneg s). lia.
  - rewrite variableDefinitionsLoop_S. open_body.
    exec_peek.
    + destruct b; [finish|]. exec_consume. finish.
    + x_variableDefinition; [|finish|oof_case].
      exec_call (variableDefinitionsLoop c f false) s0 (IH false s0); [finish|finish|oof_case].
Qed.
Ltac x_variableDefinitionsLoop := match goal with |- context [variableDefinitionsLoop ?c ?f ?b ?s] => exec_call (variableDefinitionsLoop c f b) s (variableDefinitionsLoop_spec c f b s) end.

Lemma parseOptionalVariableDefinitions_spec c f s : spec c (fuel_short f 0 s) 0 1 1 1 0 s (parseOptionalVariableDefinitions c f s).
Proof.
  unfold parseOptionalVariableDefinitions. open_body.
  exec_enter; [|finish].
  exec_peek.
  - exec_consume. x_variableDefinitionsLoop; [|finish|oof_case]. exec_exit. finish.
  - exec_exit. finish.
Qed.
Ltac x_optionalVariableDefinitions := match goal with |- context [parseOptionalVariableDefinitions ?c ?f ?s] => exec_call (parseOptionalVariableDefinitions c f) s (parseOptionalVariableDefinitions_spec c f s) end.

(** ** level 3: selection sets (parseSelection as repaired: [sel_exit c = true]) *)
Lemma parseSelectionSet_S c f s : parseSelectionSet c (S f) s =
  (enter c >> expect TLBrace >> selectionsLoop c f true >> exit_) s.
Proof. reflexivity. Qed.
Lemma selectionsLoop_S c f b s : selectionsLoop c (S f) b s =
  ifp (peek_is TRBrace) (if b then fail else consume) (parseSelection c f >> selectionsLoop c f false) s.
Proof. reflexivity. Qed.
Lemma parseSelection_S c f s : parseSelection c (S f) s =
  (enter c >>
   ifp (peek_is TEllipsis)
       (consume >>
        ifp peek_name_not_on
            (parseName c >> parseOptionalDirectives c f >> selExit c)
            (ifp peek_name (parseTypeCondition c) skip >>
             parseOptionalDirectives c f >> parseSelectionSet c f >> exit_))
       (parseField c f >> selExit c)) s.
Proof. reflexivity. Qed.
Lemma parseField_S c f s : parseField c (S f) s =
  (enter c >> parseName c >>
   ifp (peek_is TColon) (consume >> parseName c) skip >>
   parseOptionalArguments c f >> parseOptionalDirectives c f >> parseOptionalSelectionSet c f >>
   exit_) s.
Proof. reflexivity. Qed.
Lemma parseOptionalSelectionSet_S c f s : parseOptionalSelectionSet c (S f) s =
  (enter c >> ifp (peek_is TLBrace) (parseSelectionSet c f) skip >> exit_) s.
Proof. reflexivity. Qed.

(** with a "{" ahead parseOptionalSelectionSet consumes something and earns the slack of a
    selection set *)
Definition oss_m (s : pst) : Z := if peek_is TLBrace s then 1 else 0.
Definition oss_d (s : pst) : Z := if peek_is TLBrace s then -14 else 1.

Definition selection_specs c f : Prop :=
  (forall s, spec c (fuel_short f 1 s) 2 (-15) 1 1 0 s (parseSelectionSet c f s)) /\
  (forall b s, spec c (fuel_short f 3 s) 1 (-8) 3 4 (-1) s (selectionsLoop c f b s)) /\
  (forall s, spec c (fuel_short f 2 s) 1 (-2) 3 4 0 s (parseSelection c f s)) /\
  (forall s, spec c (fuel_short f 1 s) 1 (-3) 2 3 0 s (parseField c f s)) /\
  (forall s, spec c (fuel_short f 2 s) (oss_m s) (oss_d s) 2 2 0 s (parseOptionalSelectionSet c f s)).

Ltac x_ih p IH := match goal with |- context [p ?c ?f ?s] => exec_call (p c f) s (IH s) end.
Ltac x_ihb p IH := match goal with |- context [p ?c ?f ?b ?s] => exec_call (p c f b) s (IH b s) end.

Lemma selection_specs_all c (Hfix : sel_exit c = true) f : selection_specs c f.
Proof.
  induction f as [|f (IHss & IHloop & IHsel & IHfield & IHoss)].
  - repeat split; intros; cbn; unfold spec, fuel_short;
      match goal with s : pst |- _ => pose proof (rem_nonneg s) end; lia.
  - repeat split.
    + intro s. rewrite parseSelectionSet_S. open_body.
      exec_enter; [|finish].
      exec_peek; [|finish].
      exec_consume.
      x_ihb selectionsLoop IHloop; [|finish|oof_case].
      exec_exit. finish.
    + intros b s. rewrite selectionsLoop_S. open_body.
      exec_peek.
      * destruct b; [finish|]. exec_consume. finish.
      * x_ih parseSelection IHsel; [|finish|oof_case].
        x_ihb selectionsLoop IHloop; [finish|finish|oof_case].
    + intro s. rewrite parseSelection_S. unfold selExit. rewrite Hfix. open_body.
      exec_enter; [|finish].
      exec_peek.
      * exec_consume.
        exec_peek.
        -- (* fragment spread *)
           x_name; [|finish].
           x_optionalDirectives; [|finish|oof_case].
           exec_exit. finish.
        -- (* inline fragment *)
           exec_peek.
           ++ x_typeCondition; [|finish].
              x_optionalDirectives; [|finish|oof_case].
              x_ih parseSelectionSet IHss; [|finish|oof_case].
              exec_exit. finish.
           ++ x_optionalDirectives; [|finish|oof_case].
              x_ih parseSelectionSet IHss; [|finish|oof_case].
              exec_exit. finish.
      * x_ih parseField IHfield; [|finish|oof_case].
        exec_exit. finish.
    + intro s. rewrite parseField_S. open_body.
      exec_enter; [|finish].
      x_name; [|finish].
      exec_peek.
      * exec_consume. x_name; [|finish].
        x_optionalArguments; [|finish|oof_case].
        x_optionalDirectives; [|finish|oof_case].
        x_ih parseOptionalSelectionSet IHoss; [|finish|oof_case].
        unfold oss_m, oss_d in *. match goal with H : context [peek_is TLBrace ?x] |- _ => destruct (peek_is TLBrace x) end; exec_exit; finish.
      * x_optionalArguments; [|finish|oof_case].
        x_optionalDirectives; [|finish|oof_case].
        x_ih parseOptionalSelectionSet IHoss; [|finish|oof_case].
        unfold oss_m, oss_d in *. match goal with H : context [peek_is TLBrace ?x] |- _ => destruct (peek_is TLBrace x) end; exec_exit; finish.
    + intro s. rewrite parseOptionalSelectionSet_S. open_body. unfold oss_m, oss_d.
      exec_enter; [|destruct (peek_is TLBrace s); finish].
      assert (Hp : peek_is TLBrace s0 = peek_is TLBrace s) by (unfold peek_is; rewrite E; reflexivity).
      exec_peek; rewrite Hp.
      * x_ih parseSelectionSet IHss; [|finish|oof_case].
        exec_exit. finish.
      * exec_exit. finish.
Qed.

Section Level4.
  Variable c : cfg.
  Hypothesis Hfix : sel_exit c = true.

  Lemma parseSelectionSet_spec f s : spec c (fuel_short f 1 s) 2 (-15) 1 1 0 s (parseSelectionSet c f s).
  Proof. apply (selection_specs_all c Hfix f). Qed.
  Lemma parseOptionalSelectionSet_spec f s :
    spec c (fuel_short f 2 s) (oss_m s) (oss_d s) 2 2 0 s (parseOptionalSelectionSet c f s).
  Proof. apply (selection_specs_all c Hfix f). Qed.
End Level4.
Ltac x_selectionSet H := match goal with |- context [parseSelectionSet ?c ?f ?s] => exec_call (parseSelectionSet c f) s (parseSelectionSet_spec c H f s) end.
Ltac x_optionalSelectionSet H := match goal with |- context [parseOptionalSelectionSet ?c ?f ?s] => exec_call (parseOptionalSelectionSet c f) s (parseOptionalSelectionSet_spec c H f s) end.

(** ** level 4: definitions and the document *)
Definition ofd_m (s : pst) : Z := if peek_is TFragment s then 1 else 0.
Definition ofd_d (s : pst) : Z := if peek_is TFragment s then -41 else 1.

Lemma peek_same t s s' : toks s' = toks s -> peek_is t s' = peek_is t s.
Proof. intro H. unfold peek_is. rewrite H. reflexivity. Qed.

Lemma parseOptionalFragmentDefinition_spec c (Hfix : sel_exit c = true) f s :
  spec c (fuel_short f 0 s) (ofd_m s) (ofd_d s) 1 4 0 s (parseOptionalFragmentDefinition c f s).
Proof.
  unfold parseOptionalFragmentDefinition. open_body. unfold ofd_m, ofd_d.
  exec_enter; [|destruct (peek_is TFragment s); finish].
  pose proof (peek_same TFragment _ _ E) as Hp.
  exec_peek; rewrite Hp.
  - assert (exists r', toks s0 = TFragment :: r') as [r' Ht0] by (rewrite E; eauto).
    exec_consume.
    exec_peek; [|finish].
    x_name; [|finish].
    x_typeCondition; [|finish].
    x_optionalDirectives; [|finish|oof_case].
    x_selectionSet Hfix; [|finish|oof_case].
    exec_exit. finish.
  - exec_exit. finish.
Qed.
Ltac x_optionalFragmentDefinition H := match goal with |- context [parseOptionalFragmentDefinition ?c ?f ?s] => exec_call (parseOptionalFragmentDefinition c f) s (parseOptionalFragmentDefinition_spec c H f s) end.

Lemma parseOperationDefinition_spec c (Hfix : sel_exit c = true) f s :
  spec c (fuel_short f 2 s) 1 (-13) 3 3 0 s (parseOperationDefinition c f s).
Proof.
  unfold parseOperationDefinition. open_body.
  exec_enter; [|finish].
  exec_peek.
  - x_optionalSelectionSet Hfix; unfold oss_m, oss_d in *; try rewrite P in *; [|finish|oof_case].
    exec_exit. finish.
  - x_optionalSelectionSet Hfix; unfold oss_m, oss_d in *; try rewrite P in *; [|finish|oof_case].
    x_operationType; [|finish].
    exec_peek.
    + x_name; [|finish].
      x_optionalVariableDefinitions; [|finish|oof_case].
      x_optionalDirectives; [|finish|oof_case].
      x_selectionSet Hfix; [|finish|oof_case].
      exec_exit. finish.
    + x_optionalVariableDefinitions; [|finish|oof_case].
      x_optionalDirectives; [|finish|oof_case].
      x_selectionSet Hfix; [|finish|oof_case].
      exec_exit. finish.
Qed.
Ltac x_operationDefinition H := match goal with |- context [parseOperationDefinition ?c ?f ?s] => exec_call (parseOperationDefinition c f) s (parseOperationDefinition_spec c H f s) end.

Lemma parseDefinition_spec c (Hfix : sel_exit c = true) f s :
  spec c (fuel_short f 2 s) 1 (-11) 5 5 0 s (parseDefinition c f s).
Proof.
  unfold parseDefinition. open_body.
  exec_enter; [|finish].
  exec_peek.
  - x_optionalFragmentDefinition Hfix; unfold ofd_m, ofd_d in *; try rewrite P in *; [|finish|oof_case].
    exec_exit. finish.
  - x_optionalFragmentDefinition Hfix; unfold ofd_m, ofd_d in *; try rewrite P in *; [|finish|oof_case].
    x_operationDefinition Hfix; [|finish|oof_case].
    exec_exit. finish.
Qed.
Ltac x_definition H := match goal with |- context [parseDefinition ?c ?f ?s] => exec_call (parseDefinition c f) s (parseDefinition_spec c H f s) end.

Lemma definitionsLoop_S c f b s : definitionsLoop c (S f) b s =
  ifp at_eof (if b then fail else skip) (parseDefinition c f >> definitionsLoop c f false) s.
Proof. reflexivity. Qed.

Lemma definitionsLoop_spec c (Hfix : sel_exit c = true) f :
  forall b s, spec c (fuel_short f 3 s) 0 0 5 5 0 s (definitionsLoop c f b s).
Proof.
  induction f as [|f IH]; intros b s.
  - cbn. unfold spec, fuel_short. pose proof (rem_nonneg s). lia.
  - rewrite definitionsLoop_S. open_body.
    destruct (at_eof s) eqn:Heof.
    + destruct b; finish.
    + x_definition Hfix; [|finish|oof_case].
      x_ihb definitionsLoop IH; [finish|finish|oof_case].
Qed.
Ltac x_definitionsLoop H := match goal with |- context [definitionsLoop ?c ?f ?b ?s] => exec_call (definitionsLoop c f b) s (definitionsLoop_spec c H f b s) end.

Lemma parseDocument_spec c (Hfix : sel_exit c = true) f s :
  spec c (fuel_short f 3 s) 0 1 6 6 0 s (parseDocument c f s).
Proof.
  unfold parseDocument. open_body.
  exec_enter; [|finish].
  x_definitionsLoop Hfix; [|finish|oof_case].
  exec_exit. finish.
Qed.

(** a document that is accepted has been read to its end *)
Lemma definitionsLoop_eof c f : forall b s s', definitionsLoop c f b s = Ok s' -> toks s' = [].
Proof.
  induction f as [|f IH]; intros b s s'; [discriminate|].
  rewrite definitionsLoop_S. unfold ifp, bind.
  destruct (at_eof s) eqn:Heof.
  - destruct b; [discriminate|]. unfold skip. intro H; inversion H; subst.
    unfold at_eof in Heof. destruct (toks s'); [reflexivity|discriminate].
  - destruct (parseDefinition c f s) as [s1| |]; try discriminate. apply IH.
Qed.

Lemma parseDocument_eof c f s s' : parseDocument c f s = Ok s' -> toks s' = [].
Proof.
  unfold parseDocument, bind.
  destruct (enter c s) as [s1| |]; try discriminate.
  destruct (definitionsLoop c f true s1) as [s2| |] eqn:E; try discriminate.
  intro H. apply exit_ok in H. destr_conj H. rewrite H. eapply definitionsLoop_eof; eauto.
Qed.

(** ** the theorems *)

(** the Go functions of parser.go that call enter() *)
Inductive production :=
| PDocument | PDefinition | POptionalFragmentDefinition | POperationDefinition | POperationType
| POptionalSelectionSet | PSelectionSet | PField | PTypeCondition | PSelection | POptionalArguments
| POptionalVariableDefinitions | PVariableDefinition | PType | PArgument | POptionalDirectives
| PNamedType | PName | PVariable | PValue (constant : bool).

Definition run_production (c : cfg) (p : production) (fuel : nat) : act :=
  match p with
  | PDocument => parseDocument c fuel
  | PDefinition => parseDefinition c fuel
  | POptionalFragmentDefinition => parseOptionalFragmentDefinition c fuel
  | POperationDefinition => parseOperationDefinition c fuel
  | POperationType => parseOperationType c
  | POptionalSelectionSet => parseOptionalSelectionSet c fuel
  | PSelectionSet => parseSelectionSet c fuel
  | PField => parseField c fuel
  | PTypeCondition => parseTypeCondition c
  | PSelection => parseSelection c fuel
  | POptionalArguments => parseOptionalArguments c fuel
  | POptionalVariableDefinitions => parseOptionalVariableDefinitions c fuel
  | PVariableDefinition => parseVariableDefinition c fuel
  | PType => parseType c fuel
  | PArgument => parseArgument c fuel
  | POptionalDirectives => parseOptionalDirectives c fuel
  | PNamedType => parseNamedType c
  | PName => parseName c
  | PVariable => parseVariable c
  | PValue k => parseValue c fuel k
  end.

Lemma spec_ok_balanced c o m d e h s s' : spec c o m d e h 0 s (Ok s') -> rec_ s' = rec_ s /\ opens s' = opens s.
Proof. unfold spec. intros (H1 & _ & H3 & _). split; [exact H1|lia]. Qed.

(** on every normal return of every production, from every state, the recursion counter is back at
    its entry value (and every bracket the production opened is closed) *)
Theorem recursion_balanced c : sel_exit c = true ->
  forall p fuel s s', run_production c p fuel s = Ok s' -> rec_ s' = rec_ s /\ opens s' = opens s.
Proof.
  intros Hfix p fuel s s' H.
  destruct p; cbn [run_production] in H;
    [ pose proof (parseDocument_spec c Hfix fuel s) as C
    | pose proof (parseDefinition_spec c Hfix fuel s) as C
    | pose proof (parseOptionalFragmentDefinition_spec c Hfix fuel s) as C
    | pose proof (parseOperationDefinition_spec c Hfix fuel s) as C
    | pose proof (parseOperationType_spec c s) as C
    | pose proof (parseOptionalSelectionSet_spec c Hfix fuel s) as C
    | pose proof (parseSelectionSet_spec c Hfix fuel s) as C
    | pose proof (proj1 (proj2 (proj2 (proj2 (selection_specs_all c Hfix fuel)))) s) as C
    | pose proof (parseTypeCondition_spec c s) as C
    | pose proof (proj1 (proj2 (proj2 (selection_specs_all c Hfix fuel))) s) as C
    | pose proof (parseOptionalArguments_spec c fuel s) as C
    | pose proof (parseOptionalVariableDefinitions_spec c fuel s) as C
    | pose proof (parseVariableDefinition_spec c fuel s) as C
    | pose proof (parseType_spec c fuel s) as C
    | pose proof (parseArgument_spec c fuel s) as C
    | pose proof (parseOptionalDirectives_spec c fuel s) as C
    | pose proof (parseNamedType_spec c s) as C
    | pose proof (parseName_spec c s) as C
    | pose proof (parseVariable_spec c s) as C
    | pose proof (parseValue_spec c fuel constant s) as C ];
    rewrite H in C; exact (spec_ok_balanced _ _ _ _ _ _ _ _ C).
Qed.

Lemma init_obs ts : opens (init ts) = 0 /\ maxopen (init ts) = 0 /\ cons (init ts) = 0
                    /\ rem (init ts) = Z.of_nat (length ts) /\ orig (init ts) = ts.
Proof. unfold opens, maxopen, cons, rem, orig, init. cbn. repeat split. Qed.

Lemma cons_le_orig s : cons s <= Z.of_nat (length (orig s)).
Proof. unfold cons, orig. rewrite app_length, rev_length. lia. Qed.

(** production invocations are linear in the number of tokens, whatever the outcome; the fuel
    [doc_fuel] is always enough *)
Theorem parse_steps_linear c : sel_exit c = true ->
  forall ts,
    match parse c ts with
    | Ok s' | Err _ s' => steps s' <= 8 * Z.of_nat (length ts) + 6
    | OutOfFuel => False
    end.
Proof.
  intros Hfix ts. unfold parse.
  pose proof (parseDocument_spec c Hfix (doc_fuel ts) (init ts)) as C.
  destruct (init_obs ts) as (Ho & Hm & Hc & Hr & Hg).
  destruct (parseDocument c (doc_fuel ts) (init ts)) as [s'|k s'|]; unfold spec in C.
  - destruct C as (_ & Horig & _ & _ & _ & Hs & _).
    pose proof (cons_le_orig s'). rewrite Horig, Hg in H. cbn [steps init] in Hs. lia.
  - destruct C as (Horig & _ & _ & Hs & _).
    pose proof (cons_le_orig s'). rewrite Horig, Hg in H. cbn [steps init] in Hs. lia.
  - unfold fuel_short, doc_fuel in C. rewrite Hr in C. lia.
Qed.

(** the "maximum recursion depth" error is raised only if  6 + 4 * (bracket nesting) > limit:
    breadth - the number of siblings at any level - cannot cause it *)
Theorem depth_error_needs_nesting c : sel_exit c = true ->
  forall ts s', parse c ts = Err DepthErr s' -> limit c < depth_base + depth_per_level * maxnest ts.
Proof.
  intros Hfix ts s' H. unfold parse in H.
  pose proof (parseDocument_spec c Hfix (doc_fuel ts) (init ts)) as C. rewrite H in C.
  destruct (init_obs ts) as (Ho & Hm & Hc & Hr & Hg).
  unfold spec in C. destruct C as (Horig & _ & _ & _ & Hl & Hroom).
  unfold room in Hroom. rewrite Ho in Hroom. cbn [rec_ init] in Hroom.
  pose proof (opens_le_maxopen s'). pose proof (maxopen_le_maxnest s') as Hn. rewrite Horig, Hg in Hn.
  unfold depth_base, depth_per_level. lia.
Qed.

(** bracket nesting beyond the limit is never accepted (it is refused with the depth error, or
    with a syntax error met before that depth) *)
Theorem deep_nesting_refused c : sel_exit c = true -> 0 <= limit c ->
  forall ts s', parse c ts = Ok s' -> maxnest ts <= limit c.
Proof.
  intros Hfix Hlim ts s' H. pose proof H as H'. unfold parse in H.
  pose proof (parseDocument_spec c Hfix (doc_fuel ts) (init ts)) as C. rewrite H in C.
  destruct (init_obs ts) as (Ho & Hm & Hc & Hr & Hg).
  unfold spec in C. destruct C as (_ & Horig & _ & _ & _ & _ & Hn).
  unfold nestok in Hn. rewrite Ho, Hm in Hn. cbn [rec_ init] in Hn.
  apply parseDocument_eof in H. rewrite <- Hg, <- Horig, <- (maxopen_eq_maxnest s' H). lia.
Qed.

(** both directions in one statement, for the limit of parser.go *)
Theorem depth_limit_iff ts :
  (forall s', parse go_cfg ts = Err DepthErr s' -> 1000 < 6 + 4 * maxnest ts) /\
  (1000 < maxnest ts -> exists k s', parse go_cfg ts = Err k s').
Proof.
  split.
  - intros s' H. exact (depth_error_needs_nesting go_cfg eq_refl ts s' H).
  - intro Hdeep. pose proof (parse_steps_linear go_cfg eq_refl ts) as Hs.
    destruct (parse go_cfg ts) as [s'|k s'|] eqn:E.
    + pose proof (deep_nesting_refused go_cfg eq_refl ltac:(cbn; lia) ts s' E) as Hn. cbn [limit go_cfg] in Hn. lia.
    + eauto.
    + contradiction.
Qed.

(** flat documents: with at most 248 brackets open at once no width reaches the limit *)
Corollary flat_documents_never_hit_the_limit ts :
  maxnest ts <= 248 -> forall s', parse go_cfg ts <> Err DepthErr s'.
Proof.
  intros Hflat s' H. pose proof (depth_error_needs_nesting go_cfg eq_refl ts s' H) as Hd.
  unfold depth_base, depth_per_level in Hd. cbn [limit go_cfg] in Hd. lia.
Qed.

(** ** defect 14, kept as a witness: on the pinned tree ([sel_exit] = false) parseSelection returns
    with the counter raised, and a flat selection set of 1000 fields is refused *)
Definition flat_selection_set (n : nat) : list tok := TLBrace :: repeat TName n ++ [TRBrace].

Theorem recursion_unbalanced_before_fix :
  exists s', parseSelection pinned_cfg 10 (init [TName]) = Ok s' /\ rec_ s' = rec_ (init [TName]) + 1.
Proof. eexists. split; vm_compute; reflexivity. Qed.

Theorem flat_document_refused_before_fix :
  maxnest (flat_selection_set 1000) = 1 /\
  (exists s', parse pinned_cfg (flat_selection_set 1000) = Err DepthErr s') /\
  (exists s', parse go_cfg (flat_selection_set 1000) = Ok s').
Proof.
  split; [vm_compute; reflexivity|]. split; eexists; vm_compute; reflexivity.
Qed.
