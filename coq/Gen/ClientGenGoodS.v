(** * Gen/ClientGenGoodS.v — C20: what the loop of the generator of the current tree ([step_s]: three
    member maps = keys marked with their kind) builds; the counterpart of ClientGenGood.v.  Members
    of different kinds can never share a key, so no hypothesis about clashes is needed. *)
From Coq Require Import List NArith ZArith Bool String Lia Permutation.
From ApiFu Require Import Base.Sexp Gen.GoTypes Gen.ClientGenModel Gen.DecodeModel Gen.ClientGenSpec
     Gen.ClientGenLemmas Gen.DecodeLemmas Gen.ClientGenProofs Gen.ClientGenGood.
Import ListNotations.
Open Scope list_scope.
Open Scope nat_scope.

(** the marked key a selection is stored under *)
Definition skey (m : name) (s : selection) : name :=
  match s with
  | SField a f _ => tk 0%N (sel_key a f)
  | SInline c _ => tk 1%N (inline_cond m c)
  | SSpread f _ _ => tk 2%N f
  end.

Lemma tk_inj c1 k1 c2 k2 : tk c1 k1 = tk c2 k2 -> c1 = c2 /\ k1 = k2.
Proof. unfold tk. intros H. inversion H. split; reflexivity. Qed.

(** ** the loop invariant *)
Section LoopInv.
  Variable S : schema.
  Variable frs : list fragdef.
  Let fragTypes := map (fun f => (fr_name f, fr_cond f)) frs.

  (** what is known about the result of a recursive call (kept abstract) *)
  Variable Good : name -> list selection -> gotype -> Prop.      (* named type, selections, core type *)
  Variable TyOK : gstate -> gotype -> Prop.                       (* relative to the enums emitted so far *)
  Variable Ext : gstate -> gstate -> Prop.
  Hypothesis Ext_refl : forall st, Ext st st.
  Hypothesis Ext_trans : forall a b c, Ext a b -> Ext b c -> Ext a c.
  Hypothesis TyOK_ext : forall a b t, Ext a b -> TyOK a t -> TyOK b t.
  Hypothesis TyOK_string : forall st, TyOK st GString.
  Hypothesis TyOK_fragref : forall st f, In f (map fr_name frs) -> TyOK st (GPtr (GFragRef f)).
  Hypothesis TyOK_ptr : forall st t, TyOK st t -> TyOK st (GPtr t).
  Hypothesis TyOK_wrap : forall st ft core, TyOK st core -> TyOK st (wrap ft false core true).

  Variable rec : rec_t.
  Variable m : name.             (* the type the selection set is applied to *)
  Variable d : typedef.
  Variable all : list selection.
  Variable hasTn : bool.

  Definition frag_cond (x : name) : name := match assoc x fragTypes with Some c => c | None => [] end.

  (** admissible recursive calls and what they give *)
  Definition sub_call (mm : name) (sub : list selection) : Prop :=
    (exists a f sub0, In (SField a f sub0) all /\ is_typename f = false /\ sub = merged_field (sel_key a f) all /\
                      exists ft, field_type S m f = Some ft /\ unwrap ft = mm) \/
    (exists c sub0, In (SInline c sub0) all /\ mm = inline_cond m c /\ sub = merged_inline m mm all).

  Hypothesis Hrec : forall mm sub st core b st',
    sub_call mm sub -> rec mm sub st = Ok (core, b, st') ->
    b = true /\ Ext st st' /\ TyOK st' core /\ Good mm sub core.

  Hypothesis Hlookup : lookup_type S m = Some d.
  Hypothesis Hspreads : forall f c body, In (SSpread f c body) all -> In f (map fr_name frs).
  (** selections of one response key select the same field *)
  Hypothesis Hkeys : forall a f sub a' f' sub', In (SField a f sub) all -> In (SField a' f' sub') all ->
                                                sel_key a f = sel_key a' f' -> f = f'.

  (** the type stored for a field selection *)
  Definition field_ty (f : name) (sub : list selection) (T : gotype) : Prop :=
    (is_typename f = true /\ T = GString) \/
    (is_typename f = false /\ exists ft core, field_type S m f = Some ft /\ T = wrap ft false core true /\
                                              Good (unwrap ft) sub core).

  (** where an entry of [fields] comes from *)
  Definition entry_src (pre : list selection) (k : name) (T : gotype) (dash : bool) : Prop :=
    (dash = false /\ exists a f sub, In (SField a f sub) pre /\ k = tk 0%N (sel_key a f) /\
                                     field_ty f (merged_field (sel_key a f) all) T) \/
    (dash = true /\ exists c sub, In (SInline c sub) pre /\ k = tk 1%N (inline_cond m c) /\
                                  exists core, T = GPtr core /\ Good (inline_cond m c) (merged_inline m (inline_cond m c) all) core) \/
    (dash = true /\ exists f c body, In (SSpread f c body) pre /\ k = tk 2%N f /\ T = GPtr (GFragRef f)).

  (** every selection has its entry *)
  Definition entry_cov (fields : list (name * (gotype * bool))) (s : selection) : Prop :=
    match s with
    | SField a f sub => exists T, In (tk 0%N (sel_key a f), (T, false)) fields /\ field_ty f (merged_field (sel_key a f) all) T
    | SInline c sub => exists core, In (tk 1%N (inline_cond m c), (GPtr core, true)) fields /\
                                    Good (inline_cond m c) (merged_inline m (inline_cond m c) all) core
    | SSpread f c body => In (tk 2%N f, (GPtr (GFragRef f), true)) fields
    end.

  (** the names listed under a type condition *)
  Definition cond_src (pre : list selection) (tc x : name) : Prop :=
    (x = tk 1%N tc /\ exists c sub, In (SInline c sub) pre /\ inline_cond m c = tc) \/
    (exists f c body, In (SSpread f c body) pre /\ x = tk 2%N f /\ tc = frag_cond f).

  Definition cond_cov (conds : list (name * list name)) (s : selection) : Prop :=
    match s with
    | SField _ _ _ => True
    | SInline c sub => exists l, In (inline_cond m c, l) conds /\ In (tk 1%N (inline_cond m c)) l
    | SSpread f c body => exists l, In (frag_cond f, l) conds /\ In (tk 2%N f) l
    end.

  Definition Inv (st0 : gstate) (pre : list selection) (a : acc) : Prop :=
    let '(fields, conds, done, fdone, st) := a in
    NoDup (map fst fields) /\
    NoDup (map fst conds) /\
    (forall k T dash, In (k, (T, dash)) fields -> entry_src pre k T dash /\ TyOK st T) /\
    (forall s, In s pre -> entry_cov fields s /\ cond_cov conds s) /\
    (forall c, In c done <-> exists co sub, In (SInline co sub) pre /\ inline_cond m co = c) /\
    (forall k, In k fdone <-> exists a f sub, In (SField a f sub) pre /\ sel_key a f = k) /\
    (forall tc l x, In (tc, l) conds -> In x l -> cond_src pre tc x) /\
    Ext st0 st.

  Lemma entry_src_mono pre pre' k T dash : incl pre pre' -> entry_src pre k T dash -> entry_src pre' k T dash.
  Proof.
    intros Hin [[Hd [a [f [sub [H1 H2]]]]]|[[Hd [c [sub [H1 H2]]]]|[Hd [f [c [body [H1 H2]]]]]]].
    - left. split; [exact Hd|]. exists a, f, sub. split; [apply Hin; exact H1 | exact H2].
    - right. left. split; [exact Hd|]. exists c, sub. split; [apply Hin; exact H1 | exact H2].
    - right. right. split; [exact Hd|]. exists f, c, body. split; [apply Hin; exact H1 | exact H2].
  Qed.

  Lemma cond_src_mono pre pre' tc x : incl pre pre' -> cond_src pre tc x -> cond_src pre' tc x.
  Proof.
    intros Hin [[Hx [c [sub [H1 H2]]]]|[f [c [body [H1 H2]]]]].
    - left. split; [exact Hx|]. exists c, sub. split; [apply Hin; exact H1 | exact H2].
    - right. exists f, c, body. split; [apply Hin; exact H1 | exact H2].
  Qed.

  Hypothesis Hlocal : forall s, In s all -> sel_local S frs m s = true.

  Lemma entry_cov_incl fields fields' s :
    (forall e, In e fields -> fst e = skey m s -> In e fields') -> entry_cov fields s -> entry_cov fields' s.
  Proof.
    intros H. destruct s as [a f sub|c sub|f c body]; simpl.
    - intros [T [H1 H2]]. exists T. split; [apply (H _ H1); reflexivity | exact H2].
    - intros [core [H1 H2]]. exists core. split; [apply (H _ H1); reflexivity | exact H2].
    - intros H1. apply (H _ H1). reflexivity.
  Qed.

  Lemma cond_cov_incl conds conds' s :
    (forall tc l x, In (tc, l) conds -> In x l -> exists l', In (tc, l') conds' /\ In x l') ->
    cond_cov conds s -> cond_cov conds' s.
  Proof.
    intros H. destruct s as [a f sub|c sub|f c body]; simpl; [trivial| |].
    - intros [l [H1 H2]]. apply (H _ _ _ H1 H2).
    - intros [l [H1 H2]]. apply (H _ _ _ H1 H2).
  Qed.

  Lemma field_type_def f ft : field_type S m f = Some ft ->
    exists fs, assoc f fs = Some ft /\ ((exists n ifs, d = DObj n ifs fs) \/ (exists n, d = DIface n fs)).
  Proof.
    intros H. destruct (field_type_lookup _ _ _ _ H) as [d' [fs [H1 [H2 H3]]]].
    rewrite Hlookup in H1. inversion H1; subst d'. exists fs. split; assumption.
  Qed.

  Lemma Inv_intro st0 pre fields conds done fdone st :
    NoDup (map fst fields) ->
    NoDup (map fst conds) ->
    (forall k T dash, In (k, (T, dash)) fields -> entry_src pre k T dash) ->
    (forall k T dash, In (k, (T, dash)) fields -> TyOK st T) ->
    (forall s, In s pre -> entry_cov fields s) ->
    (forall s, In s pre -> cond_cov conds s) ->
    (forall c, In c done -> exists co sub, In (SInline co sub) pre /\ inline_cond m co = c) ->
    (forall c, (exists co sub, In (SInline co sub) pre /\ inline_cond m co = c) -> In c done) ->
    (forall tc l x, In (tc, l) conds -> In x l -> cond_src pre tc x) ->
    Ext st0 st ->
    (forall k, In k fdone <-> exists a f sub, In (SField a f sub) pre /\ sel_key a f = k) ->
    Inv st0 pre (fields, conds, done, fdone, st).
  Proof.
    intros H1 H2 H3 H4 H5 H6 H7 H8 H9 H10 H11. unfold Inv.
    split; [exact H1|]. split; [exact H2|]. split; [intros k T dash H; split; [apply (H3 _ _ _ H) | apply (H4 _ _ _ H)]|].
    split; [intros s H; split; [apply (H5 _ H) | apply (H6 _ H)]|].
    split; [intros c; split; [apply H7 | apply H8]|]. split; [exact H11|]. split; [exact H9 | exact H10].
  Qed.

  Lemma fdone_nonfield pre s fdone : mkind s <> KField ->
    (forall k, In k fdone <-> exists a f sub, In (SField a f sub) pre /\ sel_key a f = k) ->
    (forall k, In k fdone <-> exists a f sub, In (SField a f sub) (pre ++ [s]) /\ sel_key a f = k).
  Proof.
    intros Hk H k. rewrite H. split; intros [a [f [sub [H1 H2]]]]; exists a, f, sub; (split; [|exact H2]).
    - apply in_app_iff. left. exact H1.
    - apply in_app_iff in H1 as [H1|[H1|[]]]; [exact H1|]. subst s. exfalso. apply Hk. reflexivity.
  Qed.

  Lemma skey_same s1 s2 : skey m s1 = skey m s2 -> mkind s1 = mkind s2.
  Proof. destruct s1, s2; simpl; intros H; apply tk_inj in H as [H _]; try discriminate H; reflexivity. Qed.

  Lemma step_inv st0 pre s rest a a' :
    all = pre ++ s :: rest -> Inv st0 pre a ->
    step_s S fragTypes rec m d hasTn all s a = Ok a' ->
    Inv st0 (pre ++ [s]) a'.
  Proof.
    intros Hall HI Hstep.
    assert (Hs : In s all) by (rewrite Hall; apply in_app_iff; right; left; reflexivity).
    assert (Hincl : incl pre (pre ++ [s])) by (intros x Hx; apply in_app_iff; left; exact Hx).
    assert (Hlast : In s (pre ++ [s])) by (apply in_app_iff; right; left; reflexivity).
    destruct a as [[[[fields conds] done] fdone] st]. unfold Inv in HI.
    destruct HI as (I1 & I2 & I3 & I4 & I5 & I8 & I6 & I7).
    assert (Hpre_all : incl pre all) by (intros x Hx; rewrite Hall; apply in_app_iff; left; exact Hx).
    unfold step_s in Hstep. pose proof (Hlocal s Hs) as Hloc.
    destruct s as [al f sub|c sub|f c body].
    - (* ---- field ---- *)
      simpl in Hloc. set (k := sel_key al f) in *.
      destruct (mem k fdone) eqn:Efd.
      + (* this response key was generated with its first selection *)
        inversion Hstep; subst a'. apply mem_In in Efd. apply I8 in Efd as [a0 [f0 [sub0 [H1 H2]]]].
        assert (Ef0 : f0 = f) by (apply (Hkeys a0 f0 sub0 al f sub (Hpre_all _ H1) Hs); exact H2).
        subst f0. destruct (I4 _ H1) as [Hc1 _]. simpl in Hc1. rewrite H2 in Hc1.
        apply Inv_intro; try assumption.
        * intros k0 T0 dash0 H. eapply entry_src_mono; [exact Hincl|]. apply (I3 _ _ _ H).
        * intros k0 T0 dash0 H. apply (I3 _ _ _ H).
        * intros s0 H. apply in_app_iff in H as [H|[H|[]]]; [apply (I4 _ H) | subst s0; exact Hc1].
        * intros s0 H. apply in_app_iff in H as [H|[H|[]]]; [apply (I4 _ H) | subst s0; exact I].
        * intros c0 Hc. apply I5 in Hc as [co [sub1 [H3 H4]]]. exists co, sub1. split; [apply Hincl; exact H3 | exact H4].
        * intros c0 [co [sub1 [H3 H4]]]. apply I5. apply in_app_iff in H3 as [H3|[H3|[]]]; [|discriminate]. exists co, sub1. split; assumption.
        * intros tc l x H3 H4. eapply cond_src_mono; [exact Hincl|]. apply (I6 _ _ _ H3 H4).
        * intros k0. rewrite I8. split; intros [a1 [f1 [sub1 [H3 H4]]]].
          -- exists a1, f1, sub1. split; [apply Hincl; exact H3 | exact H4].
          -- apply in_app_iff in H3 as [H3|[H3|[]]]; [exists a1, f1, sub1; split; assumption|].
             inversion H3; subst a1 f1 sub1. exists a0, f, sub0. split; [exact H1 | rewrite H2; exact H4].
      + apply mem_false in Efd.
        assert (Hnew : forall s', In s' pre -> skey m s' <> tk 0%N k).
        { intros s' Hs' E. destruct s' as [a2 f2 sub2| |]; simpl in E; apply tk_inj in E as [Ec Ek]; try discriminate Ec.
          apply Efd. apply I8. exists a2, f2, sub2. split; [exact Hs' | exact Ek]. }
        assert (Hfd : forall k0, In k0 (k :: fdone) <-> exists a1 f1 sub1, In (SField a1 f1 sub1) (pre ++ [SField al f sub]) /\ sel_key a1 f1 = k0).
        { intros k0. split.
          - intros [E|H]; [exists al, f, sub; split; [exact Hlast | exact E]|].
            apply I8 in H as [a1 [f1 [sub1 [H3 H4]]]]. exists a1, f1, sub1. split; [apply Hincl; exact H3 | exact H4].
          - intros [a1 [f1 [sub1 [H3 H4]]]]. apply in_app_iff in H3 as [H3|[H3|[]]].
            + right. apply I8. exists a1, f1, sub1. split; assumption.
            + inversion H3; subst a1 f1 sub1. left. exact H4. }
        assert (Hfield : forall T st', Ext st st' -> TyOK st' T -> field_ty f (merged_field k all) T ->
                  Inv st0 (pre ++ [SField al f sub]) (aset (tk 0%N k) (T, false) fields, conds, done, k :: fdone, st')).
        { intros T st' Hext Hty Hft. apply Inv_intro.
          - apply nodup_keys_aset. exact I1.
          - exact I2.
          - intros k0 T0 dash0 H. apply (In_aset _ _ _ _ I1) in H as [H|[H Hk]].
            + inversion H; subst. left. split; [reflexivity|]. exists al, f, sub. split; [exact Hlast|]. split; [reflexivity | exact Hft].
            + eapply entry_src_mono; [exact Hincl|]. apply (I3 _ _ _ H).
          - intros k0 T0 dash0 H. apply (In_aset _ _ _ _ I1) in H as [H|[H Hk]].
            + inversion H; subst. exact Hty.
            + apply (TyOK_ext _ _ _ Hext). apply (I3 _ _ _ H).
          - intros s0 H. apply in_app_iff in H as [H|[H|[]]].
            + apply (entry_cov_incl fields); [|apply (I4 _ H)]. intros e He Ek. apply In_aset_keep; [exact He|].
              rewrite Ek. apply Hnew. exact H.
            + subst s0. simpl. exists T. split; [apply In_aset_new | exact Hft].
          - intros s0 H. apply in_app_iff in H as [H|[H|[]]]; [apply (I4 _ H) | subst s0; exact I].
          - intros c0 Hc. apply I5 in Hc as [co [sub0 [H1 H2]]]. exists co, sub0. split; [apply Hincl; exact H1 | exact H2].
          - intros c0 [co [sub0 [H1 H2]]]. apply I5. apply in_app_iff in H1 as [H1|[H1|[]]]; [|discriminate]. exists co, sub0. split; assumption.
          - intros tc l x H1 H2. eapply cond_src_mono; [exact Hincl|]. apply (I6 _ _ _ H1 H2).
          - apply (Ext_trans _ _ _ I7 Hext).
          - exact Hfd. }
        destruct (is_typename f) eqn:Etn.
        * inversion Hstep; subst a'. apply Hfield; [apply Ext_refl | apply TyOK_string | left; split; [exact Etn | reflexivity]].
        * destruct (field_type S m f) as [ft|] eqn:Eft; [|discriminate].
          destruct (field_type_def _ _ Eft) as [fs [Hassoc Hd]].
          assert (Hgt : exists g st', gen_type rec ft (merged_field k all) st = Ok (g, st') /\
                                      a' = (aset (tk 0%N k) (g, false) fields, conds, done, k :: fdone, st')).
          { destruct Hd as [[n [ifs Ed]]|[n Ed]]; subst d; rewrite Hassoc in Hstep;
              destruct (gen_type rec ft (merged_field k all) st) as [[g st']| | |]; try discriminate;
              inversion Hstep; subst a'; exists g, st'; split; reflexivity. }
          destruct Hgt as [g [st' [Hg Ea']]]. subst a'. unfold gen_type in Hg.
          destruct (rec (unwrap ft) (merged_field k all) st) as [[[core b] st'']| | |] eqn:Er; try discriminate.
          inversion Hg; subst g st''. clear Hg.
          destruct (Hrec (unwrap ft) (merged_field k all) st core b st') as (Hb & Hext & Hty & Hgood); [|exact Er|].
          { left. exists al, f, sub. split; [exact Hs|]. split; [exact Etn|]. split; [reflexivity|]. exists ft. split; [exact Eft | reflexivity]. }
          subst b. apply Hfield; [exact Hext | apply TyOK_wrap; exact Hty|].
          right. split; [exact Etn|]. exists ft, core. split; [exact Eft|]. split; [reflexivity | exact Hgood].
    - (* ---- inline fragment ---- *)
      destruct (negb hasTn && negb (is_object d)); [discriminate|].
      destruct (match c with None => false | Some c' => negb (named_exists S c') end); [discriminate|].
      set (cond := inline_cond m c) in *.
      destruct (mem cond done) eqn:Edone.
      + inversion Hstep; subst a'. apply mem_In in Edone. apply I5 in Edone as [co [sub0 [H1 H2]]].
        destruct (I4 _ H1) as [Hc1 Hc2]. simpl in Hc1, Hc2. rewrite H2 in Hc1, Hc2.
        apply Inv_intro; try assumption.
        * intros k0 T0 dash0 H. eapply entry_src_mono; [exact Hincl|]. apply (I3 _ _ _ H).
        * intros k0 T0 dash0 H. apply (I3 _ _ _ H).
        * intros s0 H. apply in_app_iff in H as [H|[H|[]]]; [apply (I4 _ H) | subst s0; exact Hc1].
        * intros s0 H. apply in_app_iff in H as [H|[H|[]]]; [apply (I4 _ H) | subst s0; exact Hc2].
        * intros c0 Hc. apply I5 in Hc as [co' [sub' [H3 H4]]]. exists co', sub'. split; [apply Hincl; exact H3 | exact H4].
        * intros c0 [co' [sub' [H3 H4]]]. apply I5. apply in_app_iff in H3 as [H3|[H3|[]]]; [exists co', sub'; split; assumption|].
          inversion H3; subst co' sub'. exists co, sub0. split; [exact H1 | rewrite H2; exact H4].
        * intros tc l x H3 H4. eapply cond_src_mono; [exact Hincl|]. apply (I6 _ _ _ H3 H4).
        * apply fdone_nonfield; [discriminate | exact I8].
      + apply mem_false in Edone.
        unfold gen_type in Hstep. simpl unwrap in Hstep.
        destruct (rec cond (merged_inline m cond all) st) as [[[core b] st']| | |] eqn:Er; try discriminate.
        destruct (Hrec cond (merged_inline m cond all) st core b st') as (Hb & Hext & Hty & Hgood); [|exact Er|].
        { right. exists c, sub. split; [exact Hs|]. split; reflexivity. }
        subst b. simpl in Hstep. inversion Hstep; subst a'. clear Hstep.
        assert (Hnew : forall s', In s' pre -> skey m s' <> tk 1%N cond).
        { intros s' Hs' E. destruct s' as [| co sub0 |]; simpl in E; apply tk_inj in E as [Ec Ek]; try discriminate Ec.
          apply Edone. apply I5. exists co, sub0. split; [exact Hs' | exact Ek]. }
        apply Inv_intro.
        * apply nodup_keys_aset. exact I1.
        * apply nodup_keys_aappend. exact I2.
        * intros k0 T0 dash0 H. apply (In_aset _ _ _ _ I1) in H as [H|[H Hk]].
          -- inversion H; subst. right. left. split; [reflexivity|]. exists c, sub. split; [exact Hlast|].
             split; [reflexivity|]. exists core. split; [reflexivity | exact Hgood].
          -- eapply entry_src_mono; [exact Hincl|]. apply (I3 _ _ _ H).
        * intros k0 T0 dash0 H. apply (In_aset _ _ _ _ I1) in H as [H|[H Hk]].
          -- inversion H; subst. apply TyOK_ptr. exact Hty.
          -- apply (TyOK_ext _ _ _ Hext). apply (I3 _ _ _ H).
        * intros s0 H. apply in_app_iff in H as [H|[H|[]]].
          -- apply (entry_cov_incl fields); [|apply (I4 _ H)]. intros e He Ek. apply In_aset_keep; [exact He|].
             rewrite Ek. apply Hnew. exact H.
          -- subst s0. simpl. exists core. split; [apply In_aset_new | exact Hgood].
        * intros s0 H. apply in_app_iff in H as [H|[H|[]]].
          -- apply (cond_cov_incl conds); [|apply (I4 _ H)]. intros tc l x H1 H2. eapply aappend_keeps; eassumption.
          -- subst s0. simpl. apply aappend_adds.
        * intros c0 [Hc|Hc]; [exists c, sub; split; [exact Hlast | exact Hc]|].
          apply I5 in Hc as [co' [sub' [H3 H4]]]. exists co', sub'. split; [apply Hincl; exact H3 | exact H4].
        * intros c0 [co' [sub' [H3 H4]]]. apply in_app_iff in H3 as [H3|[H3|[]]].
          -- right. apply I5. exists co', sub'. split; assumption.
          -- inversion H3; subst co' sub'. left. exact H4.
        * intros tc l x H1 H2. destruct (In_aappend _ _ _ _ _ _ H1 H2) as [[l' [H3 H4]]|[H3 H4]].
          -- eapply cond_src_mono; [exact Hincl|]. apply (I6 _ _ _ H3 H4).
          -- subst tc x. left. split; [reflexivity|]. exists c, sub. split; [exact Hlast | reflexivity].
        * apply (Ext_trans _ _ _ I7 Hext).
        * apply fdone_nonfield; [discriminate | exact I8].
    - (* ---- fragment spread ---- *)
      destruct (negb hasTn && negb (is_object d)); [discriminate|].
      inversion Hstep; subst a'. clear Hstep. fold (frag_cond f).
      apply Inv_intro.
      + apply nodup_keys_aset. exact I1.
      + apply nodup_keys_aappend. exact I2.
      + intros k0 T0 dash0 H. apply (In_aset _ _ _ _ I1) in H as [H|[H Hk]].
        * inversion H; subst. right. right. split; [reflexivity|]. exists f, c, body. split; [exact Hlast|]. split; reflexivity.
        * eapply entry_src_mono; [exact Hincl|]. apply (I3 _ _ _ H).
      + intros k0 T0 dash0 H. apply (In_aset _ _ _ _ I1) in H as [H|[H Hk]].
        * inversion H; subst. apply TyOK_fragref. apply (Hspreads _ _ _ Hs).
        * apply (I3 _ _ _ H).
      + intros s0 H. apply in_app_iff in H as [H|[H|[]]].
        * destruct (bytes_eq_dec (skey m s0) (tk 2%N f)) as [E|N].
          -- destruct s0 as [| | f' c' body']; simpl in E; apply tk_inj in E as [Ec Ek]; try discriminate Ec.
             subst f'. simpl. apply In_aset_new.
          -- apply (entry_cov_incl fields); [|apply (I4 _ H)]. intros e He Ek. apply In_aset_keep; [exact He | congruence].
        * subst s0. simpl. apply In_aset_new.
      + intros s0 H. apply in_app_iff in H as [H|[H|[]]].
        * apply (cond_cov_incl conds); [|apply (I4 _ H)]. intros tc l x H1 H2. eapply aappend_keeps; eassumption.
        * subst s0. simpl. apply aappend_adds.
      + intros c0 Hc. apply I5 in Hc as [co' [sub' [H3 H4]]]. exists co', sub'. split; [apply Hincl; exact H3 | exact H4].
      + intros c0 [co' [sub' [H3 H4]]]. apply I5. apply in_app_iff in H3 as [H3|[H3|[]]]; [|discriminate]. exists co', sub'. split; assumption.
      + intros tc l x H1 H2. destruct (In_aappend _ _ _ _ _ _ H1 H2) as [[l' [H3 H4]]|[H3 H4]].
        * eapply cond_src_mono; [exact Hincl|]. apply (I6 _ _ _ H3 H4).
        * subst tc x. right. exists f, c, body. split; [exact Hlast|]. split; reflexivity.
      + exact I7.
      + apply fdone_nonfield; [discriminate | exact I8].
  Qed.

  Lemma loop_inv st0 rest : forall pre a a',
    all = pre ++ rest -> Inv st0 pre a ->
    loop_s S fragTypes rec m d hasTn all rest a = Ok a' ->
    Inv st0 all a'.
  Proof.
    induction rest as [|s rest IH]; intros pre a a' Hall HI Hl.
    - simpl in Hl. inversion Hl; subst a'. rewrite app_nil_r in Hall. subst pre. exact HI.
    - simpl in Hl. destruct (step_s S fragTypes rec m d hasTn all s a) as [a1| | |] eqn:Es; try discriminate.
      apply (IH (pre ++ [s]) a1 a'); [rewrite <- app_assoc; exact Hall | apply (step_inv st0 pre s rest a a1 Hall HI Es) | exact Hl].
  Qed.

  Lemma inv_init st0 : Inv st0 [] ([], [], [], [], st0).
  Proof.
    apply Inv_intro.
    - constructor.
    - constructor.
    - intros k T dash [].
    - intros k T dash [].
    - intros s [].
    - intros s [].
    - intros c [].
    - intros c [co [sub [[] _]]].
    - intros tc l x [].
    - apply Ext_refl.
    - intros k. split; [intros [] | intros [a [f [sub [[] _]]]]].
  Qed.
End LoopInv.
