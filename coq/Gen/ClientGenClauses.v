(** * Gen/ClientGenClauses.v — C20: the clauses of [wf_program] ("the modelled part of compiles"),
    each under its own name, for the program the generator emits inside the envelope.

    - [cl_struct_members]: in every struct of every declaration (at any depth) the field names are
      pairwise distinct, and every statement group of a generated UnmarshalJSON assigns to an
      existing field and switches on an existing field of type string with distinct case constants
      (Go: duplicate field / undefined selector / duplicate case).  Generated structs have no
      embedded fields (the abstract type has no constructor for them), so promotion cannot add names.
    - [cl_references]: every enum type and every <F>Fragment type referred to is declared
      (Go: undefined type).
    - [cl_method_forwarders]: a forwarding UnmarshalJSON is emitted only for a declaration whose
      underlying type has the method (Go: missing method).
    - [cl_identifiers]: declared identifiers (enum types, enum constants, <Op>Data, <F>Fragment,
      sel<T><n>, the json import) are pairwise distinct usable Go identifiers, field names are
      identifiers, no type is named by a keyword, no field carries two tags.  This clause is what
      the exclusion [excl_decl_clash] = false grants; [decl_safe_excl] (ClientGenDeclSafe.v) derives
      it from the names-only condition [decl_safe]. *)
From Coq Require Import List NArith Bool String.
From ApiFu Require Import Base.Sexp Gen.GoTypes Gen.ClientGenModel Gen.DecodeModel Gen.ClientGenSpec Gen.ClientGenMain Gen.ClientGenDeclSafe Gen.LoadSchemaModel Gen.LoadSchemaProofs Gen.ClientGenAgree.
Import ListNotations.

Definition cl_struct_members (p : program) : Prop := forall d, In d (p_defs p) -> wf_shape (td_type d) = true.
Definition cl_references (p : program) : Prop := forall d, In d (p_defs p) -> refs_ok p (td_type d) = true.
Definition cl_method_forwarders (p : program) : Prop :=
  forall d, In d (p_defs p) -> td_forward d = true -> exists tn i fs st, td_type d = GSel tn i fs st.
Definition cl_identifiers (p : program) : Prop :=
  decl_names_ok p = true /\
  forallb (fun e : name * list (name * name) => negb (go_keyword (fst e))) (p_enums p) = true /\
  forall d, In d (p_defs p) -> idents_ok (td_type d) = true /\ type_syntax_ok (td_type d) = true.

Lemma wf_program_clauses p : wf_program p = true ->
  cl_struct_members p /\ cl_references p /\ cl_method_forwarders p /\ cl_identifiers p.
Proof.
  unfold wf_program. intros H. apply andb_true_iff in H as [H H3]. apply andb_true_iff in H as [H1 H2].
  rewrite forallb_forall in H3.
  assert (Hd : forall d, In d (p_defs p) ->
             wf_shape (td_type d) = true /\ refs_ok p (td_type d) = true /\ idents_ok (td_type d) = true /\
             type_syntax_ok (td_type d) = true /\
             (negb (td_forward d) || match td_type d with GSel _ _ _ _ => true | _ => false end) = true).
  { intros d Hin. specialize (H3 d Hin). unfold wf_def in H3.
    apply andb_true_iff in H3 as [H3 E5]. apply andb_true_iff in H3 as [H3 E4].
    apply andb_true_iff in H3 as [H3 E3]. apply andb_true_iff in H3 as [E1 E2]. repeat split; assumption. }
  split; [intros d Hin; apply (Hd d Hin)|]. split; [intros d Hin; apply (Hd d Hin)|]. split.
  - intros d Hin Hf. destruct (Hd d Hin) as (_ & _ & _ & _ & E). rewrite Hf in E. simpl in E.
    destruct (td_type d); try discriminate. do 4 eexists. reflexivity.
  - split; [exact H1|]. split; [exact H2|]. intros d Hin. destruct (Hd d Hin) as (_ & _ & E3 & E4 & _). split; assumption.
Qed.

Theorem gen_wf_clauses : forall S d,
  env S d = true -> excl_member_clash S d = false -> excl_decl_clash S d = false ->
  exists p, generate no_quirks S (doc_valid S d) d = GOk p /\
            cl_struct_members p /\ cl_references p /\ cl_method_forwarders p /\ cl_identifiers p.
Proof.
  intros S d H1 H2 H3. destruct (gen_accepts_wf S d H1 H2 H3) as [p [Hg Hw]].
  exists p. split; [exact Hg | apply wf_program_clauses; exact Hw].
Qed.

(** ** the main statements with the names-only hypothesis [decl_safe] *)
Lemma env_schema_ok S d : env S d = true -> schema_ok S = true.
Proof. unfold env. intros H. do 3 (apply andb_true_iff in H as [H _]). exact H. Qed.

Theorem gen_accepts_wf_safe : forall S d,
  env S d = true -> excl_member_clash S d = false -> decl_safe S d = true ->
  exists p, generate no_quirks S (doc_valid S d) d = GOk p /\ wf_program p = true.
Proof.
  intros S d H1 H2 H3. apply (gen_accepts_wf S d H1 H2). apply decl_safe_excl; [apply (env_schema_ok S d H1) | exact H3].
Qed.

Theorem gen_wf_clauses_safe : forall S d,
  env S d = true -> excl_member_clash S d = false -> decl_safe S d = true ->
  exists p, generate no_quirks S (doc_valid S d) d = GOk p /\
            cl_struct_members p /\ cl_references p /\ cl_method_forwarders p /\ cl_identifiers p.
Proof.
  intros S d H1 H2 H3. apply (gen_wf_clauses S d H1 H2). apply decl_safe_excl; [apply (env_schema_ok S d H1) | exact H3].
Qed.

Theorem gen_decodes_safe : forall S d,
  env S d = true -> excl_member_clash S d = false -> decl_safe S d = true ->
  forall p o opname w,
    generate no_quirks S (doc_valid S d) d = GOk p ->
    In o (d_ops d) -> op_name o = Some opname -> conforms S o w = true ->
    exists n v, (forall fuel, (n <= fuel)%nat -> decode_op p fuel opname (json_of w) = DOk v) /\
                (forall pl, In pl (leaves v) <-> In pl (expected S o w)).
Proof.
  intros S d H1 H2 H3. apply (gen_decodes S d H1 H2). apply decl_safe_excl; [apply (env_schema_ok S d H1) | exact H3].
Qed.

(** ** the same about the generator as run from the command line (LoadSchema from the introspection
    JSON, then Generate): [schema_loadable] = no field type has more than seven wrappers *)
Theorem cli_accepts_wf : forall S d,
  env S d = true -> schema_loadable S = true -> excl_member_clash S d = false -> decl_safe S d = true ->
  exists p, generate_cli no_quirks S (doc_valid S d) d = GOk p /\ wf_program p = true.
Proof. intros S d H1 HL H2 H3. rewrite (generate_cli_loadable _ _ _ _ HL). apply gen_accepts_wf_safe; assumption. Qed.

Theorem cli_wf_clauses : forall S d,
  env S d = true -> schema_loadable S = true -> excl_member_clash S d = false -> decl_safe S d = true ->
  exists p, generate_cli no_quirks S (doc_valid S d) d = GOk p /\
            cl_struct_members p /\ cl_references p /\ cl_method_forwarders p /\ cl_identifiers p.
Proof. intros S d H1 HL H2 H3. rewrite (generate_cli_loadable _ _ _ _ HL). apply gen_wf_clauses_safe; assumption. Qed.

Theorem cli_decodes : forall S d,
  env S d = true -> schema_loadable S = true -> excl_member_clash S d = false -> decl_safe S d = true ->
  forall p o opname w,
    generate_cli no_quirks S (doc_valid S d) d = GOk p ->
    In o (d_ops d) -> op_name o = Some opname -> conforms S o w = true ->
    exists n v, (forall fuel, (n <= fuel)%nat -> decode_op p fuel opname (json_of w) = DOk v) /\
                (forall pl, In pl (leaves v) <-> In pl (expected S o w)).
Proof.
  intros S d H1 HL H2 H3 p o opname w Hg. rewrite (generate_cli_loadable _ _ _ _ HL) in Hg.
  apply (gen_decodes_safe S d H1 H2 H3 p o opname w Hg).
Qed.

Theorem cli_invalid_no_output : forall Q S d p, doc_valid S d = false -> generate_cli Q S (doc_valid S d) d <> GOk p.
Proof.
  intros Q S d p H. rewrite H. unfold generate_cli. destruct (load_schema S) as [S'|]; [|discriminate].
  unfold generate, generate_raw. simpl. discriminate.
Qed.

(** ** the same about the generator of the current tree ([generate_real]: LoadSchema, then the
    generator with the member-name repair); [generate_real_agree] (ClientGenAgree.v) *)
Theorem real_accepts_wf : forall D S d,
  env S d = true -> schema_loadable S = true -> excl_member_clash S d = false -> decl_safe S d = true ->
  exists p, generate_real D S (doc_valid S d) d = GOk p /\ wf_program p = true.
Proof. intros D S d H1 HL H2 H3. rewrite (generate_real_agree S d H1 H2 H3 D HL). apply cli_accepts_wf; assumption. Qed.

Theorem real_wf_clauses : forall D S d,
  env S d = true -> schema_loadable S = true -> excl_member_clash S d = false -> decl_safe S d = true ->
  exists p, generate_real D S (doc_valid S d) d = GOk p /\
            cl_struct_members p /\ cl_references p /\ cl_method_forwarders p /\ cl_identifiers p.
Proof. intros D S d H1 HL H2 H3. rewrite (generate_real_agree S d H1 H2 H3 D HL). apply cli_wf_clauses; assumption. Qed.

Theorem real_decodes : forall D S d,
  env S d = true -> schema_loadable S = true -> excl_member_clash S d = false -> decl_safe S d = true ->
  forall p o opname w,
    generate_real D S (doc_valid S d) d = GOk p ->
    In o (d_ops d) -> op_name o = Some opname -> conforms S o w = true ->
    exists n v, (forall fuel, (n <= fuel)%nat -> decode_op p fuel opname (json_of w) = DOk v) /\
                (forall pl, In pl (leaves v) <-> In pl (expected S o w)).
Proof.
  intros D S d H1 HL H2 H3 p o opname w Hg. rewrite (generate_real_agree S d H1 H2 H3 D HL) in Hg.
  apply (cli_decodes S d H1 HL H2 H3 p o opname w Hg).
Qed.

Theorem real_invalid_no_output : forall D S d p, doc_valid S d = false -> generate_real D S (doc_valid S d) d <> GOk p.
Proof.
  intros D S d p H. rewrite H. rewrite generate_real_unfold. destruct (load_schema S) as [S'|]; [|discriminate].
  unfold generate_s, generate_raw_s. simpl. discriminate.
Qed.

Theorem real_too_deep D S valid d n ifs fs f t :
  In (DObj n ifs fs) (s_types S) -> In (f, t) fs -> (typeref_depth < wrappers t)%nat -> generate_real D S valid d = GError.
Proof.
  intros Hd Hf Hw. rewrite generate_real_unfold. unfold load_schema. rewrite (load_typedefs_too_deep S _ n ifs fs f t Hd Hf Hw). reflexivity.
Qed.
