(** * Gen/ClientGenFinalS.v — C20: the struct (and UnmarshalJSON) the generator of the current tree
    builds from the finished member maps is well formed, for every naming [nm] of the members that is
    injective on them (the counterpart of ClientGenFinal.v; no hypothesis about clashes). *)
From Coq Require Import List NArith ZArith Bool String Lia Permutation.
From ApiFu Require Import Base.Sexp Gen.GoTypes Gen.ClientGenModel Gen.DecodeModel Gen.ClientGenSpec
     Gen.ClientGenLemmas Gen.DecodeLemmas Gen.ClientGenProofs Gen.ClientGenGood Gen.ClientGenFinal Gen.ClientGenGoodS.
Import ListNotations.
Open Scope list_scope.
Open Scope nat_scope.

(** struct fields and UnmarshalJSON statements under a naming function *)
Definition mk_field_f (nm : name -> name) (e : name * (gotype * bool)) : gofield :=
  let '(k, (t, dash)) := e in
  (nm k, (if dash then TagDash else if negb (equal_fold (nm k) (untk k)) then TagKey (untk k) else TagNone), t).

Definition mk_steps_f (S : schema) (nm : name -> name) (tName : name) (d : typedef) (tnField : name)
           (conds : list (name * list name)) : list ustep :=
  flat_map (fun e : name * list name =>
              let (tc, ms) := e in
              if is_known no_quirks S tName d tc then map (fun x => UAlways (nm x)) ms
              else map (fun x => USwitch tnField (ok_types no_quirks S tc) (nm x)) ms) conds.

Lemma mk_field_s_f names e : mk_field_s names e = mk_field_f (gname names) e.
Proof. destruct e as [k [t dash]]. reflexivity. Qed.

Lemma mk_steps_s_f S names tName d tnField conds :
  mk_steps_s S names tName d tnField conds = mk_steps_f S (gname names) tName d tnField conds.
Proof. reflexivity. Qed.

Lemma mk_field_f_name nm e : gf_name (mk_field_f nm e) = nm (fst e).
Proof. destruct e as [k [T dash]]. reflexivity. Qed.
Lemma mk_field_f_type nm e : gf_type (mk_field_f nm e) = fst (snd e).
Proof. destruct e as [k [T dash]]. reflexivity. Qed.

Lemma names_mk_fields_f nm fields : map gf_name (map (mk_field_f nm) fields) = map nm (map fst fields).
Proof. rewrite !map_map. apply map_ext. intros e. apply mk_field_f_name. Qed.

Lemma In_fs_f nm fields fld : In fld (sort_fields (map (mk_field_f nm) fields)) <-> exists e, In e fields /\ fld = mk_field_f nm e.
Proof. rewrite In_sort_fields, in_map_iff. split; intros [e [H1 H2]]; exists e; split; auto. Qed.

(** ** the finished maps *)
Section Final.
  Variable S : schema.
  Variable frs : list fragdef.
  Hypothesis HS : schema_ok S = true.
  Variable Good : name -> list selection -> gotype -> Prop.
  Variable m : name.
  Variable d : typedef.
  Variable all : list selection.
  Variable fields : list (name * (gotype * bool)).
  Variable conds : list (name * list name).

  Hypothesis F1 : NoDup (map fst fields).
  Hypothesis F3 : forall k T dash, In (k, (T, dash)) fields -> entry_src S Good m all all k T dash.
  Hypothesis F4 : forall s, In s all -> entry_cov S Good m all fields s.
  Hypothesis F5 : forall s, In s all -> cond_cov frs m conds s.
  Hypothesis F6 : forall tc l x, In (tc, l) conds -> In x l -> cond_src frs m all tc x.
  Hypothesis E1 : lookup_type S m = Some d.
  Variable nm : name -> name.
  Hypothesis Hnm : forall k1 T1 d1 k2 T2 d2,
    In (k1, (T1, d1)) fields -> In (k2, (T2, d2)) fields -> nm k1 = nm k2 -> k1 = k2.
  Hypothesis E3 : forall s, In s all -> sel_local S frs m s = true.
  Hypothesis E4 : has_fragment all = true -> is_object_type S m = true \/ exists k, first_typename all = Some k.

  Let fs := sort_fields (map (mk_field_f nm) fields).
  Let tnKey := match first_typename all with Some k => k | None => typename_name end.
  Let steps := mk_steps_f S nm m d (nm (tk 0%N tnKey)) conds.

  Lemma fs_names_nodup : NoDup (map gf_name fs).
  Proof.
    unfold fs. apply NoDup_names_sort. rewrite names_mk_fields_f.
    assert (H : forall l, incl l fields -> NoDup (map fst l) -> NoDup (map nm (map fst l))).
    { induction l as [|[k [T dash]] r IH]; intros Hin ND; simpl; [constructor|]. simpl in ND. inversion ND as [|? ? Hn ND']; subst.
      constructor; [|apply IH; [intros x Hx; apply Hin; right; exact Hx | exact ND']].
      intro Hi. apply in_map_iff in Hi as [k2 [E Hk2]]. apply in_map_iff in Hk2 as [[k2' [T2 d2]] [E2 Hi2]]. simpl in E2. subst k2'.
      assert (k2 = k) by (apply (Hnm k2 T2 d2 k T dash); [apply Hin; right; exact Hi2 | apply Hin; left; reflexivity | exact E]).
      subst k2. apply Hn. apply in_map_iff. exists (k, (T2, d2)). split; [reflexivity | exact Hi2]. }
    apply H; [apply incl_refl | exact F1].
  Qed.

  (** the entry a struct field comes from *)
  Lemma fs_entry fld : In fld fs -> exists k T dash, In (k, (T, dash)) fields /\ fld = mk_field_f nm (k, (T, dash)).
  Proof. intros H. apply In_fs_f in H as [[k [T dash]] [H1 H2]]. exists k, T, dash. split; assumption. Qed.

  Lemma entry_fs k T dash : In (k, (T, dash)) fields -> In (mk_field_f nm (k, (T, dash))) fs.
  Proof. intros H. apply In_fs_f. exists (k, (T, dash)). split; [exact H | reflexivity]. Qed.

  Lemma entry_unique k T1 d1 T2 d2 : In (k, (T1, d1)) fields -> In (k, (T2, d2)) fields -> T1 = T2 /\ d1 = d2.
  Proof.
    intros H1 H2. pose proof (In_assoc_nodup _ _ _ F1 H1) as A1. pose proof (In_assoc_nodup _ _ _ F1 H2) as A2.
    rewrite A1 in A2. inversion A2. split; reflexivity.
  Qed.

  (** the type condition of each fragment of the selection set, and that it can apply here *)
  Lemma cond_overlap tc l x : In (tc, l) conds -> In x l -> overlap S tc m = true.
  Proof.
    intros H1 H2. destruct (F6 _ _ _ H1 H2) as [[Hx [c [sub [H3 H4]]]]|[f [c [body [H3 [Hx H4]]]]]].
    - pose proof (E3 _ H3) as Hl. simpl in Hl. apply andb_true_iff in Hl as [_ Hl]. rewrite H4 in Hl. exact Hl.
    - pose proof (E3 _ H3) as Hl. simpl in Hl. apply andb_true_iff in Hl as [Hl Hf]. apply andb_true_iff in Hl as [_ Hl].
      destruct (find_frag frs f) as [fr|] eqn:Ef; [|discriminate]. apply andb_true_iff in Hf as [Hf _].
      apply bytes_eqb_true in Hf. subst tc. unfold frag_cond. rewrite assoc_fragTypes, Ef, Hf. exact Hl.
  Qed.

  (** a name listed under a type condition is the key of a [json:"-"] entry *)
  Lemma cond_entry tc l x : In (tc, l) conds -> In x l -> exists T, In (x, (T, true)) fields.
  Proof.
    intros H1 H2. destruct (F6 _ _ _ H1 H2) as [[Hx [c [sub [H3 H4]]]]|[f [c [body [H3 [Hx H4]]]]]].
    - pose proof (F4 _ H3) as Hc. simpl in Hc. destruct Hc as [core [Hc _]]. rewrite H4, <- Hx in Hc. eexists. exact Hc.
    - pose proof (F4 _ H3) as Hc. simpl in Hc. rewrite <- Hx in Hc. eexists. exact Hc.
  Qed.

  Lemma has_fragment_conds tc l x : In (tc, l) conds -> In x l -> has_fragment all = true.
  Proof.
    intros H1 H2. unfold has_fragment. apply existsb_exists.
    destruct (F6 _ _ _ H1 H2) as [[Hx [c [sub [H3 H4]]]]|[f [c [body [H3 H4]]]]]; eexists; (split; [exact H3 | reflexivity]).
  Qed.

  (** the field holding __typename, when a switch is needed *)
  Lemma typename_field : (exists k, first_typename all = Some k) ->
    exists tg, In (nm (tk 0%N tnKey), tg, GString) fs.
  Proof.
    intros [k Hk]. unfold tnKey. rewrite Hk. destruct (first_typename_In _ _ Hk) as [a [f [sub [H1 [H2 H3]]]]].
    pose proof (F4 _ H1) as Hc. simpl in Hc. destruct Hc as [T [Hc Hft]].
    destruct Hft as [[_ HT]|[Hn _]]; [|congruence]. subst T. rewrite H3 in Hc.
    pose proof (entry_fs _ _ _ Hc) as Hf. simpl in Hf. eexists. exact Hf.
  Qed.

  Lemma steps_ok : forallb (step_ok fs) steps = true.
  Proof.
    apply forallb_forall. intros st Hst. unfold steps, mk_steps_f in Hst.
    apply in_flat_map in Hst as [[tc l] [H1 H2]].
    assert (Htarget : forall x, In x l -> match field_named fs (nm x) with Some _ => true | None => false end = true).
    { intros x Hx. destruct (cond_entry _ _ _ H1 Hx) as [T HT]. pose proof (entry_fs _ _ _ HT) as Hf.
      pose proof (field_named_nodup fs _ fs_names_nodup Hf) as Hn. rewrite mk_field_f_name in Hn. simpl in Hn. rewrite Hn. reflexivity. }
    destruct (is_known no_quirks S m d tc) eqn:Ek.
    - apply in_map_iff in H2 as [x [Ex Hx]]. subst st. simpl. apply Htarget. exact Hx.
    - apply in_map_iff in H2 as [x [Ex Hx]]. subst st. simpl.
      rewrite (Htarget x Hx), andb_true_r.
      (* not known: the enclosing type is not an object type, so __typename is selected *)
      assert (Htn : exists k, first_typename all = Some k).
      { destruct (E4 (has_fragment_conds _ _ _ H1 Hx)) as [Ho|Ho]; [|exact Ho]. exfalso.
        unfold is_object_type in Ho. rewrite E1 in Ho. destruct d as [on ifs fs0| | | |] eqn:Ed; try discriminate.
        rewrite (object_known S HS m on ifs fs0 tc E1 (cond_overlap _ _ _ H1 Hx)) in Ek. discriminate. }
      destruct (typename_field Htn) as [tg Hf].
      pose proof (field_named_nodup fs _ fs_names_nodup Hf) as Hn. simpl in Hn. unfold gf_name in Hn. simpl in Hn.
      rewrite Hn. simpl. apply nodupb_NoDup. apply ok_types_nodup. exact HS.
  Qed.

  Lemma final_wf_shape idx :
    (forall k T dash, In (k, (T, dash)) fields -> wf_shape T = true) ->
    wf_shape (match conds with [] => GStruct fs | _ :: _ => GSel m idx fs steps end) = true.
  Proof.
    intros Hw.
    assert (H1 : nodupb (map gf_name fs) = true) by (apply nodupb_NoDup; apply fs_names_nodup).
    assert (H2 : forallb (fun f : name * gotag * gotype => wf_shape (snd f)) fs = true).
    { apply forallb_forall. intros fld Hf. destruct (fs_entry _ Hf) as [k [T [dash [He Ef]]]]. subst fld. simpl. apply (Hw _ _ _ He). }
    case_eq conds; [intros _ | intros c0 cr _]; simpl; rewrite H1, H2; [reflexivity|]. simpl. apply steps_ok.
  Qed.

  Lemma final_refs (refs : gotype -> list name) (E : list name) idx :
    (forall fs0, refs (GStruct fs0) = flat_map (fun f : name * gotag * gotype => refs (snd f)) fs0) ->
    (forall a b fs0 st, refs (GSel a b fs0 st) = flat_map (fun f : name * gotag * gotype => refs (snd f)) fs0) ->
    (forall k T dash, In (k, (T, dash)) fields -> incl (refs T) E) ->
    incl (refs (match conds with [] => GStruct fs | _ :: _ => GSel m idx fs steps end)) E.
  Proof.
    intros R1 R2 Hr.
    assert (H : incl (flat_map (fun f : name * gotag * gotype => refs (snd f)) fs) E).
    { intros x Hx. apply in_flat_map in Hx as [fld [Hf Hx]]. destruct (fs_entry _ Hf) as [k [T [dash [He Ef]]]].
      subst fld. simpl in Hx. apply (Hr _ _ _ He). exact Hx. }
    case_eq conds; [intros _; rewrite R1 | intros c0 cr _; rewrite R2]; exact H.
  Qed.
End Final.
