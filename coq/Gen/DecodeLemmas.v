(** * Gen/DecodeLemmas.v — facts about the decoding model (C20): more fuel never changes a
    successful result; the leaves of structs and slices; what decoding a JSON object into a struct
    yields when keys and field names are distinct ignoring case. *)
From Coq Require Import List NArith ZArith Bool String Lia Permutation.
From ApiFu Require Import Base.Sexp Gen.GoTypes Gen.ClientGenModel Gen.DecodeModel Gen.ClientGenSpec Gen.ClientGenLemmas.
Import ListNotations.
Open Scope list_scope.
Open Scope nat_scope.

(** ** monotonicity in the fuel *)
Definition dec_le (d1 d2 : dec_t) : Prop := forall t j v, d1 t j = DOk v -> d2 t j = DOk v.

Lemma dbind_ok {A B} (r : dres A) (f : A -> dres B) b :
  dbind r f = DOk b -> exists a, r = DOk a /\ f a = DOk b.
Proof. destruct r; simpl; try discriminate. intros H. exists a. split; [reflexivity | exact H]. Qed.

Lemma dmap_mono {A B} (f g : A -> dres B) l ys :
  (forall x y, f x = DOk y -> g x = DOk y) -> dmap f l = DOk ys -> dmap g l = DOk ys.
Proof.
  intros Hfg. revert ys. induction l as [|x r IH]; simpl; intros ys H; [exact H|].
  apply dbind_ok in H as [y [Hy H]]. apply dbind_ok in H as [ys' [Hys H]].
  rewrite (Hfg _ _ Hy). simpl. rewrite (IH _ Hys). simpl. exact H.
Qed.

Section Mono.
  Variable P : program.

  Lemma decode_kvs_mono d1 d2 fs kvs written sv r :
    dec_le d1 d2 -> decode_kvs d1 fs kvs written sv = DOk r -> decode_kvs d2 fs kvs written sv = DOk r.
  Proof.
    intros Hle. revert written sv. induction kvs as [|[k v] rest IH]; simpl; intros written sv H; [exact H|].
    destruct (field_for_key fs k) as [i|]; [|apply IH; exact H].
    destruct (existsb (Nat.eqb i) written); [discriminate|].
    destruct (nth_error fs i) as [fld|]; [|discriminate].
    apply dbind_ok in H as [x [Hx H]]. rewrite (Hle _ _ _ Hx). simpl. apply IH. exact H.
  Qed.

  Lemma decode_struct_mono d1 d2 fs j r :
    dec_le d1 d2 -> decode_struct d1 fs j = DOk r -> decode_struct d2 fs j = DOk r.
  Proof.
    intros Hle. unfold decode_struct. destruct j; try (intros H; exact H).
    apply decode_kvs_mono. exact Hle.
  Qed.

  Lemma step_target_mono d1 d2 fs j fname sv r :
    dec_le d1 d2 -> step_target d1 fs j fname sv = DOk r -> step_target d2 fs j fname sv = DOk r.
  Proof.
    intros Hle. unfold step_target. destruct (find_index _ fs) as [i|]; [|intros H; exact H].
    destruct (nth_error fs i) as [fld|]; [|intros H; exact H].
    intros H. apply dbind_ok in H as [x [Hx H]]. rewrite (Hle _ _ _ Hx). simpl. exact H.
  Qed.

  Lemma run_steps_mono d1 d2 fs j base steps sv r :
    dec_le d1 d2 -> run_steps d1 fs j base steps sv = DOk r -> run_steps d2 fs j base steps sv = DOk r.
  Proof.
    intros Hle. revert sv. induction steps as [|st rest IH]; simpl; intros sv H; [exact H|].
    destruct st as [fname|tn oks fname].
    - apply dbind_ok in H as [x [Hx H]]. rewrite (step_target_mono _ _ _ _ _ _ _ Hle Hx). simpl. apply IH. exact H.
    - destruct (find_index _ fs) as [i|]; [|exact H].
      destruct (nth_error base i) as [[[? ?] [| | | |s| | | |]]|]; try exact H.
      destruct (mem s _).
      + apply dbind_ok in H as [x [Hx H]]. rewrite (step_target_mono _ _ _ _ _ _ _ Hle Hx). simpl. apply IH. exact H.
      + apply IH. exact H.
  Qed.

  Lemma decode_def_mono d1 d2 d j v :
    dec_le d1 d2 -> decode_def d1 d j = DOk v -> decode_def d2 d j = DOk v.
  Proof.
    intros Hle. unfold decode_def. destruct (td_type d); try (apply Hle).
    destruct (td_forward d); apply Hle.
  Qed.

  Lemma decode_body_mono d1 d2 : dec_le d1 d2 -> dec_le (decode_body P d1) (decode_body P d2).
  Proof.
    intros Hle t j v. unfold decode_body. destruct t; try (intros H; exact H).
    - (* GPtr *) destruct j; try (intros H; exact H);
        intros H; apply dbind_ok in H as [x [Hx H]]; rewrite (Hle _ _ _ Hx); simpl; exact H.
    - (* GSlice *) destruct j; try (intros H; exact H).
      intros H. apply dbind_ok in H as [x [Hx H]].
      rewrite (dmap_mono _ _ _ _ (Hle t) Hx). simpl. exact H.
    - (* GStruct *) intros H. apply dbind_ok in H as [x [Hx H]].
      rewrite (decode_struct_mono _ _ _ _ _ Hle Hx). simpl. exact H.
    - (* GSel *) intros H. apply dbind_ok in H as [x [Hx H]]. apply dbind_ok in H as [y [Hy H]].
      rewrite (decode_struct_mono _ _ _ _ _ Hle Hx). simpl.
      rewrite (run_steps_mono _ _ _ _ _ _ _ _ Hle Hy). simpl. exact H.
    - (* GFragRef *) destruct (lookup_def P (frag_type_name f)); [|intros H; exact H].
      apply decode_def_mono. exact Hle.
  Qed.

  Lemma decode_step_le f : dec_le (decode P f) (decode P (S f)).
  Proof.
    induction f as [|f IH].
    - intros t j v H. discriminate.
    - change (decode P (S (S f))) with (decode_body P (decode P (S f))).
      change (decode P (S f)) with (decode_body P (decode P f)) at 1.
      apply decode_body_mono. exact IH.
  Qed.

  Lemma decode_mono f f' : f <= f' -> dec_le (decode P f) (decode P f').
  Proof.
    induction 1 as [|f' Hle IH].
    - intros t j v H. exact H.
    - intros t j v H. apply decode_step_le. apply IH. exact H.
  Qed.
End Mono.

(** ** leaves of structs and slices *)
Definition field_leaves (e : name * gotag * goval) : list (path * leaf) :=
  let '(n, tg, x) := e in
  match tg with
  | TagDash | TagBoth _ => match x with VNil => [] | _ => prefix (PFrag (frag_label n)) (leaves x) end
  | TagKey k => prefix (PKey (lower_bytes k)) (leaves x)
  | TagNone => prefix (PKey (lower_bytes n)) (leaves x)
  end.

Lemma leaves_struct sv : leaves (VStruct sv) = flat_map field_leaves sv.
Proof.
  simpl. induction sv as [|[[n tg] x] r IH]; [reflexivity|].
  simpl. rewrite IH. reflexivity.
Qed.

Fixpoint idx_leaves (i : N) (l : list goval) : list (path * leaf) :=
  match l with
  | [] => []
  | x :: r => prefix (PIdx i) (leaves x) ++ idx_leaves (i + 1) r
  end.

Lemma leaves_slice x r : leaves (VSlice (x :: r)) = idx_leaves 0 (x :: r).
Proof.
  assert (H : forall l i,
             (fix go (i : N) (l : list goval) {struct l} : list (path * leaf) :=
                match l with
                | [] => []
                | x :: xs => prefix (PIdx i) (leaves x) ++ go (i + 1)%N xs
                end) i l = idx_leaves i l).
  { induction l as [|y ys IH]; intros i; [reflexivity|]. simpl. rewrite IH. reflexivity. }
  simpl. rewrite H. reflexivity.
Qed.

Lemma In_prefix s l p x : In (p, x) (prefix s l) <-> exists p', p = s :: p' /\ In (p', x) l.
Proof.
  unfold prefix. rewrite in_map_iff. split.
  - intros [[p' x'] [E H]]. simpl in E. inversion E; subst. exists p'. split; [reflexivity | exact H].
  - intros [p' [E H]]. subst. exists (p', x). split; [reflexivity | exact H].
Qed.

(** ** lists: positions *)
Lemma nth_error_set_nth {A} (l : list A) i j x :
  nth_error (set_nth i x l) j = if Nat.eqb j i then (match nth_error l i with Some _ => Some x | None => None end) else nth_error l j.
Proof.
  revert i j. induction l as [|y r IH]; intros i j.
  - simpl. destruct i, j; simpl; try reflexivity. destruct (Nat.eqb j i); reflexivity.
  - destruct i, j; simpl; try reflexivity. apply IH.
Qed.

Lemma length_set_nth {A} (l : list A) i x : List.length (set_nth i x l) = List.length l.
Proof. revert i. induction l as [|y r IH]; intros [|i]; simpl; try reflexivity. rewrite IH. reflexivity. Qed.

Lemma find_index_some {A} (p : A -> bool) l i :
  find_index p l = Some i -> exists x, nth_error l i = Some x /\ p x = true /\
                                       forall j y, j < i -> nth_error l j = Some y -> p y = false.
Proof.
  revert i. induction l as [|y r IH]; simpl; intros i; [discriminate|].
  destruct (p y) eqn:E.
  - intros H. inversion H; subst. exists y. split; [reflexivity|]. split; [exact E|]. intros j z Hj. lia.
  - destruct (find_index p r) as [i'|]; [|discriminate]. intros H. inversion H; subst.
    destruct (IH i' eq_refl) as [x [H1 [H2 H3]]]. exists x. split; [exact H1|]. split; [exact H2|].
    intros [|j] z Hj Hz; simpl in Hz; [inversion Hz; subst; exact E | apply (H3 j); [lia | exact Hz]].
Qed.

Lemma find_index_none {A} (p : A -> bool) l : find_index p l = None -> forall x, In x l -> p x = false.
Proof.
  induction l as [|y r IH]; simpl; [intros _ x []|].
  destruct (p y) eqn:E; [discriminate|]. destruct (find_index p r); [discriminate|].
  intros _ x [H|H]; [subst; exact E | apply IH; [reflexivity | exact H]].
Qed.

Lemma find_index_exists {A} (p : A -> bool) l x : In x l -> p x = true -> exists i, find_index p l = Some i.
Proof.
  intros HI Hp. destruct (find_index p l) eqn:E; [eexists; reflexivity|].
  rewrite (find_index_none _ _ E x HI) in Hp. discriminate.
Qed.

(** ** a JSON object into a struct *)
Section StructDecode.
  Variable dec : dec_t.
  Variable fs : list gofield.

  Definition lk (kv : bytes * json) : bytes := lower_bytes (fst kv).

  (** the JSON names of different fields differ by more than case *)
  Definition names_apart : Prop :=
    forall i j fi fj ni nj,
      nth_error fs i = Some fi -> nth_error fs j = Some fj ->
      json_name fi = Some ni -> json_name fj = Some nj -> lower_bytes ni = lower_bytes nj -> i = j.

  Lemma field_for_key_some k i :
    field_for_key fs k = Some i ->
    exists fld nm, nth_error fs i = Some fld /\ json_name fld = Some nm /\ lower_bytes nm = lower_bytes k.
  Proof.
    unfold field_for_key. destruct (find_index _ fs) as [i1|] eqn:E1.
    - intros H. inversion H; subst. apply find_index_some in E1 as [fld [H1 [H2 _]]].
      destruct (json_name fld) as [nm|] eqn:En; [|discriminate]. apply bytes_eqb_true in H2. subst.
      exists fld, k. repeat split; assumption.
    - intros E2. apply find_index_some in E2 as [fld [H1 [H2 _]]].
      destruct (json_name fld) as [nm|] eqn:En; [|discriminate]. apply equal_fold_eq in H2.
      exists fld, nm. repeat split; assumption.
  Qed.

  Lemma field_for_key_none k :
    field_for_key fs k = None ->
    forall fld nm, In fld fs -> json_name fld = Some nm -> lower_bytes nm <> lower_bytes k.
  Proof.
    unfold field_for_key. destruct (find_index _ fs) as [i1|] eqn:E1; [discriminate|].
    intros E2 fld nm HI Hn E. pose proof (find_index_none _ _ E2 fld HI) as H. simpl in H.
    rewrite Hn in H. apply equal_fold_eq in E. congruence.
  Qed.

  (** what position [i] holds after the pairs [seen] were processed *)
  Definition slot_ok (seen : list (bytes * json)) (fld : gofield) (e : name * gotag * goval) : Prop :=
    fst e = (gf_name fld, gf_tag fld) /\
    match json_name fld with
    | None => snd e = zero (gf_type fld)
    | Some nm =>
        (forall k v, In (k, v) seen -> lower_bytes nm = lower_bytes k -> dec (gf_type fld) v = DOk (snd e)) /\
        ((forall k v, In (k, v) seen -> lower_bytes nm <> lower_bytes k) -> snd e = zero (gf_type fld))
    end.

  Definition slots_ok (seen : list (bytes * json)) (sv : sval) : Prop :=
    List.length sv = List.length fs /\
    forall i fld, nth_error fs i = Some fld -> exists e, nth_error sv i = Some e /\ slot_ok seen fld e.

  Lemma slots_zero : slots_ok [] (zero_fields fs).
  Proof.
    split; [unfold zero_fields; apply map_length|].
    intros i fld H. unfold zero_fields. rewrite nth_error_map, H. simpl.
    eexists. split; [reflexivity|]. split; [reflexivity|].
    destruct (json_name fld); [|reflexivity]. split; [intros k v []| reflexivity].
  Qed.

  Lemma decode_kvs_spec kvs : forall seen written sv,
    NoDup (map lk (seen ++ kvs)) ->
    names_apart ->
    (forall fld nm k v, In fld fs -> json_name fld = Some nm -> In (k, v) kvs ->
                        lower_bytes nm = lower_bytes k -> exists x, dec (gf_type fld) v = DOk x) ->
    slots_ok seen sv ->
    (forall i, In i written -> exists fld nm k v, nth_error fs i = Some fld /\ json_name fld = Some nm /\
                                                  In (k, v) seen /\ lower_bytes nm = lower_bytes k) ->
    exists sv', decode_kvs dec fs kvs written sv = DOk sv' /\ slots_ok (seen ++ kvs) sv'.
  Proof.
    induction kvs as [|[k v] rest IH]; intros seen written sv ND NA Hdec Hs Hw.
    - simpl. exists sv. split; [reflexivity|]. rewrite app_nil_r. exact Hs.
    - simpl.
      assert (Eapp : seen ++ (k, v) :: rest = (seen ++ [(k, v)]) ++ rest) by (rewrite <- app_assoc; reflexivity).
      assert (Hk_fresh : forall k0 v0, In (k0, v0) seen -> lower_bytes k0 <> lower_bytes k).
      { intros k0 v0 H0 E. rewrite map_app in ND. simpl in ND. apply NoDup_remove_2 in ND.
        apply ND. apply in_app_iff. left. unfold lk at 1. simpl. rewrite <- E.
        change (lower_bytes k0) with (lk (k0, v0)). apply in_map. exact H0. }
      destruct (field_for_key fs k) as [i|] eqn:Ef.
      + destruct (field_for_key_some _ _ Ef) as [fld [nm [Hnth [Hn El]]]].
        assert (Hnw : existsb (Nat.eqb i) written = false).
        { destruct (existsb (Nat.eqb i) written) eqn:Ew; [|reflexivity]. exfalso.
          apply existsb_exists in Ew as [i' [Hi' Ei]]. apply Nat.eqb_eq in Ei. subst i'.
          destruct (Hw _ Hi') as [fld' [nm' [k0 [v0 [H1 [H2 [H3 H4]]]]]]].
          rewrite Hnth in H1. inversion H1; subst fld'. rewrite Hn in H2. inversion H2; subst nm'.
          apply (Hk_fresh _ _ H3). congruence. }
        rewrite Hnw, Hnth.
        assert (HIf : In fld fs) by (eapply nth_error_In; exact Hnth).
        destruct (Hdec fld nm k v HIf Hn (or_introl eq_refl) El) as [x Hx]. rewrite Hx. simpl.
        rewrite Eapp. apply IH.
        * rewrite <- Eapp. exact ND.
        * exact NA.
        * intros fld' nm' k' v' H1 H2 H3 H4. apply (Hdec fld' nm' k' v' H1 H2); [right; exact H3 | exact H4].
        * (* slots after writing position i *)
          destruct Hs as [Hlen Hs]. split; [unfold set_field; destruct (nth_error sv i) as [[[? ?] ?]|]; [rewrite length_set_nth|]; exact Hlen|].
          intros j fj Hj. destruct (Hs _ _ Hj) as [e [He [He1 He2]]].
          unfold set_field. destruct (Hs _ _ Hnth) as [ei [Hei [Hei1 Hei2]]]. rewrite Hei.
          destruct ei as [[n0 tg0] x0]. rewrite nth_error_set_nth. destruct (Nat.eqb j i) eqn:Eji.
          -- apply Nat.eqb_eq in Eji. subst j. rewrite Hj in Hnth. inversion Hnth; subst fj. rewrite Hei.
             eexists. split; [reflexivity|]. simpl in Hei1. split; [simpl; exact Hei1|]. rewrite Hn. simpl. split.
             ++ intros k' v' HI El'. apply in_app_iff in HI as [HI|[HI|[]]].
                ** exfalso. apply (Hk_fresh _ _ HI). congruence.
                ** inversion HI; subst. exact Hx.
             ++ intros Hno. exfalso. apply (Hno k v); [apply in_app_iff; right; left; reflexivity | exact El].
          -- exists e. split; [exact He|]. split; [exact He1|].
             destruct (json_name fj) as [nj|] eqn:Enj; [|exact He2]. destruct He2 as [Ha Hb]. split.
             ++ intros k' v' HI El'. apply in_app_iff in HI as [HI|[HI|[]]]; [apply (Ha _ _ HI El')|].
                inversion HI; subst. exfalso. apply Nat.eqb_neq in Eji. apply Eji.
                apply (NA j i fj fld nj nm Hj Hnth Enj Hn). congruence.
             ++ intros Hno. apply Hb. intros k' v' HI. apply (Hno k' v'). apply in_app_iff. left. exact HI.
        * intros j [Hj|Hj].
          -- subst j. exists fld, nm, k, v. repeat split; try assumption. apply in_app_iff. right. left. reflexivity.
          -- destruct (Hw _ Hj) as [fld' [nm' [k0 [v0 [H1 [H2 [H3 H4]]]]]]].
             exists fld', nm', k0, v0. repeat split; try assumption. apply in_app_iff. left. exact H3.
      + rewrite Eapp. apply IH.
        * rewrite <- Eapp. exact ND.
        * exact NA.
        * intros fld' nm' k' v' H1 H2 H3 H4. apply (Hdec fld' nm' k' v' H1 H2); [right; exact H3 | exact H4].
        * destruct Hs as [Hlen Hs]. split; [exact Hlen|].
          intros j fj Hj. destruct (Hs _ _ Hj) as [e [He [He1 He2]]]. exists e. split; [exact He|]. split; [exact He1|].
          destruct (json_name fj) as [nj|] eqn:Enj; [|exact He2]. destruct He2 as [Ha Hb]. split.
          -- intros k' v' HI El'. apply in_app_iff in HI as [HI|[HI|[]]]; [apply (Ha _ _ HI El')|].
             inversion HI; subst. exfalso.
             apply (field_for_key_none _ Ef fj nj); [eapply nth_error_In; exact Hj | exact Enj | exact El'].
          -- intros Hno. apply Hb. intros k' v' HI. apply (Hno k' v'). apply in_app_iff. left. exact HI.
        * intros j Hj. destruct (Hw _ Hj) as [fld' [nm' [k0 [v0 [H1 [H2 [H3 H4]]]]]]].
          exists fld', nm', k0, v0. repeat split; try assumption. apply in_app_iff. left. exact H3.
  Qed.

  Lemma decode_struct_obj kvs :
    NoDup (map lk kvs) ->
    names_apart ->
    (forall fld nm k v, In fld fs -> json_name fld = Some nm -> In (k, v) kvs ->
                        lower_bytes nm = lower_bytes k -> exists x, dec (gf_type fld) v = DOk x) ->
    exists sv, decode_struct dec fs (JObj kvs) = DOk sv /\ slots_ok kvs sv.
  Proof.
    intros ND NA Hdec. unfold decode_struct.
    destruct (decode_kvs_spec kvs [] [] (zero_fields fs) ND NA Hdec slots_zero) as [sv [H1 H2]].
    - intros i [].
    - exists sv. split; assumption.
  Qed.
End StructDecode.

(** ** the statement groups of a generated UnmarshalJSON *)
Lemma nodup_map_nth {A B} (f : A -> B) (l : list A) i j x y :
  NoDup (map f l) -> nth_error l i = Some x -> nth_error l j = Some y -> f x = f y -> i = j.
Proof.
  intros ND Hi Hj E.
  assert (H1 : nth_error (map f l) i = Some (f x)) by (rewrite nth_error_map, Hi; reflexivity).
  assert (H2 : nth_error (map f l) j = Some (f y)) by (rewrite nth_error_map, Hj; reflexivity).
  rewrite <- E in H2.
  assert (Li : i < List.length (map f l)) by (apply nth_error_Some; congruence).
  pose proof (proj1 (NoDup_nth_error (map f l)) ND i j Li) as H. apply H. congruence.
Qed.

Section Steps.
  Variable dec : dec_t.
  Variable fs : list gofield.
  Variable j : json.
  Variable base : sval.
  Hypothesis ND : NoDup (map gf_name fs).

  Definition by_name (n : name) : gofield -> bool := fun fld => bytes_eqb (gf_name fld) n.

  Lemma find_by_name i fld : nth_error fs i = Some fld -> find_index (by_name (gf_name fld)) fs = Some i.
  Proof.
    intros H. destruct (find_index_exists (by_name (gf_name fld)) fs fld) as [i0 E].
    - eapply nth_error_In; exact H.
    - unfold by_name. apply bytes_eqb_refl.
    - rewrite E. f_equal. apply find_index_some in E as [y [H1 [H2 _]]]. unfold by_name in H2.
      apply bytes_eqb_true in H2. apply (nodup_map_nth gf_name fs i0 i y fld ND H1 H H2).
  Qed.

  Definition step_target_name (st : ustep) : name := match st with UAlways f => f | USwitch _ _ f => f end.

  Definition step_fires (st : ustep) : bool :=
    match st with
    | UAlways _ => true
    | USwitch tn oks _ =>
        match find_index (by_name tn) fs with
        | Some i => match nth_error base i with
                    | Some (_, _, VStr s) => mem s (match oks with [] => [[]] | _ => oks end)
                    | _ => false
                    end
        | None => false
        end
    end.

  Definition step_wellformed (st : ustep) : Prop :=
    match st with
    | UAlways _ => True
    | USwitch tn _ _ => exists i n tg s, find_index (by_name tn) fs = Some i /\ nth_error base i = Some (n, tg, VStr s)
    end /\
    exists i fld, nth_error fs i = Some fld /\ gf_name fld = step_target_name st /\
                  (step_fires st = true -> exists x, dec (gf_type fld) j = DOk x).

  Definition aligned (sv : sval) : Prop :=
    List.length sv = List.length fs /\
    forall i fld, nth_error fs i = Some fld -> exists x, nth_error sv i = Some (gf_name fld, gf_tag fld, x).

  Definition fired (steps : list ustep) (n : name) : bool :=
    existsb (fun st => step_fires st && bytes_eqb (step_target_name st) n) steps.

  Lemma aligned_set i x sv : aligned sv -> aligned (set_field i x sv).
  Proof.
    intros [Hl Ha]. unfold set_field. destruct (nth_error sv i) as [[[n tg] y]|] eqn:E; [|split; assumption].
    split; [rewrite length_set_nth; exact Hl|].
    intros k fld Hk. destruct (Ha _ _ Hk) as [z Hz]. rewrite nth_error_set_nth, E.
    destruct (Nat.eqb k i) eqn:Eki.
    - apply Nat.eqb_eq in Eki. subst k. rewrite E in Hz. inversion Hz; subst. exists x. reflexivity.
    - exists z. exact Hz.
  Qed.

  Lemma set_field_at i x sv fld :
    aligned sv -> nth_error fs i = Some fld ->
    nth_error (set_field i x sv) i = Some (gf_name fld, gf_tag fld, x) /\
    forall k, k <> i -> nth_error (set_field i x sv) k = nth_error sv k.
  Proof.
    intros [Hl Ha] Hi. destruct (Ha _ _ Hi) as [z Hz]. unfold set_field. rewrite Hz. split.
    - rewrite nth_error_set_nth, Nat.eqb_refl, Hz. reflexivity.
    - intros k Hk. rewrite nth_error_set_nth. apply Nat.eqb_neq in Hk. rewrite Hk. reflexivity.
  Qed.

  Lemma run_steps_spec steps : forall sv,
    Forall step_wellformed steps -> aligned sv ->
    exists sv', run_steps dec fs j base steps sv = DOk sv' /\ aligned sv' /\
      forall i fld, nth_error fs i = Some fld ->
        (fired steps (gf_name fld) = true ->
           exists x, dec (gf_type fld) j = DOk x /\ nth_error sv' i = Some (gf_name fld, gf_tag fld, x)) /\
        (fired steps (gf_name fld) = false -> nth_error sv' i = nth_error sv i).
  Proof.
    induction steps as [|st rest IH]; intros sv Hwf Hal.
    - exists sv. split; [reflexivity|]. split; [exact Hal|]. intros i fld Hi. split; [discriminate | reflexivity].
    - inversion Hwf as [|? ? [Hsw [i0 [f0 [Hi0 [Hn0 Hdec0]]]]] Hwf']; subst.
      (* the effect of one firing step *)
      assert (Hfire : step_fires st = true ->
                      exists x, dec (gf_type f0) j = DOk x /\
                                step_target dec fs j (step_target_name st) sv = DOk (set_field i0 x sv)).
      { intros Hf. destruct (Hdec0 Hf) as [x Hx]. exists x. split; [exact Hx|].
        unfold step_target. rewrite <- Hn0. fold (by_name (gf_name f0)). rewrite (find_by_name _ _ Hi0), Hi0, Hx. reflexivity. }
      assert (Hstep : exists sv1, (forall r, run_steps dec fs j base (st :: rest) sv = r -> run_steps dec fs j base rest sv1 = r) /\
                                  aligned sv1 /\
                                  (step_fires st = true -> exists x, dec (gf_type f0) j = DOk x /\ sv1 = set_field i0 x sv) /\
                                  (step_fires st = false -> sv1 = sv)).
      { destruct (step_fires st) eqn:Ef.
        - destruct (Hfire eq_refl) as [x [Hx Ht]]. exists (set_field i0 x sv). split; [|split; [apply aligned_set; exact Hal | split; [intros _; exists x; split; [exact Hx | reflexivity] | discriminate]]].
          intros r Hr. rewrite <- Hr. destruct st as [fname|tn oks fname]; simpl in *.
          + rewrite Ht. reflexivity.
          + destruct Hsw as [i1 [n1 [tg1 [s1 [Hs1 Hs2]]]]]. fold (by_name tn). rewrite Hs1 in *. rewrite Hs2 in *.
            rewrite Ef. rewrite Ht. reflexivity.
        - exists sv. split; [|split; [exact Hal | split; [discriminate | reflexivity]]].
          intros r Hr. rewrite <- Hr. destruct st as [fname|tn oks fname]; simpl in *; [discriminate|].
          destruct Hsw as [i1 [n1 [tg1 [s1 [Hs1 Hs2]]]]]. fold (by_name tn). rewrite Hs1 in *. rewrite Hs2 in *.
          rewrite Ef. reflexivity. }
      destruct Hstep as [sv1 [Hrun [Hal1 [Hf1 Hf0]]]].
      destruct (IH sv1 Hwf' Hal1) as [sv' [Hr [Hal' Hres]]].
      exists sv'. split; [rewrite <- (Hrun _ eq_refl); exact Hr|]. clear Hrun.
      split; [exact Hal'|]. intros i fld Hi. destruct (Hres i fld Hi) as [Hyes Hno].
      unfold fired. simpl. fold (fired rest (gf_name fld)). split.
      + intros H. destruct (fired rest (gf_name fld)) eqn:Er; [apply Hyes; reflexivity|].
        rewrite orb_false_r in H. apply andb_true_iff in H as [Hf Ht]. apply bytes_eqb_true in Ht.
        destruct (Hf1 Hf) as [x [Hx Hsv1]]. subst sv1.
        assert (i = i0). { apply (nodup_map_nth gf_name fs i i0 fld f0 ND Hi Hi0). congruence. }
        subst i0. rewrite Hi in Hi0. inversion Hi0; subst f0. exists x. split; [exact Hx|].
        rewrite (Hno eq_refl). apply (set_field_at i x sv fld Hal Hi).
      + intros H. apply orb_false_iff in H as [H1 H2]. rewrite (Hno H2).
        destruct (step_fires st) eqn:Ef.
        * destruct (Hf1 eq_refl) as [x [Hx Hsv1]]. subst sv1. simpl in H1.
          apply (set_field_at i0 x sv f0 Hal Hi0). intro E. subst i0. rewrite Hi in Hi0. inversion Hi0; subst f0.
          rewrite Hn0, bytes_eqb_refl in H1. discriminate.
        * rewrite (Hf0 eq_refl). reflexivity.
  Qed.
End Steps.

(** ** pointers and slices around a core type *)
Lemma decode_S P f : decode P (S f) = decode_body P (decode P f).
Proof. reflexivity. Qed.

Definition leaves_eq (v : goval) (l : list (path * leaf)) : Prop := forall pl, In pl (leaves v) <-> In pl l.

(** [t] decodes [j] to a value whose leaves are [l], for all sufficiently large fuel *)
Definition decodes (P : program) (t : gotype) (j : json) (l : list (path * leaf)) : Prop :=
  exists k v, (forall fuel, k <= fuel -> decode P fuel t j = DOk v) /\ leaves_eq v l.

Lemma decodes_intro P t j l k v :
  decode P k t j = DOk v -> leaves_eq v l -> decodes P t j l.
Proof.
  intros H Hl. exists k, v. split; [|exact Hl]. intros fuel Hf. apply (decode_mono P k fuel Hf). exact H.
Qed.

Lemma idx_leaves_In i vs p x :
  In (p, x) (idx_leaves i vs) <-> exists n v p', nth_error vs n = Some v /\ p = PIdx (i + N.of_nat n) :: p' /\ In (p', x) (leaves v).
Proof.
  revert i. induction vs as [|v r IH]; intros i; simpl.
  - split; [intros [] | intros [n [v [p' [H _]]]]; destruct n; discriminate].
  - rewrite in_app_iff, In_prefix, IH. split.
    + intros [[p' [E H]]|[n [v' [p' [H1 [H2 H3]]]]]].
      * exists 0, v, p'. split; [reflexivity|]. split; [rewrite N.add_0_r; exact E | exact H].
      * exists (S n), v', p'. split; [exact H1|]. split; [|exact H3]. rewrite H2. f_equal. f_equal. lia.
    + intros [[|n] [v' [p' [H1 [H2 H3]]]]].
      * simpl in H1. inversion H1; subst v'. left. exists p'. split; [rewrite N.add_0_r in H2; exact H2 | exact H3].
      * right. exists n, v', p'. split; [exact H1|]. split; [|exact H3]. rewrite H2. f_equal. f_equal. lia.
Qed.

Lemma exp_list_In (f : rv -> list (path * leaf)) i l p x :
  In (p, x) (exp_list f i l) <-> exists n w p', nth_error l n = Some w /\ p = PIdx (i + N.of_nat n) :: p' /\ In (p', x) (f w).
Proof.
  revert i. induction l as [|w r IH]; intros i; simpl.
  - split; [intros [] | intros [n [w [p' [H _]]]]; destruct n; discriminate].
  - rewrite in_app_iff, In_prefix, IH. split.
    + intros [[p' [E H]]|[n [w' [p' [H1 [H2 H3]]]]]].
      * exists 0, w, p'. split; [reflexivity|]. split; [rewrite N.add_0_r; exact E | exact H].
      * exists (S n), w', p'. split; [exact H1|]. split; [|exact H3]. rewrite H2. f_equal. f_equal. lia.
    + intros [[|n] [w' [p' [H1 [H2 H3]]]]].
      * simpl in H1. inversion H1; subst w'. left. exists p'. split; [rewrite N.add_0_r in H2; exact H2 | exact H3].
      * right. exists n, w', p'. split; [exact H1|]. split; [|exact H3]. rewrite H2. f_equal. f_equal. lia.
Qed.

Lemma Forall2_nth_error_l {A B} (R : A -> B -> Prop) l l' :
  Forall2 R l l' -> forall n x, nth_error l n = Some x -> exists y, nth_error l' n = Some y /\ R x y.
Proof.
  induction 1 as [|a b l l' Hab H IH]; intros n x Hn; [destruct n; discriminate|].
  destruct n as [|n]; simpl in *.
  - inversion Hn; subst. exists b. split; [reflexivity | exact Hab].
  - apply IH. exact Hn.
Qed.

Lemma Forall2_nth_error_r {A B} (R : A -> B -> Prop) l l' :
  Forall2 R l l' -> forall n y, nth_error l' n = Some y -> exists x, nth_error l n = Some x /\ R x y.
Proof.
  induction 1 as [|a b l l' Hab H IH]; intros n y Hn; [destruct n; discriminate|].
  destruct n as [|n]; simpl in *.
  - inversion Hn; subst. exists a. split; [reflexivity | exact Hab].
  - apply IH. exact Hn.
Qed.

Section Wrap.
  Variable P : program.
  Variable core : gotype.
  Variable leafc : name -> leaf -> bool.
  Variable objc : name -> name -> list (bytes * rv) -> bool.
  Variable obje : name -> name -> list (bytes * rv) -> list (path * leaf).
  Variable n0 : name.   (* the named type at the bottom *)

  Hypothesis Hleaf : forall l, leafc n0 l = true ->
    json_of_leaf l <> JNull /\ decodes P core (json_of_leaf l) [([], l)].
  Hypothesis Hobj : forall tn fs, objc n0 tn fs = true ->
    decodes P core (json_of (RObj tn fs)) (obje n0 tn fs).

  Lemma decodes_ptr j l : j <> JNull -> decodes P core j l -> decodes P (GPtr core) j l.
  Proof.
    intros Hj [k [v [Hd Hl]]]. exists (S k), (VPtr v). split; [|exact Hl].
    intros [|fuel] Hf; [lia|]. rewrite decode_S. unfold decode_body.
    rewrite (Hd fuel) by lia. destruct j; try reflexivity. contradiction.
  Qed.

  Lemma decode_wrap ft : forall nn w,
    unwrap ft = n0 ->
    conf_val leafc objc ft nn w = true ->
    decodes P (wrap ft nn core true) (json_of w) (exp_val obje ft w).
  Proof.
    induction ft as [n|ft' IH|ft' IH]; intros nn w Hu Hc; simpl in Hc, Hu; simpl wrap.
    - (* named *)
      subst n. destruct w as [|l|l|tn fs]; simpl in *.
      + (* null *) destruct nn; [discriminate|]. simpl.
        apply (decodes_intro P _ _ _ 1 VNil); [reflexivity|]. intros pl. simpl. reflexivity.
      + destruct (Hleaf _ Hc) as [Hnn Hd]. destruct nn; simpl; [exact Hd | apply decodes_ptr; assumption].
      + discriminate.
      + pose proof (Hobj _ _ Hc) as Hd. destruct nn; simpl; [exact Hd | apply decodes_ptr; [discriminate | exact Hd]].
    - (* list *)
      destruct w as [|l|l|tn fs]; try discriminate.
      + destruct nn; [discriminate|]. simpl.
        apply (decodes_intro P _ _ _ 1 VNilSlice); [reflexivity|]. intros pl. simpl. reflexivity.
      + simpl json_of.
        assert (Hall : exists k vs, (forall fuel, k <= fuel ->
                                       dmap (decode P fuel (wrap ft' false core true)) (map json_of l) = DOk vs) /\
                                    Forall2 (fun x v => leaves_eq v (exp_val obje ft' x)) l vs).
        { clear nn. induction l as [|x r IHl].
          - exists 0, []. split; [intros; reflexivity | constructor].
          - simpl in Hc. apply andb_true_iff in Hc as [Hx Hr].
            destruct (IH false x Hu Hx) as [k1 [v [Hd Hl]]]. destruct (IHl Hr) as [k2 [vs [Hds Hls]]].
            exists (Nat.max k1 k2), (v :: vs). split; [|constructor; assumption].
            intros fuel Hf. simpl. rewrite (Hd fuel) by lia. simpl. rewrite (Hds fuel) by lia. reflexivity. }
        destruct Hall as [k [vs [Hd Hls]]].
        exists (S k), (VSlice vs). split.
        * intros [|fuel] Hf; [lia|]. rewrite decode_S. unfold decode_body. rewrite (Hd fuel) by lia. reflexivity.
        * intros [p x]. destruct l as [|w0 r].
          -- inversion Hls; subst. simpl. reflexivity.
          -- inversion Hls as [|? v0 ? vr H0 Hr]; subst. rewrite leaves_slice.
             change (exp_val obje (TList ft') (RList (w0 :: r))) with (exp_list (exp_val obje ft') 0 (w0 :: r)).
             rewrite idx_leaves_In, exp_list_In. split.
             ++ intros [n [v [p' [H1 [H2 H3]]]]].
                destruct (Forall2_nth_error_r _ _ _ Hls n v H1) as [w [Hw Hlw]].
                exists n, w, p'. split; [exact Hw|]. split; [exact H2|]. apply Hlw. exact H3.
             ++ intros [n [w [p' [H1 [H2 H3]]]]].
                destruct (Forall2_nth_error_l _ _ _ Hls n w H1) as [v [Hv Hlw]].
                exists n, v, p'. split; [exact Hv|]. split; [exact H2|]. apply Hlw. exact H3.
    - (* non-null *)
      apply IH; assumption.
  Qed.
End Wrap.
