(** * Gen/ClientGenNamesS.v — C20: the names [assign_names] gives the members of a struct satisfy the
    hypotheses of ClientGenFinalS.v / ClientGenDecodeS.v: they are pairwise distinct on the members
    ([gname_inj]) and extend [field_name] of the key by underscores only ([gname_ext]). *)
From Coq Require Import List NArith Bool String Lia Permutation.
From ApiFu Require Import Base.Sexp Gen.GoTypes Gen.ClientGenModel Gen.ClientGenSpec Gen.ClientGenLemmas
     Gen.ClientGenFresh Gen.ClientGenAgree Gen.ClientGenDecodeS.
Import ListNotations.
Open Scope list_scope.
Open Scope nat_scope.

Lemma all_us_app a b : ClientGenDecodeS.all_us a = true -> ClientGenDecodeS.all_us b = true -> ClientGenDecodeS.all_us (a ++ b) = true.
Proof. induction a as [|c r IH]; simpl; [trivial|]. intros H Hb. apply andb_true_iff in H as [H1 H2]. rewrite H1. simpl. apply IH; assumption. Qed.

Lemma fresh_ext fuel : forall taken n, exists us, fresh fuel taken n = n ++ us /\ ClientGenDecodeS.all_us us = true.
Proof.
  induction fuel as [|fuel IH]; intros taken n; simpl; [exists []; rewrite app_nil_r; split; reflexivity|].
  destruct (mem n taken); [|exists []; rewrite app_nil_r; split; reflexivity].
  destruct (IH taken (n ++ [95%N])) as [us [E H]]. exists ([95%N] ++ us). split; [rewrite E, <- app_assoc; reflexivity|].
  apply all_us_app; [reflexivity | exact H].
Qed.

Lemma assign_keys : forall keys taken acc, map fst (fst (assign keys taken acc)) = map fst acc ++ keys.
Proof.
  induction keys as [|k r IH]; intros taken acc; simpl; [rewrite app_nil_r; reflexivity|].
  rewrite IH, map_app. simpl. rewrite <- app_assoc. reflexivity.
Qed.

Lemma assign_ext : forall keys taken acc k n,
  In (k, n) (fst (assign keys taken acc)) ->
  In (k, n) acc \/ exists us, n = field_name (untk k) ++ us /\ ClientGenDecodeS.all_us us = true.
Proof.
  induction keys as [|k0 r IH]; intros taken acc k n H; cbn [assign] in H; [left; exact H|].
  destruct (IH _ _ _ _ H) as [Hi|Hi]; [|right; exact Hi].
  apply in_app_iff in Hi as [Hi|[Hi|[]]]; [left; exact Hi|]. inversion Hi; subst k n. right. exact (fresh_ext (Datatypes.S (List.length taken)) taken (field_name (untk k0))).
Qed.

Lemma gname_of names k n : NoDup (map fst names) -> In (k, n) names -> gname names k = n.
Proof.
  intros ND Hi. unfold gname. rewrite (In_assoc_nodup _ _ _ ND Hi). reflexivity.
Qed.

Section Names.
  Variable fields : list (name * (gotype * bool)).
  Hypothesis F1 : NoDup (map fst fields).
  Hypothesis Hkind : forall k T dash, In (k, (T, dash)) fields -> kind_of k = 0%N \/ kind_of k = 1%N \/ kind_of k = 2%N.

  Let names := assign_names fields.
  Let keys := map fst fields.
  Let L := class_keys 0%N keys ++ class_keys 1%N keys ++ class_keys 2%N keys.

  Lemma names_keys : map fst names = L.
  Proof. unfold names, assign_names. fold keys. fold L. rewrite assign_keys. reflexivity. Qed.

  Lemma L_nodup : NoDup L.
  Proof.
    unfold L. apply NoDup_app3; [apply class_keys_nodup; exact F1 | apply NoDup_app3; try (apply class_keys_nodup; exact F1)|].
    - intros x H1 H2. apply class_keys_In in H1 as [_ H1]. apply class_keys_In in H2 as [_ H2]. rewrite H1 in H2. discriminate.
    - intros x H1 H2. apply class_keys_In in H1 as [_ H1]. apply in_app_iff in H2 as [H2|H2]; apply class_keys_In in H2 as [_ H2]; rewrite H1 in H2; discriminate.
  Qed.

  Lemma key_in_names k T dash : In (k, (T, dash)) fields -> exists n, In (k, n) names.
  Proof.
    intros He. assert (Hk : In k L).
    { assert (Hik : In k keys) by (unfold keys; apply in_map_iff; exists (k, (T, dash)); split; [reflexivity | exact He]).
      unfold L. destruct (Hkind _ _ _ He) as [H|[H|H]].
      - apply in_app_iff. left. apply class_keys_In. split; assumption.
      - apply in_app_iff. right. apply in_app_iff. left. apply class_keys_In. split; assumption.
      - apply in_app_iff. right. apply in_app_iff. right. apply class_keys_In. split; assumption. }
    rewrite <- names_keys in Hk. apply in_map_iff in Hk as [[k' n] [E Hi]]. simpl in E. subst k'. exists n. exact Hi.
  Qed.

  Theorem gname_inj k1 T1 d1 k2 T2 d2 :
    In (k1, (T1, d1)) fields -> In (k2, (T2, d2)) fields -> gname names k1 = gname names k2 -> k1 = k2.
  Proof.
    intros H1 H2 E. destruct (key_in_names _ _ _ H1) as [n1 I1]. destruct (key_in_names _ _ _ H2) as [n2 I2].
    assert (ND : NoDup (map fst names)) by (rewrite names_keys; apply L_nodup).
    rewrite (gname_of names k1 n1 ND I1), (gname_of names k2 n2 ND I2) in E. subst n2.
    pose proof (assigned_field_names_distinct fields) as NS. fold names in NS.
    assert (Hp : (k1, n1) = (k2, n1)).
    { revert NS I1 I2. generalize names. clear. intros l. induction l as [|[a b] r IH]; simpl; [intros _ []|].
      intros ND [A|A] [B|B]; inversion ND as [|? ? Hn ND']; subst.
      - congruence.
      - inversion A; subst. exfalso. apply Hn. apply in_map_iff. exists (k2, n1). split; [reflexivity | exact B].
      - inversion B; subst. exfalso. apply Hn. apply in_map_iff. exists (k1, n1). split; [reflexivity | exact A].
      - apply IH; assumption. }
    inversion Hp. reflexivity.
  Qed.

  Theorem gname_ext k T dash : In (k, (T, dash)) fields ->
    exists us, gname names k = field_name (untk k) ++ us /\ ClientGenDecodeS.all_us us = true.
  Proof.
    intros He. destruct (key_in_names _ _ _ He) as [n Hi].
    assert (ND : NoDup (map fst names)) by (rewrite names_keys; apply L_nodup).
    rewrite (gname_of names k n ND Hi). unfold names, assign_names in Hi.
    destruct (assign_ext _ _ _ _ _ Hi) as [[]|H]. exact H.
  Qed.
End Names.
