(** * Gen/ClientGenFinal.v — C20: the struct (and UnmarshalJSON) the generator builds from the
    finished [fields] / [typeConditions] maps is well formed. *)
From Coq Require Import List NArith ZArith Bool String Lia Permutation.
From ApiFu Require Import Base.Sexp Gen.GoTypes Gen.ClientGenModel Gen.DecodeModel Gen.ClientGenSpec
     Gen.ClientGenLemmas Gen.DecodeLemmas Gen.ClientGenProofs Gen.ClientGenGood.
Import ListNotations.
Open Scope list_scope.
Open Scope nat_scope.

(** ** named types a Go type refers to *)
Fixpoint enum_refs (t : gotype) : list name :=
  match t with
  | GEnum n => [n]
  | GPtr t' => enum_refs t'
  | GSlice t' => enum_refs t'
  | GStruct fs => flat_map (fun f : name * gotag * gotype => enum_refs (snd f)) fs
  | GSel _ _ fs _ => flat_map (fun f : name * gotag * gotype => enum_refs (snd f)) fs
  | _ => []
  end.

Fixpoint frag_refs (t : gotype) : list name :=
  match t with
  | GFragRef f => [f]
  | GPtr t' => frag_refs t'
  | GSlice t' => frag_refs t'
  | GStruct fs => flat_map (fun f : name * gotag * gotype => frag_refs (snd f)) fs
  | GSel _ _ fs _ => flat_map (fun f : name * gotag * gotype => frag_refs (snd f)) fs
  | _ => []
  end.

Lemma wf_shape_wrap ft nn core : wf_shape (wrap ft nn core true) = wf_shape core.
Proof. revert nn. induction ft as [n|ft IH|ft IH]; intros nn; simpl; [destruct nn; reflexivity | apply IH | apply IH]. Qed.
Lemma enum_refs_wrap ft nn core : enum_refs (wrap ft nn core true) = enum_refs core.
Proof. revert nn. induction ft as [n|ft IH|ft IH]; intros nn; simpl; [destruct nn; reflexivity | apply IH | apply IH]. Qed.
Lemma frag_refs_wrap ft nn core : frag_refs (wrap ft nn core true) = frag_refs core.
Proof. revert nn. induction ft as [n|ft IH|ft IH]; intros nn; simpl; [destruct nn; reflexivity | apply IH | apply IH]. Qed.
Lemma syntax_ok_wrap ft nn core : type_syntax_ok (wrap ft nn core true) = type_syntax_ok core.
Proof. revert nn. induction ft as [n|ft IH|ft IH]; intros nn; simpl; [destruct nn; reflexivity | apply IH | apply IH]. Qed.

(** ** struct fields made from the [fields] map *)
Lemma mk_field_name e : gf_name (mk_field e) = field_name (fst e).
Proof. destruct e as [k [T dash]]. reflexivity. Qed.
Lemma mk_field_type e : gf_type (mk_field e) = fst (snd e).
Proof. destruct e as [k [T dash]]. reflexivity. Qed.

Lemma names_mk_fields fields : map gf_name (map mk_field fields) = map field_name (map fst fields).
Proof. rewrite !map_map. apply map_ext. intros e. apply mk_field_name. Qed.

Lemma In_fs fields fld : In fld (sort_fields (map mk_field fields)) <-> exists e, In e fields /\ fld = mk_field e.
Proof.
  rewrite In_sort_fields, in_map_iff. split; intros [e [H1 H2]]; exists e; split; auto.
Qed.

Lemma field_named_nodup fs fld : NoDup (map gf_name fs) -> In fld fs -> field_named fs (gf_name fld) = Some fld.
Proof.
  unfold field_named. induction fs as [|g r IH]; simpl; [intros _ []|].
  intros ND [H|H]; inversion ND as [|? ? Hn ND']; subst.
  - rewrite bytes_eqb_refl. reflexivity.
  - destruct (bytes_eqb (gf_name g) (gf_name fld)) eqn:E.
    + apply bytes_eqb_true in E. exfalso. apply Hn. rewrite E. apply in_map. exact H.
    + apply IH; assumption.
Qed.

Lemma first_typename_In sels k : first_typename sels = Some k ->
  exists a f sub, In (SField a f sub) sels /\ is_typename f = true /\ sel_key a f = k.
Proof.
  induction sels as [|s r IH]; simpl; [discriminate|]. destruct s as [a f sub|c sub|f c body].
  - destruct (is_typename f) eqn:E.
    + intros H. inversion H; subst. exists a, f, sub. split; [left; reflexivity|]. split; [exact E | reflexivity].
    + intros H. destruct (IH H) as [a' [f' [sub' [H1 H2]]]]. exists a', f', sub'. split; [right; exact H1 | exact H2].
  - intros H. destruct (IH H) as [a' [f' [sub' [H1 H2]]]]. exists a', f', sub'. split; [right; exact H1 | exact H2].
  - intros H. destruct (IH H) as [a' [f' [sub' [H1 H2]]]]. exists a', f', sub'. split; [right; exact H1 | exact H2].
Qed.

Lemma assoc_fragTypes frs f :
  assoc f (map (fun x => (fr_name x, fr_cond x)) frs) =
  match find_frag frs f with Some fr => Some (fr_cond fr) | None => None end.
Proof.
  unfold find_frag. induction frs as [|x r IH]; simpl; [reflexivity|].
  destruct (bytes_eqb (fr_name x) f); [reflexivity | exact IH].
Qed.

(** ** schema facts for the type switch *)
Section SchemaSwitch.
  Variable S : schema.
  Hypothesis HS : schema_ok S = true.

  Lemma implementations_nodup i : NoDup (implementations S i).
  Proof.
    unfold implementations. pose proof (schema_names_nodup S HS) as ND.
    induction (s_types S) as [|d r IH]; simpl; [constructor|].
    simpl in ND. inversion ND as [|? ? Hn ND']; subst.
    assert (Hsub : forall x, In x (flat_map (fun d0 => match d0 with DObj n ifs _ => if mem i ifs then [n] else [] | _ => [] end) r) ->
                             In x (map tdef_name r)).
    { clear. intros x H. apply in_flat_map in H as [d0 [H1 H2]]. apply in_map_iff. exists d0. split; [|exact H1].
      destruct d0 as [n ifs fs| | | |]; try (destruct H2). destruct (mem i ifs); [|destruct H2]. destruct H2 as [H2|[]]. exact H2. }
    destruct d as [n ifs fs| | | |]; simpl; try (apply IH; exact ND').
    destruct (mem i ifs); simpl; [|apply IH; exact ND'].
    constructor; [intro H; apply Hn; apply Hsub; exact H | apply IH; exact ND'].
  Qed.

  Lemma ok_types_nodup tc : NoDup (ok_types no_quirks S tc).
  Proof.
    unfold ok_types. destruct (lookup_type S tc) as [[n ifs fs|n fs|n ms|n vs|n]|] eqn:E; try constructor.
    - intros []. - constructor.
    - apply implementations_nodup.
    - simpl. apply find_some_name in E as [_ HI]. destruct (schema_ok_elim S HS) as [_ [_ [_ H4]]].
      specialize (H4 _ HI). simpl in H4. apply H4.
  Qed.

  (** for an object type, a type condition that can apply at all is known to apply *)
  Lemma object_known m on ifs fs0 tc :
    lookup_type S m = Some (DObj on ifs fs0) -> overlap S tc m = true ->
    is_known no_quirks S m (DObj on ifs fs0) tc = true.
  Proof.
    intros Hl Hov. destruct (find_some_name _ _ _ Hl) as [Hn HI]. simpl in Hn. subst on.
    unfold overlap in Hov. apply existsb_exists in Hov as [x [Hx Hm]].
    unfold possible in Hm at 1. rewrite Hl in Hm. apply mem_In in Hm. destruct Hm as [Hm|[]]. subst x.
    unfold is_known. apply orb_true_iff. unfold possible in Hx.
    destruct (lookup_type S tc) as [[n ifs' fs'|n fs'|n ms|n vs|n]|] eqn:E; try (exfalso; exact Hx).
    - destruct Hx as [Hx|[]]. subst n. left. destruct (find_some_name _ _ _ E) as [Hn _]. simpl in Hn. subst tc. apply bytes_eqb_refl.
    - right. apply orb_true_iff. left.
      unfold implementations in Hx. apply in_flat_map in Hx as [d0 [H1 H2]].
      destruct d0 as [n0 ifs0 fs1| | | |]; try (destruct H2). destruct (mem tc ifs0) eqn:Em; [|destruct H2].
      destruct H2 as [H2|[]]. subst n0.
      pose proof (lookup_In_unique S HS _ H1) as Hl2. simpl in Hl2. rewrite Hl in Hl2. inversion Hl2; subst. exact Em.
    - right. apply orb_true_iff. right. simpl. apply mem_In. exact Hx.
  Qed.

  (** for an object value of type [tn], the type switch fires exactly when [tn] is a possible
      type of the condition *)
  Lemma ok_types_mem tn tc : mem tn (ok_types no_quirks S tc) = subtype S tn tc.
  Proof.
    unfold ok_types, subtype.
    destruct (lookup_type S tc) as [[n ifs fs|n fs|n ms|n vs|n]|] eqn:E; simpl; try reflexivity.
    rewrite orb_false_r. reflexivity.
  Qed.

  Lemma ok_types_subtype tn tc : tn <> [] ->
    mem tn (match ok_types no_quirks S tc with [] => [[]] | _ :: _ => ok_types no_quirks S tc end) = subtype S tn tc.
  Proof.
    intros Hne. rewrite <- ok_types_mem. destruct (ok_types no_quirks S tc) eqn:E; [|reflexivity].
    simpl. rewrite orb_false_r. apply bytes_eqb_neq. exact Hne.
  Qed.

  Lemma known_subtype m d tn tc :
    lookup_type S m = Some d -> subtype S tn m = true -> is_known no_quirks S m d tc = true -> subtype S tn tc = true.
  Proof.
    intros Hl Hsub Hk. unfold is_known in Hk. apply orb_true_iff in Hk as [Hk|Hk].
    - apply bytes_eqb_true in Hk. subst tc. exact Hsub.
    - destruct d as [on ifs fs0| | | |]; try discriminate.
      destruct (find_some_name _ _ _ Hl) as [Hn HI]. simpl in Hn. subst on.
      unfold subtype in Hsub. rewrite Hl in Hsub. apply bytes_eqb_true in Hsub. subst tn.
      apply orb_true_iff in Hk as [Hk|Hk].
      + apply mem_In in Hk. destruct (schema_ok_elim S HS) as [_ [_ [_ H4]]]. specialize (H4 _ HI). simpl in H4.
        destruct H4 as [_ H4]. destruct (H4 _ Hk) as [fsi Hli]. unfold subtype. rewrite Hli.
        apply mem_In. unfold implementations. apply in_flat_map. exists (DObj m ifs fs0). split; [exact HI|].
        apply mem_In in Hk. rewrite Hk. left. reflexivity.
      + simpl in Hk. unfold subtype. destruct (lookup_type S tc) as [[| |n ms| |]|]; try discriminate. exact Hk.
  Qed.
End SchemaSwitch.

(** ** the finished maps *)
Section Final.
  Variable S : schema.
  Variable frs : list fragdef.
  Hypothesis HS : schema_ok S = true.
  Variable Good : name -> list selection -> gotype -> Prop.
  Variable m : name.
  Variable d : typedef.
  Variable all : list selection.
  Variable fields : list (name * (gotype * bool)).
  Variable conds : list (name * list name).

  Hypothesis F1 : NoDup (map fst fields).
  Hypothesis F3 : forall k T dash, In (k, (T, dash)) fields -> entry_src S Good m all all k T dash.
  Hypothesis F4 : forall s, In s all -> entry_cov S Good m all fields s.
  Hypothesis F5 : forall s, In s all -> cond_cov frs m conds s.
  Hypothesis F6 : forall tc l x, In (tc, l) conds -> In x l -> cond_src frs m all tc x.
  Hypothesis E1 : lookup_type S m = Some d.
  Hypothesis E2 : members_distinct m all = true.
  Hypothesis E3 : forall s, In s all -> sel_local S frs m s = true.
  Hypothesis E4 : has_fragment all = true -> is_object_type S m = true \/ exists k, first_typename all = Some k.

  Let fs := sort_fields (map mk_field fields).
  Let tnKey := match first_typename all with Some k => k | None => typename_name end.
  Let steps := mk_steps no_quirks S m d tnKey conds.

  Lemma keys_are_members k T dash : In (k, (T, dash)) fields -> In k (member_keys m all).
  Proof.
    intros H. destruct (F3 _ _ _ H) as [[_ [a [f [sub [H1 [H2 _]]]]]]|[[_ [c [sub [H1 [H2 _]]]]]|[_ [c [body [H1 _]]]]]].
    - subst k. apply (member_keys_In m all (SField a f sub) H1).
    - subst k. apply (member_keys_In m all (SInline c sub) H1).
    - apply (member_keys_In m all (SSpread k c body) H1).
  Qed.

  Lemma fs_names_nodup : NoDup (map gf_name fs).
  Proof.
    unfold fs. apply NoDup_names_sort. rewrite names_mk_fields.
    apply (NoDup_map_inj_on field_name (map fst fields) (member_keys m all)).
    - exact F1.
    - intros k Hk. apply in_map_iff in Hk as [[k' [T dash]] [Ek H]]. simpl in Ek. subst k'. apply (keys_are_members _ _ _ H).
    - apply nodupb_NoDup. exact E2.
  Qed.

  (** distinct keys give distinct Go names *)
  Lemma field_name_inj k1 T1 d1 k2 T2 d2 :
    In (k1, (T1, d1)) fields -> In (k2, (T2, d2)) fields -> field_name k1 = field_name k2 -> k1 = k2.
  Proof.
    intros H1 H2 E. pose proof (keys_are_members _ _ _ H1) as M1. pose proof (keys_are_members _ _ _ H2) as M2.
    unfold members_distinct in E2. apply nodupb_NoDup in E2.
    revert M1 M2 E E2. generalize (member_keys m all). clear. intros l.
    induction l as [|z r IH]; simpl; [intros []|].
    intros [A|A] [B|B] E ND; inversion ND as [|? ? Hn ND']; subst.
    - reflexivity.
    - exfalso. apply Hn. rewrite E. apply in_map. exact B.
    - exfalso. apply Hn. rewrite <- E. apply in_map. exact A.
    - apply IH; assumption.
  Qed.

  (** the entry a struct field comes from *)
  Lemma fs_entry fld : In fld fs -> exists k T dash, In (k, (T, dash)) fields /\ fld = mk_field (k, (T, dash)).
  Proof. intros H. apply In_fs in H as [[k [T dash]] [H1 H2]]. exists k, T, dash. split; assumption. Qed.

  Lemma entry_fs k T dash : In (k, (T, dash)) fields -> In (mk_field (k, (T, dash))) fs.
  Proof. intros H. apply In_fs. exists (k, (T, dash)). split; [exact H | reflexivity]. Qed.

  Lemma entry_unique k T1 d1 T2 d2 : In (k, (T1, d1)) fields -> In (k, (T2, d2)) fields -> T1 = T2 /\ d1 = d2.
  Proof.
    intros H1 H2. pose proof (In_assoc_nodup _ _ _ F1 H1) as A1. pose proof (In_assoc_nodup _ _ _ F1 H2) as A2.
    rewrite A1 in A2. inversion A2. split; reflexivity.
  Qed.

  (** the type condition of each fragment of the selection set, and that it can apply here *)
  Lemma cond_overlap tc l x : In (tc, l) conds -> In x l -> overlap S tc m = true.
  Proof.
    intros H1 H2. destruct (F6 _ _ _ H1 H2) as [[Hx [c [sub [H3 H4]]]]|[c [body [H3 H4]]]].
    - pose proof (E3 _ H3) as Hl. simpl in Hl. apply andb_true_iff in Hl as [_ Hl]. rewrite H4 in Hl. exact Hl.
    - pose proof (E3 _ H3) as Hl. simpl in Hl. apply andb_true_iff in Hl as [Hl Hf]. apply andb_true_iff in Hl as [_ Hl].
      destruct (find_frag frs x) as [fr|] eqn:Ef; [|discriminate]. apply andb_true_iff in Hf as [Hf _].
      apply bytes_eqb_true in Hf. subst tc. unfold frag_cond. rewrite assoc_fragTypes, Ef, Hf. exact Hl.
  Qed.

  (** a name listed under a type condition is the key of a [json:"-"] entry *)
  Lemma cond_entry tc l x : In (tc, l) conds -> In x l -> exists T, In (x, (T, true)) fields.
  Proof.
    intros H1 H2. destruct (F6 _ _ _ H1 H2) as [[Hx [c [sub [H3 H4]]]]|[c [body [H3 H4]]]].
    - pose proof (F4 _ H3) as Hc. simpl in Hc. destruct Hc as [core [Hc _]]. rewrite H4, <- Hx in Hc. eexists. exact Hc.
    - pose proof (F4 _ H3) as Hc. simpl in Hc. eexists. exact Hc.
  Qed.

  Lemma has_fragment_conds tc l x : In (tc, l) conds -> In x l -> has_fragment all = true.
  Proof.
    intros H1 H2. unfold has_fragment. apply existsb_exists.
    destruct (F6 _ _ _ H1 H2) as [[Hx [c [sub [H3 H4]]]]|[c [body [H3 H4]]]]; eexists; (split; [exact H3 | reflexivity]).
  Qed.

  (** the field holding __typename, when a switch is needed *)
  Lemma typename_field : (exists k, first_typename all = Some k) ->
    exists tg, In (field_name tnKey, tg, GString) fs.
  Proof.
    intros [k Hk]. unfold tnKey. rewrite Hk. destruct (first_typename_In _ _ Hk) as [a [f [sub [H1 [H2 H3]]]]].
    pose proof (F4 _ H1) as Hc. simpl in Hc. destruct Hc as [T [Hc Hft]].
    destruct Hft as [[_ HT]|[Hn _]]; [|congruence]. subst T. rewrite H3 in Hc.
    pose proof (entry_fs _ _ _ Hc) as Hf. simpl in Hf. eexists. exact Hf.
  Qed.

  Lemma steps_ok : forallb (step_ok fs) steps = true.
  Proof.
    apply forallb_forall. intros st Hst. unfold steps, mk_steps in Hst.
    apply in_flat_map in Hst as [[tc l] [H1 H2]].
    assert (Htarget : forall x, In x l -> match field_named fs (field_name x) with Some _ => true | None => false end = true).
    { intros x Hx. destruct (cond_entry _ _ _ H1 Hx) as [T HT]. pose proof (entry_fs _ _ _ HT) as Hf.
      pose proof (field_named_nodup fs _ fs_names_nodup Hf) as Hn. rewrite mk_field_name in Hn. simpl in Hn. rewrite Hn. reflexivity. }
    destruct (is_known no_quirks S m d tc) eqn:Ek.
    - apply in_map_iff in H2 as [x [Ex Hx]]. subst st. simpl. apply Htarget. exact Hx.
    - apply in_map_iff in H2 as [x [Ex Hx]]. subst st. simpl.
      rewrite (Htarget x Hx), andb_true_r.
      (* not known: the enclosing type is not an object type, so __typename is selected *)
      assert (Htn : exists k, first_typename all = Some k).
      { destruct (E4 (has_fragment_conds _ _ _ H1 Hx)) as [Ho|Ho]; [|exact Ho]. exfalso.
        unfold is_object_type in Ho. rewrite E1 in Ho. destruct d as [on ifs fs0| | | |] eqn:Ed; try discriminate.
        rewrite (object_known S HS m on ifs fs0 tc E1 (cond_overlap _ _ _ H1 Hx)) in Ek. discriminate. }
      destruct (typename_field Htn) as [tg Hf].
      pose proof (field_named_nodup fs _ fs_names_nodup Hf) as Hn. simpl in Hn. unfold gf_name in Hn. simpl in Hn.
      rewrite Hn. simpl. apply nodupb_NoDup. apply ok_types_nodup. exact HS.
  Qed.

  Lemma final_wf_shape idx :
    (forall k T dash, In (k, (T, dash)) fields -> wf_shape T = true) ->
    wf_shape (match conds with [] => GStruct fs | _ :: _ => GSel m idx fs steps end) = true.
  Proof.
    intros Hw.
    assert (H1 : nodupb (map gf_name fs) = true) by (apply nodupb_NoDup; apply fs_names_nodup).
    assert (H2 : forallb (fun f : name * gotag * gotype => wf_shape (snd f)) fs = true).
    { apply forallb_forall. intros fld Hf. destruct (fs_entry _ Hf) as [k [T [dash [He Ef]]]]. subst fld. simpl. apply (Hw _ _ _ He). }
    case_eq conds; [intros _ | intros c0 cr _]; simpl; rewrite H1, H2; [reflexivity|]. simpl. apply steps_ok.
  Qed.

  Lemma final_refs (refs : gotype -> list name) (E : list name) idx :
    (forall fs0, refs (GStruct fs0) = flat_map (fun f : name * gotag * gotype => refs (snd f)) fs0) ->
    (forall a b fs0 st, refs (GSel a b fs0 st) = flat_map (fun f : name * gotag * gotype => refs (snd f)) fs0) ->
    (forall k T dash, In (k, (T, dash)) fields -> incl (refs T) E) ->
    incl (refs (match conds with [] => GStruct fs | _ :: _ => GSel m idx fs steps end)) E.
  Proof.
    intros R1 R2 Hr.
    assert (H : incl (flat_map (fun f : name * gotag * gotype => refs (snd f)) fs) E).
    { intros x Hx. apply in_flat_map in Hx as [fld [Hf Hx]]. destruct (fs_entry _ Hf) as [k [T [dash [He Ef]]]].
      subst fld. simpl in Hx. apply (Hr _ _ _ He). exact Hx. }
    case_eq conds; [intros _; rewrite R1 | intros c0 cr _; rewrite R2]; exact H.
  Qed.
End Final.
