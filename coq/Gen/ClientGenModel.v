(** * Gen/ClientGenModel.v — transcription of cmd/gql-client-gen/main.go (C20)

    [generateType] / [generateTypeDef] / [processQuery] / [Generate], producing the abstract Go
    declarations of [GoTypes.v] instead of source text.  The code modelled is the repaired tree
    (fix: commits for DESIGN.md section 6 rows 27, 28, 29, for union type conditions and for
    response keys selected more than once); the
    behaviour before each repair is kept behind the flags of [quirks] so that the defects remain
    available as refutation witnesses.

    Deviations of form (not of behaviour), each checked by the correspondence run:
    - [generateType] recurses through NonNull/List wrappers down to one named type and wraps the
      result on the way back; here [gen_named] produces the core type and [wrap] adds pointers
      and slices ("*" exactly when the Go code reaches the named type with nonNull = false).
    - The text of a [sel..] type and of its UnmarshalJSON is appended to [s.output] and the type
      is then referred to by name; here the reference [GSel] carries that declaration with it.
    - Go map iteration order ([fields], [typeConditions], enum values): [fields] is sorted by
      the generator itself; the order of the UnmarshalJSON statement groups and of the enum
      constants is the insertion order here (no observable of the property depends on it).
    - [doc.Definitions] is taken as: all operations, then all fragment definitions (the order in
      which the harness writes them); it only influences the numbering of [sel..] types.
    No proofs in this file. *)
From Coq Require Import List NArith ZArith Bool String.
From ApiFu Require Import Base.Sexp Gen.GoTypes.
Import ListNotations.
Open Scope list_scope.
Open Scope N_scope.

(** ** Schema (what LoadSchema yields for schemas built from built-in scalars, enums, objects,
    interfaces and unions; custom scalars are kept so that the generator's branch for them can be
    transcribed) *)
Inductive gqltype := TNamed (n : name) | TList (t : gqltype) | TNonNull (t : gqltype).

Fixpoint unwrap (t : gqltype) : name :=
  match t with
  | TNamed n => n
  | TList t' => unwrap t'
  | TNonNull t' => unwrap t'
  end.

Inductive typedef :=
| DObj (n : name) (ifaces : list name) (fields : list (name * gqltype))
| DIface (n : name) (fields : list (name * gqltype))
| DUnion (n : name) (members : list name)
| DEnum (n : name) (values : list name)
| DScalar (n : name).

Definition tdef_name (d : typedef) : name :=
  match d with
  | DObj n _ _ => n | DIface n _ => n | DUnion n _ => n | DEnum n _ => n | DScalar n => n
  end.

Record schema := { s_query : name; s_mutation : option name; s_types : list typedef }.

Inductive builtin := BInt | BFloat | BString | BBoolean | BID.

Definition builtin_of (n : name) : option builtin :=
  if bytes_eqb n (bs "Int") then Some BInt
  else if bytes_eqb n (bs "Float") then Some BFloat
  else if bytes_eqb n (bs "String") then Some BString
  else if bytes_eqb n (bs "Boolean") then Some BBoolean
  else if bytes_eqb n (bs "ID") then Some BID
  else None.

Definition go_of_builtin (b : builtin) : gotype :=
  match b with
  | BInt => GInt | BFloat => GFloat | BString => GString | BBoolean => GBool | BID => GString
  end.

Definition lookup_type (S : schema) (n : name) : option typedef :=
  find (fun d => bytes_eqb (tdef_name d) n) (s_types S).

Fixpoint assoc {A} (k : name) (l : list (name * A)) : option A :=
  match l with
  | [] => None
  | (k', v) :: r => if bytes_eqb k' k then Some v else assoc k r
  end.

(** ** Documents *)
Inductive selection :=
| SField (alias : option name) (fname : name) (sels : list selection)
| SInline (cond : option name) (sels : list selection)
| SSpread (frag : name) (cond : name) (body : list selection).
    (* [cond] and [body] repeat the definition of fragment [frag] (filled in by [link], checked by
       [linked] in the Spec); the generator model never looks at them *)

Inductive optype := OpQuery | OpMutation.
Record opdef := { op_type : optype; op_name : option name; op_sels : list selection }.
Record fragdef := { fr_name : name; fr_cond : name; fr_sels : list selection }.
Record document := { d_ops : list opdef; d_frags : list fragdef }.

Definition typename_name : name := bs "__typename".
Definition is_typename (f : name) : bool := bytes_eqb f typename_name.

Definition sel_key (alias : option name) (fname : name) : name :=
  match alias with Some a => a | None => fname end.

Fixpoint sel_size (s : selection) : nat :=
  match s with
  | SField _ _ sub => S ((fix go (l : list selection) : nat := match l with [] => O | x :: r => (sel_size x + go r)%nat end) sub)
  | SInline _ sub => S ((fix go (l : list selection) : nat := match l with [] => O | x :: r => (sel_size x + go r)%nat end) sub)
  | SSpread _ _ body => S ((fix go (l : list selection) : nat := match l with [] => O | x :: r => (sel_size x + go r)%nat end) body)
  end.

Fixpoint sels_size (l : list selection) : nat :=
  match l with
  | [] => O
  | x :: r => (sel_size x + sels_size r)%nat
  end.

(** ** Identifier derivation *)

(** [strings.Title] on a GraphQL name: the first byte is upper-cased (no separators occur) *)
Definition title (s : bytes) : bytes :=
  match s with
  | [] => []
  | c :: r => upper c :: r
  end.

(** [fieldName]: a leading "__" is moved to the end, then Title *)
Definition field_name (n : name) : name :=
  title (match n with
         | a :: b :: rest => if (a =? 95) && (b =? 95) then rest ++ [95; 95] else n
         | _ => n
         end).

(** [strings.Split(k, "_")] *)
Fixpoint split_us (s : bytes) (cur : bytes) : list bytes :=
  match s with
  | [] => [rev cur]
  | c :: r => if c =? 95 then rev cur :: split_us r [] else split_us r (c :: cur)
  end.

(** the constant declared for enum value [v] of enum [e] *)
Definition enum_const (e v : name) : name :=
  e ++ List.concat (map (fun p => title (lower_bytes p)) (split_us v [])).

(** ** Outcomes and generator state *)
Inductive outcome (A : Type) :=
| Ok (a : A)
| Err          (* the generator returns an error *)
| Panic        (* a Go panic (nil dereference) *)
| OutOfFuel.
Arguments Ok {A} a.
Arguments Err {A}.
Arguments Panic {A}.
Arguments OutOfFuel {A}.

Record gstate := {
  g_enums : list (name * list (name * name));   (* outputEnums together with the emitted blocks *)
  g_count : N;                                   (* outputStructCount *)
  g_json : bool                                  (* requiresJSONImport *)
}.

Definition emit_enum (n : name) (vs : list name) (st : gstate) : gstate :=
  match assoc n (g_enums st) with
  | Some _ => st
  | None => {| g_enums := g_enums st ++ [(n, map (fun v => (enum_const n v, v)) vs)];
               g_count := g_count st; g_json := g_json st |}
  end.

(** ** Go maps as association lists (first-insertion order, assignment overwrites) *)
Fixpoint aset {A} (k : name) (v : A) (m : list (name * A)) : list (name * A) :=
  match m with
  | [] => [(k, v)]
  | (k', v') :: r => if bytes_eqb k' k then (k', v) :: r else (k', v') :: aset k v r
  end.

(** [m[k] = append(m[k], x)] *)
Fixpoint aappend (k : name) (x : name) (m : list (name * list name)) : list (name * list name) :=
  match m with
  | [] => [(k, [x])]
  | (k', l) :: r => if bytes_eqb k' k then (k', l ++ [x]) :: r else (k', l) :: aappend k x r
  end.

(** insertion sort of the struct fields by Go name ([sort.Strings(parts)]; every part starts with
    the field name followed by a space, which sorts before every identifier byte) *)
Fixpoint insert_field (f : gofield) (l : list gofield) : list gofield :=
  match l with
  | [] => [f]
  | g :: r => if bytes_leb (gf_name f) (gf_name g) then f :: g :: r else g :: insert_field f r
  end.
Definition sort_fields (l : list gofield) : list gofield := fold_right insert_field [] l.

(** behaviour before the repairs (all [false] = the current code) *)
Record quirks := {
  q_overwrite_inline : bool;    (* row 27: every inline fragment generated on its own, last one wins *)
  q_fixed_typename : bool;      (* row 28: the switch always reads base.Typename__ *)
  q_nil_cond_panics : bool;     (* row 29: inline fragment without type condition dereferences nil *)
  q_no_union_cond : bool;       (* union type conditions: never known, never expanded *)
  q_no_field_merge : bool       (* a response key selected more than once: every selection generated on its own, last one wins *)
}.
Definition no_quirks : quirks :=
  {| q_overwrite_inline := false; q_fixed_typename := false; q_nil_cond_panics := false; q_no_union_cond := false;
     q_no_field_merge := false |}.

Section Gen.
  Variable Q : quirks.
  Variable S : schema.
  Variable fragTypes : list (name * name).

  (** pointers and slices around the Go type of the named type at the bottom of [t]:
      "*" exactly when [generateType] reaches the named type with nonNull = false (and the
      named type is one of the kinds that get a "*" at all) *)
  Fixpoint wrap (t : gqltype) (nonNull : bool) (core : gotype) (ptrable : bool) : gotype :=
    match t with
    | TNonNull t' => wrap t' true core ptrable
    | TList t' => GSlice (wrap t' false core ptrable)
    | TNamed _ => if nonNull || negb ptrable then core else GPtr core
    end.

  (** [generateType] of a named type: core Go type, whether it takes a "*" when nullable *)
  Definition rec_t : Type := name -> list selection -> gstate -> outcome (gotype * bool * gstate).

  Definition gen_type (rec : rec_t) (ft : gqltype) (sels : list selection) (st : gstate)
    : outcome (gotype * gstate) :=
    match rec (unwrap ft) sels st with
    | Ok (core, ptrable, st') => Ok (wrap ft false core ptrable, st')
    | Err => Err
    | Panic => Panic
    | OutOfFuel => OutOfFuel
    end.

  Definition is_object (d : typedef) : bool := match d with DObj _ _ _ => true | _ => false end.

  (** the first [__typename] field of the selection set: found?, its response key *)
  Fixpoint first_typename (sels : list selection) : option name :=
    match sels with
    | [] => None
    | SField a f _ :: r => if is_typename f then Some (sel_key a f) else first_typename r
    | _ :: r => first_typename r
    end.

  (** [inlineFragmentType]: the enclosing type when there is no type condition *)
  Definition inline_cond (tName : name) (c : option name) : name :=
    match c with Some c' => c' | None => tName end.

  (** selections of all inline fragments of [all] whose type is [cond] *)
  Definition merged_inline (tName : name) (cond : name) (all : list selection) : list selection :=
    flat_map (fun o => match o with
                       | SInline c sub => if bytes_eqb (inline_cond tName c) cond then sub else []
                       | _ => []
                       end) all.

  (** sub-selections of all field selections of [all] whose response key is [k] *)
  Definition merged_field (k : name) (all : list selection) : list selection :=
    flat_map (fun o => match o with
                       | SField a f sub => if bytes_eqb (sel_key a f) k then sub else []
                       | _ => []
                       end) all.

  (** loop state: [fields], [typeConditions], [inlineFragmentTypes], [fieldKeys], generator state *)
  Definition acc : Type :=
    (list (name * (gotype * bool)) * list (name * list name) * list name * list name * gstate)%type.

  Definition named_exists (n : name) : bool :=
    match builtin_of n with
    | Some _ => true
    | None => match lookup_type S n with Some _ => true | None => false end
    end.

  Definition step (rec : rec_t) (tName : name) (d : typedef) (hasTn : bool) (all : list selection)
             (sel : selection) (a : acc) : outcome acc :=
    let '(fields, conds, done, fdone, st) := a in
    match sel with
    | SSpread f _ _ =>
        if negb hasTn && negb (is_object d) then Err
        else
          let tc := match assoc f fragTypes with Some c => c | None => [] end in
          Ok (aset f (GPtr (GFragRef f), true) fields, aappend tc f conds, done, fdone, st)
    | SInline c sub =>
        if negb hasTn && negb (is_object d) then Err
        else if match c with
                | None => q_nil_cond_panics Q                 (* sel.TypeCondition.Name on nil *)
                | Some c' => negb (named_exists c')            (* cond.TypeName() on a nil interface *)
                end then Panic
        else
          let cond := inline_cond tName c in
          if negb (q_overwrite_inline Q) && mem cond done then Ok a
          else
            let merged := if q_overwrite_inline Q then sub else merged_inline tName cond all in
            match gen_type rec (TNamed cond) merged st with
            | Ok (g, st') => Ok (aset cond (g, true) fields, aappend cond cond conds, cond :: done, fdone, st')
            | Err => Err | Panic => Panic | OutOfFuel => OutOfFuel
            end
    | SField al f sub =>
        let k := sel_key al f in
        if negb (q_no_field_merge Q) && mem k fdone then Ok a     (* generated with the first selection of this key *)
        else
        let merged := if q_no_field_merge Q then sub else merged_field k all in
        if is_typename f then Ok (aset k (GString, false) fields, conds, done, k :: fdone, st)
        else
          match d with
          | DObj _ _ fs | DIface _ fs =>
              match assoc f fs with
              | None => Panic                          (* t.Fields[name] is nil *)
              | Some ft =>
                  match gen_type rec ft merged st with
                  | Ok (g, st') => Ok (aset k (g, false) fields, conds, done, k :: fdone, st')
                  | Err => Err | Panic => Panic | OutOfFuel => OutOfFuel
                  end
              end
          | _ => Ok (fields, conds, done, k :: fdone, st)   (* union: the inner switch has no case *)
          end
    end.

  Fixpoint loop (rec : rec_t) (tName : name) (d : typedef) (hasTn : bool) (all rest : list selection)
           (a : acc) : outcome acc :=
    match rest with
    | [] => Ok a
    | sel :: rest' =>
        match step rec tName d hasTn all sel a with
        | Ok a' => loop rec tName d hasTn all rest' a'
        | Err => Err | Panic => Panic | OutOfFuel => OutOfFuel
        end
    end.

  (** the struct field made from one entry of [fields] *)
  Definition mk_field (e : name * (gotype * bool)) : gofield :=
    let '(k, (t, dash)) := e in
    let n := field_name k in
    let tagged := negb (equal_fold n k) in
    (n, (if dash then (if tagged then TagBoth k else TagDash) else (if tagged then TagKey k else TagNone)), t).

  Definition implementations (i : name) : list name :=
    flat_map (fun d => match d with
                       | DObj n ifs _ => if mem i ifs then [n] else []
                       | _ => []
                       end) (s_types S).

  Definition is_known (tName : name) (d : typedef) (typeCond : name) : bool :=
    bytes_eqb typeCond tName ||
    match d with
    | DObj on ifs _ =>
        mem typeCond ifs ||
        (negb (q_no_union_cond Q) &&
         match lookup_type S typeCond with Some (DUnion _ ms) => mem on ms | _ => false end)
    | _ => false
    end.

  Definition ok_types (typeCond : name) : list name :=
    match lookup_type S typeCond with
    | Some (DIface _ _) => implementations typeCond
    | Some (DUnion _ ms) => if q_no_union_cond Q then [] else ms
    | Some (DObj n _ _) => [n]
    | _ => []
    end.

  Definition mk_steps (tName : name) (d : typedef) (tnKey : name) (conds : list (name * list name)) : list ustep :=
    flat_map (fun e : name * list name =>
                let (tc, fs) := e in
                if is_known tName d tc then map (fun f => UAlways (field_name f)) fs
                else map (fun f => USwitch (field_name tnKey) (ok_types tc) (field_name f)) fs) conds.

  Definition gen_composite (rec : rec_t) (n : name) (d : typedef) (sels : list selection) (st : gstate)
    : outcome (gotype * bool * gstate) :=
    let ft := first_typename sels in
    let hasTn := match ft with Some _ => true | None => false end in
    let tnKey := if q_fixed_typename Q then typename_name
                 else match ft with Some k => k | None => typename_name end in
    match loop rec n d hasTn sels sels ([], [], [], [], st) with
    | Ok (fields, conds, _, _, st1) =>
        let fs := sort_fields (map mk_field fields) in
        match conds with
        | [] => Ok (GStruct fs, true, st1)
        | _ :: _ =>
            Ok (GSel n (g_count st1) fs (mk_steps n d tnKey conds), true,
                {| g_enums := g_enums st1; g_count := g_count st1 + 1; g_json := true |})
        end
    | Err => Err | Panic => Panic | OutOfFuel => OutOfFuel
    end.

  Definition gen_named_body (rec : rec_t) : rec_t := fun n sels st =>
    match builtin_of n with
    | Some b => Ok (go_of_builtin b, true, st)
    | None =>
        match lookup_type S n with
        | None => Ok (GIface, false, st)                (* nil type: ret stays "interface{}" *)
        | Some (DScalar _) => Ok (GScalar n, true, st)
        | Some (DEnum _ vs) => Ok (GEnum n, true, emit_enum n vs st)
        | Some d => gen_composite rec n d sels st
        end
    end.

  Fixpoint gen_named (fuel : nat) : rec_t :=
    match fuel with
    | O => fun _ _ _ => OutOfFuel
    | Datatypes.S fuel' => gen_named_body (gen_named fuel')
    end.
End Gen.

(** ** generateTypeDef *)
Fixpoint bare (t : gotype) : bool :=
  match t with
  | GPtr _ => false
  | GStruct _ => false
  | GSlice t' => bare t'
  | _ => true
  end.

Definition type_def (n : name) (t : gotype) : typedefn := {| td_name := n; td_forward := bare t; td_type := t |}.

(** ** processQuery and Generate *)
Inductive gen_result := GRejected | GError | GPanic | GOutOfFuel | GOk (p : program).

Definition doc_size (d : document) : nat :=
  (fold_right (fun o n => sels_size (op_sels o) + n) 0 (d_ops d) +
   fold_right (fun f n => sels_size (fr_sels f) + n) 0 (d_frags d))%nat.

(** one top-level definition: root type name (None: nil type), selections, declared name *)
Definition defs_of (S : schema) (d : document) : list (option name * list selection * option name) :=
  map (fun o => (match op_type o with OpQuery => Some (s_query S) | OpMutation => s_mutation S end,
                 op_sels o,
                 match op_name o with Some n => Some (data_type_name n) | None => None end)) (d_ops d) ++
  map (fun f => (Some (fr_cond f), fr_sels f, Some (frag_type_name (fr_name f)))) (d_frags d).

(** Go keywords: a type named by one does not parse, [format.Source] fails *)
Definition go_keywords : list bytes :=
  map bs ["break"; "case"; "chan"; "const"; "continue"; "default"; "defer"; "else"; "fallthrough"; "for";
          "func"; "go"; "goto"; "if"; "import"; "interface"; "map"; "package"; "range"; "return"; "select";
          "struct"; "switch"; "type"; "var"]%string.
Definition go_keyword (n : name) : bool := mem n go_keywords.

Fixpoint type_syntax_ok (t : gotype) : bool :=
  match t with
  | GEmpty => false
  | GEnum n => negb (go_keyword n)
  | GScalar n => negb (go_keyword n)
  | GPtr t' => type_syntax_ok t'
  | GSlice t' => type_syntax_ok t'
  | GStruct fs =>
      (fix go (fs : list (name * gotag * gotype)) : bool :=
         match fs with
         | [] => true
         | (_, tg, t') :: r => match tg with TagBoth _ => false | _ => true end && type_syntax_ok t' && go r
         end) fs
  | GSel _ _ fs _ =>
      (fix go (fs : list (name * gotag * gotype)) : bool :=
         match fs with
         | [] => true
         | (_, tg, t') :: r => match tg with TagBoth _ => false | _ => true end && type_syntax_ok t' && go r
         end) fs
  | _ => true
  end.

Definition program_syntax_ok (p : program) : bool :=
  forallb (fun e : name * list (name * name) => negb (go_keyword (fst e))) (p_enums p) &&
  forallb (fun dfn => type_syntax_ok (td_type dfn)) (p_defs p).

Section Generate.
  Variable Q : quirks.
  Variable S : schema.

  (** the loop over [doc.Definitions] of processQuery; an error of one definition is collected
      and the loop continues *)
  Fixpoint process_defs (fuel : nat) (fragTypes : list (name * name))
           (defs : list (option name * list selection * option name))
           (st : gstate) (out : list typedefn) (errored : bool) : outcome (gstate * list typedefn * bool) :=
    match defs with
    | [] => Ok (st, out, errored)
    | (root, sels, dname) :: rest =>
        match dname with
        | None => process_defs fuel fragTypes rest st out errored       (* unnamed operation: skipped *)
        | Some dn =>
            match root with
            | None => Panic                                             (* typed nil *ObjectType *)
            | Some r =>
                match gen_named Q S fragTypes fuel r sels st with
                | Ok (core, _, st') => process_defs fuel fragTypes rest st' (out ++ [type_def dn core]) errored
                | Err => process_defs fuel fragTypes rest st out true
                | Panic => Panic
                | OutOfFuel => OutOfFuel
                end
            end
        end
    end.

  (** [valid]: the verdict of graphql.ParseAndValidate on the document (the validator is not this
      property's code; its reference is [doc_valid] in the Spec).  [generate_raw] is Generate up to
      (not including) format.Source. *)
  Definition generate_raw (valid : bool) (d : document) : gen_result :=
    if negb valid then GRejected
    else
      let fragTypes := map (fun f => (fr_name f, fr_cond f)) (d_frags d) in
      match process_defs (Datatypes.S (doc_size d)) fragTypes (defs_of S d)
                         {| g_enums := []; g_count := 0; g_json := false |} [] false with
      | Ok (st, out, errored) =>
          if errored then GError
          else GOk {| p_enums := g_enums st; p_defs := out; p_json := g_json st |}
      | Err => GError
      | Panic => GPanic
      | OutOfFuel => GOutOfFuel
      end.

  (** format.Source fails when the text does not parse *)
  Definition generate (valid : bool) (d : document) : gen_result :=
    match generate_raw valid d with
    | GOk p => if program_syntax_ok p then GOk p else GError
    | r => r
    end.
End Generate.

(** ** The generator of the current tree (fix "two members of a selection set the same struct field")

    The definitions above ([step] .. [generate]) are gql-client-gen up to that repair: one [fields]
    map keyed by response key / type condition / fragment name, the Go field name a function of
    the key alone ([field_name]).  They are kept because the proofs are carried out on them
    (ClientGenAgree.v shows that the two generators return the same program whenever no two members
    of a selection set derive the same field name) and because they are the "before" of the
    refutation witnesses.  Below: the code that exists now.
    - response keys, inline fragments and spreads are three maps ([fields], [inlineFields],
      [spreadFields]); here: one association list whose keys carry the map they belong to as a
      first byte ([tk 0 / 1 / 2], a deviation of form);
    - [assignFieldNames]: in the order response keys, inline fragments, spreads, each sorted, a
      member gets [fieldName] of its key, with "_" appended while that name is taken ([assign]);
    - fragment members always carry the single tag json:"-". *)
Definition tk (kind : N) (k : name) : name := kind :: k.
Definition untk (k : name) : name := tl k.
Definition kind_of (k : name) : N := hd 0 k.

(** [for { if _, ok := taken[name]; !ok { break }; name += "_" }] *)
Fixpoint fresh (fuel : nat) (taken : list name) (n : name) : name :=
  match fuel with
  | O => n
  | Datatypes.S f => if mem n taken then fresh f taken (n ++ [95]) else n
  end.

Fixpoint assign (keys : list name) (taken : list name) (acc : list (name * name)) : list (name * name) * list name :=
  match keys with
  | [] => (acc, taken)
  | k :: r =>
      let n := fresh (Datatypes.S (List.length taken)) taken (field_name (untk k)) in
      assign r (n :: taken) (acc ++ [(k, n)])
  end.

Fixpoint insert_name (k : name) (l : list name) : list name :=
  match l with
  | [] => [k]
  | x :: r => if bytes_leb k x then k :: x :: r else x :: insert_name k r
  end.
Definition sort_names (l : list name) : list name := fold_right insert_name [] l.

Definition class_keys (c : N) (keys : list name) : list name := sort_names (filter (fun k => kind_of k =? c) keys).

Definition assign_names (fields : list (name * (gotype * bool))) : list (name * name) :=
  let keys := map fst fields in
  fst (assign (class_keys 0 keys ++ class_keys 1 keys ++ class_keys 2 keys) [] []).

Definition gname (names : list (name * name)) (k : name) : name :=
  match assoc k names with Some n => n | None => field_name (untk k) end.

Definition mk_field_s (names : list (name * name)) (e : name * (gotype * bool)) : gofield :=
  let '(k, (t, dash)) := e in
  let n := gname names k in
  (n, (if dash then TagDash else if negb (equal_fold n (untk k)) then TagKey (untk k) else TagNone), t).

Section GenS.
  Variable S : schema.
  Variable fragTypes : list (name * name).

  Definition step_s (rec : rec_t) (tName : name) (d : typedef) (hasTn : bool) (all : list selection)
             (sel : selection) (a : acc) : outcome acc :=
    let '(fields, conds, done, fdone, st) := a in
    match sel with
    | SSpread f _ _ =>
        if negb hasTn && negb (is_object d) then Err
        else
          let tc := match assoc f fragTypes with Some c => c | None => [] end in
          Ok (aset (tk 2 f) (GPtr (GFragRef f), true) fields, aappend tc (tk 2 f) conds, done, fdone, st)
    | SInline c sub =>
        if negb hasTn && negb (is_object d) then Err
        else if match c with
                | None => false
                | Some c' => negb (named_exists S c')
                end then Panic
        else
          let cond := inline_cond tName c in
          if mem cond done then Ok a
          else
            match gen_type rec (TNamed cond) (merged_inline tName cond all) st with
            | Ok (g, st') => Ok (aset (tk 1 cond) (g, true) fields, aappend cond (tk 1 cond) conds, cond :: done, fdone, st')
            | Err => Err | Panic => Panic | OutOfFuel => OutOfFuel
            end
    | SField al f sub =>
        let k := sel_key al f in
        if mem k fdone then Ok a
        else
        if is_typename f then Ok (aset (tk 0 k) (GString, false) fields, conds, done, k :: fdone, st)
        else
          match d with
          | DObj _ _ fs | DIface _ fs =>
              match assoc f fs with
              | None => Panic
              | Some ft =>
                  match gen_type rec ft (merged_field k all) st with
                  | Ok (g, st') => Ok (aset (tk 0 k) (g, false) fields, conds, done, k :: fdone, st')
                  | Err => Err | Panic => Panic | OutOfFuel => OutOfFuel
                  end
              end
          | _ => Ok (fields, conds, done, k :: fdone, st)
          end
    end.

  Fixpoint loop_s (rec : rec_t) (tName : name) (d : typedef) (hasTn : bool) (all rest : list selection)
           (a : acc) : outcome acc :=
    match rest with
    | [] => Ok a
    | sel :: rest' =>
        match step_s rec tName d hasTn all sel a with
        | Ok a' => loop_s rec tName d hasTn all rest' a'
        | Err => Err | Panic => Panic | OutOfFuel => OutOfFuel
        end
    end.

  Definition mk_steps_s (names : list (name * name)) (tName : name) (d : typedef) (tnField : name)
             (conds : list (name * list name)) : list ustep :=
    flat_map (fun e : name * list name =>
                let (tc, ms) := e in
                if is_known no_quirks S tName d tc then map (fun m => UAlways (gname names m)) ms
                else map (fun m => USwitch tnField (ok_types no_quirks S tc) (gname names m)) ms) conds.

  Definition gen_composite_s (rec : rec_t) (n : name) (d : typedef) (sels : list selection) (st : gstate)
    : outcome (gotype * bool * gstate) :=
    let ft := first_typename sels in
    let hasTn := match ft with Some _ => true | None => false end in
    let tnKey := match ft with Some k => k | None => typename_name end in
    match loop_s rec n d hasTn sels sels ([], [], [], [], st) with
    | Ok (fields, conds, _, _, st1) =>
        let names := assign_names fields in
        let fs := sort_fields (map (mk_field_s names) fields) in
        let tnField := match assoc (tk 0 tnKey) names with Some x => x | None => field_name tnKey end in
        match conds with
        | [] => Ok (GStruct fs, true, st1)
        | _ :: _ =>
            Ok (GSel n (g_count st1) fs (mk_steps_s names n d tnField conds), true,
                {| g_enums := g_enums st1; g_count := g_count st1 + 1; g_json := true |})
        end
    | Err => Err | Panic => Panic | OutOfFuel => OutOfFuel
    end.

  Definition gen_named_body_s (rec : rec_t) : rec_t := fun n sels st =>
    match builtin_of n with
    | Some b => Ok (go_of_builtin b, true, st)
    | None =>
        match lookup_type S n with
        | None => Ok (GIface, false, st)
        | Some (DScalar _) => Ok (GScalar n, true, st)
        | Some (DEnum _ vs) => Ok (GEnum n, true, emit_enum n vs st)
        | Some d => gen_composite_s rec n d sels st
        end
    end.

  Fixpoint gen_named_s (fuel : nat) : rec_t :=
    match fuel with
    | O => fun _ _ _ => OutOfFuel
    | Datatypes.S fuel' => gen_named_body_s (gen_named_s fuel')
    end.

  Fixpoint process_defs_s (fuel : nat)
           (defs : list (option name * list selection * option name))
           (st : gstate) (out : list typedefn) (errored : bool) : outcome (gstate * list typedefn * bool) :=
    match defs with
    | [] => Ok (st, out, errored)
    | (root, sels, dname) :: rest =>
        match dname with
        | None => process_defs_s fuel rest st out errored
        | Some dn =>
            match root with
            | None => Panic
            | Some r =>
                match gen_named_s fuel r sels st with
                | Ok (core, _, st') => process_defs_s fuel rest st' (out ++ [type_def dn core]) errored
                | Err => process_defs_s fuel rest st out true
                | Panic => Panic
                | OutOfFuel => OutOfFuel
                end
            end
        end
    end.
End GenS.

Definition generate_raw_s (S : schema) (valid : bool) (d : document) : gen_result :=
  if negb valid then GRejected
  else
    let fragTypes := map (fun f => (fr_name f, fr_cond f)) (d_frags d) in
    match process_defs_s S fragTypes (Datatypes.S (doc_size d)) (defs_of S d)
                         {| g_enums := []; g_count := 0; g_json := false |} [] false with
    | Ok (st, out, errored) =>
        if errored then GError
        else GOk {| p_enums := g_enums st; p_defs := out; p_json := g_json st |}
    | Err => GError
    | Panic => GPanic
    | OutOfFuel => GOutOfFuel
    end.

Definition generate_s (S : schema) (valid : bool) (d : document) : gen_result :=
  match generate_raw_s S valid d with
  | GOk p => if program_syntax_ok p then GOk p else GError
  | r => r
  end.
