(** * Gen/ClientGenDeclSafeS.v — C20: the declared identifiers of the generator of the current tree
    ([generate_s]: member names and enum names made unique by appended underscores).

    Port of the invariant of ClientGenDeclSafe.v (struct counter, emitted enum blocks, identifiers
    of the fields) to [gen_named_s] / [process_defs_s], over the pre-assigned enum names [en] / [cn]. *)
From Coq Require Import List NArith ZArith Bool String Lia Permutation.
From ApiFu Require Import Base.Sexp Gen.GoTypes Gen.ClientGenModel Gen.DecodeModel Gen.ClientGenSpec
     Gen.ClientGenLemmas Gen.ClientGenNames Gen.ClientGenDeclSafe Gen.ClientGenDecodeS Gen.ClientGenNamesS.
Import ListNotations.
Open Scope list_scope.
Open Scope N_scope.

(** ** identifiers stay identifiers when underscores are appended *)
Lemma reserved_no_trailing_us :
  forallb (fun w : bytes => match rev w with c :: _ => negb (c =? 95) || bytes_eqb w [95] | [] => true end) go_reserved = true.
Proof. vm_compute. reflexivity. Qed.

Lemma all_us_chars us : all_us us = true -> forallb ident_char us = true.
Proof.
  induction us as [|c r IH]; [reflexivity|]. simpl. intros H. apply andb_true_iff in H as [H1 H2].
  apply N.eqb_eq in H1. subst c. rewrite (IH H2). reflexivity.
Qed.

Lemma rev_snoc_us x us : all_us us = true -> us <> [] -> exists r, rev (x ++ us) = 95 :: r.
Proof.
  intros H Hn. rewrite rev_app_distr. destruct us as [|c u]; [contradiction|].
  assert (Hl : exists r, rev (c :: u) = 95 :: r).
  { clear Hn. revert c H. induction u as [|c' u IH]; intros c H; simpl in H; apply andb_true_iff in H as [H1 H2].
    - apply N.eqb_eq in H1. subst c. exists []. reflexivity.
    - destruct (IH c' H2) as [r Er]. change (rev (c :: c' :: u)) with (rev (c' :: u) ++ [c]). rewrite Er. exists (r ++ [c]). reflexivity. }
  destruct Hl as [r Er]. rewrite Er. exists (r ++ rev x). reflexivity.
Qed.

Lemma go_ident_us x us : go_ident_ok x = true -> all_us us = true -> go_ident_ok (x ++ us) = true.
Proof.
  intros Hx Hus. destruct us as [|u0 ur] eqn:Eus; [rewrite app_nil_r; exact Hx|]. rewrite <- Eus in *.
  assert (Hne : us <> []) by (rewrite Eus; discriminate).
  destruct x as [|c r]; [discriminate|]. unfold go_ident_ok in *. cbn [app].
  apply andb_true_iff in Hx as [Hx Hres]. apply andb_true_iff in Hx as [Hc Hr].
  rewrite Hc. rewrite forallb_app, Hr, (all_us_chars us Hus). cbn [andb].
  apply negb_true_iff. apply mem_false. intro Hi.
  pose proof reserved_no_trailing_us as HR. rewrite forallb_forall in HR. specialize (HR _ Hi).
  destruct (rev_snoc_us (c :: r) us Hus Hne) as [t Et]. change (c :: r ++ us) with ((c :: r) ++ us) in HR. rewrite Et in HR.
  change (negb (95 =? 95) || bytes_eqb ((c :: r) ++ us) [95] = true) in HR. rewrite N.eqb_refl in HR. cbn [negb orb] in HR.
  apply bytes_eqb_true in HR. destruct r; [destruct us; [contradiction | discriminate] | discriminate].
Qed.

(** the Go name of a member extends its usual name by underscores *)
Lemma gname_assign_ext fields k : exists us, gname (assign_names fields) k = field_name (untk k) ++ us /\ all_us us = true.
Proof.
  unfold gname. destruct (assoc k (assign_names fields)) as [n|] eqn:Ea.
  - apply assoc_In in Ea. unfold assign_names in Ea. destruct (assign_ext _ _ _ _ _ Ea) as [[]|H]. exact H.
  - exists []. rewrite app_nil_r. split; reflexivity.
Qed.

Section InvS.
  Variable S : schema.
  Variable fragTypes : list (name * name).
  Variable en : name -> name.
  Variable cn : name -> name -> name.
  Variables Keys Dash : list name.
  Hypothesis HKeys : forall k, In k Keys -> go_ident_ok (field_name k) = true.
  Hypothesis HDash : forall k, In k Dash -> go_ident_ok (field_name k) = true.
  Hypothesis HComp : incl (composites S) Dash.
  Hypothesis Hen : forall n vs, In (DEnum n vs) (s_types S) -> go_keyword (en n) = false.
  Hypothesis Hnoscalar : forall n, ~ In (DScalar n) (s_types S).
  Notation gen := (gen_named_s S fragTypes en cn).
  Notation SelsIn := (SelsIn Keys Dash).
  Notation TG := (TG S).

  (** the emitted enum blocks are those of enums of the schema, under their assigned names *)
  Definition StOKs (st : gstate) : Prop :=
    (forall n' cs, In (n', cs) (g_enums st) ->
       exists n vs, In (DEnum n vs) (s_types S) /\ n' = en n /\ cs = map (fun v => (cn n v, v)) vs) /\
    NoDup (map fst (g_enums st)).

  Definition entries_oks (fields : list (name * (gotype * bool))) : Prop :=
    forall k T dash, In (k, (T, dash)) fields ->
      idents_ok T = true /\ type_syntax_ok T = true /\ (In (untk k) Keys \/ In (untk k) Dash).

  Definition LIs (c0 : N) (a : acc) : Prop :=
    let '(fields, conds, done, fdone, st) := a in
    StOKs st /\ c0 <= g_count st /\
    (forall p, In p (IX fields) -> In (fst p) (composites S) /\ c0 <= snd p < g_count st) /\
    NoDup (map snd (IX fields)) /\ entries_oks fields.

  Lemma LIs_aset c0 fields conds conds' done done' fdone fdone' st st' k T dash :
    LIs c0 (fields, conds, done, fdone, st) -> StOKs st' -> g_count st <= g_count st' ->
    TG (g_count st) (g_count st') T -> (In (untk k) Keys \/ In (untk k) Dash) ->
    LIs c0 (aset k (T, dash) fields, conds', done', fdone', st').
  Proof.
    intros (L1 & L2 & L3 & L4 & L5) Hst Hle (T1 & T2 & T3 & T4) Hk. unfold LIs.
    split; [exact Hst|]. split; [lia|]. split; [|split].
    - intros p Hp. destruct (IX_aset _ _ _ _ _ Hp) as [H|H].
      + destruct (L3 p H) as [Hc Hr]. split; [exact Hc | lia].
      + destruct (T1 p H) as [Hc Hr]. split; [exact Hc | lia].
    - apply IX_aset_nodup; [exact L4 | exact T2|]. intros p q Hp Hq E.
      destruct (L3 p Hp) as [_ Hr]. destruct (T1 q Hq) as [_ Hr']. lia.
    - intros k0 T0 d0 H. destruct (In_aset_weak _ _ _ _ H) as [E|H'].
      + inversion E; subst. repeat split; assumption.
      + apply (L5 _ _ _ H').
  Qed.

  Section StepS.
    Variable rec : rec_t.
    Hypothesis Hrec : forall n sels st core b st',
      rec n sels st = Ok (core, b, st') -> StOKs st -> SelsIn sels ->
      StOKs st' /\ g_count st <= g_count st' /\ TG (g_count st) (g_count st') core.
    Variable tName : name.
    Variable d : typedef.
    Variable hasTn : bool.
    Variable all : list selection.
    Hypothesis HtName : In tName (composites S).
    Hypothesis Hall : SelsIn all.

    Lemma gen_type_TGs ft sels st g st' : gen_type rec ft sels st = Ok (g, st') -> StOKs st -> SelsIn sels ->
      StOKs st' /\ g_count st <= g_count st' /\ TG (g_count st) (g_count st') g.
    Proof.
      unfold gen_type. destruct (rec (unwrap ft) sels st) as [[[core ptrable] st1]| | |] eqn:Er; try discriminate.
      intros H Hst Hs. inversion H; subst. destruct (Hrec _ _ _ _ _ _ Er Hst Hs) as [H1 [H2 H3]].
      split; [exact H1|]. split; [exact H2|]. apply TG_wrap. exact H3.
    Qed.

    Lemma step_LIs c0 s a a' : In s all -> LIs c0 a -> step_s S fragTypes rec tName d hasTn all s a = Ok a' -> LIs c0 a'.
    Proof.
      intros Hs HI Hstep. destruct a as [[[[fields conds] done] fdone] st].
      pose proof HI as (L1 & L2 & L3 & L4 & L5).
      unfold step_s in Hstep. destruct s as [al f sub|c sub|f c body].
      - (* field *)
        destruct (SelsIn_field _ _ _ _ _ _ Hs Hall) as [Hsub Hk].
        destruct (mem (sel_key al f) fdone); [inversion Hstep; subst; exact HI|].
        destruct (is_typename f).
        + inversion Hstep; subst a'.
          apply (LIs_aset c0 fields conds conds done done fdone _ st st); try assumption; [lia | apply TG_leaf; reflexivity | left; exact Hk].
        + assert (Hgen : forall fs, match assoc f fs with
                                    | None => Panic
                                    | Some ft => match gen_type rec ft (merged_field (sel_key al f) all) st with
                                                 | Ok (g, st') => Ok (aset (tk 0 (sel_key al f)) (g, false) fields, conds, done, sel_key al f :: fdone, st')
                                                 | Err => Err | Panic => Panic | OutOfFuel => OutOfFuel
                                                 end
                                    end = Ok a' -> LIs c0 a').
          { intros fs H. destruct (assoc f fs) as [ft|]; [|discriminate].
            destruct (gen_type rec ft (merged_field (sel_key al f) all) st) as [[g st']| | |] eqn:Eg; try discriminate.
            inversion H; subst a'.
            destruct (gen_type_TGs _ _ _ _ _ Eg L1 (SelsIn_merged_field _ _ _ _ Hall)) as [G1 [G2 G3]].
            apply (LIs_aset c0 fields conds conds done done fdone _ st st'); try assumption. left. exact Hk. }
          destruct d as [n ifs fs|n fs|n ms|n vs|n]; try (apply (Hgen fs); exact Hstep);
            inversion Hstep; subst a'; exact HI.
      - (* inline fragment *)
        destruct (SelsIn_inline _ _ _ _ _ Hs Hall) as [Hsub Hc].
        destruct (negb hasTn && negb (is_object d)); [discriminate|].
        destruct (match c with None => false | Some c' => negb (named_exists S c') end); [discriminate|].
        destruct (mem (inline_cond tName c) done); [inversion Hstep; subst; exact HI|].
        destruct (gen_type rec (TNamed (inline_cond tName c)) (merged_inline tName (inline_cond tName c) all) st) as [[g st']| | |] eqn:Eg; try discriminate.
        inversion Hstep; subst a'.
        destruct (gen_type_TGs _ _ _ _ _ Eg L1 (SelsIn_merged_inline _ _ _ _ _ Hall)) as [G1 [G2 G3]].
        assert (Hcd : In (inline_cond tName c) Dash).
        { destruct c as [c'|]; simpl; [apply Hc; reflexivity | apply HComp; exact HtName]. }
        apply (LIs_aset c0 fields conds _ done _ fdone fdone st st'); try assumption. right. exact Hcd.
      - (* spread *)
        destruct (negb hasTn && negb (is_object d)); [discriminate|].
        inversion Hstep; subst a'.
        pose proof (SelsIn_spread _ _ _ _ _ _ Hs Hall) as Hf.
        apply (LIs_aset c0 fields conds _ done done fdone fdone st st); try assumption; [lia | apply TG_leaf; reflexivity | right; exact Hf].
    Qed.

    Lemma loop_LIs c0 : forall rest a a', incl rest all -> LIs c0 a ->
      loop_s S fragTypes rec tName d hasTn all rest a = Ok a' -> LIs c0 a'.
    Proof.
      induction rest as [|s rest IH]; intros a a' Hin HI Hl; simpl in Hl; [inversion Hl; subst; exact HI|].
      destruct (step_s S fragTypes rec tName d hasTn all s a) as [a1| | |] eqn:Es; try discriminate.
      apply (IH a1 a'); [intros x Hx; apply Hin; right; exact Hx | | exact Hl].
      apply (step_LIs c0 s a a1); [apply Hin; left; reflexivity | exact HI | exact Es].
    Qed.
  End StepS.

  (** the final struct *)
  Lemma fs_ix_s names fields : flat_map (fun f : name * gotag * gotype => sel_ix (snd f)) (map (mk_field_s names) fields) = IX fields.
  Proof. unfold IX. induction fields as [|[k [T dash]] r IH]; [reflexivity|]. simpl. rewrite IH. reflexivity. Qed.

  Lemma fs_ix_perm_s names fields :
    Permutation (IX fields) (flat_map (fun f : name * gotag * gotype => sel_ix (snd f)) (sort_fields (map (mk_field_s names) fields))).
  Proof. rewrite <- (fs_ix_s names). apply Permutation_flat_map. apply sort_fields_perm. Qed.

  Lemma fs_entry_s names fields fld : In fld (sort_fields (map (mk_field_s names) fields)) ->
    exists k T dash, In (k, (T, dash)) fields /\ fld = mk_field_s names (k, (T, dash)).
  Proof.
    intros H. apply (proj1 (In_sort_fields _ _)) in H. apply in_map_iff in H as [[k [T dash]] [E Hi]]. exists k, T, dash. split; [exact Hi | symmetry; exact E].
  Qed.

  Lemma fs_idents_s fields : entries_oks fields ->
    forallb (fun f : name * gotag * gotype => go_ident_ok (fst (fst f)) && idents_ok (snd f))
            (sort_fields (map (mk_field_s (assign_names fields)) fields)) = true.
  Proof.
    intros He. apply forallb_forall. intros fld Hf. destruct (fs_entry_s _ _ _ Hf) as [k [T [dash [Hi E]]]]. subst fld.
    destruct (He _ _ _ Hi) as [H1 [_ Hk]]. unfold mk_field_s. cbn [fst snd]. rewrite H1, andb_true_r.
    destruct (gname_assign_ext fields k) as [us [En Hus]]. rewrite En. apply go_ident_us; [|exact Hus].
    destruct Hk as [Hk|Hk]; [apply HKeys; exact Hk | apply HDash; exact Hk].
  Qed.

  Lemma fs_syntax_s names fields : entries_oks fields ->
    forallb (fun f : name * gotag * gotype => match snd (fst f) with TagBoth _ => false | _ => true end && type_syntax_ok (snd f))
            (sort_fields (map (mk_field_s names) fields)) = true.
  Proof.
    intros He. apply forallb_forall. intros fld Hf. destruct (fs_entry_s _ _ _ Hf) as [k [T [dash [Hi E]]]]. subst fld.
    destruct (He _ _ _ Hi) as [_ [H2 _]]. unfold mk_field_s. cbn [fst snd]. rewrite H2, andb_true_r.
    destruct dash; [reflexivity|]. destruct (negb (equal_fold (gname names k) (untk k))); reflexivity.
  Qed.

  Section RecS.
    Variable rec : rec_t.
    Hypothesis Hrec : forall n sels st core b st',
      rec n sels st = Ok (core, b, st') -> StOKs st -> SelsIn sels ->
      StOKs st' /\ g_count st <= g_count st' /\ TG (g_count st) (g_count st') core.

    Lemma gen_composite_TGs n d sels st core b st' :
      lookup_type S n = Some d -> match d with DObj _ _ _ | DIface _ _ | DUnion _ _ => True | _ => False end ->
      gen_composite_s S fragTypes rec n d sels st = Ok (core, b, st') -> StOKs st -> SelsIn sels ->
      StOKs st' /\ g_count st <= g_count st' /\ TG (g_count st) (g_count st') core.
    Proof.
      intros Hl Hd Hg Hst Hs. pose proof (composite_In S n d Hl Hd) as Hn.
      unfold gen_composite_s in Hg.
      set (hasTn := match first_typename sels with Some _ => true | None => false end) in *.
      destruct (loop_s S fragTypes rec n d hasTn sels sels ([], [], [], [], st)) as [[[[[fields conds] done] fdone] st1]| | |] eqn:El; try discriminate.
      assert (HI0 : LIs (g_count st) ([], [], [], [], st)).
      { unfold LIs. split; [exact Hst|]. split; [lia|]. split; [intros p []|]. split; [constructor|]. intros k T dash []. }
      pose proof (loop_LIs rec Hrec n d hasTn sels Hn Hs (g_count st) sels _ _ (incl_refl _) HI0 El)
        as (L1 & L2 & L3 & L4 & L5).
      set (names := assign_names fields) in *.
      set (fs := sort_fields (map (mk_field_s names) fields)) in *.
      assert (Hin : forall p, In p (flat_map (fun f : name * gotag * gotype => sel_ix (snd f)) fs) -> In p (IX fields)).
      { intros p Hp. apply (Permutation_in _ (Permutation_sym (fs_ix_perm_s names fields))). exact Hp. }
      assert (Hnd : NoDup (map snd (flat_map (fun f : name * gotag * gotype => sel_ix (snd f)) fs))).
      { apply (Permutation_NoDup (Permutation_map snd (fs_ix_perm_s names fields))). exact L4. }
      destruct conds as [|c0 cr]; inversion Hg; subst core b st'.
      - split; [exact L1|]. split; [exact L2|]. unfold ClientGenDeclSafe.TG. cbn [sel_ix idents_ok type_syntax_ok].
        split; [intros p Hp; apply L3; apply Hin; exact Hp|]. split; [exact Hnd|].
        split; [apply fs_idents_s; exact L5 | rewrite syntax_fields; apply fs_syntax_s; exact L5].
      - split; [destruct L1 as [E1 E2]; split; assumption|]. cbn [g_count]. split; [lia|].
        unfold ClientGenDeclSafe.TG. cbn [sel_ix idents_ok type_syntax_ok].
        split; [|split; [|split; [apply fs_idents_s; exact L5 | rewrite syntax_fields; apply fs_syntax_s; exact L5]]].
        + intros p [Hp|Hp]; [subst p; cbn [fst snd]; split; [exact Hn | lia]|].
          destruct (L3 p (Hin p Hp)) as [Hc Hr]. split; [exact Hc | lia].
        + cbn [map snd]. constructor; [|exact Hnd].
          intro H. apply in_map_iff in H as [p [Ep Hp]]. destruct (L3 p (Hin p Hp)) as [_ Hr]. lia.
    Qed.
  End RecS.

  Lemma gen_TGs : forall fuel n sels st core b st',
    gen fuel n sels st = Ok (core, b, st') -> StOKs st -> SelsIn sels ->
    StOKs st' /\ g_count st <= g_count st' /\ TG (g_count st) (g_count st') core.
  Proof.
    induction fuel as [|fuel IH]; intros n sels st core b st' Hg Hst Hs; [discriminate|].
    simpl in Hg. unfold gen_named_body_s in Hg.
    destruct (builtin_of n) as [bi|] eqn:Eb.
    - inversion Hg; subst. split; [exact Hst|]. split; [lia|]. apply TG_leaf; destruct bi; reflexivity.
    - destruct (lookup_type S n) as [d|] eqn:El.
      + destruct d as [n' ifs fs|n' fs|n' ms|n' vs|n'].
        * apply (gen_composite_TGs (gen fuel) IH n _ sels st core b st' El I Hg Hst Hs).
        * apply (gen_composite_TGs (gen fuel) IH n _ sels st core b st' El I Hg Hst Hs).
        * apply (gen_composite_TGs (gen fuel) IH n _ sels st core b st' El I Hg Hst Hs).
        * inversion Hg; subst core b st'. unfold lookup_type in El. apply find_some in El as [Hi Hn].
          apply bytes_eqb_true in Hn. simpl in Hn. subst n'.
          split; [|split].
          -- destruct Hst as [E1 E2]. unfold emit_enum_s. destruct (assoc (en n) (g_enums st)) eqn:Ea; [split; assumption|].
             unfold StOKs. cbn [g_enums]. split.
             ++ intros n0 cs H. apply in_app_iff in H as [H|[H|[]]]; [apply (E1 _ _ H)|]. inversion H; subst. exists n, vs. split; [exact Hi | split; reflexivity].
             ++ rewrite map_app. apply NoDup_snoc; [exact E2|]. apply assoc_None. exact Ea.
          -- unfold emit_enum_s. destruct (assoc (en n) (g_enums st)); cbn [g_count]; lia.
          -- apply TG_leaf; [reflexivity | reflexivity|]. simpl. rewrite (Hen n vs Hi). reflexivity.
        * exfalso. unfold lookup_type in El. apply find_some in El as [Hi _]. apply (Hnoscalar n' Hi).
      + inversion Hg; subst. split; [exact Hst|]. split; [lia|]. apply TG_leaf; reflexivity.
  Qed.

  (** ** all definitions *)
  Definition PIs (st : gstate) (out : list typedefn) : Prop :=
    StOKs st /\ (forall p, In p (DX out) -> In (fst p) (composites S) /\ snd p < g_count st) /\
    NoDup (map snd (DX out)) /\
    (forall x, In x out -> idents_ok (td_type x) = true /\ type_syntax_ok (td_type x) = true).

  Lemma process_PIs fuel : forall defs st out errored st' out' e',
    process_defs_s S fragTypes en cn fuel defs st out errored = Ok (st', out', e') ->
    PIs st out -> (forall x, In x defs -> SelsIn (snd (fst x))) -> PIs st' out'.
  Proof.
    induction defs as [|[[root sels] dname] rest IH]; intros st out errored st' out' e' H HP Hs; simpl in H.
    - inversion H; subst. exact HP.
    - assert (Hs' : forall x, In x rest -> SelsIn (snd (fst x))) by (intros x Hx; apply Hs; right; exact Hx).
      destruct dname as [dn|]; [|apply (IH st out errored st' out' e' H HP Hs')].
      destruct root as [r|]; [|discriminate].
      destruct (gen fuel r sels st) as [[[core b] st1]| | |] eqn:Eg; try discriminate; [|apply (IH st out true st' out' e' H HP Hs')].
      destruct HP as (P1 & P2 & P3 & P4).
      destruct (gen_TGs fuel r sels st core b st1 Eg P1 (Hs _ (or_introl eq_refl))) as [G1 [G2 (T1 & T2 & T3 & T4)]].
      apply (IH st1 (out ++ [type_def dn core]) errored st' out' e' H); [|exact Hs'].
      unfold PIs. split; [exact G1|]. unfold DX. rewrite flat_map_app. cbn [flat_map td_type type_def]. rewrite app_nil_r.
      split; [|split].
      + intros p Hp. apply in_app_iff in Hp as [Hp|Hp].
        * destruct (P2 p Hp) as [Hc Hr]. split; [exact Hc | lia].
        * destruct (T1 p Hp) as [Hc Hr]. split; [exact Hc | lia].
      + rewrite map_app. apply NoDup_app_intro; [exact P3 | exact T2|].
        intros x Hx Hy. apply in_map_iff in Hx as [p [Ep Hp]]. apply in_map_iff in Hy as [q [Eq Hq]].
        destruct (P2 p Hp) as [_ Hr]. destruct (T1 q Hq) as [_ Hr']. lia.
      + intros x Hx. apply in_app_iff in Hx as [Hx|[Hx|[]]]; [apply (P4 x Hx)|]. subst x. cbn [td_type type_def]. split; assumption.
  Qed.
End InvS.
