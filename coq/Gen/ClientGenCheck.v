(** * Gen/ClientGenCheck.v — C20 correspondence: decode one case, run the model and the Spec
    oracle, compare with what the real generator / go/types / the compiled decode program did.
    Executable only (extracted / vm_compute). *)
From Coq Require Import List NArith ZArith Bool String.
From ApiFu Require Import Base.Sexp Gen.GoTypes Gen.ClientGenModel Gen.DecodeModel Gen.ClientGenSpec Gen.LoadSchemaModel.
Import ListNotations.
Open Scope list_scope.
Open Scope string_scope.

(** ** Decoding the case *)
Definition sym_is (x : string) (s : sexp) : bool := is_sym x s.

Fixpoint dec_type (s : sexp) : option gqltype :=
  match s with
  | SL [SSym t; a] =>
      if String.eqb t "n" then match a with SStr b => Some (TNamed b) | _ => None end
      else if String.eqb t "l" then match dec_type a with Some x => Some (TList x) | None => None end
      else if String.eqb t "nn" then match dec_type a with Some x => Some (TNonNull x) | None => None end
      else None
  | _ => None
  end.

Definition dec_field (s : sexp) : option (name * gqltype) :=
  match s with
  | SL [SStr n; t] => match dec_type t with Some x => Some (n, x) | None => None end
  | _ => None
  end.

Definition dec_typedef (s : sexp) : option typedef :=
  match untag s with
  | Some (t, [SStr n; a; b]) =>
      if String.eqb t "obj" then
        match as_list_of as_bytes a, as_list_of dec_field b with
        | Some ifs, Some fs => Some (DObj n ifs fs)
        | _, _ => None
        end
      else None
  | Some (t, [SStr n; a]) =>
      if String.eqb t "iface" then match as_list_of dec_field a with Some fs => Some (DIface n fs) | None => None end
      else if String.eqb t "union" then match as_list_of as_bytes a with Some ms => Some (DUnion n ms) | None => None end
      else if String.eqb t "enum" then match as_list_of as_bytes a with Some vs => Some (DEnum n vs) | None => None end
      else None
  | _ => None
  end.

Definition dec_schema (s : sexp) : option schema :=
  match tagged "schema" s with
  | Some [SStr q; m; ts] =>
      match as_option as_bytes m, as_list_of dec_typedef ts with
      | Some mo, Some tds => Some {| s_query := q; s_mutation := mo; s_types := tds |}
      | _, _ => None
      end
  | _ => None
  end.

Fixpoint dec_sel (s : sexp) : option selection :=
  match s with
  | SL [SSym t; a; SStr n; _; SL sub] =>
      if String.eqb t "f" then
        match as_option as_bytes a, mapo dec_sel sub with
        | Some al, Some ss => Some (SField al n ss)
        | _, _ => None
        end
      else None
  | SL [SSym t; c; SL sub] =>
      if String.eqb t "i" then
        match as_option as_bytes c, mapo dec_sel sub with
        | Some co, Some ss => Some (SInline co ss)
        | _, _ => None
        end
      else None
  | SL [SSym t; SStr n] => if String.eqb t "s" then Some (SSpread n [] []) else None
  | _ => None
  end.

Definition dec_op (s : sexp) : option opdef :=
  match tagged "op" s with
  | Some [SSym ty; n; SL sels] =>
      match (if String.eqb ty "query" then Some OpQuery else if String.eqb ty "mutation" then Some OpMutation else None),
            as_option as_bytes n, mapo dec_sel sels with
      | Some ot, Some no, Some ss => Some {| op_type := ot; op_name := no; op_sels := ss |}
      | _, _, _ => None
      end
  | _ => None
  end.

Definition dec_frag (s : sexp) : option fragdef :=
  match tagged "frag" s with
  | Some [SStr n; SStr c; SL sels] =>
      match mapo dec_sel sels with
      | Some ss => Some {| fr_name := n; fr_cond := c; fr_sels := ss |}
      | None => None
      end
  | _ => None
  end.

(** [None]: syntax error *)
Definition dec_doc (s : sexp) : option (option document) :=
  match untag s with
  | Some (t, [SL ops; SL frs]) =>
      if String.eqb t "doc" then
        match mapo dec_op ops, mapo dec_frag frs with
        | Some o, Some f => Some (Some {| d_ops := o; d_frags := f |})
        | _, _ => None
        end
      else None
  | Some (t, []) => if String.eqb t "doc-syntax-error" then Some None else None
  | _ => None
  end.

Definition dec_num (t : string) (a : sexp) : option numv :=
  if String.eqb t "i" then match a with SZ z => Some (NI z) | _ => None end
  else if String.eqb t "f" then match as_N a with Some n => Some (NF n) | None => None end
  else None.

Fixpoint dec_json (s : sexp) : option json :=
  match s with
  | SSym t =>
      if String.eqb t "null" then Some JNull
      else if String.eqb t "true" then Some (JBool true)
      else if String.eqb t "false" then Some (JBool false)
      else None
  | SL (SSym t :: args) =>
      if String.eqb t "a" then match mapo dec_json args with Some l => Some (JArr l) | None => None end
      else if String.eqb t "o" then
        match mapo (fun kv => match kv with
                              | SL [SStr k; v] => match dec_json v with Some x => Some (k, x) | None => None end
                              | _ => None
                              end) args with
        | Some l => Some (JObj l)
        | None => None
        end
      else match args with
           | [SStr b] => if String.eqb t "s" then Some (JStr b) else None
           | [a] => match dec_num t a with Some n => Some (JNum n) | None => None end
           | _ => None
           end
  | _ => None
  end.

Definition dec_leaf (s : sexp) : option leaf :=
  match s with
  | SSym t =>
      if String.eqb t "null" then Some LNull
      else if String.eqb t "empty" then Some LEmpty
      else if String.eqb t "true" then Some (LBool true)
      else if String.eqb t "false" then Some (LBool false)
      else None
  | SL [SSym t; SStr b] => if String.eqb t "s" then Some (LStr b) else None
  | SL [SSym t; a] => match dec_num t a with Some n => Some (LNum n) | None => None end
  | _ => None
  end.

Definition dec_step (s : sexp) : option pstep :=
  match s with
  | SStr k => Some (PKey k)
  | SZ z => if Z.ltb z 0 then None else Some (PIdx (Z.to_N z))
  | SL [SSym t; SStr f] => if String.eqb t "g" then Some (PFrag f) else None
  | _ => None
  end.

Definition dec_pl (s : sexp) : option (path * leaf) :=
  match s with
  | SL [SL steps; l] =>
      match map_opt dec_step steps, dec_leaf l with
      | Some p, Some x => Some (p, x)
      | _, _ => None
      end
  | _ => None
  end.

Inductive run_status := RunOk | RunError | RunPanic | RunExecError.
(** [ro_eff]: for an operation with @include / @skip, the (linked) document as it is selected under
    the variable values of this run - the directives evaluated and dropped by the harness; the
    generator ignores directives, so the program is that of the full document, and the keys of the
    selections left out are absent from the response *)
Record run_obs := { ro_resp : json; ro_status : run_status; ro_leaves : list (path * leaf); ro_eff : option document }.

Definition dec_run (s : sexp) : option run_obs :=
  match tagged "run" s with
  | Some (j :: SSym st :: SL ls :: eff) =>
      let status := if String.eqb st "ok" then Some RunOk else if String.eqb st "error" then Some RunError
                    else if String.eqb st "panic" then Some RunPanic else if String.eqb st "exec-error" then Some RunExecError
                    else None in
      match status with
      | Some RunExecError => Some {| ro_resp := JNull; ro_status := RunExecError; ro_leaves := []; ro_eff := None |}
      | Some x =>
          match dec_json j, map_opt dec_pl ls with
          | Some jj, Some l =>
              match eff with
              | [] => Some {| ro_resp := jj; ro_status := x; ro_leaves := l; ro_eff := None |}
              | [e] =>
                  match dec_doc e with
                  | Some (Some d0) =>
                      match link_doc d0 with
                      | Some d' => Some {| ro_resp := jj; ro_status := x; ro_leaves := l; ro_eff := Some d' |}
                      | None => None
                      end
                  | _ => None
                  end
              | _ => None
              end
          | _, _ => None
          end
      | None => None
      end
  | _ => None
  end.

Inductive gen_obs := ObsOk | ObsError | ObsPanic.
Record impl_obs := {
  io_gen : gen_obs; io_stdout_empty : bool; io_compiles : option bool; io_shape : sexp; io_runs : list run_obs;
  io_enums : sexp     (* the enum constants declared in the output: one list of values per enum type *)
}.

Definition dec_impl (l : list sexp) : option impl_obs :=
  match field1 "gen" l, field1 "stdout-empty" l, field1 "compiles" l, field1 "shape" l, field "runs" l with
  | Some (SSym g), Some se, Some (SSym c), Some sh, Some rs =>
      let go := if String.eqb g "ok" then Some ObsOk else if String.eqb g "error" then Some ObsError
                else if String.eqb g "panic" then Some ObsPanic else None in
      let co := if String.eqb c "true" then Some (Some true) else if String.eqb c "false" then Some (Some false)
                else if String.eqb c "na" then Some None else None in
      match go, as_bool se, co, map_opt dec_run rs with
      | Some g', Some se', Some c', Some rs' =>
          Some {| io_gen := g'; io_stdout_empty := se'; io_compiles := c'; io_shape := sh; io_runs := rs';
                  io_enums := match field1 "enums" l with Some e => e | None => SSym "na" end |}
      | _, _, _, _ => None
      end
  | _, _, _, _, _ => None
  end.

(** ** Elaboration of a raw response into a typed response tree (a search for the witness that
    [conforms] then checks; nothing is trusted about it) *)
Section Elab.
  Variable S : schema.

  (** the field selections that apply to an object of concrete type [tn] *)
  Fixpoint reach (fuel : nat) (tn t : name) (sels : list selection) : list (name * name * name * list selection) :=
    match fuel with
    | O => []
    | Datatypes.S f =>
        flat_map (fun s => match s with
                           | SField a n sub => [(sel_key a n, n, t, sub)]
                           | SInline c sub => let c' := inline_cond t c in if subtype S tn c' then reach f tn c' sub else []
                           | SSpread _ c body => if subtype S tn c then reach f tn c body else []
                           end) sels
    end.

  Definition leaf_of_json (j : json) : option leaf :=
    match j with
    | JBool b => Some (LBool b)
    | JNum n => Some (LNum n)
    | JStr s => Some (LStr s)
    | _ => None
    end.

  Fixpoint first_some {A B} (f : A -> option B) (l : list A) : option B :=
    match l with
    | [] => None
    | x :: r => match f x with Some y => Some y | None => first_some f r end
    end.

  Fixpoint elab_val (fuel : nat) (ft : gqltype) (subs : list selection) (j : json) {struct fuel} : option rv :=
    match fuel with
    | O => None
    | Datatypes.S f =>
        match j with
        | JNull => Some RNull
        | _ =>
            match ft with
            | TNonNull ft' => elab_val f ft' subs j
            | TList ft' =>
                match j with
                | JArr l => match mapo (elab_val f ft' subs) l with Some ws => Some (RList ws) | None => None end
                | _ => None
                end
            | TNamed n =>
                if leaf_type S n then match leaf_of_json j with Some l => Some (RLeaf l) | None => None end
                else
                  match j with
                  | JObj kvs =>
                      first_some (fun tn =>
                        let entries := reach f tn n subs in
                        match mapo (fun kv : bytes * json =>
                                      let (k, v) := kv in
                                      match filter (fun e => bytes_eqb (fst (fst (fst e))) k) entries with
                                      | [] => None
                                      | ((_, fn, parent, _) :: _) as es =>
                                          if is_typename fn then
                                            match v with JStr x => Some (k, RLeaf (LStr x)) | _ => None end
                                          else
                                            match field_type S parent fn with
                                            | None => None
                                            | Some ft' =>
                                                match elab_val f ft' (flat_map (fun e => snd e) es) v with
                                                | Some w => Some (k, w)
                                                | None => None
                                                end
                                            end
                                      end) kvs with
                        | Some fs => if conf_sels S tn n subs fs then Some (RObj tn fs) else None
                        | None => None
                        end) (possible S n)
                  | _ => None
                  end
            end
        end
    end.
End Elab.

Fixpoint json_eqb (a b : json) {struct a} : bool :=
  match a, b with
  | JNull, JNull => true
  | JBool x, JBool y => Bool.eqb x y
  | JNum x, JNum y => numv_eqb x y
  | JStr x, JStr y => bytes_eqb x y
  | JArr x, JArr y =>
      (fix go (x y : list json) : bool :=
         match x, y with
         | [], [] => true
         | p :: ps, q :: qs => json_eqb p q && go ps qs
         | _, _ => false
         end) x y
  | JObj x, JObj y =>
      (fix go (x y : list (bytes * json)) : bool :=
         match x, y with
         | [], [] => true
         | (k, p) :: ps, (k', q) :: qs => bytes_eqb k k' && json_eqb p q && go ps qs
         | _, _ => false
         end) x y
  | _, _ => false
  end.

(** ** Comparisons *)
Fixpoint remove_one (x : path * leaf) (l : list (path * leaf)) : option (list (path * leaf)) :=
  match l with
  | [] => None
  | y :: r => if pl_eqb x y then Some r
              else match remove_one x r with Some r' => Some (y :: r') | None => None end
  end.

Fixpoint multiset_eqb (a b : list (path * leaf)) : bool :=
  match a with
  | [] => match b with [] => true | _ => false end
  | x :: r => match remove_one x b with Some b' => multiset_eqb r b' | None => false end
  end.

(** A leaf below a fragment is addressed through the Go field that holds the fragment; when that
    field's name had to be suffixed with underscores (a clash with another member of the struct),
    the label differs from the fragment's own name by those underscores only.  The oracle compares
    leaves modulo trailing underscores of fragment labels. *)
Definition norm_step (s : pstep) : pstep := match s with PFrag f => PFrag (strip_us f) | _ => s end.
Definition norm_leaves (l : list (path * leaf)) : list (path * leaf) := map (fun pl => (map norm_step (fst pl), snd pl)) l.

Definition subset (a b : list (path * leaf)) : bool := forallb (fun x => existsb (pl_eqb x) b) a.
Definition set_eqb (a b : list (path * leaf)) : bool := subset a b && subset b a.

(** s-expression equality up to the order of list elements (shape comparison is informational) *)
Fixpoint sexp_peq (a b : sexp) {struct a} : bool :=
  match a, b with
  | SL x, SL y => Nat.eqb (List.length x) (List.length y) && forallb (fun p => existsb (sexp_peq p) y) x
  | _, _ => sexp_eqb a b
  end.

(** the model's program in the form the harness extracts from the generated source *)
Definition shape_tag (tg : gotag) : sexp :=
  match tg with
  | TagNone => SSym "none"
  | TagDash => SSym "dash"
  | TagKey k => tag "key" [SStr k]
  | TagBoth k => tag "tags" [SStr k]
  end.

Definition shape_step (s : ustep) : sexp :=
  match s with
  | UAlways f => tag "always" [SStr f]
  | USwitch tn oks f => tag "switch" [SStr tn; SL (map SStr (match oks with [] => [[]] | _ => oks end)); SStr f]
  end.

Fixpoint shape_type (t : gotype) : sexp :=
  match t with
  | GString => SSym "string"
  | GInt => SSym "int"
  | GFloat => SSym "float64"
  | GBool => SSym "bool"
  | GIface => SSym "iface"
  | GEmpty => tag "named" [SStr []]
  | GEnum n => tag "enum" [SStr n]
  | GScalar n => tag "named" [SStr n]
  | GPtr t' => tag "ptr" [shape_type t']
  | GSlice t' => tag "slice" [shape_type t']
  | GStruct fs =>
      tag "struct" ((fix go (fs : list (name * gotag * gotype)) : list sexp :=
                       match fs with
                       | [] => []
                       | (n, tg, t') :: r => SL [SStr n; shape_tag tg; shape_type t'] :: go r
                       end) fs)
  | GSel _ _ fs steps =>
      tag "sel" [tag "struct" ((fix go (fs : list (name * gotag * gotype)) : list sexp :=
                                  match fs with
                                  | [] => []
                                  | (n, tg, t') :: r => SL [SStr n; shape_tag tg; shape_type t'] :: go r
                                  end) fs);
                 tag "steps" (map shape_step steps)]
  | GFragRef f => tag "ref" [SStr (frag_type_name f)]
  end.

Definition shape_program (p : program) : sexp :=
  tag "shape" (map (fun d => tag "def" [SStr (td_name d); of_bool (td_forward d); shape_type (td_type d)]) (p_defs p)).

(** ** Evidence classes *)
Fixpoint sel_features (s : selection) : list string :=
  match s with
  | SField a f sub =>
      (if is_typename f then (match a with Some _ => ["aliased-typename"] | None => ["typename"] end) else
         match a with Some _ => ["alias"] | None => [] end) ++ flat_map sel_features sub
  | SInline c sub =>
      (match c with None => ["inline-no-cond"] | Some _ => ["inline-fragment"] end) ++ flat_map sel_features sub
  | SSpread _ _ body => "fragment-spread" :: flat_map sel_features body
  end.

Definition dedup_str (l : list string) : list string :=
  fold_right (fun x acc => if existsb (String.eqb x) acc then acc else x :: acc) [] l.

Fixpoint has_repeated_inline (t : option name) (sels : list selection) : bool :=
  match sels with
  | [] => false
  | SInline c _ :: r =>
      existsb (fun o => match o, c with
                        | SInline (Some x) _, Some y => bytes_eqb x y
                        | SInline None _, None => true
                        | _, _ => false
                        end) r || has_repeated_inline t r
  | _ :: r => has_repeated_inline t r
  end.

Fixpoint sel_repeated (s : selection) : bool :=
  match s with
  | SField _ _ sub => has_repeated_inline None sub || existsb sel_repeated sub
  | SInline _ sub => has_repeated_inline None sub || existsb sel_repeated sub
  | SSpread _ _ body => has_repeated_inline None body || existsb sel_repeated body
  end.

(** a response key selected more than once in one selection set *)
Definition repeats_key (l : list selection) : bool := negb (nodupb (map fst (direct_fields l))).
Fixpoint sel_repeats_key (s : selection) : bool :=
  match s with
  | SField _ _ sub => repeats_key sub || existsb sel_repeats_key sub
  | SInline _ sub => repeats_key sub || existsb sel_repeats_key sub
  | SSpread _ _ body => repeats_key body || existsb sel_repeats_key body
  end.

Fixpoint type_features (S : schema) (t : gqltype) : list string :=
  match t with
  | TNamed n => match lookup_type S n with
                | Some (DEnum _ _) => ["enum"]
                | Some (DUnion _ _) => ["union-field"]
                | Some (DIface _ _) => ["interface-field"]
                | _ => []
                end
  | TList t' => "list" :: type_features S t'
  | TNonNull t' => type_features S t'
  end.

(** wrappers of the types of the selected fields *)
Fixpoint list_depth (t : gqltype) : nat :=
  match t with TNamed _ => O | TList t' => Datatypes.S (list_depth t') | TNonNull t' => list_depth t' end.
Fixpoint has_nullable_item (t : gqltype) (in_list : bool) (nn : bool) : bool :=
  match t with
  | TNamed _ => in_list && negb nn
  | TNonNull t' => has_nullable_item t' in_list true
  | TList t' => has_nullable_item t' true false
  end.
Definition wrap_features (S : schema) (ft : gqltype) : list string :=
  ((match ft with TNonNull _ => ["non-null-field"] | _ => ["nullable-field"] end) ++
   (if Nat.leb 2 (list_depth ft) then ["list-of-list"] else []) ++
   (if has_nullable_item ft false false then ["nullable-list-item"] else []) ++
   type_features S ft)%list.
Fixpoint selected_type_features (S : schema) (fuel : nat) (t : name) (sels : list selection) : list string :=
  match fuel with
  | O => []
  | Datatypes.S f =>
      flat_map (fun s => match s with
                         | SField _ fn sub =>
                             match field_type S t fn with
                             | Some ft => (wrap_features S ft ++ selected_type_features S f (unwrap ft) sub)%list
                             | None => []
                             end
                         | SInline c sub => selected_type_features S f (inline_cond t c) sub
                         | SSpread _ c body => selected_type_features S f c body
                         end) sels
  end.

Definition union_cond (S : schema) (sels : list selection) : bool :=
  (fix go (fuel : nat) (sels : list selection) : bool :=
     match fuel with
     | O => false
     | Datatypes.S f =>
         existsb (fun s => match s with
                           | SField _ _ sub => go f sub
                           | SInline (Some c) sub => match lookup_type S c with Some (DUnion _ _) => true | _ => false end || go f sub
                           | SInline None sub => go f sub
                           | SSpread _ c body => match lookup_type S c with Some (DUnion _ _) => true | _ => false end || go f body
                           end) sels
     end) (Datatypes.S (sels_size sels)) sels.

(** deprecated members of the schema, as the harness declared them *)
Definition dec_pair (s : sexp) : option (name * name) :=
  match s with SL [SStr a; SStr b] => Some (a, b) | _ => None end.
Definition dec_deprecations (l : list sexp) : deprecations :=
  let get k := match field k l with Some xs => match map_opt dec_pair xs with Some ps => ps | None => [] end | None => [] end in
  {| dep_fields := get "fields"; dep_values := get "values" |}.

(** the enum constants of a program, in the form the harness reads them off the generated source *)
Definition enums_sexp (p : program) : sexp :=
  SL (map (fun e : name * list (name * name) => SL (map (fun cv => SStr (snd cv)) (snd e))) (p_enums p)).

(** ** The check *)
Definition decode_fuel : nat := 400.

(** Response keys of one selection set never differ in letter case only (the envelope's clause on
    response keys).  Where this fails, which struct field encoding/json picks for a key depends on
    the ORDER of the fields of the generated struct; the property says nothing there, so the
    decoded leaves are not compared (generator verdict and "compiles" still are): re-ordering the
    fields of the generated structs must not raise an alarm. *)
Definition order_free (d : document) : bool :=
  forallb (fun o => fold_safe (op_sels o)) (d_ops d) && forallb (fun f => fold_safe (fr_sels f)) (d_frags d).

Definition gen_obs_agrees (m : gen_result) (o : gen_obs) : bool :=
  match m, o with
  | GOk _, ObsOk => true
  | GRejected, ObsError => true
  | GError, ObsError => true
  | GPanic, ObsPanic => true
  | _, _ => false
  end.

Definition has_frag_leaf (l : list (path * leaf)) : bool :=
  existsb (fun pl => existsb (fun s => match s with PFrag _ => true | _ => false end) (fst pl)) l.

Definition oracle_key (S : schema) (d : document) (specific : string) : string :=
  if negb (schema_loadable S) then "type-ref-deeper-than-introspection-query"
  else if blank_member S d then "blank-field-name"
  else if excl_decl_clash_s S d then "decl-name-clash"
  else specific.

(** what a Go field holds when its key is absent from the response *)
Definition zero_leaf (l : leaf) : bool :=
  match l with
  | LNull | LEmpty => true
  | LBool b => negb b
  | LStr s => is_nil s
  | LNum (NI z) => Z.eqb z 0
  | LNum (NF _) => false
  end.

(** the position in the response a leaf path stands for (the steps into fragment fields dropped) *)
Definition json_pos (pl : path * leaf) : path * leaf :=
  (filter (fun s => match s with PFrag _ => false | _ => true end) (fst pl), snd pl).

(** the operation as selected in one run *)
Definition run_op (o : opdef) (r : run_obs) : opdef :=
  match ro_eff r with
  | Some d' =>
      match find (fun o' => match op_name o', op_name o with Some a, Some b => bytes_eqb a b | _, _ => false end) (d_ops d') with
      | Some o' => o'
      | None => o
      end
  | None => o
  end.

(** the operation as selected in this run is still inside the envelope (a skipped selection may
    have carried the only __typename of a selection set that applies fragments to an abstract type) *)
Definition run_in_env (S : schema) (o : opdef) (r : run_obs) : bool :=
  match ro_eff r with
  | Some d' =>
      let o' := run_op o r in
      match root_type S o' with
      | Some rt => all_structs S (env_local S (d_frags d')) (sel_fuel (op_sels o')) rt (op_sels o')
      | None => false
      end
  | None => true
  end.

(** oracle for one in-envelope case: the property's claims about the implementation's output.
    With @include / @skip the response is shaped by the operation as selected in that run, every
    selected leaf is decoded with the value sent, and whatever else the decoded value holds (the
    fields of selections left out) is the zero value or the value sent at the same position. *)
Definition oracle_env (S : schema) (d : document) (o : opdef) (io : impl_obs) : option sexp :=
  let fail k := Some (v_oracle_fail (oracle_key S d k) []) in
  match io_gen io with
  | ObsPanic => fail "generator-panic"
  | ObsError => fail "valid-operation-rejected"
  | ObsOk =>
      match io_compiles io with
      | Some true =>
          (fix go (i : nat) (rs : list run_obs) : option sexp :=
             match rs with
             | [] => None
             | r :: rest =>
                 match ro_status r with
                 | RunExecError => Some (v_bad "executor-reported-errors")
                 | RunError => fail "decode-error"
                 | RunPanic => fail "decode-panic"
                 | RunOk =>
                     if negb (run_in_env S o r) then go (Datatypes.S i) rest else
                     let o := run_op o r in
                     match root_type S o, ro_resp r with
                     | Some root, JObj _ =>
                         match elab_val S decode_fuel (TNamed root) (op_sels o) (ro_resp r) with
                         | Some w =>
                             if negb (conforms S o w && json_eqb (json_of w) (ro_resp r)) then
                               Some (v_oracle_fail "response-not-shaped" [of_nat i])
                             else if set_eqb (norm_leaves (ro_leaves r)) (norm_leaves (expected S o w)) then go (Datatypes.S i) rest
                             else if subset (norm_leaves (expected S o w)) (norm_leaves (ro_leaves r)) then
                               match ro_eff r with
                               | Some _ =>
                                   (* a leaf that is not selected in this run: the zero value, or - the struct of a
                                      fragment that was left out is still filled from the keys other selections
                                      brought - the value sent at that position of the response *)
                                   if forallb (fun pl => existsb (pl_eqb pl) (norm_leaves (expected S o w)) || zero_leaf (snd pl) ||
                                                         existsb (fun e => pl_eqb (json_pos pl) (json_pos e)) (norm_leaves (expected S o w)))
                                              (norm_leaves (ro_leaves r))
                                   then go (Datatypes.S i) rest else fail "leaf-not-selected"
                               | None => fail "leaf-not-selected"
                               end
                             else fail "leaf-lost-or-wrong"
                         | None => Some (v_oracle_fail "response-not-shaped" [of_nat i])
                         end
                     | _, _ => Some (v_oracle_fail "response-not-shaped" [of_nat i])
                     end
                 end
             end) O (io_runs io)
      | _ => fail "does-not-compile"
      end
  end.

Definition compare_runs (p : program) (opname : name) (io : impl_obs) : option sexp :=
  (fix go (i : nat) (rs : list run_obs) : option sexp :=
     match rs with
     | [] => None
     | r :: rest =>
         match ro_status r with
         | RunExecError => go (Datatypes.S i) rest
         | st =>
             match decode_op p decode_fuel opname (ro_resp r), st with
             | DOk v, RunOk =>
                 if multiset_eqb (leaves v) (ro_leaves r) then go (Datatypes.S i) rest
                 else Some (v_mismatch "decoded-leaves" [of_nat i])
             | DError, RunError => go (Datatypes.S i) rest
             | DFuel, _ => Some (v_bad "decode-fuel")
             | DUnmodelled, _ => go (Datatypes.S i) rest
             | _, _ => Some (v_mismatch "decode-status" [of_nat i])
             end
         end
     end) O (io_runs io).

Definition check (c : sexp) : sexp :=
  match tagged "case" c with
  | Some l =>
      match field1 "schema" l, field1 "doc" l, field1 "opname" l, field "impl" l with
      | Some ss, Some ds, Some (SStr opname), Some il =>
          match dec_schema ss, dec_doc ds, dec_impl il with
          | Some Sch, Some None, Some io =>
              (* syntax error: must be reported as an error, no output *)
              match io_gen io with
              | ObsError => if io_stdout_empty io then v_ok ["invalid"; "syntax-error"]
                            else v_oracle_fail "output-for-invalid-operation" []
              | _ => v_oracle_fail "invalid-operation-accepted" []
              end
          | Some Sch, Some (Some d0), Some io =>
              let valid := doc_valid Sch d0 in
              (* spreads filled in from the definitions when that is possible (always, for valid documents) *)
              let d := match link_doc d0 with Some d' => d' | None => d0 end in
              let is_linked := match link_doc d0 with Some _ => true | None => false end in
              if valid && negb is_linked then v_bad "valid-document-does-not-link"
              else if valid && decl_safe Sch d && excl_decl_clash Sch d then v_bad "decl-safe-does-not-exclude-clash"
              else if valid && env Sch d && schema_loadable Sch && no_sel_names Sch d && no_digit_types Sch && lex_names Sch d
                      && excl_decl_clash_s Sch d then v_bad "decl-residue-does-not-exclude-clash"
              else
              let D := match field1 "deprecations" l with Some (SL dl) => dec_deprecations dl | _ => {| dep_fields := []; dep_values := [] |} end in
              let m := generate_real D Sch valid d in
              let in_env := valid && env Sch d in
              let oracle :=
                if negb valid then
                  match io_gen io with
                  | ObsError => if io_stdout_empty io then None else Some (v_oracle_fail "output-for-invalid-operation" [])
                  | _ => Some (v_oracle_fail "invalid-operation-accepted" [])
                  end
                else if in_env then
                  match find_op d opname with
                  | Some o => oracle_env Sch d o io
                  | None => Some (v_bad "operation-not-found")
                  end
                else None in
              match oracle with
              | Some v => v
              | None =>
                  match m with
                  | GOutOfFuel => v_bad "generator-model-out-of-fuel"
                  | _ =>
                      if negb (gen_obs_agrees m (io_gen io)) then
                        v_mismatch "generator-verdict" [SSym (match m with GOk _ => "model-ok" | GRejected => "model-rejected"
                                                                     | GError => "model-error" | GPanic => "model-panic"
                                                                     | GOutOfFuel => "model-fuel" end)]
                      else
                        match m with
                        | GOk p =>
                            let wf := wf_program p in
                            match io_compiles io with
                            | Some cb =>
                                if negb (Bool.eqb wf cb) then v_mismatch "compiles" [of_bool wf]
                                else if match io_enums io with SSym _ => false | e => negb (sexp_peq (enums_sexp p) e) end
                                     then v_mismatch "enum-constants" []
                                else
                                  match (if cb && order_free d then compare_runs p opname io else None) with
                                  | Some v => v
                                  | None =>
                                      let shape_same := sexp_peq (shape_program p) (io_shape io) in
                                      let feats := dedup_str
                                        (flat_map (fun o => flat_map sel_features (op_sels o)) (d_ops d) ++
                                         flat_map (fun o => match root_type Sch o with
                                                            | Some r => selected_type_features Sch (Datatypes.S (sels_size (op_sels o))) r (op_sels o)
                                                            | None => []
                                                            end) (d_ops d)) in
                                      let exp_frag :=
                                        match find_op d opname, in_env with
                                        | Some o, true =>
                                            existsb (fun r => let o := run_op o r in
                                                              match root_type Sch o with
                                                              | Some root =>
                                                                  match elab_val Sch decode_fuel (TNamed root) (op_sels o) (ro_resp r) with
                                                                  | Some w => has_frag_leaf (expected Sch o w)
                                                                  | None => false
                                                                  end
                                                              | None => false
                                                              end) (io_runs io)
                                        | _, _ => false
                                        end in
                                      v_ok (["valid"; "generated"] ++
                                            (if in_env then ["in-envelope"] else ["outside-envelope"]) ++
                                            (if decl_safe Sch d then ["decl-safe"] else ["decl-unsafe-by-names"]) ++
                                            (if no_sel_names Sch d && no_digit_types Sch && lex_names Sch d then ["decl-residue-free"] else ["decl-residue"]) ++
                                            (if excl_member_clash Sch d then ["member-names-suffixed"] else []) ++
                                            (if excl_decl_clash Sch d then ["declaration-names-suffixed"] else []) ++
                                            (match dep_fields D with [] => [] | _ => ["deprecated-fields"] end) ++
                                            (match dep_values D with [] => [] | _ => ["deprecated-enum-values"] end) ++
                                            (if existsb (fun t => Nat.eqb (wrappers t) typeref_depth) (field_types Sch) then ["seven-wrappers"] else []) ++
                                            (if cb then ["compiles"] else ["does-not-compile"]) ++
                                            (if cb && negb (order_free d) then ["decode-not-compared-field-order-dependent"] else []) ++
                                            (if shape_same then ["shape-same"] else ["shape-differs"]) ++
                                            (if p_json p then ["typename-switch"] else []) ++
                                            (if existsb (fun o => existsb sel_repeated (op_sels o) || has_repeated_inline None (op_sels o)) (d_ops d)
                                             then ["merged-inline-fragments"] else []) ++
                                            (if existsb (fun o => union_cond Sch (op_sels o)) (d_ops d) then ["union-condition"] else []) ++
                                            (if existsb (fun o => repeats_key (op_sels o) || existsb sel_repeats_key (op_sels o)) (d_ops d)
                                             then ["repeated-key"] else []) ++
                                            (match p_enums p with [] => [] | _ => ["enum"] end) ++
                                            feats ++
                                            (if exp_frag then ["nontrivial"] else []))
                                  end
                            | None => v_bad "no-compile-observation"
                            end
                        | GRejected => v_ok ["invalid"; "rejected"]
                        | GError => v_ok (["valid"; "generator-error"; (if in_env then "in-envelope" else "outside-envelope")] ++
                                          (if schema_loadable Sch then [] else ["load-schema-error"]))
                        | GPanic => v_ok ["valid"; "generator-panic"]
                        | GOutOfFuel => v_bad "fuel"
                        end
                  end
              end
          | _, _, _ => v_bad "decode"
          end
      | _, _, _, _ => v_bad "fields"
      end
  | None => v_bad "shape"
  end.
