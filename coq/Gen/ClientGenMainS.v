(** * Gen/ClientGenMainS.v — C20: the main induction over the generator of the current tree
    ([gen_named_s]: three member maps, names made unique by [assign_names], pre-assigned enum names):
    it accepts every selection set of the envelope and every type it returns is well formed and
    decodes conforming responses exactly - with no hypothesis about clashing member names. *)
From Coq Require Import List NArith ZArith Bool String Lia Permutation.
From ApiFu Require Import Base.Sexp Gen.GoTypes Gen.ClientGenModel Gen.DecodeModel Gen.ClientGenSpec
     Gen.ClientGenLemmas Gen.DecodeLemmas Gen.ClientGenProofs Gen.ClientGenGood Gen.ClientGenFinal
     Gen.ClientGenDecode Gen.ClientGenMain Gen.ClientGenDeclSafe Gen.ClientGenFresh Gen.ClientGenAgree
     Gen.ClientGenGoodS Gen.ClientGenFinalS Gen.ClientGenDecodeS Gen.ClientGenNamesS.
Import ListNotations.
Open Scope list_scope.
Open Scope nat_scope.

(** ** the generator accepts *)
Section GenTotalS.
  Variable S : schema.
  Variable frs : list fragdef.
  Hypothesis HS : schema_ok S = true.
  Let fragTypes := map (fun f => (fr_name f, fr_cond f)) frs.
  Variable en : name -> name.
  Variable cn : name -> name -> name.
  Notation gen := (gen_named_s S fragTypes en cn).
  Notation EL := (env_local S frs).

  Lemma gen_leaf fuel n sels st : leaf_type S n = true ->
    exists core st', gen (Datatypes.S fuel) n sels st = Ok (core, true, st').
  Proof.
    unfold leaf_type. simpl. unfold gen_named_body_s. destruct (builtin_of n) as [b|].
    - intros _. eexists. eexists. reflexivity.
    - destruct (lookup_type S n) as [[? ? ?|? ?|? ?|? vs|?]|]; try discriminate; intros _; eexists; eexists; reflexivity.
  Qed.

  Lemma has_fragment_In sels s : In s sels -> (match s with SField _ _ _ => false | _ => true end) = true -> has_fragment sels = true.
  Proof. intros HI Hs. unfold has_fragment. apply existsb_exists. exists s. split; assumption. Qed.

  Lemma typename_guard t d sels s :
    EL t sels = true -> lookup_type S t = Some d -> In s sels ->
    (match s with SField _ _ _ => false | _ => true end) = true ->
    negb (match first_typename sels with Some _ => true | None => false end) && negb (is_object d) = false.
  Proof.
    intros He Hl HI Hs. apply env_local_elim in He as [_ [_ [_ [Ht _]]]].
    destruct (Ht (has_fragment_In _ _ HI Hs)) as [Ho|[k Hk]].
    - unfold is_object_type in Ho. rewrite Hl in Ho. destruct d; try discriminate. simpl. apply andb_false_r.
    - rewrite Hk. reflexivity.
  Qed.

  Lemma gen_total_s : forall fuel n sels st f',
    all_structs S EL f' n sels = true -> sels_size sels < fuel ->
    exists core st', gen fuel n sels st = Ok (core, true, st').
  Proof.
    induction fuel as [|fuel IH]; intros n sels st f' Ha Hsz; [lia|].
    destruct f' as [|f']; [discriminate|]. rewrite all_structs_S in Ha. apply andb_true_iff in Ha as [He Hall].
    pose proof (env_local_elim _ _ _ _ He) as [Hc [_ [_ [_ Hloc]]]].
    destruct (composite_lookup S HS n Hc) as [d [Hl [Hb Hd]]].
    simpl. unfold gen_named_body_s. rewrite Hb, Hl.
    assert (Hcomp : exists r, gen_composite_s S fragTypes (gen fuel) n d sels st = Ok r /\ snd (fst r) = true).
    { unfold gen_composite_s.
      set (hasTn := match first_typename sels with Some _ => true | None => false end).
      assert (Hloop : forall rest a, incl rest sels ->
                exists a', loop_s S fragTypes (gen fuel) n d hasTn sels rest a = Ok a').
      { induction rest as [|s rest IHr]; intros a Hin; [exists a; reflexivity|].
        simpl.
        assert (Hs : In s sels) by (apply Hin; left; reflexivity).
        assert (Hstep : exists a', step_s S fragTypes (gen fuel) n d hasTn sels s a = Ok a').
        { destruct a as [[[[fields conds] done] fdone] st0]. unfold step_s.
          pose proof (Hloc s Hs) as Hsl. rewrite forallb_forall in Hall. pose proof (Hall s Hs) as Has.
          destruct s as [al f sub|c sub|f c body].
          - (* field *)
            destruct (mem (sel_key al f) fdone); [eexists; reflexivity|].
            simpl in Hsl. destruct (is_typename f) eqn:Etn; [eexists; reflexivity|].
            destruct (field_type S n f) as [ft|] eqn:Eft; [|discriminate].
            destruct (field_type_lookup _ _ _ _ Eft) as [d' [fs [Hl' [Hassoc Hd']]]].
            rewrite Hl in Hl'. inversion Hl'; subst d'.
            assert (Hgt : exists g st', gen_type (gen fuel) ft (merged_field (sel_key al f) sels) st0 = Ok (g, st')).
            { unfold gen_type.
              destruct (composite S (unwrap ft)) eqn:Ecomp.
              - destruct (IH (unwrap ft) (merged_field (sel_key al f) sels) st0 f' Has) as [core [st' Hg]].
                + pose proof (merged_field_size_lt (sel_key al f) sels al f sub Hs eq_refl). lia.
                + rewrite Hg. eexists. eexists. reflexivity.
              - apply andb_true_iff in Hsl as [Hnil Hleaf].
                destruct fuel as [|fuel']; [pose proof (sels_size_In _ _ Hs) as Hle; rewrite sel_size_field in Hle; lia|].
                destruct (gen_leaf fuel' (unwrap ft) (merged_field (sel_key al f) sels) st0 Hleaf) as [core [st' Hg]].
                rewrite Hg. eexists. eexists. reflexivity. }
            destruct Hgt as [g [st' Hg]].
            destruct Hd' as [[n' [ifs Ed]]|[n' Ed]]; subst d; rewrite Hassoc, Hg; eexists; reflexivity.
          - (* inline fragment *)
            unfold hasTn. rewrite (typename_guard n d sels _ He Hl Hs eq_refl).
            simpl in Hsl. apply andb_true_iff in Hsl as [Hcc _].
            assert (Hex : match c with None => false | Some c' => negb (named_exists S c') end = false).
            { destruct c as [c'|]; [|reflexivity]. simpl in Hcc. unfold named_exists.
              destruct (composite_lookup S HS c' Hcc) as [dc [Hlc [Hbc _]]]. rewrite Hbc, Hlc. reflexivity. }
            rewrite Hex. simpl negb. simpl andb.
            destruct (mem (inline_cond n c) done); [eexists; reflexivity|].
            simpl in Has.
            destruct (IH (inline_cond n c) (merged_inline n (inline_cond n c) sels) st0 f' Has) as [core [st' Hg]].
            + pose proof (merged_size_lt n (inline_cond n c) sels c sub Hs eq_refl). lia.
            + unfold gen_type. simpl unwrap. rewrite Hg. eexists. reflexivity.
          - (* spread *)
            unfold hasTn. rewrite (typename_guard n d sels _ He Hl Hs eq_refl). eexists. reflexivity. }
        destruct Hstep as [a' Ha']. rewrite Ha'. apply IHr. intros x Hx. apply Hin. right. exact Hx. }
      destruct (Hloop sels ([], [], [], [], st) (incl_refl _)) as [[[[[fields conds] done] fdone] st1] Hl1].
      rewrite Hl1. destruct conds; eexists; (split; [reflexivity | reflexivity]). }
    destruct Hcomp as [[[core b] st'] [Hr Hb']]. simpl in Hb'. subst b.
    destruct d; try contradiction; exists core, st'; exact Hr.
  Qed.
End GenTotalS.

(** well formed, referring to declared enums / fragments only, and printable ([format.Source]) *)
Definition TyOKS (frs : list fragdef) (st : gstate) (t : gotype) : Prop := TyOKC frs st t /\ type_syntax_ok t = true.

Lemma TyOKS_ext frs a b t : ExtC a b -> TyOKS frs a t -> TyOKS frs b t.
Proof. intros He [H1 H2]. split; [apply (TyOKC_ext frs a b t He H1) | exact H2]. Qed.
Lemma TyOKS_string frs st : TyOKS frs st GString.
Proof. split; [apply TyOKC_string | reflexivity]. Qed.
Lemma TyOKS_fragref frs st f : In f (map fr_name frs) -> TyOKS frs st (GPtr (GFragRef f)).
Proof. intros H. split; [apply TyOKC_fragref; exact H | reflexivity]. Qed.
Lemma TyOKS_ptr frs st t : TyOKS frs st t -> TyOKS frs st (GPtr t).
Proof. intros H. exact H. Qed.
Lemma TyOKS_wrap frs st ft core : TyOKS frs st core -> TyOKS frs st (wrap ft false core true).
Proof. intros [H1 H2]. split; [apply TyOKC_wrap; exact H1 | rewrite syntax_wrap; exact H2]. Qed.

Lemma fs_syntax_f nm fields :
  (forall k T dash, In (k, (T, dash)) fields -> type_syntax_ok T = true) ->
  forallb (fun f : name * gotag * gotype => match snd (fst f) with TagBoth _ => false | _ => true end && type_syntax_ok (snd f))
          (sort_fields (map (mk_field_f nm) fields)) = true.
Proof.
  intros H. apply forallb_forall. intros fld Hf. apply In_fs_f in Hf as [[k [T dash]] [Hi E]]. subst fld.
  unfold mk_field_f. cbn [fst snd]. rewrite (H _ _ _ Hi), andb_true_r.
  destruct dash; [reflexivity|]. destruct (negb (equal_fold (nm k) (untk k))); reflexivity.
Qed.

(** ** the main induction *)
Section MainS.
  Variable S : schema.
  Variable frs : list fragdef.
  Hypothesis HS : schema_ok S = true.
  Let fragTypes := map (fun f => (fr_name f, fr_cond f)) frs.
  Variable en : name -> name.
  Variable cn : name -> name -> name.
  (** the Go name of an enum type is not a keyword *)
  Hypothesis Hen : forall n n' vs, lookup_type S n = Some (DEnum n' vs) -> go_keyword (en n) = false.
  Notation gen := (gen_named_s S fragTypes en cn).

  (** the program declares, for every fragment, the type the generator makes of its definition *)
  Definition frags_gen_s (P : program) : Prop :=
    forall fr, In fr frs ->
      exists core fuel st st',
        gen fuel (fr_cond fr) (fr_sels fr) st = Ok (core, true, st') /\
        lookup_def P (frag_type_name (fr_name fr)) = Some (type_def (frag_type_name (fr_name fr)) core) /\
        type_syntax_ok core = true.
  Notation GoodS := (GoodDP S frags_gen_s).

  (** the state grows, and only by Go names of enum types of the schema *)
  Definition EnumName (x : name) : Prop := exists n n' vs, lookup_type S n = Some (DEnum n' vs) /\ x = en n.
  Definition ExtS (st st' : gstate) : Prop :=
    ExtC st st' /\ (forall x, In x (enums_of st') -> In x (enums_of st) \/ EnumName x).
  Lemma ExtS_refl st : ExtS st st.
  Proof. split; [apply ExtC_refl | intros x H; left; exact H]. Qed.
  Lemma ExtS_trans a b c : ExtS a b -> ExtS b c -> ExtS a c.
  Proof.
    intros [A1 A2] [B1 B2]. split; [apply (ExtC_trans _ _ _ A1 B1)|].
    intros x Hx. destruct (B2 x Hx) as [H|H]; [apply (A2 x H) | right; exact H].
  Qed.
  Lemma TyOKS_extS a b t : ExtS a b -> TyOKS frs a t -> TyOKS frs b t.
  Proof. intros [He _]. apply (TyOKS_ext frs a b t He). Qed.

  (** scalars and enums *)
  Lemma gen_leaf_good_s fuel mm st core b st' :
    leaf_type S mm = true -> composite S mm = false ->
    gen fuel mm [] st = Ok (core, b, st') ->
    b = true /\ ExtS st st' /\ TyOKS frs st' core /\ GoodS mm [] core.
  Proof.
    intros Hleaf Hncomp Hg. destruct fuel as [|fuel]; [discriminate|]. simpl in Hg. unfold gen_named_body_s in Hg.
    assert (Hobjpart : forall core0, forall P : program, forall tn rfs, objc S [] mm tn rfs = true ->
               decodes P core0 (json_of (RObj tn rfs)) (obje S [] mm tn rfs)).
    { intros core0 P tn rfs H. unfold objc in H. rewrite Hncomp in H. discriminate. }
    unfold leaf_type in Hleaf.
    destruct (builtin_of mm) as [bi|] eqn:Eb.
    - inversion Hg; subst core b st'. split; [reflexivity|]. split; [apply ExtS_refl|]. split.
      { split; [destruct bi; (split; [reflexivity|]; split; intros x []) | destruct bi; reflexivity]. }
      intros P HP Hsyn. split; [|apply Hobjpart].
      intros l Hl. unfold leafc, leaf_conf in Hl. rewrite Eb in Hl. rewrite andb_true_r in Hl.
      destruct bi; destruct l as [| |bb|s|[z|n]]; try discriminate;
        (split; [discriminate|]; eapply (decodes_intro P _ _ _ 1); [reflexivity | intros pl; simpl; reflexivity]).
    - destruct (lookup_type S mm) as [[n ifs fs|n fs|n ms|n vs|n]|] eqn:El; try discriminate.
      + inversion Hg; subst core b st'. split; [reflexivity|]. split.
        { split.
          - unfold ExtC, enums_of, emit_enum_s. destruct (assoc (en mm) (g_enums st)); [apply incl_refl|]. simpl.
            rewrite map_app. apply incl_appl. apply incl_refl.
          - intros x. unfold enums_of, emit_enum_s. destruct (assoc (en mm) (g_enums st)); [intros H; left; exact H|]. simpl.
            rewrite map_app. intros H. apply in_app_iff in H as [H|[H|[]]]; [left; exact H|]. right. exists mm, n, vs. split; [exact El | symmetry; exact H]. }
        split.
        { split; [|simpl; rewrite (Hen mm n vs El); reflexivity].
          split; [reflexivity|]. split; [|intros x []]. intros x [Hx|[]]. subst x.
          unfold enums_of, emit_enum_s. destruct (assoc (en mm) (g_enums st)) eqn:Ea.
          - apply (assoc_Some_In_keys _ _ _ Ea).
          - simpl. rewrite map_app. apply in_app_iff. right. left. reflexivity. }
        intros P HP Hsyn. split; [|apply Hobjpart].
        intros l Hl. unfold leafc, leaf_conf in Hl. rewrite Eb, El in Hl. rewrite andb_true_r in Hl.
        destruct l as [| |bb|s|nn]; try discriminate.
        split; [discriminate|]. eapply (decodes_intro P _ _ _ 1); [reflexivity | intros pl; simpl; reflexivity].
      + exfalso. apply (schema_no_scalar S HS _ _ El).
  Qed.

  Lemma composite_not_leaf_s mm : composite S mm = true -> forall sub l, leafc S sub mm l = false.
  Proof.
    intros Hc sub l. destruct (composite_lookup S HS mm Hc) as [d [Hl [Hb Hd]]].
    unfold leafc, leaf_conf. rewrite Hb, Hl. destruct d; try contradiction; reflexivity.
  Qed.

  Lemma find_frag_In_s f fr : find_frag frs f = Some fr -> In fr frs /\ fr_name fr = f.
  Proof. unfold find_frag. intros H. apply find_some in H as [H1 H2]. apply bytes_eqb_true in H2. split; assumption. Qed.

  (** the main induction: every successful call of the generator on an admissible selection set
      returns a good type *)
  Lemma gen_good_s : forall N sels, sels_size sels < N ->
    forall fuel mm st core b st' f',
      all_structs S (env_local S frs) f' mm sels = true ->
      gen fuel mm sels st = Ok (core, b, st') ->
      b = true /\ ExtS st st' /\ TyOKS frs st' core /\ GoodS mm sels core /\ struct_like core.
  Proof.
    induction N as [|N IH]; intros sels Hsz fuel mm st core b st' f' Ha Hg; [lia|].
    destruct fuel as [|fuel]; [discriminate|]. destruct f' as [|f']; [discriminate|].
    rewrite all_structs_S in Ha. apply andb_true_iff in Ha as [Hel Hall].
    pose proof (env_local_elim _ _ _ _ Hel) as [Hc [Hkeys [Hnd [Htn Hloc]]]].
    destruct (composite_lookup S HS mm Hc) as [d [Hl [Hb Hd]]].
    simpl in Hg. unfold gen_named_body_s in Hg. rewrite Hb, Hl in Hg.
    assert (Hgc : gen_composite_s S fragTypes (gen fuel) mm d sels st = Ok (core, b, st')).
    { destruct d; try contradiction; exact Hg. }
    clear Hg. unfold gen_composite_s in Hgc.
    set (hasTn := match first_typename sels with Some _ => true | None => false end) in *.
    destruct (loop_s S fragTypes (gen fuel) mm d hasTn sels sels ([], [], [], [], st)) as [[[[[fields conds] done] fdone] st1]| | |] eqn:Eloop; try discriminate.
    assert (Hsamef : forall a f sub a2 f2 sub2, In (SField a f sub) sels -> In (SField a2 f2 sub2) sels ->
                                                sel_key a f = sel_key a2 f2 -> f = f2).
    { intros a f sub a2 f2 sub2 H1 H2 E.
      assert (D1 : In (sel_key a f, f) (direct_fields sels)).
      { unfold direct_fields. apply in_flat_map. exists (SField a f sub). split; [exact H1 | left; reflexivity]. }
      assert (D2 : In (sel_key a2 f2, f2) (direct_fields sels)).
      { unfold direct_fields. apply in_flat_map. exists (SField a2 f2 sub2). split; [exact H2 | left; reflexivity]. }
      destruct (Hnd _ _ _ _ D1 D2) as [_ Ef]; [rewrite E; reflexivity | exact Ef]. }
    (* the recursive calls *)
    assert (Hrec : forall mm' sub st0 core0 b0 st0',
               ClientGenGoodS.sub_call S mm sels mm' sub -> gen fuel mm' sub st0 = Ok (core0, b0, st0') ->
               b0 = true /\ ExtS st0 st0' /\ TyOKS frs st0' core0 /\ GoodS mm' sub core0).
    { intros mm' sub st0 core0 b0 st0' Hsc Hg0. rewrite forallb_forall in Hall.
      destruct Hsc as [[a [f [sub1 [Hs [Htnf [Esub [ft [Eft Eu]]]]]]]]|[c [sub0 [Hs [Emm Esub]]]]].
      - pose proof (Hall _ Hs) as Has. cbv beta iota in Has. rewrite Htnf, Eft, Eu in Has.
        pose proof (Hloc _ Hs) as Hsl. simpl in Hsl. rewrite Htnf, Eft, Eu in Hsl.
        destruct (composite S mm') eqn:Ecomp.
        + rewrite <- Esub in Has.
          destruct (IH sub) with (fuel := fuel) (mm := mm') (st := st0) (core := core0) (b := b0) (st' := st0') (f' := f')
            as (H1 & H2 & H3 & H4 & _); try assumption.
          * rewrite Esub. pose proof (merged_field_size_lt (sel_key a f) sels a f sub1 Hs eq_refl). lia.
          * split; [exact H1|]. split; [exact H2|]. split; [exact H3 | exact H4].
        + (* a leaf field: every selection of its key has no sub-selection *)
          apply andb_true_iff in Hsl as [Hnil Hleaf].
          assert (Esn : sub = []).
          { rewrite Esub. apply merged_field_nil. intros a2 f2 sub2 Hs2 Ek.
            assert (Ef2 : f2 = f) by (apply (Hsamef a2 f2 sub2 a f sub1 Hs2 Hs); exact Ek). subst f2.
            pose proof (Hloc _ Hs2) as Hsl2. simpl in Hsl2. rewrite Htnf, Eft, Eu, Ecomp in Hsl2.
            apply andb_true_iff in Hsl2 as [Hn2 _]. destruct sub2; [reflexivity | discriminate]. }
          subst sub. rewrite Esn in Hg0 |- *.
          apply (gen_leaf_good_s fuel mm' st0 core0 b0 st0' Hleaf Ecomp Hg0).
      - pose proof (Hall _ Hs) as Has. cbv beta iota zeta in Has. rewrite <- Emm, <- Esub in Has.
        destruct (IH sub) with (fuel := fuel) (mm := mm') (st := st0) (core := core0) (b := b0) (st' := st0') (f' := f')
          as (H1 & H2 & H3 & H4 & _); try assumption.
        + rewrite Esub. pose proof (merged_size_lt mm mm' sels c sub0 Hs (eq_sym Emm)). lia.
        + split; [exact H1|]. split; [exact H2|]. split; [exact H3 | exact H4]. }
    assert (Hspreads : forall f c body, In (SSpread f c body) sels -> In f (map fr_name frs)).
    { intros f c body Hs. pose proof (Hloc _ Hs) as Hsl. simpl in Hsl. apply andb_true_iff in Hsl as [_ Hsl].
      destruct (find_frag frs f) as [fr|] eqn:Ef; [|discriminate]. destruct (find_frag_In_s _ _ Ef) as [H1 H2].
      rewrite <- H2. apply in_map. exact H1. }
    pose proof (ClientGenGoodS.loop_inv S frs (GoodS) (TyOKS frs) ExtS ExtS_refl ExtS_trans TyOKS_extS (TyOKS_string frs)
                         (TyOKS_fragref frs) (TyOKS_ptr frs) (TyOKS_wrap frs) (gen fuel) mm d sels hasTn Hrec Hl Hspreads Hsamef Hloc
                         st sels [] ([], [], [], [], st) (fields, conds, done, fdone, st1) eq_refl
                         (ClientGenGoodS.inv_init S frs (GoodS) (TyOKS frs) ExtS ExtS_refl mm sels st) Eloop) as HInv.
    unfold ClientGenGoodS.Inv in HInv. destruct HInv as (I1 & I2 & I3 & I4 & I5 & I8 & I6 & I7).
    assert (F3 : forall k T dash, In (k, (T, dash)) fields -> entry_src S (GoodS) mm sels sels k T dash) by (intros k T dash H; apply (I3 _ _ _ H)).
    assert (F3' : forall k T dash, In (k, (T, dash)) fields -> TyOKS frs st1 T) by (intros k T dash H; apply (I3 _ _ _ H)).
    assert (F4 : forall s, In s sels -> entry_cov S (GoodS) mm sels fields s) by (intros s H; apply (I4 _ H)).
    assert (F5 : forall s, In s sels -> cond_cov frs mm conds s) by (intros s H; apply (I4 _ H)).
    set (tnKey := match first_typename sels with Some k => k | None => typename_name end) in *.
    assert (Hkind : forall k T dash, In (k, (T, dash)) fields -> kind_of k = 0%N \/ kind_of k = 1%N \/ kind_of k = 2%N).
    { intros k T dash H. destruct (F3 _ _ _ H) as [[_ [a0 [f0 [s0 [_ [E _]]]]]]|[[_ [c0 [s0 [_ [E _]]]]]|[_ [f0 [c0 [b0 [_ [E _]]]]]]]]; subst k;
        [left | right; left | right; right]; reflexivity. }
    set (names := assign_names fields) in *.
    set (nm := gname names).
    assert (Hnm : forall k1 T1 d1 k2 T2 d2, In (k1, (T1, d1)) fields -> In (k2, (T2, d2)) fields -> nm k1 = nm k2 -> k1 = k2)
      by (apply (gname_inj fields I1 Hkind)).
    assert (Hext : forall k T dash, In (k, (T, dash)) fields -> exists us, nm k = field_name (untk k) ++ us /\ all_us us = true)
      by (apply (gname_ext fields I1 Hkind)).
    assert (Efs : sort_fields (map (mk_field_s names) fields) = sort_fields (map (mk_field_f nm) fields))
      by (f_equal; apply map_ext; intros e; apply mk_field_s_f).
    rewrite Efs in Hgc.
    change (match assoc (tk 0%N tnKey) names with Some x => x | None => field_name tnKey end) with (nm (tk 0%N tnKey)) in Hgc.
    rewrite mk_steps_s_f in Hgc. fold nm in Hgc.
    set (fs := sort_fields (map (mk_field_f nm) fields)) in *.
    (* the result *)
    assert (Hres : exists idx st2,
               core = match conds with [] => GStruct fs | _ :: _ => GSel mm idx fs (mk_steps_f S nm mm d (nm (tk 0%N tnKey)) conds) end /\
               b = true /\ st' = st2 /\ enums_of st2 = enums_of st1).
    { destruct conds as [|c0 cr]; inversion Hgc as [[Hcore Hbb Hst]].
      - exists 0%N, st1. subst core b st'. split; [reflexivity|]. split; [reflexivity|]. split; reflexivity.
      - exists (g_count st1), {| g_enums := g_enums st1; g_count := (g_count st1 + 1)%N; g_json := true |}.
        subst core b st'. split; [reflexivity|]. split; [reflexivity|]. split; reflexivity. }
    destruct Hres as [idx [st2 [Ecore [Eb [Est Een]]]]]. subst b st'.
    split; [reflexivity|]. split; [destruct I7 as [I7a I7b]; split; [unfold ExtC; rewrite Een; exact I7a | rewrite Een; exact I7b]|]. split.
    { (* well-formedness *)
      unfold TyOKS, TyOKC. rewrite Een. rewrite Ecore. split; [split; [|split]|].
      - apply (ClientGenFinalS.final_wf_shape S frs HS (GoodS) mm d sels fields conds I1 F4 I6 Hl nm Hnm Hloc Htn idx).
        intros k T dash H. apply (F3' _ _ _ H).
      - apply (ClientGenFinalS.final_refs S mm d sels fields conds nm enum_refs (enums_of st1) idx); [reflexivity | reflexivity|].
        intros k T dash H. apply (F3' _ _ _ H).
      - apply (ClientGenFinalS.final_refs S mm d sels fields conds nm frag_refs (map fr_name frs) idx); [reflexivity | reflexivity|].
        intros k T dash H. apply (F3' _ _ _ H).
      - assert (Hsy : forall k T dash, In (k, (T, dash)) fields -> type_syntax_ok T = true) by (intros k T dash H; apply (F3' _ _ _ H)).
        destruct conds; cbn [type_syntax_ok]; rewrite syntax_fields; apply (fs_syntax_f nm fields Hsy). }
    split.
    { (* decoding *)
      intros P HP Hsyn. split.
      - intros l Hl'. rewrite (composite_not_leaf_s mm Hc) in Hl'. discriminate.
      - intros tn rfs Hconf. rewrite Ecore in *.
        apply (ClientGenDecodeS.composite_decodes S frs HS mm d sels fields conds frags_gen_s I1 F3 F4 F5 I6 Hl nm Hnm Hext Hloc Htn Hnd Hkeys idx P HP Hsyn); [|exact Hconf].
        (* spreads: the declared fragment type decodes by the induction hypothesis *)
        intros F c body Hs tn0 rfs0 Hc0.
        pose proof (Hloc _ Hs) as Hsl. simpl in Hsl. apply andb_true_iff in Hsl as [_ Hsl].
        destruct (find_frag frs F) as [fr|] eqn:Ef; [|discriminate]. apply andb_true_iff in Hsl as [Ec Eb].
        apply bytes_eqb_true in Ec. apply sels_eqb_eq in Eb. destruct (find_frag_In_s _ _ Ef) as [Hfr En].
        destruct (HP fr Hfr) as [coreF [fuelF [stF [stF' [HgF [HlF HsF]]]]]].
        rewrite Ec, Eb in HgF. rewrite En in HlF.
        rewrite forallb_forall in Hall. pose proof (Hall _ Hs) as Has. cbv beta iota in Has.
        destruct (IH body) with (fuel := fuelF) (mm := c) (st := stF) (core := coreF) (b := true) (st' := stF') (f' := f')
          as (_ & _ & _ & HgoodF & HslF); try assumption.
        { pose proof (sels_size_In _ _ Hs) as Hle. rewrite sel_size_spread in Hle. lia. }
        destruct (HgoodF P HP HsF) as [_ HobjF]. destruct (HobjF tn0 rfs0 Hc0) as [k [v [Hdv Hlv]]].
        exists (Datatypes.S k), v. split; [|exact Hlv]. intros [|fu] Hfu; [lia|].
        rewrite decode_S. unfold decode_body. rewrite HlF. rewrite (decode_def_struct_like _ _ _ _ HslF). apply Hdv. lia. }
    rewrite Ecore. destruct conds; [left; eexists; reflexivity | right; do 4 eexists; reflexivity].
  Qed.
End MainS.

(** ** all definitions of a document *)
Section ProcessS.
  Variable S : schema.
  Variable frs : list fragdef.
  Hypothesis HS : schema_ok S = true.
  Let fragTypes := map (fun f => (fr_name f, fr_cond f)) frs.
  Variable en : name -> name.
  Variable cn : name -> name -> name.
  Hypothesis Hen : forall n n' vs, lookup_type S n = Some (DEnum n' vs) -> go_keyword (en n) = false.
  Notation gen := (gen_named_s S fragTypes en cn).
  Variable fuel : nat.

  Definition def_ok_s (def : option name * list selection * option name) : Prop :=
    exists r dn, fst (fst def) = Some r /\ snd def = Some dn /\
                 all_structs S (env_local S frs) (sel_fuel (snd (fst def))) r (snd (fst def)) = true /\
                 sels_size (snd (fst def)) < fuel.

  Definition def_res_s (st' : gstate) (def : option name * list selection * option name) (td : typedefn) : Prop :=
    exists r dn core st0 st0',
      fst (fst def) = Some r /\ snd def = Some dn /\
      gen fuel r (snd (fst def)) st0 = Ok (core, true, st0') /\ td = type_def dn core /\
      ExtS S en st0' st' /\ TyOKS frs st0' core /\
      GoodDP S (frags_gen_s S frs en cn) r (snd (fst def)) core /\ struct_like core.

  Lemma process_defs_ok_s defs : forall st out,
    Forall def_ok_s defs ->
    exists st' outs,
      process_defs_s S fragTypes en cn fuel defs st out false = Ok (st', out ++ outs, false) /\
      ExtS S en st st' /\ Forall2 (def_res_s st') defs outs.
  Proof.
    induction defs as [|[[root sels] dname] rest IH]; intros st out Hok.
    - exists st, []. rewrite app_nil_r. split; [reflexivity|]. split; [apply (ExtS_refl S en) | constructor].
    - inversion Hok as [|? ? [r [dn [Hr [Hdn [Ha Hsz]]]]] Hok']; subst. cbn [fst snd] in Hr, Hdn, Ha, Hsz. subst root dname.
      cbn [process_defs_s].
      destruct (gen_total_s S frs HS en cn fuel r sels st (sel_fuel sels) Ha Hsz) as [core [st1 Hg]].
      fold fragTypes in Hg. rewrite Hg.
      destruct (gen_good_s S frs HS en cn Hen (Datatypes.S (sels_size sels)) sels (Nat.lt_succ_diag_r _)
                           fuel r st core true st1 (sel_fuel sels) Ha Hg) as (_ & Hext & Hty & Hgood & Hsl).
      destruct (IH st1 (out ++ [type_def dn core]) Hok') as [st' [outs [Hp [Hext' Hres]]]].
      exists st', (type_def dn core :: outs). split; [rewrite Hp, <- app_assoc; reflexivity|].
      split; [apply ((ExtS_trans S en) _ _ _ Hext Hext')|].
      assert (Hmono : forall def td, def_res_s st1 def td -> def_res_s st' def td).
      { intros def td [r0 [dn0 [c0 [s0 [s0' [H1 [H2 [H3 [H4 [H5 H6]]]]]]]]]].
        exists r0, dn0, c0, s0, s0'. repeat (split; [assumption|]). split; [apply ((ExtS_trans S en) _ _ _ H5 Hext') | exact H6]. }
      constructor; [|exact Hres].
      exists r, dn, core, st, st1. cbn [fst snd]. repeat (split; [first [reflexivity | assumption]|]). exact Hsl.
  Qed.
End ProcessS.
