(** * Gen/ClientGenMain.v — C20: the main induction over the generator, and the theorems about
    [generate]. *)
From Coq Require Import List NArith ZArith Bool String Lia Permutation.
From ApiFu Require Import Base.Sexp Gen.GoTypes Gen.ClientGenModel Gen.DecodeModel Gen.ClientGenSpec
     Gen.ClientGenLemmas Gen.DecodeLemmas Gen.ClientGenProofs Gen.ClientGenGood Gen.ClientGenFinal
     Gen.ClientGenDecode.
Import ListNotations.
Open Scope list_scope.
Open Scope nat_scope.

Definition enums_of (st : gstate) : list name := map fst (g_enums st).
Definition ExtC (st st' : gstate) : Prop := incl (enums_of st) (enums_of st').
Definition TyOKC (frs : list fragdef) (st : gstate) (t : gotype) : Prop :=
  wf_shape t = true /\ incl (enum_refs t) (enums_of st) /\ incl (frag_refs t) (map fr_name frs).

Definition struct_like (t : gotype) : Prop :=
  (exists fs, t = GStruct fs) \/ (exists a b fs st, t = GSel a b fs st).

Lemma ExtC_refl st : ExtC st st.
Proof. apply incl_refl. Qed.
Lemma ExtC_trans a b c : ExtC a b -> ExtC b c -> ExtC a c.
Proof. unfold ExtC. intros H1 H2 x Hx. apply H2. apply H1. exact Hx. Qed.
Lemma TyOKC_ext frs a b t : ExtC a b -> TyOKC frs a t -> TyOKC frs b t.
Proof. intros He [H1 [H2 H3]]. split; [exact H1|]. split; [|exact H3]. intros x Hx. apply He. apply H2. exact Hx. Qed.
Lemma TyOKC_string frs st : TyOKC frs st GString.
Proof. split; [reflexivity|]. split; intros x []. Qed.
Lemma TyOKC_fragref frs st f : In f (map fr_name frs) -> TyOKC frs st (GPtr (GFragRef f)).
Proof. intros H. split; [reflexivity|]. split; [intros x []|]. intros x [Hx|[]]. subst. exact H. Qed.
Lemma TyOKC_ptr frs st t : TyOKC frs st t -> TyOKC frs st (GPtr t).
Proof. intros H. exact H. Qed.
Lemma TyOKC_wrap frs st ft core : TyOKC frs st core -> TyOKC frs st (wrap ft false core true).
Proof. unfold TyOKC. rewrite wf_shape_wrap, enum_refs_wrap, frag_refs_wrap. trivial. Qed.

Lemma decode_def_struct_like dec n core j : struct_like core -> decode_def dec (type_def n core) j = dec core j.
Proof.
  intros [[fs E]|[a [b [fs [st E]]]]]; subst core; unfold decode_def, type_def; reflexivity.
Qed.

Section Main.
  Variable S : schema.
  Variable frs : list fragdef.
  Hypothesis HS : schema_ok S = true.
  Let fragTypes := map (fun f => (fr_name f, fr_cond f)) frs.
  Notation gen := (gen_named no_quirks S fragTypes).

  Definition EL2 (t : name) (sels : list selection) : bool := env_local S frs t sels && members_distinct t sels.

  (** scalars and enums *)
  Lemma gen_leaf_good fuel mm st core b st' :
    leaf_type S mm = true -> composite S mm = false ->
    gen fuel mm [] st = Ok (core, b, st') ->
    b = true /\ ExtC st st' /\ TyOKC frs st' core /\ GoodD S frs mm [] core.
  Proof.
    intros Hleaf Hncomp Hg. destruct fuel as [|fuel]; [discriminate|]. simpl in Hg. unfold gen_named_body in Hg.
    assert (Hobjpart : forall core0, forall P : program, forall tn rfs, objc S [] mm tn rfs = true ->
               decodes P core0 (json_of (RObj tn rfs)) (obje S [] mm tn rfs)).
    { intros core0 P tn rfs H. unfold objc in H. rewrite Hncomp in H. discriminate. }
    unfold leaf_type in Hleaf.
    destruct (builtin_of mm) as [bi|] eqn:Eb.
    - inversion Hg; subst core b st'. split; [reflexivity|]. split; [apply ExtC_refl|]. split.
      { destruct bi; (split; [reflexivity|]; split; intros x []). }
      intros P HP Hsyn. split; [|apply Hobjpart].
      intros l Hl. unfold leafc, leaf_conf in Hl. rewrite Eb in Hl. rewrite andb_true_r in Hl.
      destruct bi; destruct l as [| |bb|s|[z|n]]; try discriminate;
        (split; [discriminate|]; eapply (decodes_intro P _ _ _ 1); [reflexivity | intros pl; simpl; reflexivity]).
    - destruct (lookup_type S mm) as [[n ifs fs|n fs|n ms|n vs|n]|] eqn:El; try discriminate.
      + inversion Hg; subst core b st'. split; [reflexivity|]. split.
        { unfold ExtC, enums_of, emit_enum. destruct (assoc mm (g_enums st)); [apply incl_refl|]. simpl.
          rewrite map_app. apply incl_appl. apply incl_refl. }
        split.
        { split; [reflexivity|]. split; [|intros x []]. intros x [Hx|[]]. subst x.
          unfold enums_of, emit_enum. destruct (assoc mm (g_enums st)) eqn:Ea.
          - apply (assoc_Some_In_keys _ _ _ Ea).
          - simpl. rewrite map_app. apply in_app_iff. right. left. reflexivity. }
        intros P HP Hsyn. split; [|apply Hobjpart].
        intros l Hl. unfold leafc, leaf_conf in Hl. rewrite Eb, El in Hl. rewrite andb_true_r in Hl.
        destruct l as [| |bb|s|nn]; try discriminate.
        split; [discriminate|]. eapply (decodes_intro P _ _ _ 1); [reflexivity | intros pl; simpl; reflexivity].
      + exfalso. apply (schema_no_scalar S HS _ _ El).
  Qed.

  Lemma composite_not_leaf mm : composite S mm = true -> forall sub l, leafc S sub mm l = false.
  Proof.
    intros Hc sub l. destruct (composite_lookup S HS mm Hc) as [d [Hl [Hb Hd]]].
    unfold leafc, leaf_conf. rewrite Hb, Hl. destruct d; try contradiction; reflexivity.
  Qed.

  Lemma find_frag_In f fr : find_frag frs f = Some fr -> In fr frs /\ fr_name fr = f.
  Proof. unfold find_frag. intros H. apply find_some in H as [H1 H2]. apply bytes_eqb_true in H2. split; assumption. Qed.

  (** the main induction: every successful call of the generator on an admissible selection set
      returns a good type *)
  Lemma gen_good : forall N sels, sels_size sels < N ->
    forall fuel mm st core b st' f',
      all_structs S EL2 f' mm sels = true ->
      gen fuel mm sels st = Ok (core, b, st') ->
      b = true /\ ExtC st st' /\ TyOKC frs st' core /\ GoodD S frs mm sels core /\ struct_like core.
  Proof.
    induction N as [|N IH]; intros sels Hsz fuel mm st core b st' f' Ha Hg; [lia|].
    destruct fuel as [|fuel]; [discriminate|]. destruct f' as [|f']; [discriminate|].
    rewrite all_structs_S in Ha. apply andb_true_iff in Ha as [He Hall].
    unfold EL2 in He. apply andb_true_iff in He as [Hel Hmem].
    pose proof (env_local_elim _ _ _ _ Hel) as [Hc [Hkeys [Hnd [Htn Hloc]]]].
    destruct (composite_lookup S HS mm Hc) as [d [Hl [Hb Hd]]].
    simpl in Hg. unfold gen_named_body in Hg. rewrite Hb, Hl in Hg.
    assert (Hgc : gen_composite no_quirks S fragTypes (gen fuel) mm d sels st = Ok (core, b, st')).
    { destruct d; try contradiction; exact Hg. }
    clear Hg. unfold gen_composite in Hgc. cbn [q_fixed_typename no_quirks] in Hgc.
    set (hasTn := match first_typename sels with Some _ => true | None => false end) in *.
    destruct (loop no_quirks S fragTypes (gen fuel) mm d hasTn sels sels ([], [], [], st)) as [[[[fields conds] done] st1]| | |] eqn:Eloop; try discriminate.
    (* the recursive calls *)
    assert (Hrec : forall mm' sub st0 core0 b0 st0',
               sub_call S mm sels mm' sub -> gen fuel mm' sub st0 = Ok (core0, b0, st0') ->
               b0 = true /\ ExtC st0 st0' /\ TyOKC frs st0' core0 /\ GoodD S frs mm' sub core0).
    { intros mm' sub st0 core0 b0 st0' Hsc Hg0. rewrite forallb_forall in Hall.
      destruct Hsc as [[a [f [Hs [Htnf [ft [Eft Eu]]]]]]|[c [sub0 [Hs [Emm Esub]]]]].
      - pose proof (Hall _ Hs) as Has. cbv beta iota in Has. rewrite Htnf, Eft, Eu in Has.
        pose proof (Hloc _ Hs) as Hsl. simpl in Hsl. rewrite Htnf, Eft, Eu in Hsl.
        destruct (composite S mm') eqn:Ecomp.
        + destruct (IH sub) with (fuel := fuel) (mm := mm') (st := st0) (core := core0) (b := b0) (st' := st0') (f' := f')
            as (H1 & H2 & H3 & H4 & _); try assumption.
          * pose proof (sels_size_In _ _ Hs) as Hle. rewrite sel_size_field in Hle. lia.
          * split; [exact H1|]. split; [exact H2|]. split; [exact H3 | exact H4].
        + apply andb_true_iff in Hsl as [Hnil Hleaf]. destruct sub; [|discriminate].
          apply (gen_leaf_good fuel mm' st0 core0 b0 st0' Hleaf Ecomp Hg0).
      - pose proof (Hall _ Hs) as Has. cbv beta iota zeta in Has. rewrite <- Emm, <- Esub in Has.
        destruct (IH sub) with (fuel := fuel) (mm := mm') (st := st0) (core := core0) (b := b0) (st' := st0') (f' := f')
          as (H1 & H2 & H3 & H4 & _); try assumption.
        + rewrite Esub. pose proof (merged_size_lt mm mm' sels c sub0 Hs (eq_sym Emm)). lia.
        + split; [exact H1|]. split; [exact H2|]. split; [exact H3 | exact H4]. }
    assert (Hspreads : forall f c body, In (SSpread f c body) sels -> In f (map fr_name frs)).
    { intros f c body Hs. pose proof (Hloc _ Hs) as Hsl. simpl in Hsl. apply andb_true_iff in Hsl as [_ Hsl].
      destruct (find_frag frs f) as [fr|] eqn:Ef; [|discriminate]. destruct (find_frag_In _ _ Ef) as [H1 H2].
      rewrite <- H2. apply in_map. exact H1. }
    pose proof (loop_inv S frs (GoodD S frs) (TyOKC frs) ExtC ExtC_refl ExtC_trans (TyOKC_ext frs) (TyOKC_string frs)
                         (TyOKC_fragref frs) (TyOKC_ptr frs) (TyOKC_wrap frs) (gen fuel) mm d sels hasTn Hrec Hl Hmem Hspreads Hloc
                         st sels [] ([], [], [], st) (fields, conds, done, st1) eq_refl
                         (inv_init S frs (GoodD S frs) (TyOKC frs) ExtC ExtC_refl mm sels st) Eloop) as HInv.
    unfold Inv in HInv. destruct HInv as (I1 & I2 & I3 & I4 & I5 & I6 & I7).
    assert (F3 : forall k T dash, In (k, (T, dash)) fields -> entry_src S (GoodD S frs) mm sels sels k T dash) by (intros k T dash H; apply (I3 _ _ _ H)).
    assert (F3' : forall k T dash, In (k, (T, dash)) fields -> TyOKC frs st1 T) by (intros k T dash H; apply (I3 _ _ _ H)).
    assert (F4 : forall s, In s sels -> entry_cov S (GoodD S frs) mm sels fields s) by (intros s H; apply (I4 _ H)).
    assert (F5 : forall s, In s sels -> cond_cov frs mm conds s) by (intros s H; apply (I4 _ H)).
    set (tnKey := match first_typename sels with Some k => k | None => typename_name end) in *.
    set (fs := sort_fields (map mk_field fields)) in *.
    (* the result *)
    assert (Hres : exists idx st2,
               core = match conds with [] => GStruct fs | _ :: _ => GSel mm idx fs (mk_steps no_quirks S mm d tnKey conds) end /\
               b = true /\ st' = st2 /\ enums_of st2 = enums_of st1).
    { destruct conds as [|c0 cr]; inversion Hgc as [[Hcore Hbb Hst]].
      - exists 0%N, st1. subst core b st'. split; [reflexivity|]. split; [reflexivity|]. split; reflexivity.
      - exists (g_count st1), {| g_enums := g_enums st1; g_count := (g_count st1 + 1)%N; g_json := true |}.
        subst core b st'. split; [reflexivity|]. split; [reflexivity|]. split; reflexivity. }
    destruct Hres as [idx [st2 [Ecore [Eb [Est Een]]]]]. subst b st'.
    split; [reflexivity|]. split; [unfold ExtC; rewrite Een; exact I7|]. split.
    { (* well-formedness *)
      unfold TyOKC. rewrite Een. rewrite Ecore. split.
      - apply (final_wf_shape S frs HS (GoodD S frs) mm d sels fields conds I1 F3 F4 I6 Hl Hmem Hloc Htn idx).
        intros k T dash H. apply (F3' _ _ _ H).
      - split.
        + apply (final_refs S mm d sels fields conds enum_refs (enums_of st1) idx); [reflexivity | reflexivity|].
          intros k T dash H. apply (F3' _ _ _ H).
        + apply (final_refs S mm d sels fields conds frag_refs (map fr_name frs) idx); [reflexivity | reflexivity|].
          intros k T dash H. apply (F3' _ _ _ H). }
    split.
    { (* decoding *)
      intros P HP Hsyn. split.
      - intros l Hl'. rewrite (composite_not_leaf mm Hc) in Hl'. discriminate.
      - intros tn rfs Hconf. rewrite Ecore in *.
        apply (composite_decodes S frs HS mm d sels fields conds I1 F3 F4 F5 I6 Hl Hmem Hloc Htn Hnd Hkeys idx P HP Hsyn); [|exact Hconf].
        (* spreads: the declared fragment type decodes by the induction hypothesis *)
        intros F c body Hs tn0 rfs0 Hc0.
        pose proof (Hloc _ Hs) as Hsl. simpl in Hsl. apply andb_true_iff in Hsl as [_ Hsl].
        destruct (find_frag frs F) as [fr|] eqn:Ef; [|discriminate]. apply andb_true_iff in Hsl as [Ec Eb].
        apply bytes_eqb_true in Ec. apply sels_eqb_eq in Eb. destruct (find_frag_In _ _ Ef) as [Hfr En].
        destruct (HP fr Hfr) as [coreF [fuelF [stF [stF' [HgF [HlF HsF]]]]]].
        rewrite Ec, Eb in HgF. rewrite En in HlF.
        rewrite forallb_forall in Hall. pose proof (Hall _ Hs) as Has. cbv beta iota in Has.
        destruct (IH body) with (fuel := fuelF) (mm := c) (st := stF) (core := coreF) (b := true) (st' := stF') (f' := f')
          as (_ & _ & _ & HgoodF & HslF); try assumption.
        { pose proof (sels_size_In _ _ Hs) as Hle. rewrite sel_size_spread in Hle. lia. }
        destruct (HgoodF P HP HsF) as [_ HobjF]. destruct (HobjF tn0 rfs0 Hc0) as [k [v [Hdv Hlv]]].
        exists (Datatypes.S k), v. split; [|exact Hlv]. intros [|fu] Hfu; [lia|].
        rewrite decode_S. unfold decode_body. rewrite HlF. rewrite (decode_def_struct_like _ _ _ _ HslF). apply Hdv. lia. }
    rewrite Ecore. destruct conds; [left; eexists; reflexivity | right; do 4 eexists; reflexivity].
  Qed.
End Main.
