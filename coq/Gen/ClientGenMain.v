(** * Gen/ClientGenMain.v — C20: the main induction over the generator, and the theorems about
    [generate]. *)
From Coq Require Import List NArith ZArith Bool String Lia Permutation.
From ApiFu Require Import Base.Sexp Gen.GoTypes Gen.ClientGenModel Gen.DecodeModel Gen.ClientGenSpec
     Gen.ClientGenLemmas Gen.DecodeLemmas Gen.ClientGenProofs Gen.ClientGenGood Gen.ClientGenFinal
     Gen.ClientGenDecode.
Import ListNotations.
Open Scope list_scope.
Open Scope nat_scope.

Definition enums_of (st : gstate) : list name := map fst (g_enums st).
Definition ExtC (st st' : gstate) : Prop := incl (enums_of st) (enums_of st').
Definition TyOKC (frs : list fragdef) (st : gstate) (t : gotype) : Prop :=
  wf_shape t = true /\ incl (enum_refs t) (enums_of st) /\ incl (frag_refs t) (map fr_name frs).

Definition struct_like (t : gotype) : Prop :=
  (exists fs, t = GStruct fs) \/ (exists a b fs st, t = GSel a b fs st).

Lemma ExtC_refl st : ExtC st st.
Proof. apply incl_refl. Qed.
Lemma ExtC_trans a b c : ExtC a b -> ExtC b c -> ExtC a c.
Proof. unfold ExtC. intros H1 H2 x Hx. apply H2. apply H1. exact Hx. Qed.
Lemma TyOKC_ext frs a b t : ExtC a b -> TyOKC frs a t -> TyOKC frs b t.
Proof. intros He [H1 [H2 H3]]. split; [exact H1|]. split; [|exact H3]. intros x Hx. apply He. apply H2. exact Hx. Qed.
Lemma TyOKC_string frs st : TyOKC frs st GString.
Proof. split; [reflexivity|]. split; intros x []. Qed.
Lemma TyOKC_fragref frs st f : In f (map fr_name frs) -> TyOKC frs st (GPtr (GFragRef f)).
Proof. intros H. split; [reflexivity|]. split; [intros x []|]. intros x [Hx|[]]. subst. exact H. Qed.
Lemma TyOKC_ptr frs st t : TyOKC frs st t -> TyOKC frs st (GPtr t).
Proof. intros H. exact H. Qed.
Lemma TyOKC_wrap frs st ft core : TyOKC frs st core -> TyOKC frs st (wrap ft false core true).
Proof. unfold TyOKC. rewrite wf_shape_wrap, enum_refs_wrap, frag_refs_wrap. trivial. Qed.

Lemma decode_def_struct_like dec n core j : struct_like core -> decode_def dec (type_def n core) j = dec core j.
Proof.
  intros [[fs E]|[a [b [fs [st E]]]]]; subst core; unfold decode_def, type_def; reflexivity.
Qed.

Section Main.
  Variable S : schema.
  Variable frs : list fragdef.
  Hypothesis HS : schema_ok S = true.
  Let fragTypes := map (fun f => (fr_name f, fr_cond f)) frs.
  Notation gen := (gen_named no_quirks S fragTypes).

  Definition EL2 (t : name) (sels : list selection) : bool := env_local S frs t sels && members_distinct t sels.

  (** scalars and enums *)
  Lemma gen_leaf_good fuel mm st core b st' :
    leaf_type S mm = true -> composite S mm = false ->
    gen fuel mm [] st = Ok (core, b, st') ->
    b = true /\ ExtC st st' /\ TyOKC frs st' core /\ GoodD S frs mm [] core.
  Proof.
    intros Hleaf Hncomp Hg. destruct fuel as [|fuel]; [discriminate|]. simpl in Hg. unfold gen_named_body in Hg.
    assert (Hobjpart : forall core0, forall P : program, forall tn rfs, objc S [] mm tn rfs = true ->
               decodes P core0 (json_of (RObj tn rfs)) (obje S [] mm tn rfs)).
    { intros core0 P tn rfs H. unfold objc in H. rewrite Hncomp in H. discriminate. }
    unfold leaf_type in Hleaf.
    destruct (builtin_of mm) as [bi|] eqn:Eb.
    - inversion Hg; subst core b st'. split; [reflexivity|]. split; [apply ExtC_refl|]. split.
      { destruct bi; (split; [reflexivity|]; split; intros x []). }
      intros P HP Hsyn. split; [|apply Hobjpart].
      intros l Hl. unfold leafc, leaf_conf in Hl. rewrite Eb in Hl. rewrite andb_true_r in Hl.
      destruct bi; destruct l as [| |bb|s|[z|n]]; try discriminate;
        (split; [discriminate|]; eapply (decodes_intro P _ _ _ 1); [reflexivity | intros pl; simpl; reflexivity]).
    - destruct (lookup_type S mm) as [[n ifs fs|n fs|n ms|n vs|n]|] eqn:El; try discriminate.
      + inversion Hg; subst core b st'. split; [reflexivity|]. split.
        { unfold ExtC, enums_of, emit_enum. destruct (assoc mm (g_enums st)); [apply incl_refl|]. simpl.
          rewrite map_app. apply incl_appl. apply incl_refl. }
        split.
        { split; [reflexivity|]. split; [|intros x []]. intros x [Hx|[]]. subst x.
          unfold enums_of, emit_enum. destruct (assoc mm (g_enums st)) eqn:Ea.
          - apply (assoc_Some_In_keys _ _ _ Ea).
          - simpl. rewrite map_app. apply in_app_iff. right. left. reflexivity. }
        intros P HP Hsyn. split; [|apply Hobjpart].
        intros l Hl. unfold leafc, leaf_conf in Hl. rewrite Eb, El in Hl. rewrite andb_true_r in Hl.
        destruct l as [| |bb|s|nn]; try discriminate.
        split; [discriminate|]. eapply (decodes_intro P _ _ _ 1); [reflexivity | intros pl; simpl; reflexivity].
      + exfalso. apply (schema_no_scalar S HS _ _ El).
  Qed.

  Lemma composite_not_leaf mm : composite S mm = true -> forall sub l, leafc S sub mm l = false.
  Proof.
    intros Hc sub l. destruct (composite_lookup S HS mm Hc) as [d [Hl [Hb Hd]]].
    unfold leafc, leaf_conf. rewrite Hb, Hl. destruct d; try contradiction; reflexivity.
  Qed.

  Lemma find_frag_In f fr : find_frag frs f = Some fr -> In fr frs /\ fr_name fr = f.
  Proof. unfold find_frag. intros H. apply find_some in H as [H1 H2]. apply bytes_eqb_true in H2. split; assumption. Qed.

  (** the main induction: every successful call of the generator on an admissible selection set
      returns a good type *)
  Lemma gen_good : forall N sels, sels_size sels < N ->
    forall fuel mm st core b st' f',
      all_structs S EL2 f' mm sels = true ->
      gen fuel mm sels st = Ok (core, b, st') ->
      b = true /\ ExtC st st' /\ TyOKC frs st' core /\ GoodD S frs mm sels core /\ struct_like core.
  Proof.
    induction N as [|N IH]; intros sels Hsz fuel mm st core b st' f' Ha Hg; [lia|].
    destruct fuel as [|fuel]; [discriminate|]. destruct f' as [|f']; [discriminate|].
    rewrite all_structs_S in Ha. apply andb_true_iff in Ha as [He Hall].
    unfold EL2 in He. apply andb_true_iff in He as [Hel Hmem].
    pose proof (env_local_elim _ _ _ _ Hel) as [Hc [Hkeys [Hnd [Htn Hloc]]]].
    destruct (composite_lookup S HS mm Hc) as [d [Hl [Hb Hd]]].
    simpl in Hg. unfold gen_named_body in Hg. rewrite Hb, Hl in Hg.
    assert (Hgc : gen_composite no_quirks S fragTypes (gen fuel) mm d sels st = Ok (core, b, st')).
    { destruct d; try contradiction; exact Hg. }
    clear Hg. unfold gen_composite in Hgc. cbn [q_fixed_typename no_quirks] in Hgc.
    set (hasTn := match first_typename sels with Some _ => true | None => false end) in *.
    destruct (loop no_quirks S fragTypes (gen fuel) mm d hasTn sels sels ([], [], [], [], st)) as [[[[[fields conds] done] fdone] st1]| | |] eqn:Eloop; try discriminate.
    assert (Hsamef : forall a f sub a2 f2 sub2, In (SField a f sub) sels -> In (SField a2 f2 sub2) sels ->
                                                sel_key a f = sel_key a2 f2 -> f = f2).
    { intros a f sub a2 f2 sub2 H1 H2 E.
      assert (D1 : In (sel_key a f, f) (direct_fields sels)).
      { unfold direct_fields. apply in_flat_map. exists (SField a f sub). split; [exact H1 | left; reflexivity]. }
      assert (D2 : In (sel_key a2 f2, f2) (direct_fields sels)).
      { unfold direct_fields. apply in_flat_map. exists (SField a2 f2 sub2). split; [exact H2 | left; reflexivity]. }
      destruct (Hnd _ _ _ _ D1 D2) as [_ Ef]; [rewrite E; reflexivity | exact Ef]. }
    (* the recursive calls *)
    assert (Hrec : forall mm' sub st0 core0 b0 st0',
               sub_call S mm sels mm' sub -> gen fuel mm' sub st0 = Ok (core0, b0, st0') ->
               b0 = true /\ ExtC st0 st0' /\ TyOKC frs st0' core0 /\ GoodD S frs mm' sub core0).
    { intros mm' sub st0 core0 b0 st0' Hsc Hg0. rewrite forallb_forall in Hall.
      destruct Hsc as [[a [f [sub1 [Hs [Htnf [Esub [ft [Eft Eu]]]]]]]]|[c [sub0 [Hs [Emm Esub]]]]].
      - pose proof (Hall _ Hs) as Has. cbv beta iota in Has. rewrite Htnf, Eft, Eu in Has.
        pose proof (Hloc _ Hs) as Hsl. simpl in Hsl. rewrite Htnf, Eft, Eu in Hsl.
        destruct (composite S mm') eqn:Ecomp.
        + rewrite <- Esub in Has.
          destruct (IH sub) with (fuel := fuel) (mm := mm') (st := st0) (core := core0) (b := b0) (st' := st0') (f' := f')
            as (H1 & H2 & H3 & H4 & _); try assumption.
          * rewrite Esub. pose proof (merged_field_size_lt (sel_key a f) sels a f sub1 Hs eq_refl). lia.
          * split; [exact H1|]. split; [exact H2|]. split; [exact H3 | exact H4].
        + (* a leaf field: every selection of its key has no sub-selection *)
          apply andb_true_iff in Hsl as [Hnil Hleaf].
          assert (Esn : sub = []).
          { rewrite Esub. apply merged_field_nil. intros a2 f2 sub2 Hs2 Ek.
            assert (Ef2 : f2 = f) by (apply (Hsamef a2 f2 sub2 a f sub1 Hs2 Hs); exact Ek). subst f2.
            pose proof (Hloc _ Hs2) as Hsl2. simpl in Hsl2. rewrite Htnf, Eft, Eu, Ecomp in Hsl2.
            apply andb_true_iff in Hsl2 as [Hn2 _]. destruct sub2; [reflexivity | discriminate]. }
          subst sub. rewrite Esn in Hg0 |- *.
          apply (gen_leaf_good fuel mm' st0 core0 b0 st0' Hleaf Ecomp Hg0).
      - pose proof (Hall _ Hs) as Has. cbv beta iota zeta in Has. rewrite <- Emm, <- Esub in Has.
        destruct (IH sub) with (fuel := fuel) (mm := mm') (st := st0) (core := core0) (b := b0) (st' := st0') (f' := f')
          as (H1 & H2 & H3 & H4 & _); try assumption.
        + rewrite Esub. pose proof (merged_size_lt mm mm' sels c sub0 Hs (eq_sym Emm)). lia.
        + split; [exact H1|]. split; [exact H2|]. split; [exact H3 | exact H4]. }
    assert (Hspreads : forall f c body, In (SSpread f c body) sels -> In f (map fr_name frs)).
    { intros f c body Hs. pose proof (Hloc _ Hs) as Hsl. simpl in Hsl. apply andb_true_iff in Hsl as [_ Hsl].
      destruct (find_frag frs f) as [fr|] eqn:Ef; [|discriminate]. destruct (find_frag_In _ _ Ef) as [H1 H2].
      rewrite <- H2. apply in_map. exact H1. }
    pose proof (loop_inv S frs (GoodD S frs) (TyOKC frs) ExtC ExtC_refl ExtC_trans (TyOKC_ext frs) (TyOKC_string frs)
                         (TyOKC_fragref frs) (TyOKC_ptr frs) (TyOKC_wrap frs) (gen fuel) mm d sels hasTn Hrec Hl Hmem Hspreads Hsamef Hloc
                         st sels [] ([], [], [], [], st) (fields, conds, done, fdone, st1) eq_refl
                         (inv_init S frs (GoodD S frs) (TyOKC frs) ExtC ExtC_refl mm sels st) Eloop) as HInv.
    unfold Inv in HInv. destruct HInv as (I1 & I2 & I3 & I4 & I5 & I8 & I6 & I7).
    assert (F3 : forall k T dash, In (k, (T, dash)) fields -> entry_src S (GoodD S frs) mm sels sels k T dash) by (intros k T dash H; apply (I3 _ _ _ H)).
    assert (F3' : forall k T dash, In (k, (T, dash)) fields -> TyOKC frs st1 T) by (intros k T dash H; apply (I3 _ _ _ H)).
    assert (F4 : forall s, In s sels -> entry_cov S (GoodD S frs) mm sels fields s) by (intros s H; apply (I4 _ H)).
    assert (F5 : forall s, In s sels -> cond_cov frs mm conds s) by (intros s H; apply (I4 _ H)).
    set (tnKey := match first_typename sels with Some k => k | None => typename_name end) in *.
    set (fs := sort_fields (map mk_field fields)) in *.
    (* the result *)
    assert (Hres : exists idx st2,
               core = match conds with [] => GStruct fs | _ :: _ => GSel mm idx fs (mk_steps no_quirks S mm d tnKey conds) end /\
               b = true /\ st' = st2 /\ enums_of st2 = enums_of st1).
    { destruct conds as [|c0 cr]; inversion Hgc as [[Hcore Hbb Hst]].
      - exists 0%N, st1. subst core b st'. split; [reflexivity|]. split; [reflexivity|]. split; reflexivity.
      - exists (g_count st1), {| g_enums := g_enums st1; g_count := (g_count st1 + 1)%N; g_json := true |}.
        subst core b st'. split; [reflexivity|]. split; [reflexivity|]. split; reflexivity. }
    destruct Hres as [idx [st2 [Ecore [Eb [Est Een]]]]]. subst b st'.
    split; [reflexivity|]. split; [unfold ExtC; rewrite Een; exact I7|]. split.
    { (* well-formedness *)
      unfold TyOKC. rewrite Een. rewrite Ecore. split.
      - apply (final_wf_shape S frs HS (GoodD S frs) mm d sels fields conds I1 F3 F4 I6 Hl Hmem Hloc Htn idx).
        intros k T dash H. apply (F3' _ _ _ H).
      - split.
        + apply (final_refs S mm d sels fields conds enum_refs (enums_of st1) idx); [reflexivity | reflexivity|].
          intros k T dash H. apply (F3' _ _ _ H).
        + apply (final_refs S mm d sels fields conds frag_refs (map fr_name frs) idx); [reflexivity | reflexivity|].
          intros k T dash H. apply (F3' _ _ _ H). }
    split.
    { (* decoding *)
      intros P HP Hsyn. split.
      - intros l Hl'. rewrite (composite_not_leaf mm Hc) in Hl'. discriminate.
      - intros tn rfs Hconf. rewrite Ecore in *.
        apply (composite_decodes S frs HS mm d sels fields conds I1 F3 F4 F5 I6 Hl Hmem Hloc Htn Hnd Hkeys idx P HP Hsyn); [|exact Hconf].
        (* spreads: the declared fragment type decodes by the induction hypothesis *)
        intros F c body Hs tn0 rfs0 Hc0.
        pose proof (Hloc _ Hs) as Hsl. simpl in Hsl. apply andb_true_iff in Hsl as [_ Hsl].
        destruct (find_frag frs F) as [fr|] eqn:Ef; [|discriminate]. apply andb_true_iff in Hsl as [Ec Eb].
        apply bytes_eqb_true in Ec. apply sels_eqb_eq in Eb. destruct (find_frag_In _ _ Ef) as [Hfr En].
        destruct (HP fr Hfr) as [coreF [fuelF [stF [stF' [HgF [HlF HsF]]]]]].
        rewrite Ec, Eb in HgF. rewrite En in HlF.
        rewrite forallb_forall in Hall. pose proof (Hall _ Hs) as Has. cbv beta iota in Has.
        destruct (IH body) with (fuel := fuelF) (mm := c) (st := stF) (core := coreF) (b := true) (st' := stF') (f' := f')
          as (_ & _ & _ & HgoodF & HslF); try assumption.
        { pose proof (sels_size_In _ _ Hs) as Hle. rewrite sel_size_spread in Hle. lia. }
        destruct (HgoodF P HP HsF) as [_ HobjF]. destruct (HobjF tn0 rfs0 Hc0) as [k [v [Hdv Hlv]]].
        exists (Datatypes.S k), v. split; [|exact Hlv]. intros [|fu] Hfu; [lia|].
        rewrite decode_S. unfold decode_body. rewrite HlF. rewrite (decode_def_struct_like _ _ _ _ HslF). apply Hdv. lia. }
    rewrite Ecore. destruct conds; [left; eexists; reflexivity | right; do 4 eexists; reflexivity].
  Qed.
End Main.

(** ** all_structs: conjunction and weakening *)
Lemma all_structs_impl S (P1 P2 : name -> list selection -> bool) :
  (forall t s, P1 t s = true -> P2 t s = true) ->
  forall f t sels, all_structs S P1 f t sels = true -> all_structs S P2 f t sels = true.
Proof.
  intros Himp. induction f as [|f IH]; intros t sels H; [discriminate|].
  rewrite all_structs_S in *. apply andb_true_iff in H as [H1 H2]. apply andb_true_iff. split; [apply Himp; exact H1|].
  rewrite forallb_forall in *. intros s Hs. specialize (H2 s Hs).
  destruct s as [a fn sub|c sub|fn c body].
  - destruct (is_typename fn); [reflexivity|]. destruct (field_type S t fn) as [ft|]; [|reflexivity].
    destruct (composite S (unwrap ft)); [apply IH; exact H2 | reflexivity].
  - apply IH. exact H2.
  - apply IH. exact H2.
Qed.

Lemma all_structs_and S (P1 P2 : name -> list selection -> bool) :
  forall f t sels, all_structs S P1 f t sels = true -> all_structs S P2 f t sels = true ->
                   all_structs S (fun t s => P1 t s && P2 t s) f t sels = true.
Proof.
  induction f as [|f IH]; intros t sels H1 H2; [discriminate|].
  rewrite all_structs_S in *. apply andb_true_iff in H1 as [A1 B1]. apply andb_true_iff in H2 as [A2 B2].
  apply andb_true_iff. split; [rewrite A1, A2; reflexivity|].
  rewrite forallb_forall in *. intros s Hs. specialize (B1 s Hs). specialize (B2 s Hs).
  destruct s as [a fn sub|c sub|fn c body].
  - destruct (is_typename fn); [reflexivity|]. destruct (field_type S t fn) as [ft|]; [|reflexivity].
    destruct (composite S (unwrap ft)); [apply IH; assumption | reflexivity].
  - apply IH; assumption.
  - apply IH; assumption.
Qed.

(** ** processQuery *)
Section Process.
  Variable S : schema.
  Variable frs : list fragdef.
  Hypothesis HS : schema_ok S = true.
  Let fragTypes := map (fun f => (fr_name f, fr_cond f)) frs.
  Notation gen := (gen_named no_quirks S fragTypes).
  Variable fuel : nat.

  Definition def_ok (def : option name * list selection * option name) : Prop :=
    exists r dn, fst (fst def) = Some r /\ snd def = Some dn /\
                 all_structs S (EL2 S frs) (sel_fuel (snd (fst def))) r (snd (fst def)) = true /\
                 sels_size (snd (fst def)) < fuel.

  (** what is known about one generated declaration *)
  Definition def_res (st' : gstate) (def : option name * list selection * option name) (td : typedefn) : Prop :=
    exists r dn core st0 st0',
      fst (fst def) = Some r /\ snd def = Some dn /\
      gen fuel r (snd (fst def)) st0 = Ok (core, true, st0') /\ td = type_def dn core /\
      ExtC st0' st' /\ TyOKC frs st0' core /\ GoodD S frs r (snd (fst def)) core /\ struct_like core.

  Lemma def_res_ext st1 st2 def td : ExtC st1 st2 -> def_res st1 def td -> def_res st2 def td.
  Proof.
    intros He [r [dn [core [st0 [st0' [H1 [H2 [H3 [H4 [H5 H6]]]]]]]]]].
    exists r, dn, core, st0, st0'. repeat (split; [assumption|]). split; [apply (ExtC_trans _ _ _ H5 He) | exact H6].
  Qed.

  Lemma process_defs_ok defs : forall st out,
    Forall def_ok defs ->
    exists st' outs,
      process_defs no_quirks S fuel fragTypes defs st out false = Ok (st', out ++ outs, false) /\
      ExtC st st' /\ Forall2 (def_res st') defs outs.
  Proof.
    induction defs as [|[[root sels] dname] rest IH]; intros st out Hok.
    - exists st, []. rewrite app_nil_r. split; [reflexivity|]. split; [apply ExtC_refl | constructor].
    - inversion Hok as [|? ? [r [dn [Hr [Hdn [Ha Hsz]]]]] Hok']; subst. simpl in Hr, Hdn, Ha, Hsz. subst root dname.
      simpl.
      destruct (gen_total S frs HS fuel r sels st (sel_fuel sels)) as [core [st1 Hg]].
      { apply (all_structs_impl S (EL2 S frs) (env_local S frs)); [|exact Ha].
        intros t s H. unfold EL2 in H. apply andb_true_iff in H. apply H. }
      { exact Hsz. }
      fold fragTypes in Hg. rewrite Hg.
      destruct (gen_good S frs HS (Datatypes.S (sels_size sels)) sels (Nat.lt_succ_diag_r _) fuel r st core true st1 (sel_fuel sels) Ha Hg)
        as (_ & Hext & Hty & Hgood & Hsl).
      destruct (IH st1 (out ++ [type_def dn core]) Hok') as [st' [outs [Hp [Hext' Hres]]]].
      exists st', (type_def dn core :: outs). split; [rewrite Hp, <- app_assoc; reflexivity|].
      split; [apply (ExtC_trans _ _ _ Hext Hext')|]. constructor; [|exact Hres].
      exists r, dn, core, st, st1. simpl. repeat (split; [first [reflexivity | assumption]|]). exact Hsl.
  Qed.
End Process.

(** ** induction on Go types *)
Lemma gotype_ind' (Q : gotype -> Prop) :
  Q GString -> Q GInt -> Q GFloat -> Q GBool -> Q GIface -> Q GEmpty ->
  (forall n, Q (GEnum n)) -> (forall n, Q (GScalar n)) ->
  (forall t, Q t -> Q (GPtr t)) -> (forall t, Q t -> Q (GSlice t)) ->
  (forall fs, Forall (fun f : name * gotag * gotype => Q (snd f)) fs -> Q (GStruct fs)) ->
  (forall a b fs st, Forall (fun f : name * gotag * gotype => Q (snd f)) fs -> Q (GSel a b fs st)) ->
  (forall f, Q (GFragRef f)) ->
  forall t, Q t.
Proof.
  intros H1 H2 H3 H4 H5 H6 H7 H8 H9 H10 H11 H12 H13. fix IH 1. intros [| | | | | |n|n|t|t|fs|a b fs st|f].
  - exact H1. - exact H2. - exact H3. - exact H4. - exact H5. - exact H6.
  - apply H7. - apply H8.
  - apply H9. apply IH.
  - apply H10. apply IH.
  - apply H11. induction fs as [|x r IHr]; constructor; [apply IH | exact IHr].
  - apply H12. induction fs as [|x r IHr]; constructor; [apply IH | exact IHr].
  - apply H13.
Qed.

Lemma refs_ok_intro P t :
  (forall n, In n (enum_refs t) -> assoc n (p_enums P) <> None) ->
  (forall f, In f (frag_refs t) -> lookup_def P (frag_type_name f) <> None) ->
  refs_ok P t = true.
Proof.
  induction t as [| | | | | |n|n|t IH|t IH|fs IH|a b fs st IH|f] using gotype_ind'; intros He Hf; simpl; try reflexivity.
  - specialize (He n (or_introl eq_refl)). destruct (assoc n (p_enums P)); [reflexivity | contradiction].
  - apply IH; assumption.
  - apply IH; assumption.
  - apply forallb_forall. intros x Hx. rewrite Forall_forall in IH. apply (IH x Hx).
    + intros n Hn. apply He. simpl. apply in_flat_map. exists x. split; assumption.
    + intros f Hf'. apply Hf. simpl. apply in_flat_map. exists x. split; assumption.
  - apply forallb_forall. intros x Hx. rewrite Forall_forall in IH. apply (IH x Hx).
    + intros n Hn. apply He. simpl. apply in_flat_map. exists x. split; assumption.
    + intros f0 Hf'. apply Hf. simpl. apply in_flat_map. exists x. split; assumption.
  - specialize (Hf f (or_introl eq_refl)). destruct (lookup_def P (frag_type_name f)); [reflexivity | contradiction].
Qed.

Lemma Forall2_In_l {A B} (R : A -> B -> Prop) l l' x : Forall2 R l l' -> In x l -> exists y, In y l' /\ R x y.
Proof.
  induction 1 as [|a b l l' Hab H IH]; [intros []|]. intros [Hx|Hx].
  - subst. exists b. split; [left; reflexivity | exact Hab].
  - destruct (IH Hx) as [y [H1 H2]]. exists y. split; [right; exact H1 | exact H2].
Qed.

Lemma Forall2_In_r {A B} (R : A -> B -> Prop) l l' y : Forall2 R l l' -> In y l' -> exists x, In x l /\ R x y.
Proof.
  induction 1 as [|a b l l' Hab H IH]; [intros []|]. intros [Hy|Hy].
  - subst. exists a. split; [left; reflexivity | exact Hab].
  - destruct (IH Hy) as [x [H1 H2]]. exists x. split; [right; exact H1 | exact H2].
Qed.

Lemma lookup_def_In P td : NoDup (map td_name (p_defs P)) -> In td (p_defs P) -> lookup_def P (td_name td) = Some td.
Proof.
  unfold lookup_def. induction (p_defs P) as [|g r IH]; simpl; [intros _ []|].
  intros ND [H|H]; inversion ND as [|? ? Hn ND']; subst.
  - rewrite bytes_eqb_refl. reflexivity.
  - destruct (bytes_eqb (td_name g) (td_name td)) eqn:E.
    + apply bytes_eqb_true in E. exfalso. apply Hn. rewrite E. apply in_map. exact H.
    + apply IH; assumption.
Qed.

Lemma lookup_def_exists P td : In td (p_defs P) -> lookup_def P (td_name td) <> None.
Proof.
  unfold lookup_def. intros HI H. apply (find_none _ _ H) in HI. rewrite bytes_eqb_refl in HI. discriminate.
Qed.

Lemma doc_size_op d o : In o (d_ops d) -> sels_size (op_sels o) <= doc_size d.
Proof.
  unfold doc_size. generalize (fold_right (fun f n => sels_size (fr_sels f) + n) 0 (d_frags d)). intros z.
  induction (d_ops d) as [|x r IH]; simpl; [intros []|]. intros [H|H]; [subst; lia | specialize (IH H); lia].
Qed.

Lemma doc_size_frag d f : In f (d_frags d) -> sels_size (fr_sels f) <= doc_size d.
Proof.
  unfold doc_size. generalize (fold_right (fun o n => sels_size (op_sels o) + n) 0 (d_ops d)). intros z.
  induction (d_frags d) as [|x r IH]; simpl; [intros []|]. intros [H|H]; [subst; lia | specialize (IH H); lia].
Qed.

(** ** Generate *)
Section Top.
  Variable S : schema.
  Variable d : document.
  Hypothesis Henv : env S d = true.
  Hypothesis Hmc : excl_member_clash S d = false.
  Hypothesis Hdc : excl_decl_clash S d = false.

  Let frs := d_frags d.
  Let fragTypes := map (fun f => (fr_name f, fr_cond f)) frs.
  Let fuel := Datatypes.S (doc_size d).

  Lemma env_parts :
    schema_ok S = true /\ doc_valid S d = true /\
    (forall o, In o (d_ops d) -> exists n r, op_name o = Some n /\ root_type S o = Some r /\
                                             all_structs S (EL2 S frs) (sel_fuel (op_sels o)) r (op_sels o) = true) /\
    (forall f, In f frs -> all_structs S (EL2 S frs) (sel_fuel (fr_sels f)) (fr_cond f) (fr_sels f) = true).
  Proof.
    unfold env in Henv. fold frs in Henv.
    apply andb_true_iff in Henv as [H H4]. apply andb_true_iff in H as [H H3]. apply andb_true_iff in H as [H1 H2].
    unfold excl_member_clash in Hmc. apply negb_false_iff in Hmc. apply andb_true_iff in Hmc as [M1 M2].
    split; [exact H1|]. split; [exact H2|]. split.
    - intros o Ho. rewrite forallb_forall in H3, M1. specialize (H3 o Ho). specialize (M1 o Ho).
      destruct (op_name o) as [n|]; [|discriminate]. destruct (root_type S o) as [r|]; [|discriminate].
      exists n, r. split; [reflexivity|]. split; [reflexivity|]. apply andb_true_iff in H3 as [H3 _].
      apply (all_structs_and S (env_local S frs) members_distinct _ _ _ H3 M1).
    - intros f Hf. rewrite forallb_forall in H4, M2. specialize (H4 f Hf). specialize (M2 f Hf).
      apply andb_true_iff in H4 as [H4 _]. apply (all_structs_and S (env_local S frs) members_distinct _ _ _ H4 M2).
  Qed.

  Lemma defs_ok : Forall (def_ok S frs fuel) (defs_of S d).
  Proof.
    destruct env_parts as [_ [_ [Hops Hfrs]]]. unfold defs_of. apply Forall_app. split; apply Forall_forall.
    - intros def Hd. apply in_map_iff in Hd as [o [Ed Ho]]. subst def. destruct (Hops o Ho) as [n [r [En [Er Ha]]]].
      exists r, (data_type_name n). simpl. unfold root_type in Er. rewrite Er, En.
      split; [reflexivity|]. split; [reflexivity|]. split; [exact Ha|]. unfold fuel. pose proof (doc_size_op d o Ho). lia.
    - intros def Hd. apply in_map_iff in Hd as [f [Ed Hf]]. subst def.
      exists (fr_cond f), (frag_type_name (fr_name f)). simpl.
      split; [reflexivity|]. split; [reflexivity|]. split; [apply Hfrs; exact Hf|]. unfold fuel. pose proof (doc_size_frag d f Hf). lia.
  Qed.

  (** the generator accepts, and what it declares *)
  Lemma generate_raw_ok :
    exists st' outs,
      generate_raw no_quirks S (doc_valid S d) d = GOk {| p_enums := g_enums st'; p_defs := outs; p_json := g_json st' |} /\
      Forall2 (def_res S frs fuel st') (defs_of S d) outs.
  Proof.
    destruct env_parts as [HS [Hv _]].
    destruct (process_defs_ok S frs HS fuel (defs_of S d) {| g_enums := []; g_count := 0; g_json := false |} [] defs_ok)
      as [st' [outs [Hp [_ Hres]]]].
    exists st', outs. split; [|exact Hres]. unfold generate_raw. rewrite Hv. simpl negb. cbv iota.
    unfold fuel, frs in Hp. rewrite Hp. reflexivity.
  Qed.
End Top.

Lemma schema_roots S : schema_ok S = true ->
  is_object_type S (s_query S) = true /\ (forall m, s_mutation S = Some m -> is_object_type S m = true).
Proof.
  unfold schema_ok. intros H. apply andb_true_iff in H as [H H6]. apply andb_true_iff in H as [H H5].
  split; [exact H5|]. intros m Hm. rewrite Hm in H6. exact H6.
Qed.

Lemma decl_names_defs_nodup p : decl_names_ok p = true -> NoDup (map td_name (p_defs p)).
Proof.
  unfold decl_names_ok, decl_names. intros H. apply andb_true_iff in H as [H _]. apply nodupb_NoDup in H.
  apply NoDup_app_r in H. apply NoDup_app_r in H. apply NoDup_app_l in H. exact H.
Qed.

Section Theorems.
  Variable S : schema.
  Variable d : document.
  Hypothesis Henv : env S d = true.
  Hypothesis Hmc : excl_member_clash S d = false.
  Hypothesis Hdc : excl_decl_clash S d = false.

  Let frs := d_frags d.
  Let fuel := Datatypes.S (doc_size d).

  (** everything known about the generated program *)
  Lemma generated :
    exists p,
      generate no_quirks S (doc_valid S d) d = GOk p /\
      decl_names_ok p = true /\ program_syntax_ok p = true /\
      forallb (fun dfn => idents_ok (td_type dfn)) (p_defs p) = true /\
      exists st', p_enums p = g_enums st' /\ Forall2 (def_res S frs fuel st') (defs_of S d) (p_defs p).
  Proof.
    destruct (generate_raw_ok S d Henv Hmc) as [st' [outs [Hraw Hres]]].
    set (p := {| p_enums := g_enums st'; p_defs := outs; p_json := g_json st' |}) in *.
    unfold excl_decl_clash in Hdc. rewrite Hraw in Hdc. apply negb_false_iff in Hdc.
    apply andb_true_iff in Hdc as [H H3]. apply andb_true_iff in H as [H1 H2].
    exists p. split; [unfold generate; rewrite Hraw, H2; reflexivity|].
    split; [exact H1|]. split; [exact H2|]. split; [exact H3|]. exists st'. split; [reflexivity | exact Hres].
  Qed.

  Theorem gen_accepts_wf : exists p, generate no_quirks S (doc_valid S d) d = GOk p /\ wf_program p = true.
  Proof.
    destruct generated as [p [Hgen [Hnames [Hsyn [Hid [st' [Hen Hres]]]]]]].
    exists p. split; [exact Hgen|]. unfold wf_program. rewrite Hnames. simpl.
    unfold program_syntax_ok in Hsyn. apply andb_true_iff in Hsyn as [Hkw Hsy]. rewrite Hkw. simpl.
    apply forallb_forall. intros td Htd.
    destruct (Forall2_In_r _ _ _ _ Hres Htd) as [def [Hdef [r [dn [core [st0 [st0' [Hr [Hdn [Hg [Etd [Hext [[Hw [He Hf]] [_ Hsl]]]]]]]]]]]]]].
    rewrite forallb_forall in Hid, Hsy. specialize (Hid td Htd). specialize (Hsy td Htd).
    unfold wf_def. subst td. simpl in *. rewrite Hw, Hid, Hsy. simpl.
    assert (Hrefs : refs_ok p core = true).
    { apply refs_ok_intro.
      - intros n Hn. apply He in Hn. apply Hext in Hn. intro Hnone. apply assoc_None in Hnone. apply Hnone.
        rewrite Hen. exact Hn.
      - intros f Hfr. apply Hf in Hfr. apply in_map_iff in Hfr as [fr [Efr Hfr]]. subst f.
        assert (Hd : In (Some (fr_cond fr), fr_sels fr, Some (frag_type_name (fr_name fr))) (defs_of S d)).
        { unfold defs_of. apply in_app_iff. right. apply in_map_iff. exists fr. split; [reflexivity | exact Hfr]. }
        destruct (Forall2_In_l _ _ _ _ Hres Hd) as [td' [Htd' [r' [dn' [core' [s0 [s0' [_ [Hdn' [_ [Etd' _]]]]]]]]]]].
        simpl in Hdn'. inversion Hdn'; subst dn'. subst td'.
        apply (lookup_def_exists p _ Htd'). }
    rewrite Hrefs. simpl. destruct Hsl as [[fs E]|[a [b [fs [stp E]]]]]; subst core; reflexivity.
  Qed.

  Theorem gen_decodes p o opname w :
    generate no_quirks S (doc_valid S d) d = GOk p ->
    In o (d_ops d) -> op_name o = Some opname -> conforms S o w = true ->
    exists n v, (forall fu, n <= fu -> decode_op p fu opname (json_of w) = DOk v) /\
                (forall pl, In pl (leaves v) <-> In pl (expected S o w)).
  Proof.
    intros Hgen0 Ho Hname Hconf.
    destruct generated as [p' [Hgen [Hnames [Hsyn [Hid [st' [Hen Hres]]]]]]].
    rewrite Hgen in Hgen0. inversion Hgen0; subst p'. clear Hgen0.
    pose proof (decl_names_defs_nodup p Hnames) as HND.
    unfold program_syntax_ok in Hsyn. apply andb_true_iff in Hsyn as [_ Hsy]. rewrite forallb_forall in Hsy.
    destruct (env_parts S d Henv Hmc) as [HS [_ [Hops _]]].
    (* the fragments *)
    assert (HP : frags_gen S frs p).
    { intros fr Hfr.
      assert (Hd : In (Some (fr_cond fr), fr_sels fr, Some (frag_type_name (fr_name fr))) (defs_of S d)).
      { unfold defs_of. apply in_app_iff. right. apply in_map_iff. exists fr. split; [reflexivity | exact Hfr]. }
      destruct (Forall2_In_l _ _ _ _ Hres Hd) as [td [Htd [r [dn [core [s0 [s0' [Hr [Hdn [Hg [Etd _]]]]]]]]]]].
      simpl in Hr, Hdn, Hg. inversion Hr; subst r. inversion Hdn; subst dn.
      exists core, fuel, s0, s0'. split; [exact Hg|]. split.
      - pose proof (lookup_def_In p td HND Htd) as Hl. subst td. exact Hl.
      - specialize (Hsy td Htd). subst td. exact Hsy. }
    (* the operation *)
    destruct (Hops o Ho) as [n [r [En [Er Ha]]]]. rewrite Hname in En. inversion En; subst n.
    assert (Hd : In (Some r, op_sels o, Some (data_type_name opname)) (defs_of S d)).
    { unfold defs_of. apply in_app_iff. left. apply in_map_iff. exists o. split; [|exact Ho].
      unfold root_type in Er. rewrite Er, Hname. reflexivity. }
    destruct (Forall2_In_l _ _ _ _ Hres Hd) as [td [Htd [r0 [dn [core [s0 [s0' [Hr [Hdn [Hg [Etd [_ [_ [Hgood Hsl]]]]]]]]]]]]]].
    simpl in Hr, Hdn, Hg, Hgood. inversion Hr; subst r0. inversion Hdn; subst dn.
    assert (Hsc : type_syntax_ok core = true) by (specialize (Hsy td Htd); subst td; exact Hsy).
    destruct (Hgood p HP Hsc) as [_ Hobj].
    unfold conforms in Hconf. rewrite Er in Hconf. destruct w as [| | |tn fs]; try discriminate.
    apply andb_true_iff in Hconf as [Hc Hc3]. apply andb_true_iff in Hc as [Hc1 Hc2]. apply bytes_eqb_true in Hc1. subst tn.
    assert (Hobjc : objc S (op_sels o) r r fs = true).
    { unfold objc.
      assert (Hcomp : composite S r = true).
      { unfold sel_fuel in Ha. rewrite all_structs_S in Ha. apply andb_true_iff in Ha as [Ha _]. unfold EL2 in Ha.
        apply andb_true_iff in Ha as [Ha _]. apply (env_local_elim _ _ _ _ Ha). }
      assert (Hobjt : is_object_type S r = true).
      { destruct (schema_roots S HS) as [Hq Hm]. unfold root_type in Er. destruct (op_type o).
        - inversion Er; subst r. exact Hq.
        - apply Hm. exact Er. }
      rewrite Hcomp, Hobjt, Hc2. simpl.
      assert (Hsub : subtype S r r = true).
      { unfold is_object_type in Hobjt. unfold subtype. destruct (lookup_type S r) as [[n0 ifs fs0| | | |]|] eqn:El; try discriminate.
        apply find_some_name in El as [El _]. simpl in El. subst n0. apply bytes_eqb_refl. }
      rewrite Hsub. simpl. exact Hc3. }
    destruct (Hobj r fs Hobjc) as [k [v [Hdv Hlv]]].
    exists k, v. split.
    - intros fu Hfu. unfold decode_op. pose proof (lookup_def_In p td HND Htd) as Hl. subst td. simpl in Hl. rewrite Hl.
      rewrite (decode_def_struct_like _ _ _ _ Hsl). apply Hdv. exact Hfu.
    - intros pl. unfold expected. rewrite Er. apply Hlv.
  Qed.
End Theorems.

Theorem gen_invalid_no_output Q S d : doc_valid S d = false -> generate Q S (doc_valid S d) d = GRejected.
Proof. intros H. unfold generate, generate_raw. rewrite H. reflexivity. Qed.
