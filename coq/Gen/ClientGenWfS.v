(** * Gen/ClientGenWfS.v — C20: the declared identifiers of the generator of the current tree are
    pairwise distinct usable Go identifiers ([decl_names_ok]), hence [wf_program], under the
    names-only residue [no_sel_names] / [no_digit_types] / [lex_names] (ClientGenSpec.v).

    Assembly of the parts: the emitted enum blocks and helper numbers (ClientGenDeclSafeS.v), the
    pre-assigned enum / constant names (ClientGenFresh.v), the <Op>Data / <F>Fragment names
    (ClientGenTopS.v). *)
From Coq Require Import List NArith ZArith Bool String Lia Permutation.
From ApiFu Require Import Base.Sexp Gen.GoTypes Gen.ClientGenModel Gen.DecodeModel Gen.ClientGenSpec
     Gen.ClientGenLemmas Gen.ClientGenNames Gen.ClientGenProofs Gen.ClientGenMain Gen.ClientGenDecode Gen.ClientGenDeclSafe Gen.ClientGenFresh
     Gen.ClientGenAgree Gen.ClientGenDecodeS Gen.ClientGenNamesS Gen.ClientGenMainS Gen.ClientGenDeclSafeS
     Gen.LoadSchemaModel Gen.LoadSchemaProofs Gen.ClientGenClauses Gen.ClientGenTopS Gen.ClientGenWitness.
Import ListNotations.
Open Scope list_scope.

(** ** [assign_gen]: shape of the names, the taken list *)
Lemma assign_gen_ext {K} (base : K -> name) : forall keys taken acc k x,
  In (k, x) (fst (assign_gen base keys taken acc)) ->
  In (k, x) acc \/ exists us, x = base k ++ us /\ all_us us = true.
Proof.
  induction keys as [|k0 r IH]; intros taken acc k x H; simpl in H; [left; exact H|].
  destruct (IH _ _ _ _ H) as [Hin|Hex]; [|right; exact Hex].
  apply in_app_iff in Hin as [Hin|[Hin|[]]]; [left; exact Hin|]. inversion Hin; subst. right.
  destruct (fresh_ext (Datatypes.S (List.length taken)) taken (base k)) as [us [E Hu]]. exists us. split; [exact E | exact Hu].
Qed.

Lemma assign_gen_taken {K} (base : K -> name) : forall keys taken acc,
  (forall x, In x taken -> In x (snd (assign_gen base keys taken acc))) /\
  (forall x, In x (map snd (fst (assign_gen base keys taken acc))) ->
             In x (map snd acc) \/ In x (snd (assign_gen base keys taken acc))).
Proof.
  induction keys as [|k r IH]; intros taken acc; simpl; [split; [trivial | intros x H; left; exact H]|].
  set (n := fresh (Datatypes.S (List.length taken)) taken (base k)).
  destruct (IH (n :: taken) (acc ++ [(k, n)])) as [I1 I2]. split.
  - intros x Hx. apply I1. right. exact Hx.
  - intros x Hx. destruct (I2 x Hx) as [H|H]; [|right; exact H].
    rewrite map_app in H. apply in_app_iff in H as [H|[H|[]]]; [left; exact H|]. right. apply I1. left. exact H.
Qed.

(** ** [assoc2] on distinct keys *)
Lemma assoc2_keys (l : list ((name * name) * name)) a b :
  In (a, b) (map fst l) -> exists x, assoc2 a b l = Some x /\ In ((a, b), x) l.
Proof.
  induction l as [|[[a' b'] v] r IH]; simpl; [intros []|]. intros H.
  destruct (bytes_eqb a' a && bytes_eqb b' b) eqn:E.
  - apply andb_true_iff in E as [E1 E2]. apply bytes_eqb_true in E1. apply bytes_eqb_true in E2. subst.
    exists v. split; [reflexivity | left; reflexivity].
  - destruct H as [H|H]; [inversion H; subst; rewrite !bytes_eqb_refl in E; discriminate|].
    destruct (IH H) as [x [H1 H2]]. exists x. split; [exact H1 | right; exact H2].
Qed.

Lemma assoc2_nodup (l : list ((name * name) * name)) a b x :
  NoDup (map fst l) -> In ((a, b), x) l -> assoc2 a b l = Some x.
Proof.
  induction l as [|[[a' b'] v] r IH]; simpl; [intros _ []|]. intros ND H. inversion ND as [|? ? Hn ND']; subst.
  destruct H as [H|H].
  - inversion H; subst. rewrite !bytes_eqb_refl. reflexivity.
  - destruct (bytes_eqb a' a && bytes_eqb b' b) eqn:E; [|apply IH; assumption].
    apply andb_true_iff in E as [E1 E2]. apply bytes_eqb_true in E1. apply bytes_eqb_true in E2. subst.
    exfalso. apply Hn. apply (in_map fst) in H. exact H.
Qed.

(** ** list helpers *)
Lemma NoDup_flat_map_intro {A B} (f : A -> list B) l :
  NoDup l -> (forall a, In a l -> NoDup (f a)) ->
  (forall a b x, In a l -> In b l -> a <> b -> In x (f a) -> In x (f b) -> False) ->
  NoDup (flat_map f l).
Proof.
  induction l as [|a r IH]; intros ND H1 H2; simpl; [constructor|]. inversion ND as [|? ? Hn ND']; subst.
  apply NoDup_app_intro.
  - apply H1. left. reflexivity.
  - apply IH; [exact ND' | intros b Hb; apply H1; right; exact Hb|].
    intros b c x Hb Hc Hbc. apply (H2 b c x); [right; exact Hb | right; exact Hc | exact Hbc].
  - intros x Hx Hy. apply in_flat_map in Hy as [b [Hb Hy]].
    apply (H2 a b x); [left; reflexivity | right; exact Hb | intro E; subst b; exact (Hn Hb) | exact Hx | exact Hy].
Qed.

Lemma NoDup_fst_inj {A B} (l0 : list (A * B)) p q : NoDup (map fst l0) -> In p l0 -> In q l0 -> fst p = fst q -> p = q.
Proof.
  induction l0 as [|h t IH]; intros ND Hp Hq E; [destruct Hp|]. simpl in ND. inversion ND as [|? ? Hn ND']; subst.
  destruct Hp as [Hp|Hp], Hq as [Hq|Hq]; subst.
  - reflexivity.
  - exfalso. apply Hn. rewrite E. apply in_map. exact Hq.
  - exfalso. apply Hn. rewrite <- E. apply in_map. exact Hp.
  - apply IH; assumption.
Qed.

Lemma NoDup_snd_inj {A B} (l0 : list (A * B)) k1 k2 x : NoDup (map snd l0) -> In (k1, x) l0 -> In (k2, x) l0 -> k1 = k2.
Proof.
  intros ND H1 H2. pose proof (NoDup_map_inj snd l0 (k1, x) (k2, x) ND H1 H2 eq_refl) as E. inversion E. reflexivity.
Qed.

Lemma NoDup_pairs (l : list (name * list name)) :
  NoDup (map fst l) -> (forall e, In e l -> NoDup (snd e)) ->
  NoDup (flat_map (fun e : name * list name => map (fun v => (fst e, v)) (snd e)) l).
Proof.
  intros ND Hv. apply NoDup_flat_map_intro.
  - apply (NoDup_map_inv' fst). exact ND.
  - intros e He. specialize (Hv e He). induction Hv as [|v r Hn NDr IH]; simpl; constructor; [|exact IH].
    intro H. apply in_map_iff in H as [v' [E Hi]]. inversion E; subst. exact (Hn Hi).
  - intros a b x Ha Hb Hab Hxa Hxb. apply in_map_iff in Hxa as [v1 [E1 _]]. apply in_map_iff in Hxb as [v2 [E2 _]]. subst x.
    injection E2 as Ef _. apply Hab.
    apply (NoDup_fst_inj l a b ND Ha Hb). symmetry. exact Ef.
Qed.

(** ** characters *)
Lemma ident_char_lower c : ident_char c = true -> ident_char (lower c) = true.
Proof.
  unfold lower. destruct (is_upper c) eqn:E; [|trivial]. intros _.
  unfold is_upper in E. apply andb_true_iff in E as [E1 E2]. apply N.leb_le in E1. apply N.leb_le in E2.
  unfold ident_char, is_letter, is_lower.
  assert (H1 : (97 <=? c + 32)%N = true) by (apply N.leb_le; lia).
  assert (H2 : (c + 32 <=? 122)%N = true) by (apply N.leb_le; lia).
  rewrite H1, H2. reflexivity.
Qed.

Lemma ident_char_upper c : ident_char c = true -> ident_char (upper c) = true.
Proof.
  unfold upper. destruct (is_lower c) eqn:E; [|trivial]. intros _.
  unfold is_lower in E. apply andb_true_iff in E as [E1 E2]. apply N.leb_le in E1. apply N.leb_le in E2.
  unfold ident_char, is_letter, is_upper.
  assert (H1 : (65 <=? c - 32)%N = true) by (apply N.leb_le; lia).
  assert (H2 : (c - 32 <=? 90)%N = true) by (apply N.leb_le; lia).
  rewrite H1, H2. rewrite orb_true_r. reflexivity.
Qed.

Lemma title_lower_chars p : forallb ident_char p = true -> forallb ident_char (title (lower_bytes p)) = true.
Proof.
  intros H. assert (Hl : forallb ident_char (lower_bytes p) = true).
  { unfold lower_bytes. induction p as [|c r IH]; [reflexivity|]. simpl in *. apply andb_true_iff in H as [H1 H2].
    rewrite (ident_char_lower c H1), (IH H2). reflexivity. }
  destruct (lower_bytes p) as [|c r]; [reflexivity|]. simpl in *. apply andb_true_iff in Hl as [H1 H2].
  rewrite (ident_char_upper c H1), H2. reflexivity.
Qed.

Lemma split_us_chars : forall v cur, forallb ident_char v = true -> forallb ident_char cur = true ->
  forall p, In p (split_us v cur) -> forallb ident_char p = true.
Proof.
  assert (Hrev : forall cur, forallb ident_char cur = true -> forallb ident_char (rev cur) = true).
  { intros cur H. apply forallb_forall. intros x Hx. apply in_rev in Hx. rewrite forallb_forall in H. apply H. exact Hx. }
  induction v as [|c r IH]; intros cur Hv Hc p Hp; simpl in Hp.
  - destruct Hp as [Hp|[]]. subst p. apply Hrev. exact Hc.
  - simpl in Hv. apply andb_true_iff in Hv as [Hc0 Hr]. destruct (c =? 95)%N.
    + destruct Hp as [Hp|Hp]; [subst p; apply Hrev; exact Hc | apply (IH [] Hr eq_refl p Hp)].
    + apply (IH (c :: cur) Hr); [simpl; rewrite Hc0, Hc; reflexivity | exact Hp].
Qed.

Lemma const_suffix_chars v : forallb ident_char v = true -> forallb ident_char (const_suffix v) = true.
Proof.
  intros Hv. unfold const_suffix. apply forallb_forall. intros c Hc. apply in_concat in Hc as [piece [Hp Hc]].
  apply in_map_iff in Hp as [q [Eq Hq]]. subst piece.
  pose proof (title_lower_chars q (split_us_chars v [] Hv eq_refl q Hq)) as H. rewrite forallb_forall in H. apply H. exact Hc.
Qed.

Lemma go_ident_intro x : gql_name x = true -> ~ In x go_reserved -> go_ident_ok x = true.
Proof.
  destruct x as [|c r]; [discriminate|]. unfold gql_name, go_ident_ok. intros H Hn. rewrite H. cbn [andb].
  apply negb_true_iff. apply mem_false. exact Hn.
Qed.

Lemma gql_name_app x y : gql_name x = true -> forallb ident_char y = true -> gql_name (x ++ y) = true.
Proof.
  destruct x as [|c r]; [discriminate|]. unfold gql_name. cbn [app]. intros H Hy. apply andb_true_iff in H as [H1 H2].
  rewrite H1, forallb_app, H2, Hy. reflexivity.
Qed.

(** no reserved identifier ends in "Data" or "Fragment" *)
Lemma reserved_suffix :
  forallb (fun w => negb (starts_with (rev (bs "Data")) (rev w)) && negb (starts_with (rev (bs "Fragment")) (rev w))) go_reserved = true.
Proof. vm_compute. reflexivity. Qed.

Lemma data_not_reserved n : ~ In (data_type_name n) go_reserved.
Proof.
  intro Hi. pose proof reserved_suffix as H. rewrite forallb_forall in H. specialize (H _ Hi).
  apply andb_true_iff in H as [H _]. unfold data_type_name in H. rewrite rev_app_distr, starts_with_app in H. discriminate.
Qed.

Lemma frag_not_reserved n : ~ In (frag_type_name n) go_reserved.
Proof.
  intro Hi. pose proof reserved_suffix as H. rewrite forallb_forall in H. specialize (H _ Hi).
  apply andb_true_iff in H as [_ H]. unfold frag_type_name in H. rewrite rev_app_distr, starts_with_app in H. discriminate.
Qed.

Lemma field_name_chars T : forallb ident_char (field_name T) = true -> forallb ident_char T = true.
Proof.
  unfold field_name. intros H. apply title_ident_chars in H.
  destruct T as [|a [|b r]]; try exact H.
  destruct ((a =? 95)%N && (b =? 95)%N) eqn:E; [|exact H].
  apply andb_true_iff in E as [Ea Eb]. apply N.eqb_eq in Ea. apply N.eqb_eq in Eb. subst a b.
  rewrite forallb_app in H. apply andb_true_iff in H as [H _]. simpl. exact H.
Qed.

(** ** enums of the schema *)
Lemma schema_enums_In S n vs : In (DEnum n vs) (s_types S) <-> In (n, vs) (schema_enums S).
Proof.
  unfold schema_enums. rewrite in_flat_map. split.
  - intros H. exists (DEnum n vs). split; [exact H | left; reflexivity].
  - intros [t [Ht Hi]]. destruct t; try contradiction. destruct Hi as [Hi|[]]. inversion Hi; subst. exact Ht.
Qed.

Lemma schema_enums_nodup S : schema_ok S = true -> NoDup (map fst (schema_enums S)).
Proof.
  unfold schema_ok. intros H. do 5 (apply andb_true_iff in H as [H _]). apply nodupb_NoDup in H.
  unfold schema_enums. revert H. induction (s_types S) as [|t r IH]; intros ND; [constructor|].
  simpl in ND. inversion ND as [|? ? Hn ND']; subst. simpl. rewrite map_app. apply NoDup_app_intro.
  - destruct t; simpl; try constructor; [intros [] | constructor].
  - apply IH. exact ND'.
  - intros x Hx Hy. apply Hn. destruct t; simpl in Hx; try contradiction. destruct Hx as [Hx|[]]. subst x. simpl.
    apply in_map_iff in Hy as [[n' vs'] [E Hy]]. simpl in E. subst n'. apply in_flat_map in Hy as [t' [Ht' Hy]].
    destruct t'; try contradiction. destruct Hy as [Hy|[]]. inversion Hy; subst.
    apply in_map_iff. exists (DEnum n vs'). split; [reflexivity | exact Ht'].
Qed.

Section WholeS.
  Variable S : schema.
  Variable d : document.
  Hypothesis HS : schema_ok S = true.
  Hypothesis Hsel : no_sel_names S d = true.
  Hypothesis Hdig : no_digit_types S = true.
  Hypothesis Hlex : lex_names S d = true.
  Notation en := (enum_go_name S d).
  Notation cn := (const_go_name S d).
  Let emap := fst (enum_name_map S d).
  Let taken1 := snd (enum_name_map S d).
  Let cmap := const_name_map S d.
  Let keysC := flat_map (fun e : name * list name => map (fun v => (fst e, v)) (snd e)) (schema_enums S).

  Lemma lex_elim :
    lex_fields S d = true /\
    (forall n, In n (map fst (schema_enums S) ++
                     flat_map (fun o => match op_name o with Some n => [n] | None => [] end) (d_ops d) ++
                     map fr_name (d_frags d)) -> gql_name n = true) /\
    (forall e, In e (schema_enums S) -> (forall v, In v (snd e) -> forallb ident_char v = true) /\ NoDup (snd e)).
  Proof.
    unfold lex_names in Hlex. apply andb_true_iff in Hlex as [H H3]. apply andb_true_iff in H as [H1 H2].
    split; [exact H1|]. split; [rewrite forallb_forall in H2; exact H2|].
    intros e He. rewrite forallb_forall in H3. specialize (H3 e He). apply andb_true_iff in H3 as [Ha Hb].
    split; [rewrite forallb_forall in Ha; exact Ha | apply nodupb_NoDup; exact Hb].
  Qed.

  Lemma taken0_in x : In x (reserved_identifiers ++ doc_decl_names d) -> In x taken1.
  Proof.
    unfold taken1, enum_name_map.
    apply (proj1 (assign_gen_taken (fun n : name => n) (map fst (schema_enums S)) (reserved_identifiers ++ doc_decl_names d) [])).
  Qed.

  (** the Go name of an enum type *)
  Lemma en_facts n vs : In (n, vs) (schema_enums S) ->
    In (en n) (map snd emap) /\ In (en n) taken1 /\ ~ In (en n) (reserved_identifiers ++ doc_decl_names d) /\
    (exists us, en n = n ++ us /\ all_us us = true) /\
    starts_with (bs "sel") (en n) = false /\ go_ident_ok (en n) = true.
  Proof.
    intros Hin. destruct lex_elim as [_ [L2 _]].
    assert (Hk : In n (map fst emap)).
    { unfold emap, enum_name_map. rewrite assign_gen_keys. simpl. apply in_map_iff. exists (n, vs). split; [reflexivity | exact Hin]. }
    destruct (assoc_keys_Some _ _ Hk) as [x [Hx Hs]].
    assert (Een : en n = x) by (unfold enum_go_name; fold emap; rewrite Hx; reflexivity).
    rewrite Een.
    pose proof (assoc_In _ _ _ Hx) as Hpair.
    assert (Htk : In x taken1).
    { destruct (proj2 (assign_gen_taken (fun n : name => n) (map fst (schema_enums S)) (reserved_identifiers ++ doc_decl_names d) []) x Hs) as [[]|H]. exact H. }
    assert (Hfree : ~ In x (reserved_identifiers ++ doc_decl_names d)) by (apply (proj2 (enum_type_names_distinct S d)); exact Hs).
    assert (Hshape : exists us, x = n ++ us /\ all_us us = true).
    { destruct (assign_gen_ext (fun n : name => n) _ _ _ _ _ Hpair) as [[]|H]. exact H. }
    assert (Hns : starts_with (bs "sel") x = false).
    { unfold no_sel_names in Hsel. rewrite forallb_forall in Hsel. apply negb_true_iff. apply Hsel. apply in_app_iff. left. exact Hs. }
    split; [exact Hs|]. split; [exact Htk|]. split; [exact Hfree|]. split; [exact Hshape|]. split; [exact Hns|].
    destruct Hshape as [us [E Hu]]. apply go_ident_intro.
    - rewrite E. apply gql_name_app; [|apply all_us_chars; exact Hu]. apply L2. apply in_app_iff. left. apply in_map_iff. exists (n, vs). split; [reflexivity | exact Hin].
    - intro Hr. apply Hfree. apply in_app_iff. left. rewrite reserved_is. apply in_app_iff. left. exact Hr.
  Qed.

  Lemma keysC_cmap : map fst cmap = keysC.
  Proof. unfold cmap, const_name_map. rewrite assign_gen_keys. reflexivity. Qed.

  Lemma keysC_nodup : NoDup keysC.
  Proof.
    unfold keysC. apply NoDup_pairs; [apply schema_enums_nodup; exact HS|].
    intros e He. destruct lex_elim as [_ [_ L3]]. apply (L3 e He).
  Qed.

  (** the Go name of an enum constant *)
  Lemma cn_facts n vs v : In (n, vs) (schema_enums S) -> In v vs ->
    In ((n, v), cn n v) cmap /\ ~ In (cn n v) taken1 /\
    starts_with (bs "sel") (cn n v) = false /\ go_ident_ok (cn n v) = true.
  Proof.
    intros Hin Hv. destruct lex_elim as [_ [_ L3]].
    assert (Hk : In (n, v) (map fst cmap)).
    { rewrite keysC_cmap. unfold keysC. apply in_flat_map. exists (n, vs). split; [exact Hin|]. apply in_map_iff. exists v. split; [reflexivity | exact Hv]. }
    destruct (assoc2_keys _ _ _ Hk) as [x [Hx Hpair]].
    assert (Ecn : cn n v = x) by (unfold const_go_name; fold cmap; rewrite Hx; reflexivity).
    rewrite Ecn.
    assert (Hs : In x (map snd cmap)) by (apply in_map_iff; exists ((n, v), x); split; [reflexivity | exact Hpair]).
    assert (Hnt : ~ In x taken1) by (apply (proj2 (enum_const_names_distinct S d)); exact Hs).
    split; [exact Hpair|]. split; [exact Hnt|]. split.
    - unfold no_sel_names in Hsel. rewrite forallb_forall in Hsel. apply negb_true_iff. apply Hsel. apply in_app_iff. right. exact Hs.
    - unfold cmap, const_name_map in Hpair.
      destruct (assign_gen_ext _ _ _ _ _ _ Hpair) as [[]|[us [E Hu]]]. cbn [fst snd] in E.
      destruct (en_facts n vs Hin) as (_ & _ & _ & [us0 [E0 Hu0]] & _ & Hid).
      apply go_ident_intro.
      + rewrite E. rewrite <- app_assoc. apply gql_name_app.
        * unfold go_ident_ok in Hid. destruct (en n) as [|c r] eqn:Ee; [discriminate|]. unfold gql_name.
          apply andb_true_iff in Hid as [Hid _]. exact Hid.
        * rewrite forallb_app. rewrite (const_suffix_chars v (proj1 (L3 _ Hin) v Hv)), (all_us_chars us Hu). reflexivity.
      + intro Hr. apply Hnt. apply taken0_in. apply in_app_iff. left. rewrite reserved_is. apply in_app_iff. left. exact Hr.
  Qed.

  Lemma cn_inj n1 vs1 v1 n2 vs2 v2 :
    In (n1, vs1) (schema_enums S) -> In v1 vs1 -> In (n2, vs2) (schema_enums S) -> In v2 vs2 ->
    cn n1 v1 = cn n2 v2 -> n1 = n2 /\ v1 = v2.
  Proof.
    intros H1 Hv1 H2 Hv2 E.
    destruct (cn_facts n1 vs1 v1 H1 Hv1) as [P1 _]. destruct (cn_facts n2 vs2 v2 H2 Hv2) as [P2 _]. rewrite E in P1.
    pose proof (NoDup_snd_inj cmap _ _ _ (proj1 (enum_const_names_distinct S d)) P1 P2) as Ek. inversion Ek. split; reflexivity.
  Qed.
End WholeS.

Lemma doc_decl_names_Dn d : doc_decl_names d = Dn d.
Proof. unfold doc_decl_names, Dn, frag_names. rewrite map_map. reflexivity. Qed.

Lemma json_reserved : In (bs "json") reserved_identifiers.
Proof. rewrite reserved_is. apply in_app_iff. right. left. reflexivity. Qed.

Lemma Dn_shape d x : In x (Dn d) ->
  (exists n, x = data_type_name n /\ In n (flat_map (fun o => match op_name o with Some n => [n] | None => [] end) (d_ops d))) \/
  (exists n, x = frag_type_name n /\ In n (map fr_name (d_frags d))).
Proof.
  unfold Dn, frag_names. intros H. apply in_app_iff in H as [H|H].
  - left. rewrite data_names_map in H. apply in_map_iff in H as [n [E Hn]]. exists n. split; [symmetry; exact E | exact Hn].
  - right. apply in_map_iff in H as [n [E Hn]]. exists n. split; [symmetry; exact E | exact Hn].
Qed.

Lemma ends_digit_suffix x suf c : rev suf = c :: tl (rev suf) -> is_digit c = false -> ends_with_digit (x ++ suf) = false.
Proof. intros E Hc. unfold ends_with_digit. rewrite rev_app_distr, E. exact Hc. Qed.

Lemma Dn_not_digit d x : In x (Dn d) -> ends_with_digit x = false.
Proof.
  intros H. destruct (Dn_shape d x H) as [[n [E _]]|[n [E _]]]; subst x.
  - apply (ends_digit_suffix n (bs "Data") 97%N); reflexivity.
  - apply (ends_digit_suffix n (bs "Fragment") 116%N); reflexivity.
Qed.

Lemma Dn_not_json d : ~ In (bs "json") (Dn d).
Proof.
  intro H. destruct (Dn_shape d _ H) as [[n [E _]]|[n [E _]]]; apply (f_equal (@rev _)) in E;
    unfold data_type_name, frag_type_name in E; rewrite rev_app_distr in E; simpl in E; discriminate.
Qed.

Section AssemblyS.
  Variable S : schema.
  Variable d : document.
  Hypothesis Henv : env S d = true.
  Hypothesis Hsel : no_sel_names S d = true.
  Hypothesis Hdig : no_digit_types S = true.
  Hypothesis Hlex : lex_names S d = true.
  Notation en := (enum_go_name S d).
  Notation cn := (const_go_name S d).

  Theorem gen_s_wf : exists p, generate_s S (doc_valid S d) d = GOk p /\ wf_program p = true.
  Proof.
    pose proof (env_schema_ok S d Henv) as HS.
    destruct (lex_elim S d Hlex) as [Hlf [L2 L3]].
    destruct (generate_s_ok S d Henv) as [st' [outs [Hgen [Hres [HND [Hkw Hsy]]]]]].
    set (p := {| p_enums := g_enums st'; p_defs := outs; p_json := g_json st' |}) in *.
    destruct (gen_s_accepts S d Henv) as [p0 [Hgen0 (C1 & C2 & C3 & _)]].
    rewrite Hgen in Hgen0. inversion Hgen0 as [Ep0]. clear Hgen0.
    assert (C1' : cl_struct_members p) by (rewrite Ep0; exact C1).
    assert (C2' : cl_references p) by (rewrite Ep0; exact C2).
    assert (C3' : cl_method_forwarders p) by (rewrite Ep0; exact C3).
    clear C1 C2 C3 Ep0 p0.
    destruct (gen_s_idents S d p HS Hlf Hgen) as (I1 & I2 & I3 & I4 & I5 & I6).
    cbn [p_defs p_enums p] in I1, I2, I3, I4, I5, I6.
    assert (Hn : map td_name outs = Dn d).
    { rewrite (def_names_outs _ _ _ _ _ _ _ _ Hres). apply dnames_defs. }
    assert (HDn : NoDup (Dn d)) by (rewrite <- Hn; exact HND).
    set (E' := map fst (g_enums st')).
    set (C' := flat_map (fun e : name * list (name * name) => map fst (snd e)) (g_enums st')).
    set (SN := flat_map (fun x => sel_names (td_type x)) outs).
    set (J := if g_json st' then [bs "json"] else []).
    (* members of the parts *)
    assert (HE : forall x, In x E' -> exists n vs, In (n, vs) (schema_enums S) /\ x = en n).
    { intros x Hx. apply in_map_iff in Hx as [[n' cs] [E Hi]]. simpl in E. subst n'.
      destruct (I3 _ _ Hi) as [n [vs [Hd [En _]]]]. exists n, vs. split; [apply schema_enums_In; exact Hd | exact En]. }
    assert (HC : forall x, In x C' -> exists n vs v, In (n, vs) (schema_enums S) /\ In v vs /\ x = cn n v).
    { intros x Hx. apply in_flat_map in Hx as [[n' cs] [Hi Hx]]. cbn [snd] in Hx.
      destruct (I3 _ _ Hi) as [n [vs [Hd [_ Ec]]]]. subst cs. rewrite map_map in Hx. cbn [fst] in Hx.
      apply in_map_iff in Hx as [v [E Hv]]. exists n, vs, v. split; [apply schema_enums_In; exact Hd|]. split; [exact Hv | symmetry; exact E]. }
    assert (HSN : SN = map ixname (DX outs)).
    { unfold SN, DX. rewrite map_flat_map. apply flat_map_ext_in. intros x _. apply sel_names_ix. }
    assert (HSNsel : forall x, In x SN -> starts_with (bs "sel") x = true /\ ends_with_digit x = true).
    { intros x Hx. rewrite HSN in Hx. apply in_map_iff in Hx as [ix [E _]]. subst x. unfold ixname.
      split; [apply sel_name_starts | apply sel_name_ends_digit]. }
    assert (HJ : forall x, In x J -> x = bs "json").
    { intros x Hx. unfold J in Hx. destruct (g_json st'); [|destruct Hx]. destruct Hx as [Hx|[]]. symmetry. exact Hx. }
    assert (PE : forall x, In x E' -> In x (snd (enum_name_map S d)) /\ ~ In x (reserved_identifiers ++ doc_decl_names d) /\
                                      starts_with (bs "sel") x = false /\ go_ident_ok x = true).
    { intros x Hx. destruct (HE x Hx) as [n [vs [Hin E]]]. subst x.
      destruct (en_facts S d Hsel Hlex n vs Hin) as (_ & F2 & F3 & _ & F5 & F6). repeat split; assumption. }
    assert (PC : forall x, In x C' -> ~ In x (snd (enum_name_map S d)) /\ starts_with (bs "sel") x = false /\ go_ident_ok x = true).
    { intros x Hx. destruct (HC x Hx) as [n [vs [v [Hin [Hv E]]]]]. subst x.
      destruct (cn_facts S d Hsel Hlex n vs v Hin Hv) as (_ & F2 & F3 & F4). repeat split; assumption. }
    assert (Htk0 : forall x, In x (reserved_identifiers ++ doc_decl_names d) -> In x (snd (enum_name_map S d))) by (apply taken0_in).
    (* NoDup of the parts *)
    assert (NC : NoDup C').
    { unfold C'. apply NoDup_flat_map_intro.
      - apply (NoDup_map_inv' fst). exact I2.
      - intros [n' cs] Hi. cbn [snd]. destruct (I3 _ _ Hi) as [n [vs [Hd [_ Ec]]]]. subst cs. rewrite map_map. cbn [fst].
        apply schema_enums_In in Hd. pose proof (proj2 (L3 _ Hd)) as NDv. cbn [snd] in NDv.
        assert (Hsub : forall l, incl l vs -> NoDup l -> NoDup (map (fun v => cn n v) l)).
        { induction l as [|v r IH]; intros Hin NDl; simpl; [constructor|]. inversion NDl as [|? ? Hnv NDr]; subst.
          constructor; [|apply IH; [intros z Hz; apply Hin; right; exact Hz | exact NDr]].
          intro Hx. apply in_map_iff in Hx as [v' [E Hv']].
          destruct (cn_inj S d Hsel Hlex n vs v' n vs v Hd (Hin _ (or_intror Hv')) Hd (Hin _ (or_introl eq_refl)) E) as [_ Ev].
          subst v'. exact (Hnv Hv'). }
        apply (Hsub vs (incl_refl _) NDv).
      - intros [na ca] [nb cb] x Ha Hb Hab Hxa Hxb. cbn [snd] in Hxa, Hxb.
        destruct (I3 _ _ Ha) as [n1 [vs1 [Hd1 [En1 Ec1]]]]. destruct (I3 _ _ Hb) as [n2 [vs2 [Hd2 [En2 Ec2]]]]. subst ca cb.
        rewrite map_map in Hxa, Hxb. cbn [fst] in Hxa, Hxb.
        apply in_map_iff in Hxa as [v1 [E1 Hv1]]. apply in_map_iff in Hxb as [v2 [E2 Hv2]].
        apply schema_enums_In in Hd1. apply schema_enums_In in Hd2.
        destruct (cn_inj S d Hsel Hlex n1 vs1 v1 n2 vs2 v2 Hd1 Hv1 Hd2 Hv2 (eq_trans E1 (eq_sym E2))) as [En _].
        apply Hab. apply (NoDup_fst_inj (g_enums st') _ _ I2 Ha Hb). cbn [fst]. rewrite En1, En2, En. reflexivity. }
    assert (NSN : NoDup SN).
    { apply I6. exact Hdig. }
    assert (NJ : NoDup J) by (unfold J; destruct (g_json st'); [constructor; [intros [] | constructor] | constructor]).
    assert (Hnames : decl_names p = E' ++ C' ++ Dn d ++ SN ++ J).
    { unfold decl_names. cbn [p_enums p_defs p_json p]. rewrite Hn. reflexivity. }
    assert (Hok1 : decl_names_ok p = true).
    { unfold decl_names_ok. rewrite Hnames. apply andb_true_iff. split.
      - apply nodupb_NoDup. apply NoDup_app_intro; [exact I2 | |].
        + apply NoDup_app_intro; [exact NC | |].
          * apply NoDup_app_intro; [exact HDn | |].
            -- apply NoDup_app_intro; [exact NSN | exact NJ|].
               intros x Hx Hj. rewrite (HJ x Hj) in Hx. destruct (HSNsel _ Hx) as [Hs _]. discriminate.
            -- intros x Hx Hy. apply in_app_iff in Hy as [Hy|Hy].
               ++ destruct (HSNsel _ Hy) as [_ Hdg]. rewrite (Dn_not_digit d x Hx) in Hdg. discriminate.
               ++ rewrite (HJ x Hy) in Hx. exact (Dn_not_json d Hx).
          * intros x Hx Hy. destruct (PC x Hx) as (F1 & F2 & _).
            apply in_app_iff in Hy as [Hy|Hy]; [apply F1; apply Htk0; apply in_app_iff; right; rewrite doc_decl_names_Dn; exact Hy|].
            apply in_app_iff in Hy as [Hy|Hy]; [destruct (HSNsel _ Hy) as [Hs _]; rewrite F2 in Hs; discriminate|].
            rewrite (HJ x Hy) in F1. apply F1. apply Htk0. apply in_app_iff. left. exact json_reserved.
        + intros x Hx Hy. destruct (PE x Hx) as (F1 & F2 & F3 & _).
          apply in_app_iff in Hy as [Hy|Hy]; [destruct (PC x Hy) as [G1 _]; exact (G1 F1)|].
          apply in_app_iff in Hy as [Hy|Hy]; [apply F2; apply in_app_iff; right; rewrite doc_decl_names_Dn; exact Hy|].
          apply in_app_iff in Hy as [Hy|Hy]; [destruct (HSNsel _ Hy) as [Hs _]; rewrite F3 in Hs; discriminate|].
          rewrite (HJ x Hy) in F2. apply F2. apply in_app_iff. left. exact json_reserved.
      - apply forallb_forall. intros x Hx.
        apply in_app_iff in Hx as [Hx|Hx]; [apply (PE x Hx)|].
        apply in_app_iff in Hx as [Hx|Hx]; [apply (PC x Hx)|].
        apply in_app_iff in Hx as [Hx|Hx].
        { destruct (Dn_shape d x Hx) as [[n [E Hn']]|[n [E Hn']]]; subst x; apply go_ident_intro.
          - unfold data_type_name. apply gql_name_app; [|reflexivity]. apply L2. apply in_app_iff. right. apply in_app_iff. left. exact Hn'.
          - apply data_not_reserved.
          - unfold frag_type_name. apply gql_name_app; [|reflexivity]. apply L2. apply in_app_iff. right. apply in_app_iff. right. exact Hn'.
          - apply frag_not_reserved. }
        apply in_app_iff in Hx as [Hx|Hx].
        + rewrite HSN in Hx. apply in_map_iff in Hx as [ix [E Hix]]. subst x. unfold ixname. apply sel_name_ident.
          pose proof (I5 ix Hix) as Hc. apply field_name_chars. apply go_ident_chars.
          unfold lex_fields in Hlf. rewrite forallb_forall in Hlf. apply Hlf. apply in_app_iff. right. unfold DashD. apply in_app_iff. left. exact Hc.
        + rewrite (HJ x Hx). vm_compute. reflexivity. }
    exists p. split; [exact Hgen|]. unfold wf_program. rewrite Hok1. cbn [andb].
    apply andb_true_iff. split.
    - apply forallb_forall. intros e He. rewrite (Hkw e He). reflexivity.
    - apply forallb_forall. intros td Htd. unfold wf_def.
      rewrite (C1' td Htd), (C2' td Htd), (I1 td Htd), (Hsy td Htd). cbn [andb].
      destruct (td_forward td) eqn:Ef; [|reflexivity]. destruct (C3' td Htd Ef) as [tn [i [fs [stp E]]]]. rewrite E. reflexivity.
  Qed.
End AssemblyS.

Theorem real_s_wf : forall D S d,
  env S d = true -> schema_loadable S = true ->
  no_sel_names S d = true -> no_digit_types S = true -> lex_names S d = true ->
  exists p, generate_real D S (doc_valid S d) d = GOk p /\ wf_program p = true.
Proof. intros D S d H1 HL H2 H3 H4. rewrite (generate_real_loadable D S _ d HL). apply gen_s_wf; assumption. Qed.

Theorem real_s_wf_clauses : forall D S d,
  env S d = true -> schema_loadable S = true ->
  no_sel_names S d = true -> no_digit_types S = true -> lex_names S d = true ->
  exists p, generate_real D S (doc_valid S d) d = GOk p /\
            cl_struct_members p /\ cl_references p /\ cl_method_forwarders p /\ cl_identifiers p.
Proof.
  intros D S d H1 HL H2 H3 H4. destruct (real_s_wf D S d H1 HL H2 H3 H4) as [p [Hg Hw]].
  exists p. split; [exact Hg | apply wf_program_clauses; exact Hw].
Qed.

(** ** known finding blank-field-name: a name "_" is what [lex_names] excludes, and the output for it
    is not well formed *)
Lemma blank_member_not_lex S d : blank_member S d = true -> lex_names S d = false.
Proof.
  intros Hb. destruct (lex_names S d) eqn:E; [|reflexivity]. exfalso.
  unfold lex_names in E. apply andb_true_iff in E as [E _]. apply andb_true_iff in E as [E _].
  rewrite forallb_forall in E. unfold blank_member in Hb. apply mem_In in Hb.
  specialize (E (bs "_") (in_or_app _ _ _ (or_intror Hb))). vm_compute in E. discriminate.
Qed.

(** query K { node { __typename ..._ } }  fragment _ on User { login } *)
Definition docK11 : document :=
  mkdoc [q "K" [F "node" [F "__typename" []; SP "_"]]]
        [{| fr_name := bs "_"; fr_cond := bs "User"; fr_sels := [F "login" []] |}].

Lemma refuted_blank_field_name :
  env ex_schema docK11 = true /\ blank_member ex_schema docK11 = true /\
  no_sel_names ex_schema docK11 = true /\ no_digit_types ex_schema = true /\ lex_names ex_schema docK11 = false /\
  generated_and (generate_s ex_schema (doc_valid ex_schema docK11) docK11) (fun p => negb (wf_program p)) = true.
Proof. repeat split; vm_compute; reflexivity. Qed.
