(** * Gen/ClientGenDeclSafe.v — C20: a condition on the NAMES of schema and document suffices for
    the declared identifiers of the generated program to be pairwise distinct and usable:
      [decl_safe_excl : schema_ok S = true -> decl_safe S d = true -> excl_decl_clash S d = false].
    The proof is an invariant on the generator's state (the enum blocks emitted so far, the
    struct counter) and on every type it returns: the [sel<T><n>] types inside a returned type
    carry pairwise distinct numbers from the interval the call advanced the counter over. *)
From Coq Require Import List NArith ZArith Bool String Lia Permutation.
From ApiFu Require Import Base.Sexp Gen.GoTypes Gen.ClientGenModel Gen.DecodeModel Gen.ClientGenSpec
     Gen.ClientGenLemmas Gen.ClientGenNames.
Import ListNotations.
Open Scope list_scope.
Open Scope N_scope.

(** ** the numbered types inside a Go type *)
Fixpoint sel_ix (t : gotype) : list (name * N) :=
  match t with
  | GPtr t' => sel_ix t'
  | GSlice t' => sel_ix t'
  | GStruct fs => flat_map (fun f : name * gotag * gotype => sel_ix (snd f)) fs
  | GSel tn idx fs _ => (tn, idx) :: flat_map (fun f : name * gotag * gotype => sel_ix (snd f)) fs
  | _ => []
  end.

Definition ixname (p : name * N) : name := sel_type_name (fst p) (snd p).

Lemma sel_names_inner (F : gotype -> list name) fs :
  (fix go (fs : list (name * gotag * gotype)) : list name :=
     match fs with [] => [] | (_, _, t') :: r => F t' ++ go r end) fs =
  flat_map (fun f : name * gotag * gotype => F (snd f)) fs.
Proof. induction fs as [|[[n tg] t] r IH]; [reflexivity|]. simpl. rewrite IH. reflexivity. Qed.

Lemma map_flat_map {A B C} (g : B -> C) (f : A -> list B) l : map g (flat_map f l) = flat_map (fun x => map g (f x)) l.
Proof. induction l as [|x r IH]; [reflexivity|]. simpl. rewrite map_app, IH. reflexivity. Qed.

Lemma flat_map_ext_in {A B} (f g : A -> list B) l : (forall x, In x l -> f x = g x) -> flat_map f l = flat_map g l.
Proof.
  induction l as [|x r IH]; intros H; [reflexivity|]. simpl. rewrite (H x (or_introl eq_refl)), IH; [reflexivity|].
  intros y Hy. apply H. right. exact Hy.
Qed.

Lemma sel_names_ix : forall t, sel_names t = map ixname (sel_ix t).
Proof.
  fix IH 1. intros [| | | | | |n|n|t|t|fs|a b fs st|f]; try reflexivity.
  - simpl. apply IH.
  - simpl. apply IH.
  - cbn [sel_names sel_ix]. rewrite sel_names_inner, map_flat_map.
    induction fs as [|[[n tg] t] r IHr]; [reflexivity|]. simpl. rewrite (IH t), IHr. reflexivity.
  - cbn [sel_names sel_ix]. rewrite sel_names_inner. cbn [map]. unfold ixname at 1. cbn [fst snd]. f_equal.
    rewrite map_flat_map.
    induction fs as [|[[n tg] t] r IHr]; [reflexivity|]. simpl. rewrite (IH t), IHr. reflexivity.
Qed.

Lemma sel_ix_wrap ft nn core : sel_ix (wrap ft nn core true) = sel_ix core.
Proof. revert nn. induction ft as [n|ft IH|ft IH]; intros nn; simpl; [destruct nn; reflexivity | apply IH | apply IH]. Qed.
Lemma idents_ok_wrap ft nn core : idents_ok (wrap ft nn core true) = idents_ok core.
Proof. revert nn. induction ft as [n|ft IH|ft IH]; intros nn; simpl; [destruct nn; reflexivity | apply IH | apply IH]. Qed.
Lemma syntax_wrap ft nn core b : type_syntax_ok (wrap ft nn core b) = type_syntax_ok core.
Proof. revert nn. induction ft as [n|ft IH|ft IH]; intros nn; simpl; [destruct (nn || negb b); reflexivity | apply IH | apply IH]. Qed.
Lemma sel_ix_wrap' ft nn core b : sel_ix (wrap ft nn core b) = sel_ix core.
Proof. revert nn. induction ft as [n|ft IH|ft IH]; intros nn; simpl; [destruct (nn || negb b); reflexivity | apply IH | apply IH]. Qed.
Lemma idents_ok_wrap' ft nn core b : idents_ok (wrap ft nn core b) = idents_ok core.
Proof. revert nn. induction ft as [n|ft IH|ft IH]; intros nn; simpl; [destruct (nn || negb b); reflexivity | apply IH | apply IH]. Qed.

Lemma syntax_fields fs :
  (fix go (fs : list (name * gotag * gotype)) : bool :=
     match fs with
     | [] => true
     | (_, tg, t') :: r => match tg with TagBoth _ => false | _ => true end && type_syntax_ok t' && go r
     end) fs =
  forallb (fun f : name * gotag * gotype => match snd (fst f) with TagBoth _ => false | _ => true end && type_syntax_ok (snd f)) fs.
Proof. induction fs as [|[[n tg] t] r IH]; [reflexivity|]. simpl. rewrite IH. reflexivity. Qed.

Lemma starts_uu_with n : starts_uu n = starts_with (bs "__") n.
Proof.
  destruct n as [|a [|b r]]; try reflexivity.
  - change (starts_with (bs "__") [a]) with ((95 =? a) && false). rewrite andb_false_r. reflexivity.
  - change (starts_with (bs "__") (a :: b :: r)) with ((95 =? a) && ((95 =? b) && true)).
    cbn [starts_uu]. rewrite (N.eqb_sym 95 a), (N.eqb_sym 95 b). rewrite andb_true_r. reflexivity.
Qed.

(** ** list helpers *)
Lemma NoDup_app_intro {A} (l1 l2 : list A) : NoDup l1 -> NoDup l2 -> (forall x, In x l1 -> In x l2 -> False) -> NoDup (l1 ++ l2).
Proof.
  induction l1 as [|a r IH]; simpl; [intros _ H _; exact H|]. intros N1 N2 Hd. inversion N1; subst.
  constructor.
  - intro H. apply in_app_iff in H as [H|H]; [contradiction | apply (Hd a); [left; reflexivity | exact H]].
  - apply IH; [assumption | assumption | intros x Hx; apply Hd; right; exact Hx].
Qed.

Lemma NoDup_app_elim {A} (l1 l2 : list A) : NoDup (l1 ++ l2) -> NoDup l1 /\ NoDup l2 /\ (forall x, In x l1 -> In x l2 -> False).
Proof.
  induction l1 as [|a r IH]; simpl; [intros H; split; [constructor | split; [exact H | intros x []]]|].
  intros H. inversion H; subst. destruct (IH H3) as [I1 [I2 I3]]. split; [|split; [exact I2|]].
  - constructor; [intro Hx; apply H2; apply in_app_iff; left; exact Hx | exact I1].
  - intros x [Hx|Hx] H2'; [subst; apply H2; apply in_app_iff; right; exact H2' | apply (I3 x Hx H2')].
Qed.


Lemma NoDup_flat_map_disjoint {A B} (f : A -> list B) l a b z :
  NoDup (flat_map f l) -> In a l -> In b l -> a <> b -> In z (f a) -> In z (f b) -> False.
Proof.
  induction l as [|x r IH]; simpl; [intros _ []|].
  intros ND Ha Hb Hab Hza Hzb. destruct (NoDup_app_elim _ _ ND) as [_ [ND' Hdis]].
  destruct Ha as [Ha|Ha], Hb as [Hb|Hb].
  - congruence.
  - subst x. apply (Hdis z Hza). apply in_flat_map. exists b. split; assumption.
  - subst x. apply (Hdis z Hzb). apply in_flat_map. exists a. split; assumption.
  - apply (IH ND' Ha Hb Hab Hza Hzb).
Qed.

Lemma NoDup_flat_map_each {A B} (f : A -> list B) l a : NoDup (flat_map f l) -> In a l -> NoDup (f a).
Proof.
  induction l as [|x r IH]; simpl; [intros _ []|]. intros ND [Ha|Ha]; destruct (NoDup_app_elim _ _ ND) as [N1 [N2 _]].
  - subst. exact N1.
  - apply IH; assumption.
Qed.

Lemma NoDup_flat_map_sub {A B} (f : A -> list B) l l' :
  NoDup (flat_map f l) -> NoDup l' -> incl l' l -> NoDup (flat_map f l').
Proof.
  intros ND. induction l' as [|a r IH]; intros NDl Hin; [constructor|]. simpl.
  inversion NDl as [|? ? Hna NDr]; subst.
  assert (Ha : In a l) by (apply Hin; left; reflexivity).
  apply NoDup_app_intro.
  - apply (NoDup_flat_map_each f l a ND Ha).
  - apply IH; [exact NDr | intros y Hy; apply Hin; right; exact Hy].
  - intros z Hz Hr. apply in_flat_map in Hr as [b [Hb Hzb]].
    apply (NoDup_flat_map_disjoint f l a b z ND Ha); [apply Hin; right; exact Hb | intro E; subst; apply Hna; exact Hb | exact Hz | exact Hzb].
Qed.


Lemma In_aset_weak {A} k (v : A) m e : In e (aset k v m) -> e = (k, v) \/ In e m.
Proof.
  induction m as [|[k' v'] r IH]; simpl; [intros [H|[]]; left; symmetry; exact H|].
  destruct (bytes_eqb k' k) eqn:E.
  - apply bytes_eqb_true in E. subst k'. intros [H|H]; [left; symmetry; exact H | right; right; exact H].
  - intros [H|H]; [right; left; exact H|]. destruct (IH H) as [H'|H']; [left; exact H' | right; right; exact H'].
Qed.

Lemma merged_field_In y k all : In y (merged_field k all) -> exists a f sub, In (SField a f sub) all /\ In y sub.
Proof.
  unfold merged_field. intros H. apply in_flat_map in H as [o [Ho Hy]]. destruct o as [a f sub| |]; try (destruct Hy).
  destruct (bytes_eqb (sel_key a f) k); [|destruct Hy]. exists a, f, sub. split; assumption.
Qed.

Lemma merged_inline_In y t c all : In y (merged_inline t c all) -> exists co sub, In (SInline co sub) all /\ In y sub.
Proof.
  unfold merged_inline. intros H. apply in_flat_map in H as [o [Ho Hy]]. destruct o as [|co sub|]; try (destruct Hy).
  destruct (bytes_eqb (inline_cond t co) c); [|destruct Hy]. exists co, sub. split; assumption.
Qed.

(** ** the invariant *)
Section Inv.
  Variable S : schema.
  Variable fragTypes : list (name * name).
  Variables Keys Dash : list name.
  Hypothesis HKeys : forall k, In k Keys -> go_ident_ok (field_name k) = true.
  Hypothesis HDash : forall k, In k Dash -> go_ident_ok (field_name k) = true /\ starts_uu k = false.
  Definition composites : list name :=
    flat_map (fun t => match t with DObj n _ _ | DIface n _ | DUnion n _ => [n] | _ => [] end) (s_types S).
  Hypothesis HComp : incl composites Dash.
  Hypothesis Henum : forall n vs, In (DEnum n vs) (s_types S) -> go_keyword n = false.
  Hypothesis Hnoscalar : forall n, ~ In (DScalar n) (s_types S).
  Notation gen := (gen_named no_quirks S fragTypes).

  Definition SelsIn (sels : list selection) : Prop :=
    incl (flat_map sel_keys sels) Keys /\ incl (flat_map sel_conds sels) Dash.

  Lemma SelsIn_field a f sub all : In (SField a f sub) all -> SelsIn all -> SelsIn sub /\ In (sel_key a f) Keys.
  Proof.
    intros Hi [H1 H2]. split; [split|].
    - intros x Hx. apply H1. apply in_flat_map. exists (SField a f sub). split; [exact Hi | right; exact Hx].
    - intros x Hx. apply H2. apply in_flat_map. exists (SField a f sub). split; [exact Hi | exact Hx].
    - apply H1. apply in_flat_map. exists (SField a f sub). split; [exact Hi | left; reflexivity].
  Qed.

  Lemma SelsIn_inline c sub all : In (SInline c sub) all -> SelsIn all ->
    SelsIn sub /\ (forall c', c = Some c' -> In c' Dash).
  Proof.
    intros Hi [H1 H2]. split; [split|].
    - intros x Hx. apply H1. apply in_flat_map. exists (SInline c sub). split; [exact Hi | exact Hx].
    - intros x Hx. apply H2. apply in_flat_map. exists (SInline c sub). split; [exact Hi|]. cbn [sel_conds]. apply in_or_app. right. exact Hx.
    - intros c' E. subst c. apply H2. apply in_flat_map. exists (SInline (Some c') sub). split; [exact Hi | left; reflexivity].
  Qed.

  Lemma SelsIn_spread f c body all : In (SSpread f c body) all -> SelsIn all -> In f Dash.
  Proof. intros Hi [_ H2]. apply H2. apply in_flat_map. exists (SSpread f c body). split; [exact Hi | left; reflexivity]. Qed.

  Lemma SelsIn_sub all L : SelsIn all ->
    (forall y, In y L -> (exists a f sub, In (SField a f sub) all /\ In y sub) \/ (exists co sub, In (SInline co sub) all /\ In y sub)) ->
    SelsIn L.
  Proof.
    intros Hall HL. split; intros x Hx; apply in_flat_map in Hx as [y [Hy Hx]].
    - destruct (HL y Hy) as [[a [f [sub [Hi Hys]]]]|[co [sub [Hi Hys]]]].
      + destruct (SelsIn_field _ _ _ _ Hi Hall) as [[Hs _] _]. apply Hs. apply in_flat_map. exists y. split; assumption.
      + destruct (SelsIn_inline _ _ _ Hi Hall) as [[Hs _] _]. apply Hs. apply in_flat_map. exists y. split; assumption.
    - destruct (HL y Hy) as [[a [f [sub [Hi Hys]]]]|[co [sub [Hi Hys]]]].
      + destruct (SelsIn_field _ _ _ _ Hi Hall) as [[_ Hs] _]. apply Hs. apply in_flat_map. exists y. split; assumption.
      + destruct (SelsIn_inline _ _ _ Hi Hall) as [[_ Hs] _]. apply Hs. apply in_flat_map. exists y. split; assumption.
  Qed.

  Lemma SelsIn_merged_field k all : SelsIn all -> SelsIn (merged_field k all).
  Proof. intros H. apply (SelsIn_sub all); [exact H|]. intros y Hy. left. apply (merged_field_In y k all Hy). Qed.

  Lemma SelsIn_merged_inline t c all : SelsIn all -> SelsIn (merged_inline t c all).
  Proof. intros H. apply (SelsIn_sub all); [exact H|]. intros y Hy. right. apply (merged_inline_In y t c all Hy). Qed.

  Definition TG (lo hi : N) (t : gotype) : Prop :=
    (forall p, In p (sel_ix t) -> In (fst p) composites /\ lo <= snd p < hi) /\
    NoDup (map snd (sel_ix t)) /\ idents_ok t = true /\ type_syntax_ok t = true.

  Definition StOK (st : gstate) : Prop :=
    (forall n cs, In (n, cs) (g_enums st) -> exists vs, In (DEnum n vs) (s_types S) /\ cs = map (fun v => (enum_const n v, v)) vs) /\
    NoDup (map fst (g_enums st)).

  Lemma TG_mono lo hi lo' hi' t : lo' <= lo -> hi <= hi' -> TG lo hi t -> TG lo' hi' t.
  Proof.
    intros H1 H2 [T1 [T2 [T3 T4]]]. split; [|split; [exact T2 | split; assumption]].
    intros p Hp. destruct (T1 p Hp) as [Hc Hr]. split; [exact Hc | lia].
  Qed.

  Lemma TG_leaf lo hi t : sel_ix t = [] -> idents_ok t = true -> type_syntax_ok t = true -> TG lo hi t.
  Proof. intros E H1 H2. unfold TG. rewrite E. split; [intros p []|]. split; [constructor | split; assumption]. Qed.

  Lemma TG_wrap lo hi ft nn core b : TG lo hi core -> TG lo hi (wrap ft nn core b).
  Proof. unfold TG. rewrite sel_ix_wrap', idents_ok_wrap', syntax_wrap. trivial. Qed.

  Definition IX (fields : list (name * (gotype * bool))) : list (name * N) :=
    flat_map (fun e : name * (gotype * bool) => sel_ix (fst (snd e))) fields.

  Lemma IX_aset k T dash fields p : In p (IX (aset k (T, dash) fields)) -> In p (IX fields) \/ In p (sel_ix T).
  Proof.
    unfold IX. induction fields as [|[k' v'] r IH]; simpl.
    - rewrite app_nil_r. intros H. right. exact H.
    - destruct (bytes_eqb k' k); simpl; rewrite !in_app_iff.
      + intros [H|H]; [right; exact H | left; right; exact H].
      + intros [H|H]; [left; left; exact H|]. destruct (IH H) as [H'|H']; [left; right; exact H' | right; exact H'].
  Qed.

  Lemma IX_aset_nodup k T dash fields :
    NoDup (map snd (IX fields)) -> NoDup (map snd (sel_ix T)) ->
    (forall p q, In p (IX fields) -> In q (sel_ix T) -> snd p <> snd q) ->
    NoDup (map snd (IX (aset k (T, dash) fields))).
  Proof.
    unfold IX. induction fields as [|[k' v'] r IH]; simpl; intros N1 N2 Hd.
    - rewrite app_nil_r. exact N2.
    - rewrite map_app in N1. destruct (NoDup_app_elim _ _ N1) as [Na [Nb Hab]].
      destruct (bytes_eqb k' k); simpl; rewrite map_app.
      + apply NoDup_app_intro; [exact N2 | exact Nb|].
        intros x Hx Hy. apply in_map_iff in Hx as [q [Eq Hq]]. apply in_map_iff in Hy as [p [Ep Hp]].
        apply (Hd p q); [apply in_app_iff; right; exact Hp | exact Hq | congruence].
      + apply NoDup_app_intro; [exact Na | |].
        * apply IH; [exact Nb | exact N2 | intros p q Hp Hq; apply Hd; [apply in_app_iff; right; exact Hp | exact Hq]].
        * intros x Hx Hy. apply in_map_iff in Hy as [p [Ep Hp]]. fold (IX (aset k (T, dash) r)) in Hp.
          destruct (IX_aset _ _ _ _ _ Hp) as [Hp'|Hp'].
          -- apply (Hab x Hx). apply in_map_iff. exists p. split; assumption.
          -- apply in_map_iff in Hx as [q [Eq Hq]]. apply (Hd q p); [apply in_app_iff; left; exact Hq | exact Hp' | congruence].
  Qed.

  Definition entries_ok (fields : list (name * (gotype * bool))) : Prop :=
    forall k T dash, In (k, (T, dash)) fields ->
      idents_ok T = true /\ type_syntax_ok T = true /\ (In k Keys \/ In k Dash) /\ (dash = true -> In k Dash).

  Definition LI (c0 : N) (a : acc) : Prop :=
    let '(fields, conds, done, fdone, st) := a in
    StOK st /\ c0 <= g_count st /\
    (forall p, In p (IX fields) -> In (fst p) composites /\ c0 <= snd p < g_count st) /\
    NoDup (map snd (IX fields)) /\ entries_ok fields.

  (** adding / replacing an entry whose type was generated from the current state *)
  Lemma LI_aset c0 fields conds conds' done done' fdone fdone' st st' k T dash :
    LI c0 (fields, conds, done, fdone, st) -> StOK st' -> g_count st <= g_count st' ->
    TG (g_count st) (g_count st') T -> (In k Keys \/ In k Dash) -> (dash = true -> In k Dash) ->
    LI c0 (aset k (T, dash) fields, conds', done', fdone', st').
  Proof.
    intros (L1 & L2 & L3 & L4 & L5) Hst Hle (T1 & T2 & T3 & T4) Hk Hd. unfold LI.
    split; [exact Hst|]. split; [lia|]. split; [|split].
    - intros p Hp. destruct (IX_aset _ _ _ _ _ Hp) as [H|H].
      + destruct (L3 p H) as [Hc Hr]. split; [exact Hc | lia].
      + destruct (T1 p H) as [Hc Hr]. split; [exact Hc | lia].
    - apply IX_aset_nodup; [exact L4 | exact T2|]. intros p q Hp Hq E.
      destruct (L3 p Hp) as [_ Hr]. destruct (T1 q Hq) as [_ Hr']. lia.
    - intros k0 T0 d0 H. destruct (In_aset_weak _ _ _ _ H) as [E|H'].
      + inversion E; subst. repeat split; assumption.
      + apply (L5 _ _ _ H').
  Qed.

  Section Step.
    Variable rec : rec_t.
    Hypothesis Hrec : forall n sels st core b st',
      rec n sels st = Ok (core, b, st') -> StOK st -> SelsIn sels ->
      StOK st' /\ g_count st <= g_count st' /\ TG (g_count st) (g_count st') core.
    Variable tName : name.
    Variable d : typedef.
    Variable hasTn : bool.
    Variable all : list selection.
    Hypothesis HtName : In tName composites.
    Hypothesis Hall : SelsIn all.

    Lemma gen_type_TG ft sels st g st' : gen_type rec ft sels st = Ok (g, st') -> StOK st -> SelsIn sels ->
      StOK st' /\ g_count st <= g_count st' /\ TG (g_count st) (g_count st') g.
    Proof.
      unfold gen_type. destruct (rec (unwrap ft) sels st) as [[[core ptrable] st1]| | |] eqn:Er; try discriminate.
      intros H Hst Hs. inversion H; subst. destruct (Hrec _ _ _ _ _ _ Er Hst Hs) as [H1 [H2 H3]].
      split; [exact H1|]. split; [exact H2|]. apply TG_wrap. exact H3.
    Qed.

    Lemma step_LI c0 s a a' : In s all -> LI c0 a -> step no_quirks S fragTypes rec tName d hasTn all s a = Ok a' -> LI c0 a'.
    Proof.
      intros Hs HI Hstep. destruct a as [[[[fields conds] done] fdone] st].
      pose proof HI as (L1 & L2 & L3 & L4 & L5).
      unfold step in Hstep. destruct s as [al f sub|c sub|f c body].
      - (* field *)
        destruct (SelsIn_field _ _ _ _ Hs Hall) as [Hsub Hk].
        cbn [q_no_field_merge no_quirks negb andb] in Hstep.
        destruct (mem (sel_key al f) fdone); [inversion Hstep; subst; exact HI|].
        destruct (is_typename f).
        + inversion Hstep; subst a'.
          apply (LI_aset c0 fields conds conds done done fdone _ st st); try assumption; [lia | apply TG_leaf; reflexivity | left; exact Hk | discriminate].
        + assert (Hgen : forall fs, match assoc f fs with
                                    | None => Panic
                                    | Some ft => match gen_type rec ft (merged_field (sel_key al f) all) st with
                                                 | Ok (g, st') => Ok (aset (sel_key al f) (g, false) fields, conds, done, sel_key al f :: fdone, st')
                                                 | Err => Err | Panic => Panic | OutOfFuel => OutOfFuel
                                                 end
                                    end = Ok a' -> LI c0 a').
          { intros fs H. destruct (assoc f fs) as [ft|]; [|discriminate].
            destruct (gen_type rec ft (merged_field (sel_key al f) all) st) as [[g st']| | |] eqn:Eg; try discriminate.
            inversion H; subst a'.
            destruct (gen_type_TG _ _ _ _ _ Eg L1 (SelsIn_merged_field _ _ Hall)) as [G1 [G2 G3]].
            apply (LI_aset c0 fields conds conds done done fdone _ st st'); try assumption; [left; exact Hk | discriminate]. }
          destruct d as [n ifs fs|n fs|n ms|n vs|n]; try (apply (Hgen fs); exact Hstep);
            inversion Hstep; subst a'; exact HI.
      - (* inline fragment *)
        destruct (SelsIn_inline _ _ _ Hs Hall) as [Hsub Hc].
        destruct (negb hasTn && negb (is_object d)); [discriminate|].
        destruct (match c with None => q_nil_cond_panics no_quirks | Some c' => negb (named_exists S c') end); [discriminate|].
        cbn [q_overwrite_inline no_quirks negb andb] in Hstep.
        destruct (mem (inline_cond tName c) done); [inversion Hstep; subst; exact HI|].
        destruct (gen_type rec (TNamed (inline_cond tName c)) (merged_inline tName (inline_cond tName c) all) st) as [[g st']| | |] eqn:Eg; try discriminate.
        inversion Hstep; subst a'.
        destruct (gen_type_TG _ _ _ _ _ Eg L1 (SelsIn_merged_inline _ _ _ Hall)) as [G1 [G2 G3]].
        assert (Hcd : In (inline_cond tName c) Dash).
        { destruct c as [c'|]; simpl; [apply Hc; reflexivity | apply HComp; exact HtName]. }
        apply (LI_aset c0 fields conds _ done _ fdone fdone st st'); try assumption; [right; exact Hcd | intros _; exact Hcd].
      - (* spread *)
        destruct (negb hasTn && negb (is_object d)); [discriminate|].
        inversion Hstep; subst a'.
        pose proof (SelsIn_spread _ _ _ _ Hs Hall) as Hf.
        apply (LI_aset c0 fields conds _ done done fdone fdone st st); try assumption; [lia | apply TG_leaf; reflexivity | right; exact Hf | intros _; exact Hf].
    Qed.

    Lemma loop_LI c0 : forall rest a a', incl rest all -> LI c0 a ->
      loop no_quirks S fragTypes rec tName d hasTn all rest a = Ok a' -> LI c0 a'.
    Proof.
      induction rest as [|s rest IH]; intros a a' Hin HI Hl; simpl in Hl; [inversion Hl; subst; exact HI|].
      destruct (step no_quirks S fragTypes rec tName d hasTn all s a) as [a1| | |] eqn:Es; try discriminate.
      apply (IH a1 a'); [intros x Hx; apply Hin; right; exact Hx | | exact Hl].
      apply (step_LI c0 s a a1); [apply Hin; left; reflexivity | exact HI | exact Es].
    Qed.
  End Step.
End Inv.

(** ** the struct built from the finished [fields] map *)
Section Final.
  Variable S : schema.
  Variable fragTypes : list (name * name).
  Variables Keys Dash : list name.
  Hypothesis HKeys : forall k, In k Keys -> go_ident_ok (field_name k) = true.
  Hypothesis HDash : forall k, In k Dash -> go_ident_ok (field_name k) = true /\ starts_uu k = false.
  Hypothesis HComp : incl (composites S) Dash.
  Hypothesis Henum : forall n vs, In (DEnum n vs) (s_types S) -> go_keyword n = false.
  Hypothesis Hnoscalar : forall n, ~ In (DScalar n) (s_types S).
  Notation gen := (gen_named no_quirks S fragTypes).
  Notation TG := (TG S).
  Notation StOK := (StOK S).
  Notation SelsIn := (SelsIn Keys Dash).
  Notation LI := (LI S Keys Dash).

  Lemma fs_ix fields : flat_map (fun f : name * gotag * gotype => sel_ix (snd f)) (map mk_field fields) = IX fields.
  Proof.
    unfold IX. induction fields as [|[k [T dash]] r IH]; [reflexivity|]. simpl. rewrite IH. reflexivity.
  Qed.

  Lemma fs_ix_perm fields :
    Permutation (IX fields) (flat_map (fun f : name * gotag * gotype => sel_ix (snd f)) (sort_fields (map mk_field fields))).
  Proof. rewrite <- fs_ix. apply Permutation_flat_map. apply sort_fields_perm. Qed.

  Lemma fs_entry fields fld : In fld (sort_fields (map mk_field fields)) -> exists k T dash, In (k, (T, dash)) fields /\ fld = mk_field (k, (T, dash)).
  Proof.
    intros H. apply (proj1 (In_sort_fields _ _)) in H. apply in_map_iff in H as [[k [T dash]] [E Hi]]. exists k, T, dash. split; [exact Hi | symmetry; exact E].
  Qed.

  Lemma fs_idents fields : entries_ok Keys Dash fields ->
    forallb (fun f : name * gotag * gotype => go_ident_ok (fst (fst f)) && idents_ok (snd f)) (sort_fields (map mk_field fields)) = true.
  Proof.
    intros He. apply forallb_forall. intros fld Hf. destruct (fs_entry _ _ Hf) as [k [T [dash [Hi E]]]]. subst fld.
    destruct (He _ _ _ Hi) as [H1 [_ [Hk _]]]. unfold mk_field. cbn [fst snd]. rewrite H1, andb_true_r.
    destruct Hk as [Hk|Hk]; [apply HKeys; exact Hk | apply HDash; exact Hk].
  Qed.

  Lemma fs_syntax fields : entries_ok Keys Dash fields ->
    forallb (fun f : name * gotag * gotype => match snd (fst f) with TagBoth _ => false | _ => true end && type_syntax_ok (snd f))
            (sort_fields (map mk_field fields)) = true.
  Proof.
    intros He. apply forallb_forall. intros fld Hf. destruct (fs_entry _ _ Hf) as [k [T [dash [Hi E]]]]. subst fld.
    destruct (He _ _ _ Hi) as [_ [H2 [_ Hd]]]. unfold mk_field. cbn [fst snd]. rewrite H2, andb_true_r.
    destruct dash.
    - destruct (HDash k (Hd eq_refl)) as [_ Hu]. rewrite (field_name_fold k Hu). reflexivity.
    - destruct (negb (equal_fold (field_name k) k)); reflexivity.
  Qed.

  Lemma composite_In n d : lookup_type S n = Some d ->
    match d with DObj _ _ _ | DIface _ _ | DUnion _ _ => True | _ => False end -> In n (composites S).
  Proof.
    intros Hl Hd. unfold lookup_type in Hl. apply find_some in Hl as [Hi Hn]. apply bytes_eqb_true in Hn.
    unfold composites. apply in_flat_map. exists d. split; [exact Hi|].
    destruct d; try contradiction; simpl in Hn; subst; left; reflexivity.
  Qed.

  Section Rec.
    Variable rec : rec_t.
    Hypothesis Hrec : forall n sels st core b st',
      rec n sels st = Ok (core, b, st') -> StOK st -> SelsIn sels ->
      StOK st' /\ g_count st <= g_count st' /\ TG (g_count st) (g_count st') core.

    Lemma gen_composite_TG n d sels st core b st' :
      lookup_type S n = Some d -> match d with DObj _ _ _ | DIface _ _ | DUnion _ _ => True | _ => False end ->
      gen_composite no_quirks S fragTypes rec n d sels st = Ok (core, b, st') -> StOK st -> SelsIn sels ->
      StOK st' /\ g_count st <= g_count st' /\ TG (g_count st) (g_count st') core.
    Proof.
      intros Hl Hd Hg Hst Hs. pose proof (composite_In n d Hl Hd) as Hn.
      unfold gen_composite in Hg.
      set (hasTn := match first_typename sels with Some _ => true | None => false end) in *.
      destruct (loop no_quirks S fragTypes rec n d hasTn sels sels ([], [], [], [], st)) as [[[[[fields conds] done] fdone] st1]| | |] eqn:El; try discriminate.
      assert (HI0 : LI (g_count st) ([], [], [], [], st)).
      { unfold ClientGenDeclSafe.LI. split; [exact Hst|]. split; [lia|]. split; [intros p []|]. split; [constructor|]. intros k T dash []. }
      pose proof (loop_LI S fragTypes Keys Dash HComp rec Hrec n d hasTn sels Hn Hs (g_count st) sels _ _ (incl_refl _) HI0 El)
        as (L1 & L2 & L3 & L4 & L5).
      set (fs := sort_fields (map mk_field fields)) in *.
      assert (Hin : forall p, In p (flat_map (fun f : name * gotag * gotype => sel_ix (snd f)) fs) -> In p (IX fields)).
      { intros p Hp. apply (Permutation_in _ (Permutation_sym (fs_ix_perm fields))). exact Hp. }
      assert (Hnd : NoDup (map snd (flat_map (fun f : name * gotag * gotype => sel_ix (snd f)) fs))).
      { apply (Permutation_NoDup (Permutation_map snd (fs_ix_perm fields))). exact L4. }
      destruct conds as [|c0 cr]; inversion Hg; subst core b st'.
      - split; [exact L1|]. split; [exact L2|]. unfold ClientGenDeclSafe.TG. cbn [sel_ix idents_ok type_syntax_ok].
        split; [intros p Hp; apply L3; apply Hin; exact Hp|]. split; [exact Hnd|].
        split; [apply fs_idents; exact L5 | rewrite syntax_fields; apply fs_syntax; exact L5].
      - split; [destruct L1 as [E1 E2]; split; assumption|]. cbn [g_count]. split; [lia|].
        unfold ClientGenDeclSafe.TG. cbn [sel_ix idents_ok type_syntax_ok].
        split; [|split; [|split; [apply fs_idents; exact L5 | rewrite syntax_fields; apply fs_syntax; exact L5]]].
        + intros p [Hp|Hp]; [subst p; cbn [fst snd]; split; [exact Hn | lia]|].
          destruct (L3 p (Hin p Hp)) as [Hc Hr]. split; [exact Hc | lia].
        + cbn [map snd]. constructor; [|exact Hnd].
          intro H. apply in_map_iff in H as [p [Ep Hp]]. destruct (L3 p (Hin p Hp)) as [_ Hr]. lia.
    Qed.
  End Rec.

  Lemma go_keyword_reserved n : mem n go_reserved = false -> go_keyword n = false.
  Proof.
    unfold go_keyword, go_reserved. intros H. apply mem_false in H. apply mem_false. intro Hi. apply H. apply in_app_iff. left. exact Hi.
  Qed.

  Lemma gen_TG : forall fuel n sels st core b st',
    gen fuel n sels st = Ok (core, b, st') -> StOK st -> SelsIn sels ->
    StOK st' /\ g_count st <= g_count st' /\ TG (g_count st) (g_count st') core.
  Proof.
    induction fuel as [|fuel IH]; intros n sels st core b st' Hg Hst Hs; [discriminate|].
    simpl in Hg. unfold gen_named_body in Hg.
    destruct (builtin_of n) as [bi|] eqn:Eb.
    - inversion Hg; subst. split; [exact Hst|]. split; [lia|]. apply TG_leaf; destruct bi; reflexivity.
    - destruct (lookup_type S n) as [d|] eqn:El.
      + destruct d as [n' ifs fs|n' fs|n' ms|n' vs|n'].
        * apply (gen_composite_TG (gen fuel) IH n _ sels st core b st' El I Hg Hst Hs).
        * apply (gen_composite_TG (gen fuel) IH n _ sels st core b st' El I Hg Hst Hs).
        * apply (gen_composite_TG (gen fuel) IH n _ sels st core b st' El I Hg Hst Hs).
        * inversion Hg; subst core b st'. unfold lookup_type in El. apply find_some in El as [Hi Hn].
          apply bytes_eqb_true in Hn. simpl in Hn. subst n'.
          split; [|split].
          -- destruct Hst as [E1 E2]. unfold emit_enum. destruct (assoc n (g_enums st)) eqn:Ea; [split; assumption|].
             unfold ClientGenDeclSafe.StOK. cbn [g_enums]. split.
             ++ intros n0 cs H. apply in_app_iff in H as [H|[H|[]]]; [apply (E1 _ _ H)|]. inversion H; subst. exists vs. split; [exact Hi | reflexivity].
             ++ rewrite map_app. apply NoDup_snoc; [exact E2|]. apply assoc_None. exact Ea.
          -- unfold emit_enum. destruct (assoc n (g_enums st)); cbn [g_count]; lia.
          -- apply TG_leaf; [reflexivity | reflexivity|]. simpl. rewrite (Henum n vs Hi). reflexivity.
        * exfalso. unfold lookup_type in El. apply find_some in El as [Hi _]. apply (Hnoscalar n' Hi).
      + inversion Hg; subst. split; [exact Hst|]. split; [lia|]. apply TG_leaf; reflexivity.
  Qed.
End Final.

(** ** the whole document *)
Definition dnames (defs : list (option name * list selection * option name)) : list name :=
  flat_map (fun x => match snd x with Some dn => [dn] | None => [] end) defs.

Definition DX (out : list typedefn) : list (name * N) := flat_map (fun x => sel_ix (td_type x)) out.

Lemma title_ident_chars T : forallb ident_char (title T) = true -> forallb ident_char T = true.
Proof.
  destruct T as [|c r]; [trivial|]. simpl. intros H. apply andb_true_iff in H as [H1 H2]. rewrite H2, andb_true_r.
  unfold upper in H1. destruct (is_lower c) eqn:El; [|exact H1].
  unfold ident_char, is_letter. rewrite El. reflexivity.
Qed.

Lemma go_ident_chars n : go_ident_ok n = true -> forallb ident_char n = true.
Proof.
  destruct n as [|c r]; [discriminate|]. unfold go_ident_ok. intros H.
  apply andb_true_iff in H as [H _]. apply andb_true_iff in H as [H1 H2]. simpl. rewrite H2, andb_true_r.
  unfold ident_char. apply orb_true_iff in H1 as [H1|H1]; [rewrite H1; reflexivity | rewrite H1; apply orb_true_r].
Qed.

Lemma go_ident_not_reserved n : go_ident_ok n = true -> mem n go_reserved = false.
Proof.
  destruct n as [|c r]; [discriminate|]. unfold go_ident_ok. intros H. apply andb_true_iff in H as [_ H].
  destruct (mem (c :: r) go_reserved); [discriminate | reflexivity].
Qed.

Lemma NoDup_ixnames l : NoDup (map snd l) -> (forall p, In p l -> ends_with_digit (fst p) = false) -> NoDup (map ixname l).
Proof.
  induction l as [|p r IH]; simpl; [constructor|]. intros ND Hd. inversion ND as [|? ? Hn ND']; subst.
  constructor; [|apply IH; [exact ND' | intros q Hq; apply Hd; right; exact Hq]].
  intro H. apply in_map_iff in H as [q [E Hq]]. apply Hn. apply in_map_iff. exists q. split; [|exact Hq].
  unfold ixname in E. apply sel_type_name_inj in E as [_ E]; [exact E | apply Hd; right; exact Hq | apply Hd; left; reflexivity].
Qed.

Section Whole.
  Variable S : schema.
  Variable d : document.
  Hypothesis HS : schema_ok S = true.
  Hypothesis Hsafe : decl_safe S d = true.

  Let fragTypes := map (fun f => (fr_name f, fr_cond f)) (d_frags d).
  Definition enumsS : list (name * list name) :=
    flat_map (fun t => match t with DEnum n vs => [(n, vs)] | _ => [] end) (s_types S).
  Definition frag_names : list name := map fr_name (d_frags d).
  Definition Dn : list name :=
    flat_map (fun o => match op_name o with Some n => [data_type_name n] | None => [] end) (d_ops d) ++ map frag_type_name frag_names.
  Definition consts_of (e : name * list name) : list name := map (enum_const (fst e)) (snd e).
  Definition declared : list name := map fst enumsS ++ flat_map consts_of enumsS ++ Dn.
  Definition KeysD : list name :=
    flat_map (fun o => flat_map sel_keys (op_sels o)) (d_ops d) ++ flat_map (fun f => flat_map sel_keys (fr_sels f)) (d_frags d).
  Definition CondsD : list name :=
    flat_map (fun o => flat_map sel_conds (op_sels o)) (d_ops d) ++ flat_map (fun f => flat_map sel_conds (fr_sels f)) (d_frags d).
  Definition DashD : list name := composites S ++ frag_names ++ CondsD.

  Lemma decl_safe_elim :
    NoDup declared /\ (forall n, In n declared -> go_ident_ok n = true) /\
    (forall n, In n declared -> starts_with (bs "sel") n = false) /\ ~ In (bs "json") declared /\
    (forall t, In t (composites S) -> ends_with_digit t = false) /\
    (forall k, In k DashD -> go_ident_ok (field_name k) = true /\ starts_uu k = false) /\
    (forall k, In k KeysD -> go_ident_ok (field_name k) = true).
  Proof.
    unfold decl_safe in Hsafe. cbv zeta in Hsafe.
    fold enumsS in Hsafe. fold (composites S) in Hsafe. fold frag_names in Hsafe. fold consts_of in Hsafe.
    fold Dn in Hsafe. fold declared in Hsafe. fold KeysD in Hsafe. fold CondsD in Hsafe. fold DashD in Hsafe.
    apply andb_true_iff in Hsafe as [H H7]. apply andb_true_iff in H as [H H6]. apply andb_true_iff in H as [H H5].
    apply andb_true_iff in H as [H H4]. apply andb_true_iff in H as [H H3]. apply andb_true_iff in H as [H1 H2].
    split; [apply nodupb_NoDup; exact H1|].
    split; [rewrite forallb_forall in H2; exact H2|].
    split; [intros n Hn; rewrite forallb_forall in H3; specialize (H3 n Hn); destruct (starts_with (bs "sel") n); [discriminate | reflexivity]|].
    split; [apply mem_false; destruct (mem (bs "json") declared); [discriminate | reflexivity]|].
    split; [intros t Ht; rewrite forallb_forall in H5; specialize (H5 t Ht); destruct (ends_with_digit t); [discriminate | reflexivity]|].
    split; [|rewrite forallb_forall in H7; exact H7].
    intros k Hk. rewrite forallb_forall in H6. specialize (H6 k Hk). apply andb_true_iff in H6 as [Ha Hb].
    split; [exact Ha|]. rewrite starts_uu_with. destruct (starts_with (bs "__") k); [discriminate | reflexivity].
  Qed.

  Lemma enumsS_In n vs : In (DEnum n vs) (s_types S) <-> In (n, vs) enumsS.
  Proof.
    unfold enumsS. rewrite in_flat_map. split.
    - intros H. exists (DEnum n vs). split; [exact H | left; reflexivity].
    - intros [t [Ht H]]. destruct t as [? ? ?|? ?|? ?|n0 vs0|?]; try contradiction. destruct H as [H|[]]. inversion H; subst. exact Ht.
  Qed.

  Lemma no_scalars n : ~ In (DScalar n) (s_types S).
  Proof.
    intros H. unfold schema_ok in HS. repeat (apply andb_true_iff in HS as [HS ?]).
    match goal with Hx : forallb (fun d0 => match d0 with DScalar _ => false | _ => _ end) _ = true |- _ => rewrite forallb_forall in Hx; specialize (Hx _ H); discriminate end.
  Qed.

  Lemma dnames_defs : dnames (defs_of S d) = Dn.
  Proof.
    unfold dnames, defs_of, Dn, frag_names. rewrite flat_map_app. f_equal.
    - induction (d_ops d) as [|o r IH]; [reflexivity|]. simpl. rewrite IH. destruct (op_name o); reflexivity.
    - induction (d_frags d) as [|f r IH]; [reflexivity|]. simpl. rewrite IH. reflexivity.
  Qed.

  Notation SelsInD := (SelsIn KeysD DashD).

  Lemma defs_SelsIn x : In x (defs_of S d) -> SelsInD (snd (fst x)).
  Proof.
    unfold defs_of. intros H. apply in_app_iff in H as [H|H]; apply in_map_iff in H as [y [E Hy]]; subst x; cbn [fst snd]; split; intros z Hz.
    - unfold KeysD. apply in_app_iff. left. apply in_flat_map. exists y. split; assumption.
    - unfold DashD, CondsD. apply in_app_iff. right. apply in_app_iff. right. apply in_app_iff. left. apply in_flat_map. exists y. split; assumption.
    - unfold KeysD. apply in_app_iff. right. apply in_flat_map. exists y. split; assumption.
    - unfold DashD, CondsD. apply in_app_iff. right. apply in_app_iff. right. apply in_app_iff. right. apply in_flat_map. exists y. split; assumption.
  Qed.

  Definition PI (st : gstate) (out : list typedefn) : Prop :=
    StOK S st /\ (forall p, In p (DX out) -> In (fst p) (composites S) /\ snd p < g_count st) /\
    NoDup (map snd (DX out)) /\
    (forall x, In x out -> idents_ok (td_type x) = true /\ type_syntax_ok (td_type x) = true).

  Lemma process_errored fuel : forall defs st out st' out' e',
    process_defs no_quirks S fuel fragTypes defs st out true = Ok (st', out', e') -> e' = true.
  Proof.
    induction defs as [|[[root sels] dname] rest IH]; intros st out st' out' e' H; simpl in H; [inversion H; reflexivity|].
    destruct dname as [dn|]; [|apply (IH _ _ _ _ _ H)]. destruct root as [r|]; [|discriminate].
    destruct (gen_named no_quirks S fragTypes fuel r sels st) as [[[core b] st1]| | |]; try discriminate; apply (IH _ _ _ _ _ H).
  Qed.

  Lemma process_PI fuel : forall defs st out errored st' out' e',
    process_defs no_quirks S fuel fragTypes defs st out errored = Ok (st', out', e') ->
    PI st out -> (forall x, In x defs -> SelsInD (snd (fst x))) ->
    PI st' out' /\ (e' = false -> map td_name out' = map td_name out ++ dnames defs).
  Proof.
    destruct decl_safe_elim as (D1 & D2 & D3 & D4 & D5 & D6 & D7).
    assert (HComp : incl (composites S) DashD) by (intros x Hx; unfold DashD; apply in_app_iff; left; exact Hx).
    assert (Henum : forall n vs, In (DEnum n vs) (s_types S) -> go_keyword n = false).
    { intros n vs H. apply go_keyword_reserved. apply go_ident_not_reserved. apply D2. unfold declared.
      apply in_app_iff. left. apply in_map_iff. exists (n, vs). split; [reflexivity | apply enumsS_In; exact H]. }
    induction defs as [|[[root sels] dname] rest IH]; intros st out errored st' out' e' H HP Hs; simpl in H.
    - inversion H; subst. split; [exact HP|]. intros _. unfold dnames. simpl. rewrite app_nil_r. reflexivity.
    - assert (Hs' : forall x, In x rest -> SelsInD (snd (fst x))) by (intros x Hx; apply Hs; right; exact Hx).
      destruct dname as [dn|].
      + destruct root as [r|]; [|discriminate].
        destruct (gen_named no_quirks S fragTypes fuel r sels st) as [[[core b] st1]| | |] eqn:Eg; try discriminate.
        * destruct HP as (P1 & P2 & P3 & P4).
          destruct (gen_TG S fragTypes KeysD DashD D7 D6 HComp Henum no_scalars fuel r sels st core b st1 Eg P1
                      (Hs _ (or_introl eq_refl))) as [G1 [G2 (T1 & T2 & T3 & T4)]].
          destruct (IH st1 (out ++ [type_def dn core]) errored st' out' e' H) as [HP' Hn]; [|exact Hs'|].
          { unfold PI. split; [exact G1|]. unfold DX. rewrite flat_map_app. cbn [flat_map td_type type_def]. rewrite app_nil_r.
            split; [|split].
            - intros p Hp. apply in_app_iff in Hp as [Hp|Hp].
              + destruct (P2 p Hp) as [Hc Hr]. split; [exact Hc | lia].
              + destruct (T1 p Hp) as [Hc Hr]. split; [exact Hc | lia].
            - rewrite map_app. apply NoDup_app_intro; [exact P3 | exact T2|].
              intros x Hx Hy. apply in_map_iff in Hx as [p [Ep Hp]]. apply in_map_iff in Hy as [q [Eq Hq]].
              destruct (P2 p Hp) as [_ Hr]. destruct (T1 q Hq) as [_ Hr']. lia.
            - intros x Hx. apply in_app_iff in Hx as [Hx|[Hx|[]]]; [apply (P4 x Hx)|]. subst x. cbn [td_type type_def]. split; assumption. }
          split; [exact HP'|]. intros He. rewrite (Hn He). rewrite map_app. cbn [map td_name type_def].
          unfold dnames. cbn [flat_map snd]. rewrite <- app_assoc. reflexivity.
        * pose proof (process_errored fuel _ _ _ _ _ _ H) as He. subst e'.
          destruct (IH st out true st' out' true H HP Hs') as [HP' _]. split; [exact HP' | discriminate].
      + destruct (IH st out errored st' out' e' H HP Hs') as [HP' Hn]. split; [exact HP'|].
        intros He. rewrite (Hn He). reflexivity.
  Qed.
End Whole.

Lemma NoDup_map_inv' {A B} (f : A -> B) l : NoDup (map f l) -> NoDup l.
Proof.
  induction l as [|x r IH]; simpl; [constructor|]. intros H. inversion H; subst.
  constructor; [intro Hx; apply H2; apply in_map; exact Hx | apply IH; assumption].
Qed.

Theorem decl_safe_excl S d : schema_ok S = true -> decl_safe S d = true -> excl_decl_clash S d = false.
Proof.
  intros HS Hsafe. unfold excl_decl_clash, generate_raw.
  destruct (doc_valid S d); [|reflexivity]. cbn [negb].
  set (fragTypes := map (fun f => (fr_name f, fr_cond f)) (d_frags d)).
  destruct (process_defs no_quirks S (Datatypes.S (doc_size d)) fragTypes (defs_of S d)
                         {| g_enums := []; g_count := 0; g_json := false |} [] false) as [[[st out] errored]| | |] eqn:Ep; try reflexivity.
  destruct errored; [reflexivity|].
  destruct (decl_safe_elim S d Hsafe) as (D1 & D2 & D3 & D4 & D5 & D6 & D7).
  assert (HP0 : PI S {| g_enums := []; g_count := 0; g_json := false |} []).
  { unfold PI, StOK. cbn. split; [split; [intros n cs [] | constructor]|]. split; [intros p []|]. split; [constructor | intros x []]. }
  destruct (process_PI S d HS Hsafe _ _ _ _ _ _ _ _ Ep HP0 (defs_SelsIn S d)) as [(P1 & P2 & P3 & P4) Hn].
  specialize (Hn eq_refl). simpl in Hn. rewrite (dnames_defs S d) in Hn.
  destruct P1 as [E1 E2].
  (* the parts of the declared names *)
  set (E' := map fst (g_enums st)).
  set (C' := flat_map (fun e : name * list (name * name) => map fst (snd e)) (g_enums st)).
  set (SN := flat_map (fun x => sel_names (td_type x)) out).
  set (J := if g_json st then [bs "json"] else []).
  assert (HE : forall n, In n E' -> In n (map fst (enumsS S))).
  { intros n Hi. apply in_map_iff in Hi as [[n0 cs] [En Hi]]. simpl in En. subst n0.
    destruct (E1 _ _ Hi) as [vs [Hd _]]. apply in_map_iff. exists (n, vs). split; [reflexivity | apply enumsS_In; exact Hd]. }
  set (l' := map (fun e : name * list (name * name) => (fst e, map snd (snd e))) (g_enums st)).
  assert (Hl'in : incl l' (enumsS S)).
  { intros x Hx. apply in_map_iff in Hx as [[n cs] [Ex Hi]]. subst x. cbn [fst snd].
    destruct (E1 _ _ Hi) as [vs [Hd Ec]]. subst cs. rewrite map_map. cbn [snd]. rewrite map_id. apply enumsS_In. exact Hd. }
  assert (Hl'nd : NoDup l').
  { apply (NoDup_map_inv' fst). unfold l'. rewrite map_map. cbn [fst]. exact E2. }
  assert (HC : C' = flat_map consts_of l').
  { unfold C', l'. clear -E1. induction (g_enums st) as [|[n cs] r IH]; [reflexivity|]. simpl.
    rewrite IH; [|intros n0 cs0 H; apply E1; right; exact H]. f_equal.
    destruct (E1 n cs (or_introl eq_refl)) as [vs [_ Ec]]. subst cs. unfold consts_of. cbn [fst snd]. rewrite !map_map. reflexivity. }
  assert (HCin : forall x, In x C' -> In x (flat_map consts_of (enumsS S))).
  { intros x Hx. rewrite HC in Hx. apply in_flat_map in Hx as [e [He Hx]]. apply in_flat_map. exists e. split; [apply Hl'in; exact He | exact Hx]. }
  unfold declared in D1. fold (consts_of) in D1.
  destruct (NoDup_app_elim _ _ D1) as [NEs [NCD DisE]]. destruct (NoDup_app_elim _ _ NCD) as [NCs [NDn DisC]].
  assert (HdeclE : forall n, In n E' -> In n (declared S d)) by (intros n H; unfold declared; apply in_app_iff; left; apply HE; exact H).
  assert (HdeclC : forall n, In n C' -> In n (declared S d)) by (intros n H; unfold declared; apply in_app_iff; right; apply in_app_iff; left; apply HCin; exact H).
  assert (HdeclD : forall n, In n (Dn d) -> In n (declared S d)) by (intros n H; unfold declared; apply in_app_iff; right; apply in_app_iff; right; exact H).
  assert (HSN : SN = map ixname (DX out)).
  { unfold SN, DX. rewrite map_flat_map. apply flat_map_ext_in. intros x _. apply sel_names_ix. }
  assert (HSNJ : forall n, In n (declared S d) -> In n (SN ++ J) -> False).
  { intros n Hd Hi. apply in_app_iff in Hi as [Hi|Hi].
    - rewrite HSN in Hi. apply in_map_iff in Hi as [p [Ep' _]]. subst n.
      pose proof (D3 _ Hd) as Hx. unfold ixname in Hx. rewrite sel_name_starts in Hx. discriminate.
    - unfold J in Hi. destruct (g_json st); [|destruct Hi]. destruct Hi as [Hi|[]]. subst n. apply D4. exact Hd. }
  assert (NSN : NoDup SN).
  { rewrite HSN. apply NoDup_ixnames; [exact P3|]. intros p Hp. apply D5. apply (P2 p Hp). }
  assert (NSNJ : NoDup (SN ++ J)).
  { apply NoDup_app_intro; [exact NSN | unfold J; destruct (g_json st); [constructor; [intros [] | constructor] | constructor]|].
    intros x Hx Hj. unfold J in Hj. destruct (g_json st); [|destruct Hj]. destruct Hj as [Hj|[]]. subst x.
    rewrite HSN in Hx. apply in_map_iff in Hx as [p [Ep' _]]. pose proof (sel_name_starts (fst p) (snd p)) as Hs. unfold ixname in Ep'. rewrite Ep' in Hs. discriminate. }
  assert (Hnames : decl_names {| p_enums := g_enums st; p_defs := out; p_json := g_json st |} = E' ++ C' ++ Dn d ++ SN ++ J).
  { unfold decl_names. cbn [p_enums p_defs p_json]. rewrite Hn. reflexivity. }
  assert (Hok1 : decl_names_ok {| p_enums := g_enums st; p_defs := out; p_json := g_json st |} = true).
  { unfold decl_names_ok. rewrite Hnames. apply andb_true_iff. split.
    - apply nodupb_NoDup. apply NoDup_app_intro; [exact E2 | |].
      + apply NoDup_app_intro; [rewrite HC; apply (NoDup_flat_map_sub consts_of (enumsS S)); assumption | |].
        * apply NoDup_app_intro; [exact NDn | exact NSNJ|]. intros x Hx Hy. apply (HSNJ x (HdeclD x Hx) Hy).
        * intros x Hx Hy. apply in_app_iff in Hy as [Hy|Hy]; [apply (DisC x (HCin x Hx) Hy) | apply (HSNJ x (HdeclC x Hx) Hy)].
      + intros x Hx Hy. apply in_app_iff in Hy as [Hy|Hy].
        * apply (DisE x (HE x Hx)). apply in_app_iff. left. apply HCin. exact Hy.
        * apply in_app_iff in Hy as [Hy|Hy]; [apply (DisE x (HE x Hx)); apply in_app_iff; right; exact Hy | apply (HSNJ x (HdeclE x Hx) Hy)].
    - apply forallb_forall. intros x Hx. apply in_app_iff in Hx as [Hx|Hx]; [apply D2; apply HdeclE; exact Hx|].
      apply in_app_iff in Hx as [Hx|Hx]; [apply D2; apply HdeclC; exact Hx|].
      apply in_app_iff in Hx as [Hx|Hx]; [apply D2; apply HdeclD; exact Hx|].
      apply in_app_iff in Hx as [Hx|Hx].
      + rewrite HSN in Hx. apply in_map_iff in Hx as [p [Ep' Hp]]. subst x. unfold ixname. apply sel_name_ident.
        destruct (P2 p Hp) as [Hc _].
        assert (Hcd : In (fst p) (DashD S d)) by (unfold DashD; apply in_app_iff; left; exact Hc).
        destruct (D6 _ Hcd) as [Hi Hu]. apply title_ident_chars. rewrite <- (field_name_plain _ Hu). apply go_ident_chars. exact Hi.
      + unfold J in Hx. destruct (g_json st); [|destruct Hx]. destruct Hx as [Hx|[]]. subst x. vm_compute. reflexivity. }
  assert (Hok2 : program_syntax_ok {| p_enums := g_enums st; p_defs := out; p_json := g_json st |} = true).
  { unfold program_syntax_ok. cbn [p_enums p_defs]. apply andb_true_iff. split; apply forallb_forall.
    - intros [n cs] Hi. cbn [fst]. rewrite (go_keyword_reserved n); [reflexivity|]. apply go_ident_not_reserved. apply D2. apply HdeclE.
      apply in_map_iff. exists (n, cs). split; [reflexivity | exact Hi].
    - intros x Hx. apply (P4 x Hx). }
  assert (Hok3 : forallb (fun dfn => idents_ok (td_type dfn)) out = true).
  { apply forallb_forall. intros x Hx. apply (P4 x Hx). }
  cbn [p_defs]. rewrite Hok1, Hok2, Hok3. reflexivity.
Qed.
