(** * Gen/ClientGenSpec.v — reference semantics of property C20.

    Written from the property statement:
    - [doc_valid]: the GraphQL validation rules that apply to documents without arguments,
      variables and directives (reference for "operations that fail validation");
    - [env]: the property's envelope as a boolean predicate on (schema, document);
    - [excl_member_clash], [excl_decl_clash]: the two known findings, as exclusions;
    - [rv], [json_of], [conforms]: "a response shaped by the operation" (any concrete object types,
      nulls at nullable positions, any list lengths) as typed response trees and their JSON;
    - [expected]: the selected leaves of such a response, with the value the server sent;
    - [wf_program]: the modelled part of "the emitted Go source compiles".
    No proofs in this file. *)
From Coq Require Import List NArith ZArith Bool String.
From ApiFu Require Import Base.Sexp Gen.GoTypes Gen.ClientGenModel Gen.DecodeModel.
Import ListNotations.
Open Scope list_scope.
Open Scope N_scope.

(** ** Schema views *)
Section SchemaViews.
  Variable S : schema.

  Definition composite (n : name) : bool :=
    match lookup_type S n with
    | Some (DObj _ _ _) | Some (DIface _ _) | Some (DUnion _ _) => true
    | _ => false
    end.

  Definition is_object_type (n : name) : bool :=
    match lookup_type S n with Some (DObj _ _ _) => true | _ => false end.

  (** scalars and enums *)
  Definition leaf_type (n : name) : bool :=
    match builtin_of n with
    | Some _ => true
    | None => match lookup_type S n with Some (DEnum _ _) | Some (DScalar _) => true | _ => false end
    end.

  Definition field_type (t f : name) : option gqltype :=
    match lookup_type S t with
    | Some (DObj _ _ fs) | Some (DIface _ fs) => assoc f fs
    | _ => None
    end.

  (** object type [tn] is a possible type of composite type [c] *)
  Definition subtype (tn c : name) : bool :=
    match lookup_type S c with
    | Some (DObj n _ _) => bytes_eqb tn n
    | Some (DIface _ _) => mem tn (implementations S c)
    | Some (DUnion _ ms) => mem tn ms
    | _ => false
    end.

  Definition possible (c : name) : list name :=
    match lookup_type S c with
    | Some (DObj n _ _) => [n]
    | Some (DIface _ _) => implementations S c
    | Some (DUnion _ ms) => ms
    | _ => []
    end.

  Definition overlap (a b : name) : bool := existsb (fun x => mem x (possible b)) (possible a).
End SchemaViews.

Fixpoint nodupb (l : list bytes) : bool :=
  match l with
  | [] => true
  | x :: r => negb (mem x r) && nodupb r
  end.

Fixpoint all_pairs {A} (p : A -> A -> bool) (l : list A) : bool :=
  match l with
  | [] => true
  | x :: r => forallb (p x) r && all_pairs p r
  end.

Definition is_nil {A} (l : list A) : bool := match l with [] => true | _ => false end.

(** schemas of the envelope: built-in scalars, enums, objects, interfaces, unions; names unique and
    not built-in; interfaces of objects are interfaces, members of unions are objects *)
Definition schema_ok (S : schema) : bool :=
  nodupb (map tdef_name (s_types S)) &&
  forallb (fun d => negb (is_nil (tdef_name d))) (s_types S) &&
  forallb (fun d => match builtin_of (tdef_name d) with Some _ => false | None => true end) (s_types S) &&
  forallb (fun d => match d with
                    | DScalar _ => false
                    | DObj _ ifs _ => nodupb ifs && forallb (fun i => match lookup_type S i with Some (DIface _ _) => true | _ => false end) ifs
                    | DUnion _ ms => nodupb ms && forallb (is_object_type S) ms
                    | _ => true
                    end) (s_types S) &&
  is_object_type S (s_query S) &&
  match s_mutation S with Some m => is_object_type S m | None => true end.

(** ** Structural helpers on selections *)
Fixpoint selection_eqb (a b : selection) {struct a} : bool :=
  let opt_eqb (x y : option name) :=
    match x, y with Some p, Some q => bytes_eqb p q | None, None => true | _, _ => false end in
  match a, b with
  | SField a1 f1 s1, SField a2 f2 s2 =>
      opt_eqb a1 a2 && bytes_eqb f1 f2 &&
      (fix go (x y : list selection) : bool :=
         match x, y with
         | [], [] => true
         | p :: ps, q :: qs => selection_eqb p q && go ps qs
         | _, _ => false
         end) s1 s2
  | SInline c1 s1, SInline c2 s2 =>
      opt_eqb c1 c2 &&
      (fix go (x y : list selection) : bool :=
         match x, y with
         | [], [] => true
         | p :: ps, q :: qs => selection_eqb p q && go ps qs
         | _, _ => false
         end) s1 s2
  | SSpread f1 c1 s1, SSpread f2 c2 s2 =>
      bytes_eqb f1 f2 && bytes_eqb c1 c2 &&
      (fix go (x y : list selection) : bool :=
         match x, y with
         | [], [] => true
         | p :: ps, q :: qs => selection_eqb p q && go ps qs
         | _, _ => false
         end) s1 s2
  | _, _ => false
  end.

Fixpoint sels_eqb (x y : list selection) : bool :=
  match x, y with
  | [], [] => true
  | p :: ps, q :: qs => selection_eqb p q && sels_eqb ps qs
  | _, _ => false
  end.

Definition find_frag (frs : list fragdef) (n : name) : option fragdef :=
  find (fun f => bytes_eqb (fr_name f) n) frs.

(** fragment spreads written in a selection set (through fields and inline fragments, not
    through the spreads themselves) *)
Fixpoint spreads_of_sel (s : selection) : list name :=
  match s with
  | SField _ _ sub => flat_map spreads_of_sel sub
  | SInline _ sub => flat_map spreads_of_sel sub
  | SSpread f _ _ => [f]
  end.
Definition spreads_of (sels : list selection) : list name := flat_map spreads_of_sel sels.

Section MapO.
  Context {A B : Type} (f : A -> option B).
  Fixpoint mapo (l : list A) : option (list B) :=
    match l with
    | [] => Some []
    | x :: r => match f x, mapo r with Some y, Some ys => Some (y :: ys) | _, _ => None end
    end.
End MapO.

(** [link]: fill in [cond] and [body] of every spread from the fragment definitions (fails on an
    undefined fragment, runs out of fuel on a cycle) *)
Fixpoint link (fuel : nat) (frs : list fragdef) (sels : list selection) {struct fuel} : option (list selection) :=
  match fuel with
  | O => None
  | Datatypes.S f =>
      mapo (fix link1 (s : selection) : option selection :=
                 match s with
                 | SField a n sub =>
                     match mapo link1 sub with
                     | Some sub' => Some (SField a n sub')
                     | None => None
                     end
                 | SInline c sub =>
                     match mapo link1 sub with
                     | Some sub' => Some (SInline c sub')
                     | None => None
                     end
                 | SSpread n _ _ =>
                     match find_frag frs n with
                     | None => None
                     | Some fr => match link f frs (fr_sels fr) with
                                  | Some b => Some (SSpread n (fr_cond fr) b)
                                  | None => None
                                  end
                     end
                 end) sels
  end.

Definition link_doc (d : document) : option document :=
  let fuel := Datatypes.S (List.length (d_frags d)) in
  match map_opt (fun o => match link fuel (d_frags d) (op_sels o) with
                          | Some s => Some {| op_type := op_type o; op_name := op_name o; op_sels := s |}
                          | None => None
                          end) (d_ops d),
        map_opt (fun fr => match link fuel (d_frags d) (fr_sels fr) with
                           | Some s => Some {| fr_name := fr_name fr; fr_cond := fr_cond fr; fr_sels := s |}
                           | None => None
                           end) (d_frags d) with
  | Some ops, Some frs => Some {| d_ops := ops; d_frags := frs |}
  | _, _ => None
  end.

(** every spread node repeats the definition of its fragment *)
Fixpoint linked_sel (frs : list fragdef) (s : selection) : bool :=
  match s with
  | SField _ _ sub => forallb (linked_sel frs) sub
  | SInline _ sub => forallb (linked_sel frs) sub
  | SSpread n c body =>
      match find_frag frs n with
      | Some fr => bytes_eqb (fr_cond fr) c && sels_eqb (fr_sels fr) body
      | None => false
      end && forallb (linked_sel frs) body
  end.
Definition linked (frs : list fragdef) (sels : list selection) : bool := forallb (linked_sel frs) sels.

(** ** Reference validity (documents without arguments, variables, directives) *)
Section Validity.
  Variable S : schema.
  Variable frs : list fragdef.

  (** fields exist; leaves have no selection set, composites have one *)
  Fixpoint v_fields_sel (t : name) (s : selection) : bool :=
    match s with
    | SField _ f sub =>
        if is_typename f then is_nil sub
        else match field_type S t f with
             | None => false
             | Some ft =>
                 if composite S (unwrap ft) then negb (is_nil sub) && forallb (v_fields_sel (unwrap ft)) sub
                 else is_nil sub
             end
    | SInline c sub => let c' := inline_cond t c in if composite S c' then forallb (v_fields_sel c') sub else true
    | SSpread _ _ _ => true
    end.
  Definition v_fields (t : name) (sels : list selection) : bool := forallb (v_fields_sel t) sels.

  (** type conditions exist and are composite; spreads are defined and possible *)
  Fixpoint v_frags_sel (t : name) (s : selection) : bool :=
    match s with
    | SField _ f sub =>
        match field_type S t f with
        | Some ft => if composite S (unwrap ft) then forallb (v_frags_sel (unwrap ft)) sub else true
        | None => true
        end
    | SInline c sub =>
        match c with
        | None => forallb (v_frags_sel t) sub
        | Some c' => composite S c' && overlap S c' t && forallb (v_frags_sel c') sub
        end
    | SSpread n _ _ =>
        match find_frag frs n with
        | Some fr => if composite S (fr_cond fr) then overlap S (fr_cond fr) t else true
        | None => false
        end
    end.
  Definition v_frags (t : name) (sels : list selection) : bool := forallb (v_frags_sel t) sels.

  (** no fragment cycle is reachable (every chain of spreads is shorter than [fuel]) *)
  Fixpoint bounded (fuel : nat) (sels : list selection) : bool :=
    match fuel with
    | O => false
    | Datatypes.S f =>
        forallb (fun n => match find_frag frs n with Some fr => bounded f (fr_sels fr) | None => true end)
                (spreads_of sels)
    end.

  (** the fields that can end up in one response object: key, field name, parent type, type,
      selection set *)
  Definition centry : Type := (name * name * name * option gqltype * list selection)%type.

  Fixpoint collect (fuel : nat) (t : name) (sels : list selection) {struct fuel} : list centry :=
    match fuel with
    | O => []
    | Datatypes.S f =>
        flat_map (fun s => match s with
                           | SField a n sub =>
                               [(sel_key a n, n, t,
                                 (if is_typename n then Some (TNonNull (TNamed (bs "String"))) else field_type S t n), sub)]
                           | SInline c sub => collect f (inline_cond t c) sub
                           | SSpread n _ _ => match find_frag frs n with
                                              | Some fr => collect f (fr_cond fr) (fr_sels fr)
                                              | None => []
                                              end
                           end) sels
    end.

  Fixpoint shape_cmp (ta tb : gqltype) : option (name * name) :=
    match ta, tb with
    | TNonNull a, TNonNull b => shape_cmp a b
    | TNonNull _, _ => None
    | _, TNonNull _ => None
    | TList a, TList b => shape_cmp a b
    | TList _, _ => None
    | _, TList _ => None
    | TNamed a, TNamed b => Some (a, b)
    end.

  Fixpoint same_shape (fuel : nat) (x y : centry) {struct fuel} : bool :=
    match fuel with
    | O => false
    | Datatypes.S f =>
        let '(_, _, _, tx, sx) := x in
        let '(_, _, _, ty, sy) := y in
        match tx, ty with
        | Some ta, Some tb =>
            match shape_cmp ta tb with
            | None => false
            | Some (a, b) =>
                if leaf_type S a || leaf_type S b then bytes_eqb a b
                else
                  let set := collect f a sx ++ collect f b sy in
                  all_pairs (fun p q => let '(kp, _, _, _, _) := p in let '(kq, _, _, _, _) := q in
                                        if bytes_eqb kp kq then same_shape f p q else true) set
            end
        | _, _ => false
        end
    end.

  Fixpoint can_merge (fuel : nat) (set : list centry) {struct fuel} : bool :=
    match fuel with
    | O => false
    | Datatypes.S f =>
        all_pairs (fun p q =>
                     let '(kp, np, pp, tp, sp) := p in
                     let '(kq, nq, pq, tq, sq) := q in
                     if bytes_eqb kp kq then
                       same_shape f p q &&
                       (if bytes_eqb pp pq || negb (is_object_type S pp) || negb (is_object_type S pq) then
                          bytes_eqb np nq &&
                          match tp, tq with
                          | Some a, Some b => can_merge f (collect f (unwrap a) sp ++ collect f (unwrap b) sq)
                          | _, _ => false
                          end
                        else true)
                     else true) set
    end.

  (** every selection set of the document can merge *)
  Fixpoint v_merge_sel (fuel : nat) (t : name) (s : selection) : bool :=
    match s with
    | SField _ f sub =>
        match field_type S t f with
        | Some ft =>
            if composite S (unwrap ft)
            then can_merge fuel (collect fuel (unwrap ft) sub) && forallb (v_merge_sel fuel (unwrap ft)) sub
            else true
        | None => true
        end
    | SInline c sub =>
        can_merge fuel (collect fuel (inline_cond t c) sub) && forallb (v_merge_sel fuel (inline_cond t c)) sub
    | SSpread _ _ _ => true
    end.
  Definition v_merge (fuel : nat) (t : name) (sels : list selection) : bool :=
    can_merge fuel (collect fuel t sels) && forallb (v_merge_sel fuel t) sels.
End Validity.

Definition root_type (S : schema) (o : opdef) : option name :=
  match op_type o with OpQuery => Some (s_query S) | OpMutation => s_mutation S end.

Definition doc_valid (S : schema) (d : document) : bool :=
  let frs := d_frags d in
  let fuel := Datatypes.S (Datatypes.S (doc_size d + List.length frs)) in
  let named := flat_map (fun o => match op_name o with Some n => [n] | None => [] end) (d_ops d) in
  let used := flat_map (fun o => spreads_of (op_sels o)) (d_ops d) ++ flat_map (fun f => spreads_of (fr_sels f)) frs in
  (* operations *)
  nodupb named &&
  (Nat.eqb (List.length named) (List.length (d_ops d)) || Nat.leb (List.length (d_ops d)) 1) &&
  forallb (fun o => match root_type S o with Some _ => true | None => false end) (d_ops d) &&
  (* fragment declarations *)
  nodupb (map fr_name frs) &&
  forallb (fun f => composite S (fr_cond f)) frs &&
  forallb (fun f => mem (fr_name f) used) frs &&
  forallb (fun o => bounded frs (Datatypes.S (List.length frs)) (op_sels o)) (d_ops d) &&
  forallb (fun f => bounded frs (Datatypes.S (List.length frs)) [SSpread (fr_name f) [] []]) frs &&
  (* fields, spreads *)
  forallb (fun o => match root_type S o with
                    | Some r => v_fields S r (op_sels o) && v_frags S frs r (op_sels o)
                    | None => false
                    end) (d_ops d) &&
  forallb (fun f => v_fields S (fr_cond f) (fr_sels f) && v_frags S frs (fr_cond f) (fr_sels f)) frs &&
  (* fields in set can merge *)
  forallb (fun o => match root_type S o with
                    | Some r => v_merge S frs fuel r (op_sels o)
                    | None => false
                    end) (d_ops d) &&
  forallb (fun f => v_merge S frs fuel (fr_cond f) (fr_sels f)) frs.

(** ** The envelope *)
Section Envelope.
  Variable S : schema.
  Variable frs : list fragdef.

  Definition begins_with_letter (k : name) : bool :=
    match k with c :: _ => is_letter c | [] => false end.

  Definition direct_fields (sels : list selection) : list (name * name) :=
    flat_map (fun s => match s with SField a f _ => [(sel_key a f, f)] | _ => [] end) sels.

  Definition keys_mergeable (kfs : list (name * name)) : bool :=
    all_pairs (fun p q => negb (bytes_eqb (lower_bytes (fst p)) (lower_bytes (fst q))) ||
                          (bytes_eqb (fst p) (fst q) && bytes_eqb (snd p) (snd q))) kfs.

  Definition has_fragment (sels : list selection) : bool :=
    existsb (fun s => match s with SField _ _ _ => false | _ => true end) sels.

  (** what must hold of one selection set at type [t] (the inline fragments on one type are looked
      at together by [all_structs] below) *)
  Definition env_local (t : name) (sels : list selection) : bool :=
    composite S t &&
    (* response keys begin with a letter (or are the unaliased __typename) ... *)
    forallb (fun kf => begins_with_letter (fst kf) || (is_typename (fst kf) && is_typename (snd kf)))
            (direct_fields sels) &&
    (* ... and are distinct ignoring letter case: two direct selections whose keys are equal
       ignoring case have the same key and select the same field (a response key may be selected
       more than once; the selections are merged) *)
    keys_mergeable (direct_fields sels) &&
    (* __typename is selected wherever fragments are applied to an interface or union *)
    (negb (has_fragment sels) || is_object_type S t ||
     match first_typename sels with Some _ => true | None => false end) &&
    (* typing of each selection (part of validity, repeated here in the form the proofs use) *)
    forallb (fun s => match s with
                      | SField _ f sub =>
                          if is_typename f then is_nil sub
                          else match field_type S t f with
                               | None => false
                               | Some ft => if composite S (unwrap ft) then negb (is_nil sub)
                                            else is_nil sub && leaf_type S (unwrap ft)
                               end
                      | SInline c _ => composite S (inline_cond t c) && overlap S (inline_cond t c) t
                      | SSpread n c body =>
                          composite S c && overlap S c t &&
                          match find_frag frs n with
                          | Some fr => bytes_eqb (fr_cond fr) c && sels_eqb (fr_sels fr) body
                          | None => false
                          end
                      end) sels.

  (** [P] holds of every selection set that becomes one generated struct: the selection set
      itself, the sub-selections of all selections of one response key taken together (composite
      fields), the selections of all its inline fragments on one type taken together, and the
      bodies of the fragments it spreads *)
  Fixpoint all_structs (P : name -> list selection -> bool) (fuel : nat) (t : name) (sels : list selection)
    {struct fuel} : bool :=
    match fuel with
    | O => false
    | Datatypes.S f =>
        P t sels &&
        forallb (fun s => match s with
                          | SField a fn _ =>
                              if is_typename fn then true
                              else match field_type S t fn with
                                   | Some ft => if composite S (unwrap ft)
                                                then all_structs P f (unwrap ft) (merged_field (sel_key a fn) sels) else true
                                   | None => true
                                   end
                          | SInline c _ =>
                              let c' := inline_cond t c in all_structs P f c' (merged_inline t c' sels)
                          | SSpread _ c body => all_structs P f c body
                          end) sels
    end.

  (** response keys that can meet in one response object (through fragments of any type) *)
  Fixpoint flat_keys_sel (s : selection) : list name :=
    match s with
    | SField a f _ => [sel_key a f]
    | SInline _ sub => flat_map flat_keys_sel sub
    | SSpread _ _ body => flat_map flat_keys_sel body
    end.
  Definition flat_keys (sels : list selection) : list name := flat_map flat_keys_sel sels.

  Definition keys_fold_safe (ks : list name) : bool :=
    all_pairs (fun a b => bytes_eqb a b || negb (equal_fold a b)) ks.

  (** ... are equal or differ by more than letter case, in every selection set *)
  Fixpoint fold_safe_sel (s : selection) : bool :=
    match s with
    | SField _ _ sub => keys_fold_safe (flat_map flat_keys_sel sub) && forallb fold_safe_sel sub
    | SInline _ sub => forallb fold_safe_sel sub
    | SSpread _ _ body => keys_fold_safe (flat_map flat_keys_sel body) && forallb fold_safe_sel body
    end.
  Definition fold_safe (sels : list selection) : bool :=
    keys_fold_safe (flat_keys sels) && forallb fold_safe_sel sels.

  (** the names that become struct fields of one generated struct *)
  Definition dedup (l : list name) : list name :=
    fold_right (fun x acc => if mem x acc then acc else x :: acc) [] l.

  Definition member_keys (t : name) (sels : list selection) : list name :=
    dedup (map fst (direct_fields sels)) ++
    dedup (flat_map (fun s => match s with SInline c _ => [inline_cond t c] | _ => [] end) sels) ++
    dedup (flat_map (fun s => match s with SSpread n _ _ => [n] | _ => [] end) sels).

  Definition members_distinct (t : name) (sels : list selection) : bool :=
    nodupb (map field_name (member_keys t sels)).
End Envelope.

Definition sel_fuel (sels : list selection) : nat := Datatypes.S (sels_size sels).

(** the envelope of C20, for a linked document *)
Definition env (S : schema) (d : document) : bool :=
  let frs := d_frags d in
  schema_ok S &&
  doc_valid S d &&
  forallb (fun o => match op_name o, root_type S o with
                    | Some _, Some r =>
                        all_structs S (env_local S frs) (sel_fuel (op_sels o)) r (op_sels o) && fold_safe (op_sels o)
                    | _, _ => false
                    end) (d_ops d) &&
  forallb (fun f => all_structs S (env_local S frs) (sel_fuel (fr_sels f)) (fr_cond f) (fr_sels f) &&
                    fold_safe (fr_sels f)) frs.

(** known finding [member-name-clash]: a response key and a fragment (or two fragments, or
    __typename and a key typename__) of one selection set derive the same Go field name *)
Definition excl_member_clash (S : schema) (d : document) : bool :=
  negb (forallb (fun o => match root_type S o with
                          | Some r => all_structs S (members_distinct) (sel_fuel (op_sels o)) r (op_sels o)
                          | None => true
                          end) (d_ops d) &&
        forallb (fun f => all_structs S (members_distinct) (sel_fuel (fr_sels f)) (fr_cond f) (fr_sels f)) (d_frags d)).

(** ** Declared identifiers of a program, and the known finding [decl-name-clash] *)
Definition digit_of (n : N) : N := 48 + n.

Fixpoint decimal_fuel (fuel : nat) (n : N) (acc : bytes) : bytes :=
  match fuel with
  | O => acc
  | Datatypes.S f => if n <? 10 then digit_of n :: acc else decimal_fuel f (n / 10) (digit_of (n mod 10) :: acc)
  end.
Definition decimal (n : N) : bytes := decimal_fuel (Datatypes.S (N.to_nat (N.log2 n))) n [].

Definition sel_type_name (tname : name) (idx : N) : name := bs "sel" ++ tname ++ decimal idx.

Fixpoint sel_names (t : gotype) : list name :=
  match t with
  | GPtr t' => sel_names t'
  | GSlice t' => sel_names t'
  | GStruct fs =>
      (fix go (fs : list (name * gotag * gotype)) : list name :=
         match fs with [] => [] | (_, _, t') :: r => sel_names t' ++ go r end) fs
  | GSel tn idx fs _ =>
      sel_type_name tn idx ::
      (fix go (fs : list (name * gotag * gotype)) : list name :=
         match fs with [] => [] | (_, _, t') :: r => sel_names t' ++ go r end) fs
  | _ => []
  end.

Definition decl_names (p : program) : list name :=
  map fst (p_enums p) ++ flat_map (fun e => map fst (snd e)) (p_enums p) ++
  map td_name (p_defs p) ++ flat_map (fun d => sel_names (td_type d)) (p_defs p) ++
  (if p_json p then [bs "json"] else []).

(** identifiers the generated code itself relies on *)
Definition go_reserved : list bytes :=
  go_keywords ++ map bs ["string"; "int"; "float64"; "bool"; "byte"; "error"; "nil"; "s"; "b"; "_"]%string.

Definition ident_char (c : N) : bool := is_letter c || is_digit c || (c =? 95).
Definition go_ident_ok (n : name) : bool :=
  match n with
  | c :: r => (is_letter c || (c =? 95)) && forallb ident_char r && negb (mem n go_reserved)
  | [] => false
  end.

Definition decl_names_ok (p : program) : bool :=
  nodupb (decl_names p) && forallb go_ident_ok (decl_names p).

(** ** "compiles", the modelled part *)
Definition field_named (fs : list gofield) (n : name) : option gofield :=
  find (fun f => bytes_eqb (gf_name f) n) fs.

Definition step_ok (fs : list gofield) (st : ustep) : bool :=
  match st with
  | UAlways f => match field_named fs f with Some _ => true | None => false end
  | USwitch tn oks f =>
      match field_named fs tn with Some (_, _, GString) => true | _ => false end &&
      nodupb oks &&
      match field_named fs f with Some _ => true | None => false end
  end.

(** field names of every struct are distinct, every statement group of an UnmarshalJSON refers to
    existing fields (the switch to a string field, with distinct case constants) *)
Fixpoint wf_shape (t : gotype) : bool :=
  match t with
  | GString | GInt | GFloat | GBool | GIface | GEnum _ | GFragRef _ => true
  | GEmpty => false
  | GScalar _ => false
  | GPtr t' => wf_shape t'
  | GSlice t' => wf_shape t'
  | GStruct fs => nodupb (map gf_name fs) && forallb (fun f : name * gotag * gotype => wf_shape (snd f)) fs
  | GSel _ _ fs steps =>
      nodupb (map gf_name fs) && forallb (fun f : name * gotag * gotype => wf_shape (snd f)) fs &&
      forallb (step_ok fs) steps
  end.

(** every field name is a usable Go identifier *)
Fixpoint idents_ok (t : gotype) : bool :=
  match t with
  | GPtr t' => idents_ok t'
  | GSlice t' => idents_ok t'
  | GStruct fs => forallb (fun f : name * gotag * gotype => go_ident_ok (fst (fst f)) && idents_ok (snd f)) fs
  | GSel _ _ fs _ => forallb (fun f : name * gotag * gotype => go_ident_ok (fst (fst f)) && idents_ok (snd f)) fs
  | _ => true
  end.

Section WF.
  Variable P : program.

  (** every referenced named type is declared *)
  Fixpoint refs_ok (t : gotype) : bool :=
    match t with
    | GEnum n => match assoc n (p_enums P) with Some _ => true | None => false end
    | GFragRef f => match lookup_def P (frag_type_name f) with Some _ => true | None => false end
    | GPtr t' => refs_ok t'
    | GSlice t' => refs_ok t'
    | GStruct fs => forallb (fun f : name * gotag * gotype => refs_ok (snd f)) fs
    | GSel _ _ fs _ => forallb (fun f : name * gotag * gotype => refs_ok (snd f)) fs
    | _ => true
    end.

  Definition wf_def (d : typedefn) : bool :=
    wf_shape (td_type d) && refs_ok (td_type d) && idents_ok (td_type d) && type_syntax_ok (td_type d) &&
    (negb (td_forward d) || match td_type d with GSel _ _ _ _ => true | _ => false end).

  Definition wf_program : bool :=
    decl_names_ok P && forallb (fun e : name * list (name * name) => negb (go_keyword (fst e))) (p_enums P) &&
    forallb wf_def (p_defs P).
End WF.

(** known finding [decl-name-clash]: two generated declarations (enum types, enum constants,
    sel.. types, ..Data / ..Fragment types, the json import) get the same identifier, or a name of
    the schema or the document is used where Go or the generated code cannot take it (an enum named
    by a keyword, string, error, s, b ...; a type or fragment named "_" or beginning with "__",
    whose struct field is not an identifier / gets two tags) *)
Definition excl_decl_clash (S : schema) (d : document) : bool :=
  match generate_raw no_quirks S (doc_valid S d) d with
  | GOk p => negb (decl_names_ok p && program_syntax_ok p && forallb (fun dfn => idents_ok (td_type dfn)) (p_defs p))
  | _ => false
  end.

(** the same of the generator of the current tree, which renames clashing enum types and constants:
    what is left are clashes that involve a [sel<T><n>] helper type *)
Definition excl_decl_clash_s (S : schema) (d : document) : bool :=
  match generate_raw_s S (doc_valid S d) d with
  | GOk p => negb (decl_names_ok p && program_syntax_ok p && forallb (fun dfn => idents_ok (td_type dfn)) (p_defs p))
  | _ => false
  end.

(** A condition on the NAMES of the schema and the document only (no generator run) that is meant
    to imply [excl_decl_clash S d = false]; it is conservative (it looks at all enums and all
    composite types of the schema, used or not).  The implication
      [decl_safe S d = true -> excl_decl_clash S d = false]
    is NOT proved yet (it needs an invariant on the generator's struct counter); the correspondence
    check evaluates it on every case (verdict bad-case "decl-safe-does-not-exclude-clash"). *)
Fixpoint starts_with (pre s : bytes) : bool :=
  match pre, s with
  | [], _ => true
  | a :: p', b :: s' => (a =? b) && starts_with p' s'
  | _ :: _, [] => false
  end.

Definition ends_with_digit (s : bytes) : bool :=
  match rev s with c :: _ => is_digit c | [] => false end.

Fixpoint sel_keys (s : selection) : list name :=
  match s with
  | SField a f sub => sel_key a f :: flat_map sel_keys sub
  | SInline _ sub => flat_map sel_keys sub
  | SSpread _ _ _ => []          (* the body is the fragment definition, visited on its own *)
  end.

(** the type conditions written in a selection (of inline fragments) and the names of the
    fragments it spreads *)
Fixpoint sel_conds (s : selection) : list name :=
  match s with
  | SField _ _ sub => flat_map sel_conds sub
  | SInline c sub => (match c with Some c' => [c'] | None => [] end) ++ flat_map sel_conds sub
  | SSpread f _ _ => [f]        (* the fragment a spread names becomes a struct field, too *)
  end.

Definition decl_safe (S : schema) (d : document) : bool :=
  let enums := flat_map (fun t => match t with DEnum n vs => [(n, vs)] | _ => [] end) (s_types S) in
  let composites := flat_map (fun t => match t with
                                       | DObj n _ _ | DIface n _ | DUnion n _ => [n]
                                       | _ => []
                                       end) (s_types S) in
  let frag_names := map fr_name (d_frags d) in
  let declared :=
    map fst enums ++ flat_map (fun e : name * list name => map (enum_const (fst e)) (snd e)) enums ++
    flat_map (fun o => match op_name o with Some n => [data_type_name n] | None => [] end) (d_ops d) ++
    map frag_type_name frag_names in
  let keys := flat_map (fun o => flat_map sel_keys (op_sels o)) (d_ops d) ++
              flat_map (fun f => flat_map sel_keys (fr_sels f)) (d_frags d) in
  let conds := flat_map (fun o => flat_map sel_conds (op_sels o)) (d_ops d) ++
               flat_map (fun f => flat_map sel_conds (fr_sels f)) (d_frags d) in
  (* enum types, enum constants, <Op>Data, <F>Fragment: pairwise distinct usable identifiers ... *)
  nodupb declared && forallb go_ident_ok declared &&
  (* ... that cannot coincide with a sel<T><n> type or with the json import *)
  forallb (fun n => negb (starts_with (bs "sel") n)) declared && negb (mem (bs "json") declared) &&
  (* sel<T1><n1> = sel<T2><n2> needs a type name that ends in a digit *)
  forallb (fun t => negb (ends_with_digit t)) composites &&
  (* struct fields: of fragments (named after the type condition / the fragment) and of response keys *)
  forallb (fun n => go_ident_ok (field_name n) && negb (starts_with (bs "__") n)) (composites ++ frag_names ++ conds) &&
  forallb (fun k => go_ident_ok (field_name k)) keys.

(** ** the names-only residue under which the generator of the current tree ([generate_s]) declares
    pairwise distinct usable identifiers (ClientGenWfS.v); three named decidable conditions:
    - [no_sel_names]: no pre-assigned enum type / constant name begins with "sel" (the residue of
      the known finding decl-name-clash: a declaration coinciding with a sel<T><n> helper);
    - [no_digit_types]: no composite type name ends in a digit (sel<T1><n1> = sel<T2><n2>);
    - [lex_names]: every response key / composite type / fragment / type condition gives a usable
      Go field name (every GraphQL name but "_" and names "__" + digit...), enum, operation and
      fragment names are lexically names, enum values consist of name characters and are distinct
      within their enum (what the lexer and [schema.New] grant, but for "_"). *)
Definition gql_name (n : name) : bool :=
  match n with c :: r => (is_letter c || (c =? 95)) && forallb ident_char r | [] => false end.

Definition no_sel_names (S : schema) (d : document) : bool :=
  forallb (fun x => negb (starts_with (bs "sel") x)) (map snd (fst (enum_name_map S d)) ++ map snd (const_name_map S d)).

Definition no_digit_types (S : schema) : bool :=
  forallb (fun t => negb (ends_with_digit t))
          (flat_map (fun t => match t with DObj n _ _ | DIface n _ | DUnion n _ => [n] | _ => [] end) (s_types S)).

Definition lex_names (S : schema) (d : document) : bool :=
  let composites := flat_map (fun t => match t with
                                       | DObj n _ _ | DIface n _ | DUnion n _ => [n]
                                       | _ => []
                                       end) (s_types S) in
  let keys := flat_map (fun o => flat_map sel_keys (op_sels o)) (d_ops d) ++
              flat_map (fun f => flat_map sel_keys (fr_sels f)) (d_frags d) in
  let conds := flat_map (fun o => flat_map sel_conds (op_sels o)) (d_ops d) ++
               flat_map (fun f => flat_map sel_conds (fr_sels f)) (d_frags d) in
  forallb (fun k => go_ident_ok (field_name k)) (keys ++ composites ++ map fr_name (d_frags d) ++ conds) &&
  forallb gql_name (map fst (schema_enums S) ++
                    flat_map (fun o => match op_name o with Some n => [n] | None => [] end) (d_ops d) ++
                    map fr_name (d_frags d)) &&
  forallb (fun e : name * list name => forallb (forallb ident_char) (snd e) && nodupb (snd e)) (schema_enums S).

(** known finding [blank-field-name] (names only): a composite type, fragment, type condition or
    spread named "_" - a GraphQL name; [fieldName] leaves it as it is and the struct field that holds
    the fragment is the blank identifier, which the generated UnmarshalJSON cannot refer to *)
Definition blank_member (S : schema) (d : document) : bool :=
  let composites := flat_map (fun t => match t with
                                       | DObj n _ _ | DIface n _ | DUnion n _ => [n]
                                       | _ => []
                                       end) (s_types S) in
  let conds := flat_map (fun o => flat_map sel_conds (op_sels o)) (d_ops d) ++
               flat_map (fun f => flat_map sel_conds (fr_sels f)) (d_frags d) in
  mem (bs "_") (composites ++ map fr_name (d_frags d) ++ conds).

(** ** Responses shaped by an operation *)
Inductive rv :=
| RNull
| RLeaf (l : leaf)
| RList (l : list rv)
| RObj (tn : name) (fs : list (bytes * rv)).   (* an object of concrete type [tn] *)

Definition json_of_leaf (l : leaf) : json :=
  match l with
  | LNull => JNull
  | LEmpty => JArr []
  | LBool b => JBool b
  | LStr s => JStr s
  | LNum n => JNum n
  end.

(** the JSON the server sends for a response tree *)
Fixpoint json_of (w : rv) : json :=
  match w with
  | RNull => JNull
  | RLeaf l => json_of_leaf l
  | RList l => JArr (map json_of l)
  | RObj _ fs => JObj (map (fun kv => (fst kv, json_of (snd kv))) fs)
  end.

(** a value of (wrapped) type [ft]: null only where the type is nullable, lists of any length;
    what a leaf / an object has to satisfy is given by [leafc] / [objc] *)
Section ConfVal.
  Variable leafc : name -> leaf -> bool.
  Variable objc : name -> name -> list (bytes * rv) -> bool.

  Fixpoint conf_val (ft : gqltype) (nn : bool) (w : rv) {struct ft} : bool :=
    match ft with
    | TNonNull ft' => conf_val ft' true w
    | TList ft' =>
        match w with
        | RNull => negb nn
        | RList l => forallb (conf_val ft' false) l
        | _ => false
        end
    | TNamed n =>
        match w with
        | RNull => negb nn
        | RLeaf l => leafc n l
        | RObj tn fs => objc n tn fs
        | RList _ => false
        end
    end.
End ConfVal.

Fixpoint exp_list (f : rv -> list (path * leaf)) (i : N) (l : list rv) : list (path * leaf) :=
  match l with
  | [] => []
  | x :: r => prefix (PIdx i) (f x) ++ exp_list f (i + 1) r
  end.

(** the selected leaves of such a value *)
Section ExpVal.
  Variable obje : name -> name -> list (bytes * rv) -> list (path * leaf).

  Fixpoint exp_val (ft : gqltype) (w : rv) {struct ft} : list (path * leaf) :=
    match ft with
    | TNonNull ft' => exp_val ft' w
    | TList ft' =>
        match w with
        | RList [] => [([], LEmpty)]
        | RList l => exp_list (exp_val ft') 0 l
        | _ => [([], LNull)]
        end
    | TNamed n =>
        match w with
        | RNull => [([], LNull)]
        | RLeaf l => [([], l)]
        | RObj tn fs => obje n tn fs
        | RList _ => []
        end
    end.
End ExpVal.

Section Shaped.
  Variable S : schema.

  (** a leaf value of scalar / enum type [n] *)
  Definition leaf_conf (n : name) (l : leaf) : bool :=
    match builtin_of n with
    | Some BInt => match l with LNum (NI _) => true | _ => false end
    | Some BFloat => match l with LNum _ => true | _ => false end
    | Some BString | Some BID => match l with LStr _ => true | _ => false end
    | Some BBoolean => match l with LBool _ => true | _ => false end
    | None => match lookup_type S n with
              | Some (DEnum _ _) => match l with LStr _ => true | _ => false end
              | _ => false
              end
    end.

  Definition keys_distinct (fs : list (bytes * rv)) : bool := nodupb (map (fun kv => lower_bytes (fst kv)) fs).

  (** the fields [fs] of an object of concrete type [tn] answer selection [s] made at type [t]:
      a selected key is present with a value of the field's type, __typename holds [tn], and
      fragments apply exactly when [tn] is a possible type of their condition *)
  Fixpoint conf_sel (tn t : name) (fs : list (bytes * rv)) (s : selection) {struct s} : bool :=
    match s with
    | SField a f sub =>
        match assoc (sel_key a f) fs with
        | None => false
        | Some w =>
            if is_typename f then match w with RLeaf (LStr x) => bytes_eqb x tn | _ => false end
            else match field_type S t f with
                 | None => false
                 | Some ft =>
                     conf_val (fun n l => leaf_conf n l && is_nil sub)
                              (fun n tn' fs' =>
                                 composite S n && is_object_type S tn' && subtype S tn' n &&
                                 keys_distinct fs' && forallb (conf_sel tn' n fs') sub)
                              ft false w
                 end
        end
    | SInline c sub =>
        let c' := inline_cond t c in
        if subtype S tn c' then forallb (conf_sel tn c' fs) sub else true
    | SSpread _ c body =>
        if subtype S tn c then forallb (conf_sel tn c fs) body else true
    end.
  Definition conf_sels (tn t : name) (sels : list selection) (fs : list (bytes * rv)) : bool :=
    forallb (conf_sel tn t fs) sels.

  (** the selected leaves with the value the server sent: path = lower-cased response keys,
      fragment steps (lower-cased type condition / fragment name), list indices *)
  Fixpoint exp_sel (tn t : name) (fs : list (bytes * rv)) (s : selection) {struct s} : list (path * leaf) :=
    match s with
    | SField a f sub =>
        match assoc (sel_key a f) fs with
        | None => []
        | Some w =>
            prefix (PKey (lower_bytes (sel_key a f)))
              (if is_typename f then match w with RLeaf l => [([], l)] | _ => [] end
               else match field_type S t f with
                    | None => []
                    | Some ft => exp_val (fun n tn' fs' => flat_map (exp_sel tn' n fs') sub) ft w
                    end)
        end
    | SInline c sub =>
        let c' := inline_cond t c in
        if subtype S tn c' then prefix (PFrag (frag_label c')) (flat_map (exp_sel tn c' fs) sub) else []
    | SSpread n c body =>
        if subtype S tn c then prefix (PFrag (frag_label n)) (flat_map (exp_sel tn c fs) body) else []
    end.
  Definition exp_sels (tn t : name) (sels : list selection) (fs : list (bytes * rv)) : list (path * leaf) :=
    flat_map (exp_sel tn t fs) sels.

  (** [w] is a response to operation [o] *)
  Definition conforms (o : opdef) (w : rv) : bool :=
    match root_type S o, w with
    | Some r, RObj tn fs => bytes_eqb tn r && keys_distinct fs && conf_sels r r (op_sels o) fs
    | _, _ => false
    end.

  Definition expected (o : opdef) (w : rv) : list (path * leaf) :=
    match root_type S o, w with
    | Some r, RObj tn fs => exp_sels r r (op_sels o) fs
    | _, _ => []
    end.
End Shaped.

Definition find_op (d : document) (n : name) : option opdef :=
  find (fun o => match op_name o with Some m => bytes_eqb m n | None => false end) (d_ops d).
