(** * Gen/LoadSchemaProofs.v — C20: LoadSchema rebuilds every field type exactly, for wrapper chains
    of up to seven list / non-null wrappers (the depth of the introspection query's TypeRef
    fragment), whatever the order of the wrappers; an eighth wrapper makes it fail. *)
From Coq Require Import List NArith Bool String Lia PeanoNat.
From ApiFu Require Import Base.Sexp Gen.GoTypes Gen.ClientGenModel Gen.LoadSchemaModel.
Import ListNotations.
Open Scope list_scope.
Open Scope nat_scope.

(** with the complete chain (no truncation) every type is rebuilt *)
Lemma get_type_full S t : type_declared S (unwrap t) = true -> get_type S (introspect_ref t) = Some t.
Proof.
  induction t as [n|t IH|t IH]; simpl; intros H.
  - rewrite H. reflexivity.
  - rewrite (IH H). reflexivity.
  - rewrite (IH H). reflexivity.
Qed.

(** the query's truncation does not touch chains of at most [n] wrappers *)
Lemma query_ref_id n : forall t, wrappers t <= n -> query_ref n (introspect_ref t) = introspect_ref t.
Proof.
  induction n as [|n IH]; intros t H.
  - destruct t; simpl in H; try lia. reflexivity.
  - destruct t as [m|t|t]; simpl; [reflexivity| |]; simpl in H; rewrite IH by lia; reflexivity.
Qed.

Theorem load_type_roundtrip S t : type_loadable S t = true -> load_type S t = Some t.
Proof.
  unfold type_loadable, load_type. intros H. apply andb_true_iff in H as [H1 H2]. apply Nat.leb_le in H1.
  rewrite query_ref_id by exact H1. apply get_type_full. exact H2.
Qed.

(** one wrapper more than the query asks for: the innermost wrapper arrives without ofType *)
Lemma get_type_truncated S n : forall t, n < wrappers t -> get_type S (query_ref n (introspect_ref t)) = None.
Proof.
  induction n as [|n IH]; intros t H.
  - destruct t as [m|t|t]; simpl in H; try lia; reflexivity.
  - destruct t as [m|t|t]; simpl in H; try lia; simpl; rewrite IH by lia; reflexivity.
Qed.

Theorem load_type_too_deep S t : typeref_depth < wrappers t -> load_type S t = None.
Proof. intros H. unfold load_type. apply get_type_truncated. exact H. Qed.

Lemma load_fields_id S fs : forallb (fun ft => type_loadable S (snd ft)) fs = true -> load_fields S fs = Some fs.
Proof.
  induction fs as [|[f t] r IH]; simpl; [reflexivity|]. intros H. apply andb_true_iff in H as [H1 H2].
  rewrite (load_type_roundtrip S t H1), (IH H2). reflexivity.
Qed.

Definition def_field_types (d : typedef) : list gqltype :=
  match d with DObj _ _ fs | DIface _ fs => map snd fs | _ => [] end.

Lemma load_typedefs_id S ds :
  (forall d t, In d ds -> In t (def_field_types d) -> type_loadable S t = true) -> load_typedefs S ds = Some ds.
Proof.
  induction ds as [|d r IH]; intros H; [reflexivity|]. simpl.
  assert (Hd : load_typedef S d = Some d).
  { destruct d as [n ifs fs|n fs|n ms|n vs|n]; simpl; try reflexivity.
    - rewrite load_fields_id; [reflexivity|]. apply forallb_forall. intros [f t] Hi. apply (H _ t (or_introl eq_refl)).
      simpl. apply in_map_iff. exists (f, t). split; [reflexivity | exact Hi].
    - rewrite load_fields_id; [reflexivity|]. apply forallb_forall. intros [f t] Hi. apply (H _ t (or_introl eq_refl)).
      simpl. apply in_map_iff. exists (f, t). split; [reflexivity | exact Hi]. }
  rewrite Hd, IH; [reflexivity|]. intros d' t Hd' Ht. apply (H d' t); [right; exact Hd' | exact Ht].
Qed.

Theorem load_schema_roundtrip S : schema_loadable S = true -> load_schema S = Some S.
Proof.
  unfold schema_loadable, field_types, load_schema. intros H. rewrite forallb_forall in H.
  rewrite load_typedefs_id; [destruct S; reflexivity|].
  intros d t Hd Ht. apply H. apply in_flat_map. exists d. split; [exact Hd|]. destruct d; exact Ht.
Qed.

Theorem generate_cli_loadable Q S valid d : schema_loadable S = true -> generate_cli Q S valid d = generate Q S valid d.
Proof. intros H. unfold generate_cli. rewrite (load_schema_roundtrip S H). reflexivity. Qed.

(** a field type with eight wrappers ([[[[Int!]!]!]!] has eight, [[[[Int!]!]!]!]! nine): the
    command-line generator reports an error whatever the document *)
Lemma load_typedefs_too_deep S ds n ifs fs f t :
  In (DObj n ifs fs) ds -> In (f, t) fs -> typeref_depth < wrappers t -> load_typedefs S ds = None.
Proof.
  intros Hd Hf Hw. induction ds as [|x r IH]; [destruct Hd|]. simpl. destruct Hd as [Hd|Hd].
  - subst x. simpl. assert (Ef : load_fields S fs = None).
    { clear -Hf Hw. induction fs as [|[f' t'] r IH]; [destruct Hf|]. simpl. destruct Hf as [Hf|Hf].
      - inversion Hf; subst. rewrite (load_type_too_deep S t Hw). reflexivity.
      - rewrite (IH Hf). destruct (load_type S t'); reflexivity. }
    rewrite Ef. reflexivity.
  - rewrite (IH Hd). destruct (load_typedef S x); reflexivity.
Qed.

Theorem generate_cli_too_deep Q S valid d n ifs fs f t :
  In (DObj n ifs fs) (s_types S) -> In (f, t) fs -> typeref_depth < wrappers t -> generate_cli Q S valid d = GError.
Proof.
  intros Hd Hf Hw. unfold generate_cli, load_schema. rewrite (load_typedefs_too_deep S _ n ifs fs f t Hd Hf Hw). reflexivity.
Qed.

(** ** deprecated members survive: the query asks with includeDeprecated: true *)
Lemma filter_all {A} (l : list A) (f : A -> bool) : (forall x, f x = true) -> filter f l = l.
Proof. intros H. induction l as [|x r IH]; [reflexivity|]. simpl. rewrite H, IH. reflexivity. Qed.

Lemma listed_schema_the_query D S : listed_schema the_query D S = S.
Proof.
  unfold listed_schema. destruct S as [qn mn ts]. simpl. f_equal.
  induction ts as [|d r IH]; [reflexivity|]. simpl. rewrite IH. f_equal.
  destruct d; simpl; unfold listed_fields, listed_values; simpl; rewrite ?filter_all; reflexivity.
Qed.

Theorem load_schema_q_the_query D S : load_schema_q the_query D S = load_schema S.
Proof. unfold load_schema_q. rewrite listed_schema_the_query. reflexivity. Qed.

Theorem load_schema_deprecated_roundtrip D S : schema_loadable S = true -> load_schema_q the_query D S = Some S.
Proof. intros H. rewrite load_schema_q_the_query. apply load_schema_roundtrip. exact H. Qed.

Lemma generate_real_unfold D S valid d :
  generate_real D S valid d = match load_schema S with Some S' => generate_s S' valid d | None => GError end.
Proof. unfold generate_real. rewrite load_schema_q_the_query. reflexivity. Qed.

(** asked without includeDeprecated (either place), a deprecated member is not listed *)
Theorem deprecated_field_not_listed Qy D tn f t fs :
  iq_fields_deprecated Qy = false -> is_dep (dep_fields D) tn f = true -> ~ In (f, t) (listed_fields Qy D tn fs).
Proof. intros H1 H2 Hi. unfold listed_fields in Hi. apply filter_In in Hi as [_ Hi]. simpl in Hi. rewrite H1, H2 in Hi. discriminate. Qed.

Theorem deprecated_value_not_listed Qy D tn v vs :
  iq_values_deprecated Qy = false -> is_dep (dep_values D) tn v = true -> ~ In v (listed_values Qy D tn vs).
Proof. intros H1 H2 Hi. unfold listed_values in Hi. apply filter_In in Hi as [_ Hi]. rewrite H1, H2 in Hi. discriminate. Qed.

Theorem without_include_deprecated : forall Qy D tn,
  (forall f t fs, iq_fields_deprecated Qy = false -> is_dep (dep_fields D) tn f = true -> ~ In (f, t) (listed_fields Qy D tn fs)) /\
  (forall v vs, iq_values_deprecated Qy = false -> is_dep (dep_values D) tn v = true -> ~ In v (listed_values Qy D tn vs)).
Proof. intros Qy D tn. split; [intros f t fs; apply deprecated_field_not_listed | intros v vs; apply deprecated_value_not_listed]. Qed.
