(** * Gen/ClientGenNames.v — C20: facts about the identifiers the generator derives
    (decimal numerals are injective; [sel<T><n>] determines [n] when type names do not end in a
    digit; such names are usable identifiers).  Used by ClientGenDeclSafe.v. *)
From Coq Require Import List NArith ZArith Bool String Lia.
From ApiFu Require Import Base.Sexp Gen.GoTypes Gen.ClientGenModel Gen.ClientGenSpec Gen.ClientGenLemmas.
Import ListNotations.
Open Scope list_scope.
Open Scope N_scope.

(** ** decimal numerals *)
Definition dstep (a c : N) : N := 10 * a + (c - 48).
Definition dval (l : bytes) : N := fold_left dstep l 0.

Lemma decimal_fuel_val f : forall n acc, n < 2 ^ N.of_nat f ->
  fold_left dstep (decimal_fuel f n acc) 0 = fold_left dstep acc n.
Proof.
  induction f as [|f IH]; intros n acc Hn.
  - simpl in Hn. assert (n = 0) by lia. subst n. reflexivity.
  - cbn [decimal_fuel]. rewrite Nat2N.inj_succ, N.pow_succ_r' in Hn.
    destruct (n <? 10) eqn:E.
    + apply N.ltb_lt in E. cbn [fold_left].
      assert (Ed : dstep 0 (digit_of n) = n) by (unfold dstep, digit_of; lia). rewrite Ed. reflexivity.
    + apply N.ltb_ge in E. rewrite IH.
      * cbn [fold_left].
        assert (Ed : dstep (n / 10) (digit_of (n mod 10)) = n).
        { unfold dstep, digit_of. pose proof (N.div_mod n 10 ltac:(lia)) as Hdm. replace (48 + n mod 10 - 48) with (n mod 10) by (generalize (n mod 10); intros z; lia). symmetry. exact Hdm. }
        rewrite Ed. reflexivity.
      * apply N.div_lt_upper_bound; lia.
Qed.

Lemma decimal_val n : dval (decimal n) = n.
Proof.
  unfold dval, decimal. rewrite decimal_fuel_val; [reflexivity|].
  rewrite Nat2N.inj_succ, N2Nat.id.
  destruct (N.eq_dec n 0) as [E|E]; [subst; reflexivity|].
  apply N.log2_spec. lia.
Qed.

Lemma decimal_inj a b : decimal a = decimal b -> a = b.
Proof. intros H. rewrite <- (decimal_val a), <- (decimal_val b), H. reflexivity. Qed.

Definition all_digits (l : bytes) : Prop := Forall (fun c => is_digit c = true) l.

Lemma digit_of_digit n : n < 10 -> is_digit (digit_of n) = true.
Proof. intros H. unfold is_digit, digit_of. apply andb_true_iff. split; apply N.leb_le; lia. Qed.

Lemma decimal_fuel_digits f : forall n acc, all_digits acc -> all_digits (decimal_fuel f n acc).
Proof.
  induction f as [|f IH]; intros n acc Ha; [exact Ha|]. cbn [decimal_fuel].
  destruct (n <? 10) eqn:E.
  - apply N.ltb_lt in E. constructor; [apply digit_of_digit; exact E | exact Ha].
  - apply IH. constructor; [apply digit_of_digit; apply N.mod_lt; lia | exact Ha].
Qed.

Lemma decimal_digits n : all_digits (decimal n).
Proof. apply decimal_fuel_digits. constructor. Qed.

Lemma decimal_fuel_len f : forall n acc, (List.length acc <= List.length (decimal_fuel f n acc))%nat.
Proof.
  induction f as [|f IH]; intros n acc; [apply le_n|]. cbn [decimal_fuel].
  destruct (n <? 10); [simpl; lia|]. specialize (IH (n / 10) (digit_of (n mod 10) :: acc)). simpl in IH. lia.
Qed.

Lemma decimal_nonempty n : decimal n <> [].
Proof.
  unfold decimal. cbn [decimal_fuel]. destruct (n <? 10); [discriminate|].
  intro H. pose proof (decimal_fuel_len (N.to_nat (N.log2 n)) (n / 10) [digit_of (n mod 10)]) as Hl.
  rewrite H in Hl. simpl in Hl. lia.
Qed.

(** ** splitting a name at its digit suffix *)
Definition head_nondigit (x : bytes) : Prop := match x with c :: _ => is_digit c = false | [] => True end.

Lemma digit_prefix_split a : forall b x y, all_digits a -> all_digits b -> head_nondigit x -> head_nondigit y ->
  a ++ x = b ++ y -> a = b /\ x = y.
Proof.
  induction a as [|c a IH]; intros b x y Ha Hb Hx Hy E.
  - destruct b as [|c' b]; [split; [reflexivity | exact E]|]. simpl in E. subst x. simpl in Hx.
    inversion Hb; subst. congruence.
  - destruct b as [|c' b].
    + simpl in E. subst y. simpl in Hy. inversion Ha; subst. congruence.
    + simpl in E. inversion E; subst c'. inversion Ha; subst. inversion Hb; subst.
      destruct (IH b x y) as [E1 E2]; try assumption. subst. split; reflexivity.
Qed.

Lemma ends_head x : ends_with_digit x = false -> head_nondigit (rev x).
Proof. unfold ends_with_digit, head_nondigit. destruct (rev x); [trivial | intros H; exact H]. Qed.

Lemma all_digits_rev l : all_digits l -> all_digits (rev l).
Proof. unfold all_digits. intros H. apply Forall_rev. exact H. Qed.

Lemma sel_type_name_inj T1 i1 T2 i2 :
  ends_with_digit T1 = false -> ends_with_digit T2 = false ->
  sel_type_name T1 i1 = sel_type_name T2 i2 -> T1 = T2 /\ i1 = i2.
Proof.
  intros H1 H2 E. unfold sel_type_name in E. apply app_inv_head in E.
  apply (f_equal (@rev N)) in E. rewrite !rev_app_distr in E.
  destruct (digit_prefix_split _ _ _ _ (all_digits_rev _ (decimal_digits i1)) (all_digits_rev _ (decimal_digits i2))
              (ends_head _ H1) (ends_head _ H2) E) as [Ea Eb].
  split.
  - rewrite <- (rev_involutive T1), <- (rev_involutive T2), Eb. reflexivity.
  - apply decimal_inj. rewrite <- (rev_involutive (decimal i1)), <- (rev_involutive (decimal i2)), Ea. reflexivity.
Qed.

(** ** [sel<T><n>] as an identifier *)
Lemma starts_with_app pre s : starts_with pre (pre ++ s) = true.
Proof. induction pre as [|c r IH]; [destruct s; reflexivity|]. simpl. rewrite N.eqb_refl. exact IH. Qed.

Lemma sel_name_starts T i : starts_with (bs "sel") (sel_type_name T i) = true.
Proof. unfold sel_type_name. apply starts_with_app. Qed.

Lemma ends_with_digit_app x d : d <> [] -> all_digits d -> ends_with_digit (x ++ d) = true.
Proof.
  intros Hne Hd. unfold ends_with_digit. rewrite rev_app_distr.
  destruct (rev d) as [|c r] eqn:E.
  - exfalso. apply Hne. rewrite <- (rev_involutive d), E. reflexivity.
  - simpl. assert (In c d) by (apply in_rev; rewrite E; left; reflexivity).
    unfold all_digits in Hd. rewrite Forall_forall in Hd. apply Hd. exact H.
Qed.

Lemma sel_name_ends_digit T i : ends_with_digit (sel_type_name T i) = true.
Proof.
  unfold sel_type_name. rewrite app_assoc. apply ends_with_digit_app; [apply decimal_nonempty | apply decimal_digits].
Qed.

Lemma reserved_vs_sel : forallb (fun w => negb (starts_with (bs "sel") w) || negb (ends_with_digit w)) go_reserved = true.
Proof. vm_compute. reflexivity. Qed.

Lemma sel_name_not_reserved T i : mem (sel_type_name T i) go_reserved = false.
Proof.
  apply mem_false. intros H. pose proof reserved_vs_sel as R. rewrite forallb_forall in R.
  specialize (R _ H). rewrite sel_name_ends_digit, sel_name_starts in R. discriminate.
Qed.

Lemma digit_ident_char c : is_digit c = true -> ident_char c = true.
Proof. intros H. unfold ident_char. rewrite H. rewrite orb_true_r. reflexivity. Qed.

Lemma sel_name_ident T i : forallb ident_char T = true -> go_ident_ok (sel_type_name T i) = true.
Proof.
  intros HT. unfold go_ident_ok.
  assert (E : sel_type_name T i = 115 :: (101 :: 108 :: T ++ decimal i)) by reflexivity.
  rewrite E at 1. apply andb_true_iff. split; [apply andb_true_iff; split; [reflexivity|]|].
  - change (101 :: 108 :: T ++ decimal i) with ([101; 108] ++ T ++ decimal i). rewrite !forallb_app.
    rewrite HT. simpl. apply forallb_forall. intros c Hc.
    apply digit_ident_char. pose proof (decimal_digits i) as Hd. unfold all_digits in Hd. rewrite Forall_forall in Hd. apply Hd. exact Hc.
  - rewrite sel_name_not_reserved. reflexivity.
Qed.
