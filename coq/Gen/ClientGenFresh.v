(** * Gen/ClientGenFresh.v — C20: the names the repaired generator assigns are pairwise distinct, with
    or without a clash: [fresh] (append "_" while the name is taken) always ends on a name that is
    not taken, so [assign] / [assign_gen] never give two members of a struct (two enum types or
    constants) the same identifier, and never a reserved one.  This is the "injectivity of the final
    names" the decoding proof for clashing selection sets needs; that proof itself is not done. *)
From Coq Require Import List NArith Bool String Lia.
From ApiFu Require Import Base.Sexp Gen.GoTypes Gen.ClientGenModel Gen.ClientGenSpec Gen.ClientGenLemmas.
Import ListNotations.
Open Scope list_scope.
Open Scope nat_scope.

(** [x] is [n] followed by underscores only *)
Fixpoint all_us (l : bytes) : bool := match l with [] => true | c :: r => (c =? 95)%N && all_us r end.
Fixpoint is_ext (n x : bytes) : bool :=
  match n, x with
  | [], _ => all_us x
  | a :: n', b :: x' => (a =? b)%N && is_ext n' x'
  | _ :: _, [] => false
  end.

Lemma is_ext_refl n : is_ext n n = true.
Proof. induction n as [|a r IH]; [reflexivity|]. simpl. rewrite N.eqb_refl. exact IH. Qed.

Lemma is_ext_snoc n x : is_ext (n ++ [95%N]) x = true -> is_ext n x = true.
Proof.
  revert x. induction n as [|a r IH]; intros x; cbn [app is_ext].
  - destruct x as [|b x']; [discriminate|]. intros H. apply andb_true_iff in H as [H1 H2]. apply N.eqb_eq in H1. subst b.
    cbn [all_us]. rewrite N.eqb_refl. destruct x'; exact H2.
  - destruct x as [|b x']; [discriminate|]. intros H. apply andb_true_iff in H as [H1 H2]. rewrite H1. cbn [andb]. apply IH. exact H2.
Qed.

Lemma is_ext_len n x : is_ext n x = true -> List.length n <= List.length x.
Proof.
  revert x. induction n as [|a r IH]; intros x; simpl; [lia|]. destruct x as [|b x']; [discriminate|].
  intros H. apply andb_true_iff in H as [_ H]. apply IH in H. simpl. lia.
Qed.

Lemma is_ext_snoc_self n : is_ext (n ++ [95%N]) n = false.
Proof.
  destruct (is_ext (n ++ [95%N]) n) eqn:E; [|reflexivity]. apply is_ext_len in E. rewrite app_length in E. simpl in E. lia.
Qed.

Lemma filter_len_lt {A} (g h : A -> bool) l x :
  (forall y, g y = true -> h y = true) -> In x l -> h x = true -> g x = false ->
  List.length (filter g l) < List.length (filter h l).
Proof.
  intros Hgh. induction l as [|y r IH]; [intros []|]. intros [E|Hi] Hh Hg.
  - subst y. simpl. rewrite Hh, Hg. simpl.
    assert (List.length (filter g r) <= List.length (filter h r)).
    { clear -Hgh. induction r as [|z r IH]; simpl; [lia|]. destruct (g z) eqn:E; [rewrite (Hgh z E); simpl; lia|]. destruct (h z); simpl; lia. }
    lia.
  - specialize (IH Hi Hh Hg). simpl. destruct (g y) eqn:E; [rewrite (Hgh y E); simpl; lia|]. destruct (h y); simpl; lia.
Qed.

Lemma fresh_not_taken : forall fuel taken n,
  List.length (filter (is_ext n) taken) < fuel -> ~ In (fresh fuel taken n) taken.
Proof.
  induction fuel as [|fuel IH]; intros taken n Hlt; [lia|]. simpl.
  destruct (mem n taken) eqn:Em; [|apply mem_false; exact Em].
  apply IH. apply mem_In in Em.
  pose proof (filter_len_lt (is_ext (n ++ [95%N])) (is_ext n) taken n (is_ext_snoc n) Em (is_ext_refl n) (is_ext_snoc_self n)). lia.
Qed.

Lemma filter_len_le {A} (g : A -> bool) l : List.length (filter g l) <= List.length l.
Proof. induction l as [|x r IH]; simpl; [lia|]. destruct (g x); simpl; lia. Qed.

Lemma fresh_free_always taken n : ~ In (fresh (Datatypes.S (List.length taken)) taken n) taken.
Proof.
  apply fresh_not_taken. unfold lt. apply le_n_S. apply filter_len_le.
Qed.

(** ** [assign]: the assigned names are pairwise distinct and avoid what was taken before *)
Lemma assign_gen_distinct {K} (base : K -> name) : forall keys taken acc,
  NoDup (map snd acc) -> (forall x, In x (map snd acc) -> In x taken) ->
  NoDup (map snd (fst (assign_gen base keys taken acc))) /\
  (forall x, In x (map snd (fst (assign_gen base keys taken acc))) -> In x (map snd acc) \/ ~ In x taken).
Proof.
  induction keys as [|k r IH]; intros taken acc ND Hin; simpl; [split; [exact ND | intros x Hx; left; exact Hx]|].
  set (n := fresh (Datatypes.S (List.length taken)) taken (base k)).
  assert (Hn : ~ In n taken) by apply fresh_free_always.
  destruct (IH (n :: taken) (acc ++ [(k, n)])) as [I1 I2].
  - rewrite map_app. simpl. apply NoDup_snoc; [exact ND|]. intro Hx. apply Hn. apply Hin. exact Hx.
  - intros x Hx. rewrite map_app in Hx. apply in_app_iff in Hx as [Hx|[Hx|[]]]; [right; apply Hin; exact Hx | left; exact Hx].
  - split; [exact I1|]. intros x Hx. destruct (I2 x Hx) as [H|H].
    + rewrite map_app in H. apply in_app_iff in H as [H|[H|[]]]; [left; exact H | right; simpl in H; subst x; exact Hn].
    + right. intro Ht. apply H. right. exact Ht.
Qed.

Lemma assign_is_gen keys taken acc : assign keys taken acc = assign_gen (fun k => field_name (untk k)) keys taken acc.
Proof. revert taken acc. induction keys as [|k r IH]; intros taken acc; [reflexivity|]. simpl. apply IH. Qed.

(** the Go field names of one struct are pairwise distinct, whatever its members *)
Theorem assigned_field_names_distinct fields : NoDup (map snd (assign_names fields)).
Proof.
  unfold assign_names. rewrite assign_is_gen.
  apply (assign_gen_distinct (fun k => field_name (untk k)) _ [] []); [constructor | intros x []].
Qed.

(** the Go names of the enum types are pairwise distinct, not reserved, and not the name of an
    <Op>Data / <F>Fragment type; likewise the enum constants, which also avoid the enum types *)
Theorem enum_type_names_distinct S d :
  NoDup (map snd (fst (enum_name_map S d))) /\
  (forall x, In x (map snd (fst (enum_name_map S d))) -> ~ In x (reserved_identifiers ++ doc_decl_names d)).
Proof.
  unfold enum_name_map.
  destruct (assign_gen_distinct (fun n : name => n) (map fst (schema_enums S)) (reserved_identifiers ++ doc_decl_names d) [])
    as [H1 H2]; [constructor | intros x [] |].
  split; [exact H1|]. intros x Hx. destruct (H2 x Hx) as [[]|H]. exact H.
Qed.

Theorem enum_const_names_distinct S d :
  NoDup (map snd (const_name_map S d)) /\
  (forall x, In x (map snd (const_name_map S d)) -> ~ In x (snd (enum_name_map S d))).
Proof.
  unfold const_name_map.
  destruct (assign_gen_distinct (fun nv : name * name => enum_go_name S d (fst nv) ++ const_suffix (snd nv))
              (flat_map (fun e : name * list name => map (fun v => (fst e, v)) (snd e)) (schema_enums S))
              (snd (enum_name_map S d)) []) as [H1 H2]; [constructor | intros x [] |].
  split; [exact H1|]. intros x Hx. destruct (H2 x Hx) as [[]|H]. exact H.
Qed.
