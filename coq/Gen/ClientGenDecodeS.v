(** * Gen/ClientGenDecodeS.v — C20: decoding a response object into the struct the generator of the
    current tree builds yields exactly the selected leaves, for every naming [nm] of the members that
    is injective on them and extends [field_name] of the key by underscores only (the counterpart of
    ClientGenDecode.v; no hypothesis about clashes). *)
From Coq Require Import List NArith ZArith Bool String Lia Permutation.
From ApiFu Require Import Base.Sexp Gen.GoTypes Gen.ClientGenModel Gen.DecodeModel Gen.ClientGenSpec
     Gen.ClientGenLemmas Gen.DecodeLemmas Gen.ClientGenProofs Gen.ClientGenGood Gen.ClientGenFinal
     Gen.ClientGenDecode Gen.ClientGenGoodS Gen.ClientGenFinalS.
Import ListNotations.
Open Scope list_scope.
Open Scope nat_scope.

(** "good" relative to what is known about the declared fragment types ([FG]) *)
Definition GoodDP (S : schema) (FG : program -> Prop) (mm : name) (sub : list selection) (core : gotype) : Prop :=
  forall P, FG P -> type_syntax_ok core = true ->
    (forall l, leafc S sub mm l = true -> json_of_leaf l <> JNull /\ decodes P core (json_of_leaf l) [([], l)]) /\
    (forall tn rfs, objc S sub mm tn rfs = true -> decodes P core (json_of (RObj tn rfs)) (obje S sub mm tn rfs)).

(** ** names that extend another by underscores *)
Fixpoint all_us (l : bytes) : bool := match l with [] => true | c :: r => (c =? 95)%N && all_us r end.

Lemma lower_us us : all_us us = true -> lower_bytes us = us.
Proof.
  induction us as [|c r IH]; [reflexivity|]. simpl. intros H. apply andb_true_iff in H as [H1 H2].
  apply N.eqb_eq in H1. subst c. rewrite (IH H2). reflexivity.
Qed.

Lemma lower_app a b : lower_bytes (a ++ b) = lower_bytes a ++ lower_bytes b.
Proof. unfold lower_bytes. apply map_app. Qed.

Lemma strip_us_rev_us us r : all_us us = true -> strip_us_rev (rev us ++ r) = strip_us_rev r.
Proof.
  revert r. induction us as [|c u IH]; intros r H; [reflexivity|]. simpl in H. apply andb_true_iff in H as [H1 H2].
  simpl. rewrite <- app_assoc. rewrite (IH ([c] ++ r) H2). simpl. rewrite H1. reflexivity.
Qed.

Lemma strip_us_ext x us : all_us us = true -> strip_us (x ++ us) = strip_us x.
Proof. intros H. unfold strip_us. rewrite rev_app_distr. rewrite (strip_us_rev_us us (rev x) H). reflexivity. Qed.

Lemma frag_label_ext x us : all_us us = true -> frag_label (x ++ us) = frag_label x.
Proof. intros H. unfold frag_label. rewrite lower_app, (lower_us us H). rewrite strip_us_ext by exact H. reflexivity. Qed.

(** stripping underscores at the end, with one more byte in front *)
Lemma strip_us_rev_snoc a c :
  strip_us_rev (a ++ [c]) = match strip_us_rev a with [] => if (c =? 95)%N then [] else [c] | y => y ++ [c] end.
Proof.
  induction a as [|x a IH]; simpl; [destruct (c =? 95)%N; reflexivity|].
  destruct (x =? 95)%N; [exact IH | reflexivity].
Qed.

Lemma strip_us_cons c x :
  strip_us (c :: x) = match strip_us x with [] => if (c =? 95)%N then [] else [c] | y => c :: y end.
Proof.
  unfold strip_us. simpl rev. rewrite strip_us_rev_snoc. destruct (strip_us_rev (rev x)) as [|y0 y] eqn:E; [simpl; destruct (c =? 95)%N; reflexivity|].
  remember (y0 :: y) as yy eqn:Ey. rewrite rev_app_distr. change (rev [c]) with [c]. change ([c] ++ rev yy) with (c :: rev yy).
  destruct (rev yy) eqn:E2; [|reflexivity].
  apply (f_equal (@rev _)) in E2. rewrite rev_involutive in E2. subst yy. discriminate.
Qed.

(** a leading underscore does not change the label *)
Lemma strip_both_us x : strip_us_rev (strip_us (95%N :: x)) = strip_us_rev (strip_us x).
Proof. rewrite strip_us_cons. destruct (strip_us x); reflexivity. Qed.

(** the label of the Go field made of a name is the label of the name - also for a name that begins
    with "__", which [field_name] moves to the end *)
Lemma frag_label_field_name n : frag_label (field_name n) = frag_label n.
Proof.
  unfold frag_label, field_name. rewrite lower_title.
  destruct n as [|a [|b r]]; try reflexivity.
  destruct ((a =? 95)%N && (b =? 95)%N) eqn:E; [|reflexivity].
  apply andb_true_iff in E as [Ea Eb]. apply N.eqb_eq in Ea. apply N.eqb_eq in Eb. subst a b.
  rewrite lower_app. change (lower_bytes [95%N; 95%N]) with [95%N; 95%N]. rewrite (strip_us_ext _ [95%N; 95%N] eq_refl).
  change (lower_bytes (95%N :: 95%N :: r)) with (95%N :: 95%N :: lower_bytes r). rewrite !strip_both_us. reflexivity.
Qed.

Lemma exported_app x us : x <> [] -> exported (x ++ us) = exported x.
Proof. destruct x; [contradiction | reflexivity]. Qed.

Section FinalDecode.
  Variable S : schema.
  Variable frs : list fragdef.
  Hypothesis HS : schema_ok S = true.
  Variable m : name.
  Variable d : typedef.
  Variable all : list selection.
  Variable fields : list (name * (gotype * bool)).
  Variable conds : list (name * list name).

  Variable FG : program -> Prop.
  Notation Good := (GoodDP S FG).
  Hypothesis F1 : NoDup (map fst fields).
  Hypothesis F3 : forall k T dash, In (k, (T, dash)) fields -> entry_src S Good m all all k T dash.
  Hypothesis F4 : forall s, In s all -> entry_cov S Good m all fields s.
  Hypothesis F5 : forall s, In s all -> cond_cov frs m conds s.
  Hypothesis F6 : forall tc l x, In (tc, l) conds -> In x l -> cond_src frs m all tc x.
  Hypothesis E1 : lookup_type S m = Some d.
  Variable nm : name -> name.
  Hypothesis Hnm : forall k1 T1 d1 k2 T2 d2,
    In (k1, (T1, d1)) fields -> In (k2, (T2, d2)) fields -> nm k1 = nm k2 -> k1 = k2.
  Hypothesis Hext : forall k T dash, In (k, (T, dash)) fields ->
    exists us, nm k = field_name (untk k) ++ us /\ all_us us = true.
  Hypothesis E3 : forall s, In s all -> sel_local S frs m s = true.
  Hypothesis E4 : has_fragment all = true -> is_object_type S m = true \/ exists k, first_typename all = Some k.
  Hypothesis E5 : forall k1 f1 k2 f2, In (k1, f1) (direct_fields all) -> In (k2, f2) (direct_fields all) ->
                                      lower_bytes k1 = lower_bytes k2 -> k1 = k2 /\ f1 = f2.
  Hypothesis E6 : forall k f, In (k, f) (direct_fields all) ->
                              begins_with_letter k = true \/ (is_typename k = true /\ is_typename f = true).

  Variable idx : N.
  Let fs := sort_fields (map (mk_field_f nm) fields).
  Let tnKey := match first_typename all with Some k => k | None => typename_name end.
  Let steps := mk_steps_f S nm m d (nm (tk 0%N tnKey)) conds.
  Let core := match conds with [] => GStruct fs | _ :: _ => GSel m idx fs steps end.

  Variable P : program.
  Hypothesis HP : FG P.
  Hypothesis Hsyn : type_syntax_ok core = true.
  Hypothesis HspreadD : forall F c body, In (SSpread F c body) all ->
    forall tn rfs, objc S body c tn rfs = true ->
                   decodes P (GFragRef F) (json_of (RObj tn rfs)) (obje S body c tn rfs).

  Variable tn : name.
  Variable rfs : list (bytes * rv).
  Hypothesis Hconf : objc S all m tn rfs = true.

  Let kvs := map (fun kv : bytes * rv => (fst kv, json_of (snd kv))) rfs.
  Let j := JObj kvs.

  (** *** the response object *)
  Lemma conf_parts :
    composite S m = true /\ is_object_type S tn = true /\ subtype S tn m = true /\
    NoDup (map (lk) kvs) /\ forall s, In s all -> conf_sel S tn m rfs s = true.
  Proof.
    unfold objc in Hconf. apply andb_true_iff in Hconf as [H H5]. apply andb_true_iff in H as [H H4].
    apply andb_true_iff in H as [H H3]. apply andb_true_iff in H as [H1 H2].
    repeat split; try assumption.
    - unfold keys_distinct in H4. apply nodupb_NoDup in H4. unfold kvs. rewrite map_map. exact H4.
    - intros s Hs. rewrite forallb_forall in H5. apply H5. exact Hs.
  Qed.

  Lemma json_is_obj : json_of (RObj tn rfs) = j.
  Proof. reflexivity. Qed.

  Lemma assoc_kvs k w : assoc k rfs = Some w -> In (k, json_of w) kvs.
  Proof. intros H. apply assoc_In in H. unfold kvs. apply in_map_iff. exists (k, w). split; [reflexivity | exact H]. Qed.

  Lemma kvs_unique k w k' v' :
    assoc k rfs = Some w -> In (k', v') kvs -> lower_bytes k' = lower_bytes k -> k' = k /\ v' = json_of w.
  Proof.
    intros H1 H2 E. destruct conf_parts as [_ [_ [_ [ND _]]]].
    assert (H : (k', v') = (k, json_of w)).
    { apply (NoDup_map_inj lk kvs _ _ ND H2 (assoc_kvs _ _ H1)). unfold lk. simpl. exact E. }
    inversion H. split; reflexivity.
  Qed.

  Lemma tn_nonempty : tn <> [].
  Proof.
    destruct conf_parts as [_ [Ho _]]. unfold is_object_type in Ho.
    destruct (lookup_type S tn) as [dd|] eqn:E; [|discriminate]. apply find_some_name in E as [E1' E2'].
    destruct (schema_ok_elim S HS) as [_ [Hne _]]. rewrite <- E1'. apply Hne. exact E2'.
  Qed.

  (** *** syntax of the fields *)
  Lemma fs_syntax fld : In fld fs ->
    (match gf_tag fld with TagBoth _ => false | _ => true end) = true /\ type_syntax_ok (gf_type fld) = true.
  Proof.
    intros Hf.
    assert (H : forallb (fun f : name * gotag * gotype => match snd (fst f) with TagBoth _ => false | _ => true end && type_syntax_ok (snd f)) fs = true).
    { unfold core in Hsyn. destruct conds; simpl in Hsyn; rewrite syntax_fields_inner in Hsyn; exact Hsyn. }
    rewrite forallb_forall in H. specialize (H fld Hf). apply andb_true_iff in H. exact H.
  Qed.

  Lemma entry_syntax k T dash : In (k, (T, dash)) fields -> type_syntax_ok T = true.
  Proof.
    intros He. pose proof (entry_fs fields nm _ _ _ He) as Hf. fold fs in Hf.
    destruct (fs_syntax _ Hf) as [H1 H2]. rewrite mk_field_f_type in H2. exact H2.
  Qed.

  (** *** each selection decodes (for large fuel) *)
  Definition Qs (s : selection) (K : nat) : Prop :=
    match s with
    | SField a f sub =>
        let k := sel_key a f in
        exists T w v L, In (tk 0%N k, (T, false)) fields /\ assoc k rfs = Some w /\
                        (forall fuel, K <= fuel -> decode P fuel T (json_of w) = DOk v) /\
                        leaves_eq v L /\
                        (forall pl, In pl (exp_sel S tn m rfs s) -> In pl (prefix (PKey (lower_bytes k)) L)) /\
                        (forall pl, In pl (prefix (PKey (lower_bytes k)) L) ->
                                    exists s', In s' all /\ In pl (exp_sel S tn m rfs s'))
    | SInline c sub =>
        let c' := inline_cond m c in
        subtype S tn c' = true ->
        exists T v, In (tk 1%N c', (T, true)) fields /\ (forall fuel, K <= fuel -> decode P fuel T j = DOk v) /\ v <> VNil /\
                    leaves_eq v (obje S (merged_inline m c' all) c' tn rfs)
    | SSpread F c body =>
        subtype S tn c = true ->
        exists v, In (tk 2%N F, (GPtr (GFragRef F), true)) fields /\
                  (forall fuel, K <= fuel -> decode P fuel (GPtr (GFragRef F)) j = DOk v) /\ v <> VNil /\
                  leaves_eq v (obje S body c tn rfs)
    end.

  Lemma Qs_mono s k k' : Qs s k -> k <= k' -> Qs s k'.
  Proof.
    destruct s as [a f sub|c sub|F c body]; simpl.
    - intros [T [w [v [L [H1 [H2 [H3 H4]]]]]]] Hle. exists T, w, v, L.
      split; [exact H1|]. split; [exact H2|]. split; [intros fuel Hf; apply H3; lia | exact H4].
    - intros H Hle Hs. destruct (H Hs) as [T [v [H1 [H2 H3]]]]. exists T, v.
      split; [exact H1|]. split; [intros fuel Hf; apply H2; lia | exact H3].
    - intros H Hle Hs. destruct (H Hs) as [v [H1 [H2 H3]]]. exists v.
      split; [exact H1|]. split; [intros fuel Hf; apply H2; lia | exact H3].
  Qed.

  Lemma decodes_ptr_val t L : decodes P t j L ->
    exists k v, (forall fuel, k <= fuel -> decode P fuel (GPtr t) j = DOk v) /\ v <> VNil /\ leaves_eq v L.
  Proof.
    intros [k [v [Hd Hl]]]. exists (Datatypes.S k), (VPtr v). split; [|split; [discriminate | exact Hl]].
    intros [|fuel] Hf; [lia|]. rewrite decode_S. unfold decode_body. rewrite (Hd fuel) by lia. reflexivity.
  Qed.

  Lemma Qs_exists s : In s all -> exists K, Qs s K.
  Proof.
    intros Hs. destruct conf_parts as [Hcm [Hot [Hst [_ Hc]]]]. pose proof (Hc s Hs) as Hcs.
    pose proof (F4 s Hs) as Hcov. pose proof (E3 s Hs) as Hloc.
    destruct s as [a f sub|c sub|F c body]; unfold Qs.
    - (* field *)
      rewrite conf_sel_field in Hcs. destruct Hcov as [T [He Hft]].
      destruct (assoc (sel_key a f) rfs) as [w|] eqn:Ea; [|discriminate].
      pose proof (entry_syntax _ _ _ He) as HsynT.
      destruct Hft as [[Htn HT]|[Htn [ft [core0 [Eft [HT Hg]]]]]].
      + rewrite Htn in Hcs. destruct w as [|[| | |x|]| |]; try discriminate. subst T.
        exists 1, GString, (RLeaf (LStr x)), (VStr x), [([], LStr x)].
        split; [exact He|]. split; [reflexivity|]. split; [intros [|fuel] Hf; [lia | reflexivity]|].
        split; [intros pl; simpl; reflexivity|].
        assert (Ex : exp_sel S tn m rfs (SField a f sub) = prefix (PKey (lower_bytes (sel_key a f))) [([], LStr x)])
          by (rewrite exp_sel_field, Ea, Htn; reflexivity).
        split; [intros pl Hp; rewrite <- Ex; exact Hp|].
        intros pl Hp. exists (SField a f sub). split; [exact Hs | rewrite Ex; exact Hp].
      + rewrite Htn, Eft in Hcs. subst T. rewrite syntax_ok_wrap in HsynT.
        destruct (Hg P HP HsynT) as [Hleaf Hobj].
        set (k0 := sel_key a f) in *.
        assert (Hsub_in : In sub (field_subs k0 all)) by (apply field_subs_In; exists a, f; split; [exact Hs | reflexivity]).
        assert (Hne : field_subs k0 all <> []) by (intro En; rewrite En in Hsub_in; destruct Hsub_in).
        assert (Hdf : In (k0, f) (direct_fields all)).
        { unfold direct_fields. apply in_flat_map. exists (SField a f sub). split; [exact Hs | left; reflexivity]. }
        (* every selection of this key selects field [f], and conforms *)
        assert (Hothers : forall sub', In sub' (field_subs k0 all) ->
                  exists a', In (SField a' f sub') all /\ sel_key a' f = k0 /\
                             conf_val (leafc S sub') (objc S sub') ft false w = true).
        { intros sub' Hs'. apply field_subs_In in Hs' as [a' [f' [Hs' Ek]]].
          assert (Hdf' : In (k0, f') (direct_fields all)).
          { unfold direct_fields. apply in_flat_map. exists (SField a' f' sub'). split; [exact Hs'|]. left. rewrite Ek. reflexivity. }
          destruct (E5 _ _ _ _ Hdf' Hdf eq_refl) as [_ Ef]. subst f'.
          exists a'. split; [exact Hs'|]. split; [exact Ek|].
          pose proof (Hc _ Hs') as Hc'. rewrite conf_sel_field, Ek in Hc'. fold k0 in Ea. rewrite Ea, Htn, Eft in Hc'. exact Hc'. }
        assert (Hcmg : conf_val (leafc S (merged_field k0 all)) (objc S (merged_field k0 all)) ft false w = true).
        { rewrite merged_field_concat. apply conf_val_concat; [exact Hne|].
          intros sub' Hs'. destruct (Hothers sub' Hs') as [a' [_ [_ H]]]. exact H. }
        destruct (decode_wrap P core0 (leafc S (merged_field k0 all)) (objc S (merged_field k0 all)) (obje S (merged_field k0 all))
                              (unwrap ft) Hleaf Hobj ft false w eq_refl Hcmg)
          as [k [v [Hd Hl]]].
        exists k, (wrap ft false core0 true), w, v, (exp_val (obje S (merged_field k0 all)) ft w).
        split; [exact He|]. split; [reflexivity|]. split; [exact Hd|]. split; [exact Hl|].
        split.
        * intros [p x] Hp. rewrite exp_sel_field in Hp. fold k0 in Hp. rewrite Ea, Htn, Eft in Hp.
          apply In_prefix in Hp as [p' [Ep Hp]]. apply In_prefix. exists p'. split; [exact Ep|].
          rewrite merged_field_concat. apply (exp_val_concat S _ ft w p' x Hne). exists sub. split; assumption.
        * intros [p x] Hp. apply In_prefix in Hp as [p' [Ep Hp]]. rewrite merged_field_concat in Hp.
          apply (exp_val_concat S _ ft w p' x Hne) in Hp as [sub' [Hs' Hp]].
          destruct (Hothers sub' Hs') as [a' [Hin [Ek _]]].
          exists (SField a' f sub'). split; [exact Hin|]. rewrite exp_sel_field, Ek, Ea, Htn, Eft.
          apply In_prefix. exists p'. split; assumption.
    - (* inline fragment *)
      simpl in Hcov. destruct Hcov as [core0 [He Hg]]. simpl in Hloc. apply andb_true_iff in Hloc as [Hcc _].
      set (c' := inline_cond m c) in *.
      assert (Hdec : subtype S tn c' = true -> decodes P core0 j (obje S (merged_inline m c' all) c' tn rfs)).
      { intros Hsub. pose proof (entry_syntax _ _ _ He) as HsynT. simpl in HsynT.
        destruct (Hg P HP HsynT) as [_ Hobj]. rewrite <- json_is_obj. apply Hobj.
        unfold objc. rewrite Hcc, Hot, Hsub. simpl.
        unfold objc in Hconf. apply andb_true_iff in Hconf as [Hk _]. apply andb_true_iff in Hk as [_ Hk]. rewrite Hk. simpl.
        apply forallb_forall. intros x Hx. unfold merged_inline in Hx. apply in_flat_map in Hx as [o [Ho Hx]].
        destruct o as [|co subo|]; try (destruct Hx). destruct (bytes_eqb (inline_cond m co) c') eqn:Ec; [|destruct Hx].
        apply bytes_eqb_true in Ec. pose proof (Hc _ Ho) as Hco. simpl in Hco. rewrite Ec, Hsub in Hco.
        rewrite forallb_forall in Hco. apply Hco. exact Hx. }
      destruct (subtype S tn c') eqn:Esub.
      + destruct (decodes_ptr_val _ _ (Hdec eq_refl)) as [k [v [Hd [Hn Hl]]]].
        exists k. intros _. exists (GPtr core0), v. split; [exact He|]. split; [exact Hd|]. split; [exact Hn | exact Hl].
      + exists 0. intros Hf. discriminate.
    - (* spread *)
      simpl in Hcov. simpl in Hloc. apply andb_true_iff in Hloc as [Hloc _]. apply andb_true_iff in Hloc as [Hcc _].
      destruct (subtype S tn c) eqn:Esub.
      + assert (Ho : objc S body c tn rfs = true).
        { unfold objc. rewrite Hcc, Hot, Esub. simpl.
          unfold objc in Hconf. apply andb_true_iff in Hconf as [Hk _]. apply andb_true_iff in Hk as [_ Hk]. rewrite Hk. simpl.
          simpl in Hcs. rewrite Esub in Hcs. exact Hcs. }
        pose proof (HspreadD F c body Hs tn rfs Ho) as Hd. rewrite json_is_obj in Hd.
        destruct (decodes_ptr_val _ _ Hd) as [k [v [Hd' [Hn Hl]]]].
        exists k. intros _. exists v. split; [exact Hcov|]. split; [exact Hd'|]. split; [exact Hn | exact Hl].
      + exists 0. intros Hf. discriminate.
  Qed.

  (** *** JSON names of the struct fields *)
  Lemma field_key_props k T : In (k, (T, false)) fields ->
    exists a f sub, In (SField a f sub) all /\ k = tk 0%N (sel_key a f) /\ In (sel_key a f, f) (direct_fields all).
  Proof.
    intros He. destruct (F3 _ _ _ He) as [[_ [a [f [sub [H1 [H2 _]]]]]]|[[Hd _]|[Hd _]]]; try discriminate.
    exists a, f, sub. split; [exact H1|]. split; [exact H2|]. unfold direct_fields. apply in_flat_map.
    exists (SField a f sub). split; [exact H1 | left; reflexivity].
  Qed.

  Lemma exported_plain k f : In (k, f) (direct_fields all) -> exported (field_name k) = true /\ field_name k <> [].
  Proof.
    intros H. destruct (E6 _ _ H) as [Hl|[Ht _]].
    - assert (Hfn : field_name k = title k).
      { apply field_name_plain. destruct k as [|c [|c2 r]]; try reflexivity. simpl in Hl. simpl.
        destruct (N.eqb c 95) eqn:Ec; [|reflexivity]. apply N.eqb_eq in Ec. subst c. discriminate. }
      rewrite Hfn. split; [apply is_upper_title; exact Hl|]. destruct k; [discriminate Hl | discriminate].
    - apply bytes_eqb_true in Ht. subst k. split; [reflexivity | discriminate].
  Qed.

  Lemma exported_key K T : In (K, (T, false)) fields -> exported (nm K) = true.
  Proof.
    intros He. destruct (field_key_props _ _ He) as [a [f [sub [_ [Ek Hd]]]]].
    destruct (Hext _ _ _ He) as [us [En _]]. rewrite En. subst K. cbn [untk tk tl].
    destruct (exported_plain _ _ Hd) as [H1 H2]. rewrite (exported_app _ us H2). exact H1.
  Qed.

  Lemma nm_lower K T dash : In (K, (T, dash)) fields -> equal_fold (nm K) (untk K) = true -> lower_bytes (nm K) = lower_bytes (untk K).
  Proof. intros _ H. apply equal_fold_eq. exact H. Qed.

  Lemma nondash_json k T : In (k, (T, false)) fields ->
    exists x, json_name (mk_field_f nm (k, (T, false))) = Some x /\ lower_bytes x = lower_bytes (untk k).
  Proof.
    intros He. unfold json_name, mk_field_f, gf_name, gf_tag. cbn [fst snd]. rewrite (exported_key _ _ He). cbn [negb].
    destruct (equal_fold (nm k) (untk k)) eqn:Ef; cbn [negb].
    - exists (nm k). split; [reflexivity|]. apply equal_fold_eq. exact Ef.
    - exists (untk k). split; reflexivity.
  Qed.

  Lemma dash_json k T : json_name (mk_field_f nm (k, (T, true))) = None.
  Proof. unfold json_name, mk_field_f, gf_name, gf_tag. cbn [fst snd]. destruct (negb (exported (nm k))); reflexivity. Qed.

  Lemma json_name_nondash fld x : In fld fs -> json_name fld = Some x ->
    exists k T, In (k, (T, false)) fields /\ fld = mk_field_f nm (k, (T, false)) /\ lower_bytes x = lower_bytes (untk k).
  Proof.
    intros Hf Hn. destruct (fs_entry fields nm _ Hf) as [k [T [dash [He Ef]]]]. subst fld.
    destruct dash; [rewrite dash_json in Hn; discriminate|].
    destruct (nondash_json _ _ He) as [x' [H1 H2]]. rewrite H1 in Hn. inversion Hn; subst x'.
    exists k, T. split; [exact He|]. split; [reflexivity | exact H2].
  Qed.

  Lemma key_lower_inj k1 T1 k2 T2 :
    In (k1, (T1, false)) fields -> In (k2, (T2, false)) fields -> lower_bytes (untk k1) = lower_bytes (untk k2) -> k1 = k2.
  Proof.
    intros H1 H2 E. destruct (field_key_props _ _ H1) as [a1 [f1 [s1 [_ [E1' D1]]]]].
    destruct (field_key_props _ _ H2) as [a2 [f2 [s2 [_ [E2' D2]]]]]. subst k1 k2. cbn [untk tk tl] in E.
    destruct (E5 _ _ _ _ D1 D2 E) as [H _]. rewrite H. reflexivity.
  Qed.

  Lemma fs_names_nd : NoDup (map gf_name fs).
  Proof. apply (fs_names_nodup fields F1 nm Hnm). Qed.

  Lemma fs_apart : names_apart fs.
  Proof.
    intros i1 i2 f1 f2 n1 n2 H1 H2 J1 J2 E.
    destruct (json_name_nondash f1 n1 (nth_error_In _ _ H1) J1) as [k1 [T1 [He1 [Ef1 L1]]]].
    destruct (json_name_nondash f2 n2 (nth_error_In _ _ H2) J2) as [k2 [T2 [He2 [Ef2 L2]]]].
    assert (k1 = k2) by (apply (key_lower_inj _ _ _ _ He1 He2); congruence). subst k2.
    destruct (entry_unique fields F1 _ _ _ _ _ He1 He2) as [ET _]. subst T2.
    apply (nodup_map_nth gf_name fs i1 i2 f1 f2 fs_names_nd H1 H2). congruence.
  Qed.

  (** *** decoding with enough fuel for every selection *)
  Variable K : nat.
  Hypothesis HK : forall s, In s all -> Qs s K.
  Let dec := decode P K.

  Lemma K_pos : forall T jv v, decode P K T jv = DOk v -> exists K', K = Datatypes.S K'.
  Proof. intros T jv v H. destruct K as [|K']; [discriminate | exists K'; reflexivity]. Qed.

  Lemma base_hdec fld jn k v :
    In fld fs -> json_name fld = Some jn -> In (k, v) kvs -> lower_bytes jn = lower_bytes k ->
    exists x, dec (gf_type fld) v = DOk x.
  Proof.
    intros Hf Hn Hkv El. destruct (json_name_nondash _ _ Hf Hn) as [k0 [T [He [Ef L0]]]]. subst fld.
    destruct (field_key_props _ _ He) as [a [f [sub [Hs [Ek _]]]]]. subst k0. cbn [untk tk tl] in L0.
    pose proof (HK _ Hs) as Hq. simpl in Hq.
    destruct Hq as [T' [w [v0 [L [He' [Ha [Hd _]]]]]]].
    destruct (entry_unique fields F1 _ _ _ _ _ He He') as [ET _]. subst T'.
    destruct (kvs_unique _ _ _ _ Ha Hkv) as [_ Ev]; [congruence|]. subst v.
    exists v0. rewrite mk_field_f_type. simpl. apply Hd. apply le_n.
  Qed.

  Lemma base_exists : exists base, decode_struct dec fs j = DOk base /\ slots_ok dec fs kvs base.
  Proof.
    destruct conf_parts as [_ [_ [_ [ND _]]]].
    apply (decode_struct_obj dec fs kvs ND fs_apart). intros fld jn k v. apply base_hdec.
  Qed.

  Variable base : sval.
  Hypothesis Hbase : decode_struct dec fs j = DOk base.
  Hypothesis Hslots : slots_ok dec fs kvs base.

  (** the slot of a response key *)
  Lemma slot_field a f sub :
    In (SField a f sub) all ->
    exists i T w v L,
      In (tk 0%N (sel_key a f), (T, false)) fields /\
      nth_error fs i = Some (mk_field_f nm (tk 0%N (sel_key a f), (T, false))) /\
      nth_error base i = Some (gf_name (mk_field_f nm (tk 0%N (sel_key a f), (T, false))), gf_tag (mk_field_f nm (tk 0%N (sel_key a f), (T, false))), v) /\
      assoc (sel_key a f) rfs = Some w /\ decode P K T (json_of w) = DOk v /\
      leaves_eq v L /\
      (forall pl, In pl (exp_sel S tn m rfs (SField a f sub)) -> In pl (prefix (PKey (lower_bytes (sel_key a f))) L)) /\
      (forall pl, In pl (prefix (PKey (lower_bytes (sel_key a f))) L) ->
                  exists s', In s' all /\ In pl (exp_sel S tn m rfs s')).
  Proof.
    intros Hs. pose proof (HK _ Hs) as Hq. simpl in Hq.
    destruct Hq as [T [w [v [L [He [Ha [Hd [Hl Hx]]]]]]]].
    pose proof (entry_fs fields nm _ _ _ He) as Hf. fold fs in Hf. apply In_nth_error in Hf as [i Hi].
    destruct Hslots as [_ Hsl]. destruct (Hsl _ _ Hi) as [e [Hei [He1 He2]]].
    destruct (nondash_json _ _ He) as [jn [Hn El]]. rewrite Hn in He2. destruct He2 as [Hv _].
    pose proof (Hv _ _ (assoc_kvs _ _ Ha) El) as Hdv. rewrite mk_field_f_type in Hdv. simpl in Hdv.
    unfold dec in Hdv. rewrite (Hd K (le_n _)) in Hdv. inversion Hdv as [Ev].
    exists i, T, w, v, L. split; [exact He|]. split; [exact Hi|]. split.
    { rewrite Hei. destruct e as [[n0 tg0] x0]. simpl in He1, Ev. inversion He1; subst. reflexivity. }
    split; [exact Ha|]. split; [apply Hd; apply le_n|]. split; [exact Hl | exact Hx].
  Qed.

  (** the field holding __typename holds [tn] *)
  Lemma typename_slot : (exists k0, first_typename all = Some k0) ->
    exists i n tg, find_index (by_name (nm (tk 0%N tnKey))) fs = Some i /\ nth_error base i = Some (n, tg, VStr tn).
  Proof.
    intros [k0 Hk0]. destruct (first_typename_In _ _ Hk0) as [a [f [sub [Hs [Htn Ek]]]]].
    destruct (slot_field _ _ _ Hs) as [i [T [w [v [L [He [Hi [Hb [Ha [Hd _]]]]]]]]]].
    destruct conf_parts as [_ [_ [_ [_ Hc]]]]. pose proof (Hc _ Hs) as Hcs. rewrite conf_sel_field, Ha, Htn in Hcs.
    destruct w as [|[| | |x|]| |]; try discriminate. apply bytes_eqb_true in Hcs. subst x.
    pose proof (F4 _ Hs) as Hcov. simpl in Hcov. destruct Hcov as [T' [He' Hft]].
    destruct (entry_unique fields F1 _ _ _ _ _ He He') as [ET _]. subst T'.
    destruct Hft as [[_ HT]|[Hn _]]; [|congruence]. subst T.
    destruct (K_pos _ _ _ Hd) as [K' EK]. rewrite EK in Hd. simpl in Hd. inversion Hd; subst v.
    exists i. eexists. eexists. split; [|exact Hb].
    unfold tnKey. rewrite Hk0, <- Ek. pose proof (find_by_name fs fs_names_nd i _ Hi) as Hfi.
    rewrite mk_field_f_name in Hfi. exact Hfi.
  Qed.

  (** the condition of a fragment entry holds exactly when its statement group fires *)
  Lemma not_known_typename tc l x : In (tc, l) conds -> In x l -> is_known no_quirks S m d tc = false ->
    exists k0, first_typename all = Some k0.
  Proof.
    intros H1 Hx Ek. destruct (E4 (has_fragment_conds frs m all conds F6 _ _ _ H1 Hx)) as [Ho|Ho]; [|exact Ho]. exfalso.
    unfold is_object_type in Ho. rewrite E1 in Ho. destruct d as [on ifs fs0| | | |] eqn:Ed; try discriminate.
    rewrite (object_known S HS m on ifs fs0 tc E1 (cond_overlap S frs m all conds F6 E3 _ _ _ H1 Hx)) in Ek. discriminate.
  Qed.

  Definition step_for (tc x : name) : ustep :=
    if is_known no_quirks S m d tc then UAlways (nm x)
    else USwitch (nm (tk 0%N tnKey)) (ok_types no_quirks S tc) (nm x).

  Lemma steps_In st : In st steps <-> exists tc l x, In (tc, l) conds /\ In x l /\ st = step_for tc x.
  Proof.
    unfold steps, mk_steps_f, step_for. rewrite in_flat_map. split.
    - intros [[tc l] [H1 H2]]. destruct (is_known no_quirks S m d tc) eqn:Ek; apply in_map_iff in H2 as [x [Ex Hx]];
        exists tc, l, x; rewrite Ek; (split; [exact H1|]; split; [exact Hx | symmetry; exact Ex]).
    - intros [tc [l [x [H1 [Hx Est]]]]]. exists (tc, l). split; [exact H1|]. subst st.
      destruct (is_known no_quirks S m d tc); apply in_map_iff; exists x; split; auto.
  Qed.

  Lemma step_for_target tc x : step_target_name (step_for tc x) = nm x.
  Proof. unfold step_for. destruct (is_known no_quirks S m d tc); reflexivity. Qed.

  Lemma step_for_fires tc l x : In (tc, l) conds -> In x l ->
    step_fires fs base (step_for tc x) = subtype S tn tc.
  Proof.
    intros H1 Hx. destruct conf_parts as [_ [_ [Hst _]]]. unfold step_for.
    destruct (is_known no_quirks S m d tc) eqn:Ek.
    - simpl. symmetry. apply (known_subtype S HS m d tn tc E1 Hst Ek).
    - destruct (typename_slot (not_known_typename _ _ _ H1 Hx Ek)) as [i [n [tg [Hfi Hb]]]].
      simpl. rewrite Hfi, Hb. apply ok_types_subtype. apply tn_nonempty.
  Qed.

  (** the entry, the position and the type condition of a name listed in [typeConditions] *)
  Lemma cond_target tc l x : In (tc, l) conds -> In x l ->
    exists T i, In (x, (T, true)) fields /\ nth_error fs i = Some (mk_field_f nm (x, (T, true))) /\
                (subtype S tn tc = true -> exists v, decode P K T j = DOk v /\ v <> VNil).
  Proof.
    intros H1 Hx. destruct (cond_entry S frs Good m all fields conds F4 F6 _ _ _ H1 Hx) as [T He].
    pose proof (entry_fs fields nm _ _ _ He) as Hf. fold fs in Hf. apply In_nth_error in Hf as [i Hi].
    exists T, i. split; [exact He|]. split; [exact Hi|]. intros Hsub.
    destruct (F6 _ _ _ H1 Hx) as [[Ex [c [sub [Hs Hc]]]]|[f0 [c [body [Hs [Ex Hc]]]]]].
    - subst x. pose proof (HK _ Hs) as Hq. simpl in Hq. rewrite Hc in Hq.
      destruct (Hq Hsub) as [T' [v [He' [Hd [Hn _]]]]].
      destruct (entry_unique fields F1 _ _ _ _ _ He He') as [ET _]. subst T'. exists v. split; [apply Hd; apply le_n | exact Hn].
    - subst x. pose proof (HK _ Hs) as Hq. simpl in Hq.
      assert (Ec : c = tc).
      { pose proof (E3 _ Hs) as Hl. simpl in Hl. apply andb_true_iff in Hl as [_ Hf].
        destruct (find_frag frs f0) as [fr|] eqn:Ef; [|discriminate]. apply andb_true_iff in Hf as [Hf _].
        apply bytes_eqb_true in Hf. subst tc. unfold frag_cond. rewrite assoc_fragTypes, Ef. symmetry. exact Hf. }
      subst c. destruct (Hq Hsub) as [v [He' [Hd [Hn _]]]].
      destruct (entry_unique fields F1 _ _ _ _ _ He He') as [ET _]. subst T. exists v. split; [apply Hd; apply le_n | exact Hn].
  Qed.

  Lemma steps_wf : Forall (step_wellformed dec fs j base) steps.
  Proof.
    apply Forall_forall. intros st Hst. apply steps_In in Hst as [tc [l [x [H1 [Hx Est]]]]]. subst st.
    destruct (cond_target _ _ _ H1 Hx) as [T [i [He [Hi Hdec]]]].
    split.
    - unfold step_for. destruct (is_known no_quirks S m d tc) eqn:Ek; [exact I|].
      destruct (typename_slot (not_known_typename _ _ _ H1 Hx Ek)) as [i0 [n [tg [Hfi Hb]]]].
      exists i0, n, tg, tn. split; assumption.
    - exists i, (mk_field_f nm (x, (T, true))). split; [exact Hi|]. split; [rewrite mk_field_f_name, step_for_target; reflexivity|].
      rewrite (step_for_fires _ _ _ H1 Hx). intros Hsub. destruct (Hdec Hsub) as [v [Hd _]].
      exists v. rewrite mk_field_f_type. exact Hd.
  Qed.

  Lemma base_aligned : aligned fs base.
  Proof.
    destruct Hslots as [Hl Hs]. split; [exact Hl|]. intros i fld Hi. destruct (Hs _ _ Hi) as [e [He [He1 _]]].
    destruct e as [[n tg] x]. simpl in He1. inversion He1; subst. exists x. exact He.
  Qed.

  (** which fields the statement groups write *)
  Lemma fired_nondash k T : In (k, (T, false)) fields -> fired fs base steps (nm k) = false.
  Proof.
    intros He. unfold fired. destruct (existsb _ steps) eqn:E; [|reflexivity]. exfalso.
    apply existsb_exists in E as [st [Hst E]]. apply andb_true_iff in E as [_ E]. apply bytes_eqb_true in E.
    apply steps_In in Hst as [tc [l [x [H1 [Hx Est]]]]]. subst st. rewrite step_for_target in E.
    destruct (cond_entry S frs Good m all fields conds F4 F6 _ _ _ H1 Hx) as [T' He'].
    assert (x = k) by (apply (Hnm _ _ _ _ _ _ He' He E)). subst x.
    destruct (entry_unique fields F1 _ _ _ _ _ He He') as [_ Ed]. discriminate.
  Qed.

  Lemma fired_dash x T tcx :
    In (x, (T, true)) fields ->
    (forall tc l, In (tc, l) conds -> In x l -> tc = tcx) ->
    (exists l, In (tcx, l) conds /\ In x l) ->
    fired fs base steps (nm x) = subtype S tn tcx.
  Proof.
    intros He Huniq [l [H1 Hx]]. unfold fired. destruct (subtype S tn tcx) eqn:Esub.
    - apply existsb_exists. exists (step_for tcx x). split; [apply steps_In; exists tcx, l, x; repeat split; assumption|].
      rewrite (step_for_fires _ _ _ H1 Hx), Esub, step_for_target, bytes_eqb_refl. reflexivity.
    - destruct (existsb _ steps) eqn:E; [|reflexivity]. exfalso.
      apply existsb_exists in E as [st [Hst E]]. apply andb_true_iff in E as [Ef E]. apply bytes_eqb_true in E.
      apply steps_In in Hst as [tc [l' [x' [H1' [Hx' Est]]]]]. subst st. rewrite step_for_target in E.
      destruct (cond_entry S frs Good m all fields conds F4 F6 _ _ _ H1' Hx') as [T' He'].
      assert (x' = x) by (apply (Hnm _ _ _ _ _ _ He' He E)). subst x'.
      assert (Etc : tc = tcx) by (apply (Huniq _ _ H1' Hx')). subst tc.
      rewrite (step_for_fires _ _ _ H1' Hx'), Esub in Ef. discriminate.
  Qed.

  (** *** the leaves of the decoded struct *)
  Lemma merged_In y k : In y (merged_inline m k all) <->
    exists co subo, In (SInline co subo) all /\ inline_cond m co = k /\ In y subo.
  Proof.
    unfold merged_inline. rewrite in_flat_map. split.
    - intros [o [Ho Hy]]. destruct o as [|co subo|]; try (destruct Hy).
      destruct (bytes_eqb (inline_cond m co) k) eqn:E; [|destruct Hy]. apply bytes_eqb_true in E.
      exists co, subo. repeat split; assumption.
    - intros [co [subo [Ho [E Hy]]]]. exists (SInline co subo). split; [exact Ho|]. rewrite E, bytes_eqb_refl. exact Hy.
  Qed.

  Lemma field_leaves_nondash k T v : In (k, (T, false)) fields ->
    field_leaves (gf_name (mk_field_f nm (k, (T, false))), gf_tag (mk_field_f nm (k, (T, false))), v) =
    prefix (PKey (lower_bytes (untk k))) (leaves v).
  Proof.
    intros He. unfold mk_field_f, gf_name, gf_tag, field_leaves. cbn [fst snd].
    destruct (equal_fold (nm k) (untk k)) eqn:Ef; cbn [negb]; [|reflexivity].
    apply equal_fold_eq in Ef. rewrite Ef. reflexivity.
  Qed.

  Lemma dash_label k T : In (k, (T, true)) fields -> frag_label (nm k) = frag_label (untk k).
  Proof.
    intros He. destruct (Hext _ _ _ He) as [us [En Hus]]. rewrite En, (frag_label_ext _ us Hus).
    apply frag_label_field_name.
  Qed.

  Lemma field_leaves_dash k T v : In (k, (T, true)) fields -> v <> VNil ->
    field_leaves (gf_name (mk_field_f nm (k, (T, true))), gf_tag (mk_field_f nm (k, (T, true))), v) =
    prefix (PFrag (frag_label (untk k))) (leaves v).
  Proof.
    intros He Hv. unfold mk_field_f, gf_name, gf_tag, field_leaves. cbn [fst snd]. rewrite (dash_label _ _ He).
    destruct v; try reflexivity. contradiction.
  Qed.

  Lemma field_leaves_dash_nil k T :
    field_leaves (gf_name (mk_field_f nm (k, (T, true))), gf_tag (mk_field_f nm (k, (T, true))), VNil) = [].
  Proof. reflexivity. Qed.

  Lemma spread_cond F c body : In (SSpread F c body) all -> frag_cond frs F = c.
  Proof.
    intros Hs. pose proof (E3 _ Hs) as Hl. simpl in Hl. apply andb_true_iff in Hl as [_ Hf].
    destruct (find_frag frs F) as [fr|] eqn:Ef; [|discriminate]. apply andb_true_iff in Hf as [Hf _].
    apply bytes_eqb_true in Hf. unfold frag_cond. rewrite assoc_fragTypes, Ef. exact Hf.
  Qed.

  Lemma inline_cond_uniq c sub : In (SInline c sub) all ->
    forall tc l, In (tc, l) conds -> In (tk 1%N (inline_cond m c)) l -> tc = inline_cond m c.
  Proof.
    intros Hs tc l H1 Hx. destruct (F6 _ _ _ H1 Hx) as [[Ex _]|[f0 [c0 [body [Hs0 [Ex _]]]]]].
    - apply tk_inj in Ex as [_ Ex]. symmetry. exact Ex.
    - apply tk_inj in Ex as [Ex _]. discriminate Ex.
  Qed.

  Lemma spread_cond_uniq F c body : In (SSpread F c body) all ->
    forall tc l, In (tc, l) conds -> In (tk 2%N F) l -> tc = c.
  Proof.
    intros Hs tc l H1 Hx. destruct (F6 _ _ _ H1 Hx) as [[Ex _]|[f0 [c0 [body0 [Hs0 [Ex Ec]]]]]].
    - apply tk_inj in Ex as [Ex _]. discriminate Ex.
    - apply tk_inj in Ex as [_ Ex]. subst f0. rewrite Ec. apply (spread_cond _ _ _ Hs).
  Qed.

  Lemma fired_entry k T dash :
    fired fs base steps (gf_name (mk_field_f nm (k, (T, dash)))) = fired fs base steps (nm k).
  Proof. rewrite mk_field_f_name. reflexivity. Qed.

  Opaque mk_field_f.
  Theorem final_value :
    exists sv', run_steps dec fs j base steps base = DOk sv' /\ leaves_eq (VStruct sv') (obje S all m tn rfs).
  Proof.
    destruct (run_steps_spec dec fs j base fs_names_nd steps base steps_wf base_aligned) as [sv' [Hrun [Hal Hres]]].
    exists sv'. split; [exact Hrun|].
    destruct conf_parts as [_ [_ [_ [_ Hc]]]].
    intros [p lf]. rewrite leaves_struct. unfold obje. rewrite !in_flat_map. split.
    - (* a leaf of the struct is a selected leaf *)
      intros [e [He Hpl]]. apply In_nth_error in He as [i Hi].
      destruct Hal as [Hlen Hal]. assert (Hlt : i < List.length fs).
      { rewrite <- Hlen. apply nth_error_Some. congruence. }
      destruct (nth_error fs i) as [fld|] eqn:Ef; [|apply nth_error_None in Ef; lia].
      destruct (Hres _ _ Ef) as [Hyes Hno].
      destruct (fs_entry fields nm _ (nth_error_In _ _ Ef)) as [k [T [dash [Hent Efld]]]]. subst fld.
      destruct dash.
      + (* a fragment field *)
        destruct (F3 _ _ _ Hent) as [[Hd _]|[[_ [c [sub [Hs [Ek [core0 [ET _]]]]]]]|[_ [F0 [c [body [Hs [Ek ET]]]]]]]]; [discriminate| |].
        * (* inline fragment *)
          subst k. pose proof (fired_dash _ _ (inline_cond m c) Hent (inline_cond_uniq _ _ Hs) (F5 _ Hs)) as Hf.
          rewrite fired_entry, Hf in Hyes, Hno.
          destruct (subtype S tn (inline_cond m c)) eqn:Esub.
          -- destruct (Hyes eq_refl) as [x [Hdx Hsx]]. rewrite Hsx in Hi. injection Hi as Ee. subst e.
             pose proof (HK _ Hs) as Hq. simpl in Hq. destruct (Hq Esub) as [T' [v [He' [Hd [Hn Hl]]]]].
             destruct (entry_unique fields F1 _ _ _ _ _ Hent He') as [ET' _]. subst T'.
             try rewrite mk_field_f_type in Hdx. simpl in Hdx. unfold dec in Hdx. rewrite (Hd K (le_n _)) in Hdx. inversion Hdx; subst x.
             rewrite (field_leaves_dash _ _ _ Hent Hn) in Hpl. apply In_prefix in Hpl as [p' [Ep Hp']].
             apply Hl in Hp'. unfold obje in Hp'. apply in_flat_map in Hp' as [y [Hy Hpy]].
             apply merged_In in Hy as [co [subo [Ho [Eco Hyo]]]].
             exists (SInline co subo). split; [exact Ho|]. simpl. rewrite Eco, Esub.
             apply In_prefix. exists p'. split; [exact Ep|]. apply in_flat_map. exists y. split; assumption.
          -- rewrite (Hno eq_refl) in Hi. destruct Hslots as [_ Hsl]. destruct (Hsl _ _ Ef) as [e0 [He0 [He1 He2]]].
             rewrite Hi in He0. inversion He0; subst e0. rewrite dash_json in He2. try rewrite mk_field_f_type in He2. simpl in He2.
             destruct e as [[n0 tg0] x0]. simpl in He1, He2. inversion He1; subst n0 tg0. subst T. simpl in He2. subst x0.
             rewrite field_leaves_dash_nil in Hpl. destruct Hpl.
        * (* spread *)
          subst k. pose proof (fired_dash _ _ c Hent (spread_cond_uniq _ _ _ Hs)) as Hf.
          assert (Hex : exists l, In (c, l) conds /\ In (tk 2%N F0) l).
          { pose proof (F5 _ Hs) as Hcc. simpl in Hcc. rewrite (spread_cond _ _ _ Hs) in Hcc. exact Hcc. }
          specialize (Hf Hex). rewrite fired_entry, Hf in Hyes, Hno.
          destruct (subtype S tn c) eqn:Esub.
          -- destruct (Hyes eq_refl) as [x [Hdx Hsx]]. rewrite Hsx in Hi. injection Hi as Ee. subst e.
             pose proof (HK _ Hs) as Hq. simpl in Hq. destruct (Hq Esub) as [v [He' [Hd [Hn Hl]]]].
             subst T. try rewrite mk_field_f_type in Hdx. simpl in Hdx. unfold dec in Hdx. rewrite (Hd K (le_n _)) in Hdx. inversion Hdx; subst x.
             rewrite (field_leaves_dash _ _ _ Hent Hn) in Hpl. apply In_prefix in Hpl as [p' [Ep Hp']].
             apply Hl in Hp'. exists (SSpread F0 c body). split; [exact Hs|]. simpl. rewrite Esub.
             apply In_prefix. exists p'. split; [exact Ep | exact Hp'].
          -- rewrite (Hno eq_refl) in Hi. destruct Hslots as [_ Hsl]. destruct (Hsl _ _ Ef) as [e0 [He0 [He1 He2]]].
             rewrite Hi in He0. inversion He0; subst e0. rewrite dash_json in He2. try rewrite mk_field_f_type in He2. simpl in He2.
             destruct e as [[n0 tg0] x0]. simpl in He1, He2. inversion He1; subst n0 tg0. subst T. simpl in He2. subst x0.
             rewrite field_leaves_dash_nil in Hpl. destruct Hpl.
      + (* a response key *)
        destruct (field_key_props _ _ Hent) as [a [f [sub [Hs [Ek _]]]]]. subst k.
        destruct (slot_field _ _ _ Hs) as [i' [T' [w [v [L [He' [Hi' [Hb [Ha [Hd [Hl Hx]]]]]]]]]]].
        destruct (entry_unique fields F1 _ _ _ _ _ Hent He') as [ET _]. subst T'.
        assert (i' = i) by (apply (nodup_map_nth gf_name fs i' i _ _ fs_names_nd Hi' Ef); reflexivity). subst i'.
        rewrite fired_entry in Hno. rewrite (Hno (fired_nondash _ _ Hent)) in Hi. rewrite Hb in Hi. injection Hi as Ee. subst e.
        rewrite (field_leaves_nondash _ _ _ Hent) in Hpl.
        destruct Hx as [_ Hx2]. apply Hx2. apply In_prefix in Hpl as [p' [Ep Hp']].
        apply In_prefix. exists p'. split; [exact Ep | apply Hl; exact Hp'].
    - (* a selected leaf is a leaf of the struct *)
      intros [s [Hs Hpl]]. destruct s as [a f sub|c sub|F c body].
      + destruct (slot_field _ _ _ Hs) as [i [T [w [v [L [He [Hi [Hb [Ha [Hd [Hl Hx]]]]]]]]]]].
        destruct (Hres _ _ Hi) as [_ Hno]. rewrite fired_entry in Hno.
        pose proof (Hno (fired_nondash _ _ He)) as Hsv. rewrite Hb in Hsv.
        eexists. split; [apply (nth_error_In _ _ Hsv)|]. rewrite (field_leaves_nondash _ _ _ He).
        destruct Hx as [Hx1 _]. apply Hx1 in Hpl. apply In_prefix in Hpl as [p' [Ep Hp']]. apply In_prefix. exists p'. split; [exact Ep | apply Hl; exact Hp'].
      + simpl in Hpl. destruct (subtype S tn (inline_cond m c)) eqn:Esub; [|destruct Hpl].
        pose proof (HK _ Hs) as Hq. simpl in Hq. destruct (Hq Esub) as [T [v [He [Hd [Hn Hl]]]]].
        pose proof (entry_fs fields nm _ _ _ He) as Hf. fold fs in Hf. apply In_nth_error in Hf as [i Hi].
        destruct (Hres _ _ Hi) as [Hyes _]. rewrite fired_entry in Hyes.
        rewrite (fired_dash _ _ (inline_cond m c) He (inline_cond_uniq _ _ Hs) (F5 _ Hs)), Esub in Hyes.
        destruct (Hyes eq_refl) as [x [Hdx Hsx]]. try rewrite mk_field_f_type in Hdx. simpl in Hdx. unfold dec in Hdx.
        rewrite (Hd K (le_n _)) in Hdx. inversion Hdx; subst x.
        eexists. split; [apply (nth_error_In _ _ Hsx)|]. rewrite (field_leaves_dash _ _ _ He Hn).
        apply In_prefix in Hpl as [p' [Ep Hp']]. apply In_prefix. exists p'. split; [exact Ep|]. apply Hl.
        unfold obje. apply in_flat_map in Hp' as [y [Hy Hpy]]. apply in_flat_map. exists y. split; [|exact Hpy].
        apply merged_In. exists c, sub. repeat split; assumption.
      + simpl in Hpl. destruct (subtype S tn c) eqn:Esub; [|destruct Hpl].
        pose proof (HK _ Hs) as Hq. simpl in Hq. destruct (Hq Esub) as [v [He [Hd [Hn Hl]]]].
        pose proof (entry_fs fields nm _ _ _ He) as Hf. fold fs in Hf. apply In_nth_error in Hf as [i Hi].
        destruct (Hres _ _ Hi) as [Hyes _]. rewrite fired_entry in Hyes.
        assert (Hex : exists l, In (c, l) conds /\ In (tk 2%N F) l).
        { pose proof (F5 _ Hs) as Hcc. simpl in Hcc. rewrite (spread_cond _ _ _ Hs) in Hcc. exact Hcc. }
        rewrite (fired_dash _ _ c He (spread_cond_uniq _ _ _ Hs) Hex), Esub in Hyes.
        destruct (Hyes eq_refl) as [x [Hdx Hsx]]. try rewrite mk_field_f_type in Hdx. simpl in Hdx. unfold dec in Hdx.
        rewrite (Hd K (le_n _)) in Hdx. inversion Hdx; subst x.
        eexists. split; [apply (nth_error_In _ _ Hsx)|]. rewrite (field_leaves_dash _ _ _ He Hn).
        apply In_prefix in Hpl as [p' [Ep Hp']]. apply In_prefix. exists p'. split; [exact Ep|]. apply Hl. exact Hp'.
  Qed.
  Transparent mk_field_f.
End FinalDecode.

(** ** the generated type of a selection set decodes a conforming response object *)
Section CompositeDecodes.
  Variable S : schema.
  Variable frs : list fragdef.
  Hypothesis HS : schema_ok S = true.
  Variable m : name.
  Variable d : typedef.
  Variable all : list selection.
  Variable fields : list (name * (gotype * bool)).
  Variable conds : list (name * list name).

  Variable FG : program -> Prop.
  Notation Good := (GoodDP S FG).
  Hypothesis F1 : NoDup (map fst fields).
  Hypothesis F3 : forall k T dash, In (k, (T, dash)) fields -> entry_src S Good m all all k T dash.
  Hypothesis F4 : forall s, In s all -> entry_cov S Good m all fields s.
  Hypothesis F5 : forall s, In s all -> cond_cov frs m conds s.
  Hypothesis F6 : forall tc l x, In (tc, l) conds -> In x l -> cond_src frs m all tc x.
  Hypothesis E1 : lookup_type S m = Some d.
  Variable nm : name -> name.
  Hypothesis Hnm : forall k1 T1 d1 k2 T2 d2,
    In (k1, (T1, d1)) fields -> In (k2, (T2, d2)) fields -> nm k1 = nm k2 -> k1 = k2.
  Hypothesis Hext : forall k T dash, In (k, (T, dash)) fields ->
    exists us, nm k = field_name (untk k) ++ us /\ all_us us = true.
  Hypothesis E3 : forall s, In s all -> sel_local S frs m s = true.
  Hypothesis E4 : has_fragment all = true -> is_object_type S m = true \/ exists k, first_typename all = Some k.
  Hypothesis E5 : forall k1 f1 k2 f2, In (k1, f1) (direct_fields all) -> In (k2, f2) (direct_fields all) ->
                                      lower_bytes k1 = lower_bytes k2 -> k1 = k2 /\ f1 = f2.
  Hypothesis E6 : forall k f, In (k, f) (direct_fields all) ->
                              begins_with_letter k = true \/ (is_typename k = true /\ is_typename f = true).
  Variable idx : N.

  Let fs := sort_fields (map (mk_field_f nm) fields).
  Let tnKey := match first_typename all with Some k => k | None => typename_name end.
  Let steps := mk_steps_f S nm m d (nm (tk 0%N tnKey)) conds.
  Let core := match conds with [] => GStruct fs | _ :: _ => GSel m idx fs steps end.

  Variable P : program.
  Hypothesis HP : FG P.
  Hypothesis Hsyn : type_syntax_ok core = true.
  Hypothesis HspreadD : forall F c body, In (SSpread F c body) all ->
    forall tn rfs, objc S body c tn rfs = true ->
                   decodes P (GFragRef F) (json_of (RObj tn rfs)) (obje S body c tn rfs).

  Theorem composite_decodes tn rfs :
    objc S all m tn rfs = true -> decodes P core (json_of (RObj tn rfs)) (obje S all m tn rfs).
  Proof.
    intros Hconf.
    destruct (uniform_bound all (Qs S m all fields P tn rfs)) as [K HK].
    { intros s k k'. apply Qs_mono. }
    { intros s Hs. apply (Qs_exists S frs m d all fields conds FG F4 F5 F6 nm E3 E5 idx P HP Hsyn HspreadD tn rfs Hconf s Hs). }
    destruct (base_exists S m all fields FG F1 F3 nm Hnm Hext E5 E6 P tn rfs Hconf K HK) as [base [Hbase Hslots]].
    destruct (final_value S frs HS m d all fields conds FG F1 F3 F4 F5 F6 E1 nm Hnm Hext E3 E4 E6 idx P Hsyn tn rfs Hconf K HK base Hslots)
      as [sv' [Hrun Hl]].
    apply (decodes_intro P core _ _ (Datatypes.S K) (VStruct sv')); [|exact Hl].
    rewrite decode_S. unfold core, decode_body, fs, steps, tnKey in *.
    change (json_of (RObj tn rfs)) with (JObj (map (fun kv : bytes * rv => (fst kv, json_of (snd kv))) rfs)).
    case_eq conds.
    - intros Ec. rewrite Hbase. simpl. unfold mk_steps_f in Hrun. rewrite Ec in Hrun. simpl in Hrun. inversion Hrun. reflexivity.
    - intros c0 cr Ec. rewrite Hbase. cbn [dbind]. rewrite <- Ec. rewrite Hrun. reflexivity.
  Qed.
End CompositeDecodes.
