(** * Gen/ClientGenLemmas.v — elementary facts used by the C20 proofs: byte strings, association
    lists (the model of Go maps), sorting of struct fields, ASCII case. *)
From Coq Require Import List NArith ZArith Bool String Lia Permutation.
From ApiFu Require Import Base.Sexp Gen.GoTypes Gen.ClientGenModel Gen.DecodeModel Gen.ClientGenSpec.
Import ListNotations.
Open Scope list_scope.

(** ** byte strings *)
Lemma bytes_eqb_true a b : bytes_eqb a b = true -> a = b.
Proof. apply bytes_eqb_eq. Qed.

Lemma bytes_eqb_false a b : bytes_eqb a b = false -> a <> b.
Proof. intros H E. subst. rewrite bytes_eqb_refl in H. discriminate. Qed.

Lemma bytes_eqb_neq a b : a <> b -> bytes_eqb a b = false.
Proof. intros H. destruct (bytes_eqb a b) eqn:E; [apply bytes_eqb_true in E; contradiction | reflexivity]. Qed.

Lemma bytes_eqb_sym a b : bytes_eqb a b = bytes_eqb b a.
Proof.
  destruct (bytes_eqb a b) eqn:E.
  - apply bytes_eqb_true in E. subst. symmetry. apply bytes_eqb_refl.
  - symmetry. apply bytes_eqb_neq. intro H. subst. rewrite bytes_eqb_refl in E. discriminate.
Qed.

Lemma bytes_eq_dec (a b : bytes) : {a = b} + {a <> b}.
Proof. destruct (bytes_eqb a b) eqn:E; [left; apply bytes_eqb_true; exact E | right; apply bytes_eqb_false; exact E]. Qed.

Lemma mem_In x l : mem x l = true <-> In x l.
Proof.
  unfold mem. rewrite existsb_exists. split.
  - intros [y [Hy E]]. apply bytes_eqb_true in E. subst. exact Hy.
  - intros H. exists x. split; [exact H | apply bytes_eqb_refl].
Qed.

Lemma mem_false x l : mem x l = false <-> ~ In x l.
Proof.
  split.
  - intros H HI. apply mem_In in HI. congruence.
  - intros H. destruct (mem x l) eqn:E; [apply mem_In in E; contradiction | reflexivity].
Qed.

Lemma nodupb_NoDup l : nodupb l = true <-> NoDup l.
Proof.
  induction l as [|x r IH]; simpl.
  - split; [constructor | reflexivity].
  - rewrite andb_true_iff, negb_true_iff, mem_false, IH. split.
    + intros [H1 H2]. constructor; assumption.
    + intros H. inversion H; subst. split; assumption.
Qed.

(** ** association lists *)
Lemma assoc_In {A} k (l : list (name * A)) v : assoc k l = Some v -> In (k, v) l.
Proof.
  induction l as [|[k' v'] r IH]; simpl; [discriminate|].
  destruct (bytes_eqb k' k) eqn:E.
  - intros H. inversion H; subst. apply bytes_eqb_true in E. subst. left. reflexivity.
  - intros H. right. apply IH. exact H.
Qed.

Lemma assoc_None {A} k (l : list (name * A)) : assoc k l = None <-> ~ In k (map fst l).
Proof.
  induction l as [|[k' v'] r IH]; simpl.
  - split; [intros _ H; exact H | reflexivity].
  - destruct (bytes_eqb k' k) eqn:E.
    + apply bytes_eqb_true in E. subst. split; [discriminate | intros H; exfalso; apply H; left; reflexivity].
    + apply bytes_eqb_false in E. rewrite IH. split.
      * intros H [H1|H1]; [contradiction | apply H; exact H1].
      * intros H H1. apply H. right. exact H1.
Qed.

Lemma assoc_Some_In_keys {A} k (l : list (name * A)) v : assoc k l = Some v -> In k (map fst l).
Proof. intros H. apply assoc_In in H. apply (in_map fst) in H. exact H. Qed.

Lemma In_assoc_nodup {A} k (l : list (name * A)) v :
  NoDup (map fst l) -> In (k, v) l -> assoc k l = Some v.
Proof.
  induction l as [|[k' v'] r IH]; simpl; [intros _ []|].
  intros ND [H|H].
  - inversion H; subst. rewrite bytes_eqb_refl. reflexivity.
  - inversion ND; subst. destruct (bytes_eqb k' k) eqn:E.
    + apply bytes_eqb_true in E. subst. exfalso. apply H2. apply (in_map fst) in H. exact H.
    + apply IH; assumption.
Qed.

Lemma assoc_aset_same {A} k (v : A) m : assoc k (aset k v m) = Some v.
Proof.
  induction m as [|[k' v'] r IH]; simpl.
  - rewrite bytes_eqb_refl. reflexivity.
  - destruct (bytes_eqb k' k) eqn:E; simpl; rewrite E; [reflexivity | exact IH].
Qed.

Lemma assoc_aset_other {A} k k2 (v : A) m : k2 <> k -> assoc k2 (aset k v m) = assoc k2 m.
Proof.
  intros N. induction m as [|[k' v'] r IH]; simpl.
  - rewrite bytes_eqb_neq; [reflexivity | congruence].
  - destruct (bytes_eqb k' k) eqn:E; simpl.
    + apply bytes_eqb_true in E. subst. rewrite bytes_eqb_neq; [|congruence]. reflexivity.
    + destruct (bytes_eqb k' k2); [reflexivity | exact IH].
Qed.

Lemma keys_aset {A} k (v : A) m :
  map fst (aset k v m) = if mem k (map fst m) then map fst m else map fst m ++ [k].
Proof.
  induction m as [|[k' v'] r IH]; simpl; [reflexivity|].
  rewrite (bytes_eqb_sym k k'). destruct (bytes_eqb k' k) eqn:E; simpl; [reflexivity|].
  rewrite IH. destruct (mem k (map fst r)); reflexivity.
Qed.

Lemma NoDup_snoc {A} (l : list A) x : NoDup l -> ~ In x l -> NoDup (l ++ [x]).
Proof.
  induction l as [|y r IH]; simpl; intros ND NI.
  - constructor; [intros [] | constructor].
  - inversion ND; subst. constructor.
    + rewrite in_app_iff. intros [H|[H|[]]]; [contradiction | subst; apply NI; left; reflexivity].
    + apply IH; [assumption | intro H; apply NI; right; exact H].
Qed.

Lemma nodup_keys_aset {A} k (v : A) m : NoDup (map fst m) -> NoDup (map fst (aset k v m)).
Proof.
  intros ND. rewrite keys_aset. destruct (mem k (map fst m)) eqn:E; [exact ND|].
  apply mem_false in E. apply NoDup_snoc; assumption.
Qed.

Lemma In_aset {A} k (v : A) m e :
  NoDup (map fst m) -> In e (aset k v m) -> e = (k, v) \/ (In e m /\ fst e <> k).
Proof.
  induction m as [|[k' v'] r IH]; simpl; intros ND.
  - intros [H|[]]. left. symmetry. exact H.
  - inversion ND as [|? ? Hn ND']; subst. destruct (bytes_eqb k' k) eqn:E; simpl.
    + apply bytes_eqb_true in E. subst. intros [H|H]; [left; symmetry; exact H|].
      right. split; [right; exact H|]. intro Ek. apply Hn. rewrite <- Ek. apply in_map. exact H.
    + intros [H|H].
      * subst e. right. split; [left; reflexivity|]. simpl. apply bytes_eqb_false in E. exact E.
      * destruct (IH ND' H) as [H1|[H1 H2]]; [left; exact H1 | right; split; [right; exact H1 | exact H2]].
Qed.

Lemma In_aset_keep {A} k (v : A) m e : In e m -> fst e <> k -> In e (aset k v m).
Proof.
  induction m as [|[k' v'] r IH]; simpl; [intros []|].
  intros [H|H] N.
  - subst e. simpl in N. rewrite bytes_eqb_neq; [|exact N]. left. reflexivity.
  - destruct (bytes_eqb k' k); [right; exact H | right; apply IH; assumption].
Qed.

Lemma In_aset_new {A} k (v : A) m : In (k, v) (aset k v m).
Proof. apply assoc_In. apply assoc_aset_same. Qed.

(** [aappend] *)
Lemma keys_aappend k x m :
  map fst (aappend k x m) = if mem k (map fst m) then map fst m else map fst m ++ [k].
Proof.
  induction m as [|[k' l] r IH]; simpl; [reflexivity|].
  rewrite (bytes_eqb_sym k k'). destruct (bytes_eqb k' k) eqn:E; simpl; [reflexivity|].
  rewrite IH. destruct (mem k (map fst r)); reflexivity.
Qed.

Lemma nodup_keys_aappend k x m : NoDup (map fst m) -> NoDup (map fst (aappend k x m)).
Proof.
  intros ND. rewrite keys_aappend. destruct (mem k (map fst m)) eqn:E; [exact ND|].
  apply mem_false in E. apply NoDup_snoc; assumption.
Qed.

Lemma assoc_aappend_same k x m :
  assoc k (aappend k x m) = Some (match assoc k m with Some l => l ++ [x] | None => [x] end).
Proof.
  induction m as [|[k' l] r IH]; simpl.
  - rewrite bytes_eqb_refl. reflexivity.
  - destruct (bytes_eqb k' k) eqn:E; simpl; rewrite E; [reflexivity | exact IH].
Qed.

Lemma assoc_aappend_other k k2 x m : k2 <> k -> assoc k2 (aappend k x m) = assoc k2 m.
Proof.
  intros N. induction m as [|[k' l] r IH]; simpl.
  - rewrite bytes_eqb_neq; [reflexivity | congruence].
  - destruct (bytes_eqb k' k) eqn:E; simpl.
    + apply bytes_eqb_true in E. subst. rewrite bytes_eqb_neq; [|congruence]. reflexivity.
    + destruct (bytes_eqb k' k2); [reflexivity | exact IH].
Qed.

(** membership in the lists of an [aappend]ed map *)
Lemma In_aappend k x m tc l y :
  In (tc, l) (aappend k x m) -> In y l ->
  (exists l', In (tc, l') m /\ In y l') \/ (tc = k /\ y = x).
Proof.
  induction m as [|[k' l0] r IH]; simpl.
  - intros [H|[]] Hy. inversion H; subst. destruct Hy as [Hy|[]]. right. split; [reflexivity | symmetry; exact Hy].
  - destruct (bytes_eqb k' k) eqn:E; simpl.
    + apply bytes_eqb_true in E. subst. intros [H|H] Hy.
      * inversion H; subst. apply in_app_iff in Hy. destruct Hy as [Hy|[Hy|[]]].
        -- left. exists l0. split; [left; reflexivity | exact Hy].
        -- right. split; [reflexivity | symmetry; exact Hy].
      * left. exists l. split; [right; exact H | exact Hy].
    + intros [H|H] Hy.
      * inversion H; subst. left. exists l. split; [left; reflexivity | exact Hy].
      * destruct (IH H Hy) as [[l' [H1 H2]]|H1]; [left; exists l'; split; [right; exact H1 | exact H2] | right; exact H1].
Qed.

Lemma aappend_keeps k x m tc l y :
  In (tc, l) m -> In y l -> exists l', In (tc, l') (aappend k x m) /\ In y l'.
Proof.
  induction m as [|[k' l0] r IH]; simpl; [intros []|].
  intros [H|H] Hy.
  - inversion H; subst. destruct (bytes_eqb tc k) eqn:E.
    + exists (l ++ [x]). split; [left; reflexivity | apply in_app_iff; left; exact Hy].
    + exists l. split; [left; reflexivity | exact Hy].
  - destruct (bytes_eqb k' k).
    + exists l. split; [right; exact H | exact Hy].
    + destruct (IH H Hy) as [l' [H1 H2]]. exists l'. split; [right; exact H1 | exact H2].
Qed.

Lemma aappend_adds k x m : exists l', In (k, l') (aappend k x m) /\ In x l'.
Proof.
  pose proof (assoc_aappend_same k x m) as H. apply assoc_In in H.
  eexists. split; [exact H|]. destruct (assoc k m); [apply in_app_iff; right; left; reflexivity | left; reflexivity].
Qed.

(** ** sorting the struct fields *)
Lemma insert_field_perm f l : Permutation (f :: l) (insert_field f l).
Proof.
  induction l as [|g r IH]; simpl; [apply Permutation_refl|].
  destruct (bytes_leb (gf_name f) (gf_name g)); [apply Permutation_refl|].
  eapply Permutation_trans; [apply perm_swap|]. apply perm_skip. exact IH.
Qed.

Lemma sort_fields_perm l : Permutation l (sort_fields l).
Proof.
  induction l as [|f r IH]; simpl; [apply Permutation_refl|].
  eapply Permutation_trans; [apply perm_skip; exact IH | apply insert_field_perm].
Qed.

Lemma In_sort_fields f l : In f (sort_fields l) <-> In f l.
Proof.
  split; intro H.
  - eapply Permutation_in; [apply Permutation_sym; apply sort_fields_perm | exact H].
  - eapply Permutation_in; [apply sort_fields_perm | exact H].
Qed.

Lemma NoDup_names_sort l : NoDup (map gf_name l) -> NoDup (map gf_name (sort_fields l)).
Proof.
  intro H. eapply Permutation_NoDup; [apply Permutation_map; apply sort_fields_perm | exact H].
Qed.

(** ** ASCII case *)
Lemma lower_upper c : lower (upper c) = lower c.
Proof.
  unfold lower, upper, is_upper, is_lower.
  destruct ((97 <=? c)%N && (c <=? 122)%N) eqn:E.
  - apply andb_true_iff in E as [E1 E2]. apply N.leb_le in E1. apply N.leb_le in E2.
    assert (H1 : (65 <=? c - 32)%N = true) by (apply N.leb_le; lia).
    assert (H2 : (c - 32 <=? 90)%N = true) by (apply N.leb_le; lia).
    rewrite H1, H2. simpl.
    assert (H3 : (c <=? 90)%N = false) by (apply N.leb_gt; lia).
    rewrite H3, andb_false_r. lia.
  - reflexivity.
Qed.

Lemma lower_title s : lower_bytes (title s) = lower_bytes s.
Proof. destruct s as [|c r]; simpl; [reflexivity | rewrite lower_upper; reflexivity]. Qed.

Lemma equal_fold_eq a b : equal_fold a b = true <-> lower_bytes a = lower_bytes b.
Proof. unfold equal_fold. apply bytes_eqb_eq. Qed.

Lemma equal_fold_refl a : equal_fold a a = true.
Proof. apply equal_fold_eq. reflexivity. Qed.

Lemma equal_fold_sym a b : equal_fold a b = equal_fold b a.
Proof. unfold equal_fold. apply bytes_eqb_sym. Qed.

Definition starts_uu (n : name) : bool :=
  match n with
  | a :: b :: _ => (a =? 95)%N && (b =? 95)%N
  | _ => false
  end.

Lemma field_name_plain n : starts_uu n = false -> field_name n = title n.
Proof.
  unfold field_name, starts_uu. destruct n as [|a [|b r]]; try reflexivity.
  intros H. rewrite H. reflexivity.
Qed.

Lemma field_name_fold n : starts_uu n = false -> equal_fold (field_name n) n = true.
Proof. intros H. rewrite field_name_plain by exact H. apply equal_fold_eq. apply lower_title. Qed.

(** ** decidable equality of selections is sound *)
Lemma opt_name_eqb_eq (x y : option name) :
  match x, y with Some p, Some q => bytes_eqb p q | None, None => true | _, _ => false end = true -> x = y.
Proof.
  destruct x, y; try discriminate; intros H; [apply bytes_eqb_true in H; subst|]; reflexivity.
Qed.

Lemma selection_ind' (P : selection -> Prop) :
  (forall a f sub, Forall P sub -> P (SField a f sub)) ->
  (forall c sub, Forall P sub -> P (SInline c sub)) ->
  (forall f c body, Forall P body -> P (SSpread f c body)) ->
  forall s, P s.
Proof.
  intros H1 H2 H3. fix IH 1. intros [a f sub|c sub|f c body].
  - apply H1. induction sub as [|x r IHr]; constructor; [apply IH | exact IHr].
  - apply H2. induction sub as [|x r IHr]; constructor; [apply IH | exact IHr].
  - apply H3. induction body as [|x r IHr]; constructor; [apply IH | exact IHr].
Qed.

Lemma sels_go_eq (l : list selection) :
  Forall (fun x => forall y, selection_eqb x y = true -> x = y) l ->
  forall l',
    (fix go (x y : list selection) {struct x} : bool :=
       match x, y with
       | [], [] => true
       | p :: ps, q :: qs => selection_eqb p q && go ps qs
       | _, _ => false
       end) l l' = true -> l = l'.
Proof.
  induction 1 as [|p ps Hp Hps IHl]; intros [|q qs]; try discriminate; intros H; [reflexivity|].
  apply andb_true_iff in H as [H1 H2]. f_equal; [apply Hp; exact H1 | apply IHl; exact H2].
Qed.

Lemma selection_eqb_eq : forall a b, selection_eqb a b = true -> a = b.
Proof.
  induction a as [a1 f1 s1 IH|c1 s1 IH|f1 c1 s1 IH] using selection_ind';
    intros [a2 f2 s2|c2 s2|f2 c2 s2]; simpl; try discriminate; intros H.
  - apply andb_true_iff in H as [H H3]. apply andb_true_iff in H as [H1 H2].
    apply opt_name_eqb_eq in H1. apply bytes_eqb_true in H2. subst. f_equal. apply (sels_go_eq _ IH _ H3).
  - apply andb_true_iff in H as [H1 H3]. apply opt_name_eqb_eq in H1. subst. f_equal. apply (sels_go_eq _ IH _ H3).
  - apply andb_true_iff in H as [H H3]. apply andb_true_iff in H as [H1 H2].
    apply bytes_eqb_true in H1. apply bytes_eqb_true in H2. subst. f_equal. apply (sels_go_eq _ IH _ H3).
Qed.

Lemma sels_eqb_eq x y : sels_eqb x y = true -> x = y.
Proof.
  revert y. induction x as [|p ps IH]; intros [|q qs]; simpl; try discriminate; intros H; [reflexivity|].
  apply andb_true_iff in H as [H1 H2]. f_equal; [apply selection_eqb_eq; exact H1 | apply IH; exact H2].
Qed.
