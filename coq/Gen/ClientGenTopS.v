(** * Gen/ClientGenTopS.v — C20: the main statements about the generator of the current tree
    ([generate_s], [generate_real]) WITHOUT the exclusion of member-name clashes.

    The top layer over ClientGenMainS.v: inside the envelope [env] the generator accepts; every declaration is a struct whose
    field names are pairwise distinct and whose UnmarshalJSON only touches existing fields, refers
    to declared types only, has a forwarding method only where the underlying type has one, and is
    printable; the <Op>Data / <F>Fragment names are pairwise distinct (from the validity of the
    document); and decoding any conforming response of a named operation gives exactly the selected
    leaves.  What stays under the names-only condition [decl_safe] is the clause about the declared
    identifiers as a whole (ClientGenClauses.cl_identifiers), see [real_wf_clauses]. *)
From Coq Require Import List NArith Bool String Lia.
From ApiFu Require Import Base.Sexp Gen.GoTypes Gen.ClientGenModel Gen.DecodeModel Gen.ClientGenSpec Gen.ClientGenLemmas
  Gen.DecodeLemmas Gen.ClientGenProofs Gen.ClientGenGood Gen.ClientGenFinal Gen.ClientGenDecode Gen.ClientGenMain Gen.ClientGenDeclSafe Gen.ClientGenFresh Gen.ClientGenAgree
  Gen.ClientGenDecodeS Gen.ClientGenMainS Gen.ClientGenDeclSafeS Gen.LoadSchemaModel Gen.LoadSchemaProofs Gen.ClientGenClauses.
Import ListNotations.

(** ** the Go name of an enum type is not a keyword *)
Lemma assoc_keys_Some {A} (l : list (name * A)) n : In n (map fst l) -> exists x, assoc n l = Some x /\ In x (map snd l).
Proof.
  induction l as [|[k v] r IH]; simpl; [intros []|]. intros H.
  destruct (bytes_eqb k n) eqn:E.
  - exists v. split; [reflexivity | left; reflexivity].
  - destruct H as [H|H]; [subst k; rewrite bytes_eqb_refl in E; discriminate|].
    destruct (IH H) as [x [H1 H2]]. exists x. split; [exact H1 | right; exact H2].
Qed.

Lemma assign_gen_keys {K} (base : K -> name) : forall keys taken acc,
  map fst (fst (assign_gen base keys taken acc)) = (map fst acc ++ keys)%list.
Proof.
  induction keys as [|k r IH]; intros taken acc; simpl; [rewrite app_nil_r; reflexivity|].
  rewrite IH. rewrite map_app. simpl. rewrite <- app_assoc. reflexivity.
Qed.

Lemma enum_go_name_not_keyword_In S d n vs :
  In (DEnum n vs) (s_types S) -> go_keyword (enum_go_name S d n) = false.
Proof.
  intros Hin.
  assert (Hk : In n (map fst (fst (enum_name_map S d)))).
  { unfold enum_name_map. rewrite assign_gen_keys. simpl. apply in_map_iff. exists (n, vs). split; [reflexivity|].
    unfold schema_enums. apply in_flat_map. exists (DEnum n vs). split; [exact Hin | left; reflexivity]. }
  destruct (assoc_keys_Some _ _ Hk) as [x [Hx Hs]]. unfold enum_go_name. rewrite Hx.
  destruct (enum_type_names_distinct S d) as [_ Hfree]. specialize (Hfree x Hs).
  unfold go_keyword. apply mem_false. intro Hi. apply Hfree. rewrite reserved_is. unfold go_reserved.
  apply in_app_iff. left. apply in_app_iff. left. apply in_app_iff. left. exact Hi.
Qed.

Lemma enum_go_name_not_keyword S d n n' vs :
  lookup_type S n = Some (DEnum n' vs) -> go_keyword (enum_go_name S d n) = false.
Proof.
  intros El. apply find_some_name in El as [En Hin]. simpl in En. subst n'. apply (enum_go_name_not_keyword_In S d n vs Hin).
Qed.

(** ** <Op>Data and <F>Fragment names are pairwise distinct in a valid document *)
Lemma NoDup_map_suffix (suf : bytes) l : NoDup l -> NoDup (map (fun x : bytes => (x ++ suf)%list) l).
Proof.
  induction 1 as [|x r Hn ND IH]; simpl; constructor; [|exact IH].
  intro Hi. apply in_map_iff in Hi as [y [E Hy]]. apply app_inv_tail in E. subst y. exact (Hn Hy).
Qed.

Lemma data_not_fragment a b : data_type_name a <> frag_type_name b.
Proof.
  unfold data_type_name, frag_type_name. intro H. apply (f_equal (@rev _)) in H. rewrite !rev_app_distr in H.
  simpl in H. discriminate.
Qed.

Lemma data_names_map (ops : list opdef) :
  flat_map (fun o => match op_name o with Some n => [data_type_name n] | None => [] end) ops =
  map data_type_name (flat_map (fun o => match op_name o with Some n => [n] | None => [] end) ops).
Proof. induction ops as [|o r IH]; [reflexivity|]. simpl. rewrite map_app, <- IH. destruct (op_name o); reflexivity. Qed.

Lemma doc_valid_def_names S d : doc_valid S d = true -> NoDup (Dn d).
Proof.
  intros Hv. unfold doc_valid in Hv. do 8 (apply andb_true_iff in Hv as [Hv _]).
  apply andb_true_iff in Hv as [Hv H4]. do 2 (apply andb_true_iff in Hv as [Hv _]).
  apply nodupb_NoDup in Hv. apply nodupb_NoDup in H4.
  unfold Dn. apply NoDup_app_intro.
  - rewrite data_names_map. apply (NoDup_map_suffix (bs "Data")). exact Hv.
  - unfold frag_names. apply (NoDup_map_suffix (bs "Fragment")). exact H4.
  - intros x Ha Hb. apply in_flat_map in Ha as [o [_ Ha]]. destruct (op_name o) as [n|]; [|destruct Ha].
    destruct Ha as [Ha|[]]. apply in_map_iff in Hb as [f [Hb _]]. subst x. exact (data_not_fragment _ _ (eq_sym Hb)).
Qed.

Lemma def_names_outs S frs en cn fuel st' defs outs :
  Forall2 (def_res_s S frs en cn fuel st') defs outs -> map td_name outs = dnames defs.
Proof.
  induction 1 as [|def td defs outs Hr H IH]; [reflexivity|].
  destruct Hr as [r [dn [core [s0 [s0' [_ [Hdn [_ [Etd _]]]]]]]]]. unfold dnames in *. simpl. rewrite IH, Hdn, Etd. reflexivity.
Qed.

Section TopS.
  Variable S : schema.
  Variable d : document.
  Hypothesis Henv : env S d = true.

  Let frs := d_frags d.
  Let fragTypes := map (fun f => (fr_name f, fr_cond f)) frs.
  Let fuel := Datatypes.S (doc_size d).
  Notation en := (enum_go_name S d).
  Notation cn := (const_go_name S d).
  Notation def_res_d := (def_res_s S frs en cn fuel).

  Lemma env_parts_s :
    schema_ok S = true /\ doc_valid S d = true /\
    (forall o, In o (d_ops d) -> exists n r, op_name o = Some n /\ root_type S o = Some r /\
                                             all_structs S (env_local S frs) (sel_fuel (op_sels o)) r (op_sels o) = true) /\
    (forall f, In f frs -> all_structs S (env_local S frs) (sel_fuel (fr_sels f)) (fr_cond f) (fr_sels f) = true).
  Proof.
    unfold env in Henv. fold frs in Henv.
    apply andb_true_iff in Henv as [H H4]. apply andb_true_iff in H as [H H3]. apply andb_true_iff in H as [H1 H2].
    split; [exact H1|]. split; [exact H2|]. split.
    - intros o Ho. rewrite forallb_forall in H3. specialize (H3 o Ho).
      destruct (op_name o) as [n|]; [|discriminate]. destruct (root_type S o) as [r|]; [|discriminate].
      exists n, r. split; [reflexivity|]. split; [reflexivity|]. apply andb_true_iff in H3 as [H3 _]. exact H3.
    - intros f Hf. rewrite forallb_forall in H4. specialize (H4 f Hf). apply andb_true_iff in H4 as [H4 _]. exact H4.
  Qed.

  Lemma HenD : forall n n' vs, lookup_type S n = Some (DEnum n' vs) -> go_keyword (en n) = false.
  Proof. intros n n' vs H. exact (enum_go_name_not_keyword S d n n' vs H). Qed.

  Lemma defs_ok_s : Forall (def_ok_s S frs fuel) (defs_of S d).
  Proof.
    destruct env_parts_s as [_ [_ [Hops Hfrs]]]. apply Forall_forall. intros def Hd0.
    revert Hd0. unfold defs_of. intros Hd.
    apply in_app_iff in Hd as [Hd|Hd].
    - apply in_map_iff in Hd as [o [Ed Ho]]. subst def. destruct (Hops o Ho) as [n [r [En [Er Ha]]]].
      exists r, (data_type_name n). simpl in *. unfold root_type in Er. rewrite Er, En.
      split; [reflexivity|]. split; [reflexivity|]. split; [exact Ha|].
      unfold fuel. pose proof (doc_size_op d o Ho). lia.
    - apply in_map_iff in Hd as [f [Ed Hf]]. subst def.
      exists (fr_cond f), (frag_type_name (fr_name f)). simpl in *.
      split; [reflexivity|]. split; [reflexivity|]. split; [apply Hfrs; exact Hf|].
      unfold fuel. pose proof (doc_size_frag d f Hf). lia.
  Qed.

  (** the generator accepts, and what it declares *)
  Lemma generate_s_ok :
    exists st' outs,
      generate_s S (doc_valid S d) d = GOk {| p_enums := g_enums st'; p_defs := outs; p_json := g_json st' |} /\
      Forall2 (def_res_d st') (defs_of S d) outs /\
      NoDup (map td_name outs) /\
      (forall e, In e (g_enums st') -> go_keyword (fst e) = false) /\
      (forall td, In td outs -> type_syntax_ok (td_type td) = true).
  Proof.
    destruct env_parts_s as [HS [Hv _]].
    destruct (process_defs_ok_s S frs HS en cn HenD fuel (defs_of S d)
                                {| g_enums := []; g_count := 0; g_json := false |} [] defs_ok_s)
      as [st' [outs [Hp [[_ Hext] Hres]]]].
    assert (Hkw : forall e, In e (g_enums st') -> go_keyword (fst e) = false).
    { intros e He. destruct (Hext (fst e)) as [[]|[n [n' [vs [El Ee]]]]]; [unfold enums_of; apply in_map; exact He|].
      rewrite Ee. apply (HenD n n' vs El). }
    assert (Hsy : forall td, In td outs -> type_syntax_ok (td_type td) = true).
    { intros td Htd. destruct (Forall2_In_r _ _ _ _ Hres Htd) as [def [_ [r [dn [core [s0 [s0' [_ [_ [_ [Etd [_ [[_ Hs] _]]]]]]]]]]]]].
      subst td. exact Hs. }
    exists st', outs. split; [|split; [exact Hres|split; [|split; [exact Hkw | exact Hsy]]]].
    - unfold generate_s, generate_raw_s. rewrite Hv. simpl negb. cbv iota.
      unfold fuel, frs in Hp. rewrite Hp. simpl app.
      assert (Hps : program_syntax_ok {| p_enums := g_enums st'; p_defs := outs; p_json := g_json st' |} = true).
      { unfold program_syntax_ok. simpl. apply andb_true_iff. split; apply forallb_forall.
        - intros e He. rewrite (Hkw e He). reflexivity.
        - exact Hsy. }
      rewrite Hps. reflexivity.
    - rewrite (def_names_outs _ _ _ _ _ _ _ _ Hres). rewrite dnames_defs. apply (doc_valid_def_names S d Hv).
  Qed.
End TopS.

Section TheoremsS.
  Variable S : schema.
  Variable d : document.
  Hypothesis Henv : env S d = true.

  Let frs := d_frags d.
  Let fuel := Datatypes.S (doc_size d).
  Notation en := (enum_go_name S d).
  Notation cn := (const_go_name S d).

  (** the generator of the current tree accepts; the struct, reference, forwarder and syntax
      clauses hold of what it declares, and the declared <Op>Data / <F>Fragment names are distinct *)
  Theorem gen_s_accepts :
    exists p, generate_s S (doc_valid S d) d = GOk p /\
              cl_struct_members p /\ cl_references p /\ cl_method_forwarders p /\
              NoDup (map td_name (p_defs p)) /\
              forallb (fun e : name * list (name * name) => negb (go_keyword (fst e))) (p_enums p) = true /\
              (forall dfn, In dfn (p_defs p) -> type_syntax_ok (td_type dfn) = true).
  Proof.
    destruct (generate_s_ok S d Henv) as [st' [outs [Hgen [Hres [HND [Hkw Hsy]]]]]].
    set (p := {| p_enums := g_enums st'; p_defs := outs; p_json := g_json st' |}) in *.
    exists p. split; [exact Hgen|].
    assert (Hall : forall td, In td (p_defs p) ->
               wf_shape (td_type td) = true /\ refs_ok p (td_type td) = true /\
               (td_forward td = true -> exists tn i fs st, td_type td = GSel tn i fs st)).
    { intros td Htd. simpl in Htd.
      destruct (Forall2_In_r _ _ _ _ Hres Htd) as [def [Hdef [r [dn [core [st0 [st0' [Hr [Hdn [Hg [Etd [[Hext _] [[[Hw [He Hf]] _] [_ Hsl]]]]]]]]]]]]]].
      subst td. simpl. split; [exact Hw|]. split.
      - apply refs_ok_intro.
        + intros n Hn. apply He in Hn. apply Hext in Hn. intro Hnone. apply assoc_None in Hnone. apply Hnone. exact Hn.
        + intros f Hfr. apply Hf in Hfr. apply in_map_iff in Hfr as [fr [Efr Hfr]]. subst f.
          assert (Hd : In (Some (fr_cond fr), fr_sels fr, Some (frag_type_name (fr_name fr))) (defs_of S d)).
          { unfold defs_of. apply in_app_iff. right. apply in_map_iff. exists fr. split; [reflexivity | exact Hfr]. }
          destruct (Forall2_In_l _ _ _ _ Hres Hd) as [td' [Htd' [r' [dn' [core' [s0 [s0' [_ [Hdn' [_ [Etd' _]]]]]]]]]]].
          simpl in Hdn'. inversion Hdn'; subst dn'. subst td'.
          apply (lookup_def_exists p _ Htd').
      - destruct Hsl as [[fs E]|[a [b [fs [stp E]]]]]; subst core; simpl; [discriminate|]. intros _. do 4 eexists. reflexivity. }
    split; [intros td Htd; apply (Hall td Htd)|]. split; [intros td Htd; apply (Hall td Htd)|].
    split; [intros td Htd; apply (Hall td Htd)|]. split; [exact HND|]. split; [|exact Hsy].
    apply forallb_forall. intros e He. rewrite (Hkw e He). reflexivity.
  Qed.

  (** decoding any response shaped by a named operation yields exactly the selected leaves *)
  Theorem gen_s_decodes p o opname w :
    generate_s S (doc_valid S d) d = GOk p ->
    In o (d_ops d) -> op_name o = Some opname -> conforms S o w = true ->
    exists n v, (forall fu, n <= fu -> decode_op p fu opname (json_of w) = DOk v) /\
                (forall pl, In pl (leaves v) <-> In pl (expected S o w)).
  Proof.
    intros Hgen0 Ho Hname Hconf.
    destruct (generate_s_ok S d Henv) as [st' [outs [Hgen [Hres [HND [Hkw Hsy]]]]]].
    rewrite Hgen in Hgen0. inversion Hgen0 as [Ep]. clear Hgen0.
    set (p' := {| p_enums := g_enums st'; p_defs := outs; p_json := g_json st' |}) in *.
    assert (HND' : NoDup (map td_name (p_defs p'))) by exact HND.
    destruct (env_parts_s S d Henv) as [HS [_ [Hops _]]].
    (* the fragments *)
    assert (HP : frags_gen_s S frs en cn p').
    { intros fr Hfr.
      assert (Hd : In (Some (fr_cond fr), fr_sels fr, Some (frag_type_name (fr_name fr))) (defs_of S d)).
      { unfold defs_of. apply in_app_iff. right. apply in_map_iff. exists fr. split; [reflexivity | exact Hfr]. }
      destruct (Forall2_In_l _ _ _ _ Hres Hd) as [td [Htd [r [dn [core [s0 [s0' [Hr [Hdn [Hg [Etd _]]]]]]]]]]].
      simpl in Hr, Hdn, Hg. inversion Hr; subst r. inversion Hdn; subst dn.
      exists core, fuel, s0, s0'. split; [exact Hg|]. split.
      - pose proof (lookup_def_In p' td HND' Htd) as Hl. subst td. exact Hl.
      - specialize (Hsy td Htd). subst td. exact Hsy. }
    (* the operation *)
    destruct (Hops o Ho) as [n [r [En [Er Ha]]]]. rewrite Hname in En. inversion En; subst n.
    assert (Hd : In (Some r, op_sels o, Some (data_type_name opname)) (defs_of S d)).
    { unfold defs_of. apply in_app_iff. left. apply in_map_iff. exists o. split; [|exact Ho].
      unfold root_type in Er. rewrite Er, Hname. reflexivity. }
    destruct (Forall2_In_l _ _ _ _ Hres Hd) as [td [Htd [r0 [dn [core [s0 [s0' [Hr [Hdn [Hg [Etd [_ [_ [Hgood Hsl]]]]]]]]]]]]]].
    simpl in Hr, Hdn, Hg, Hgood. inversion Hr; subst r0. inversion Hdn; subst dn.
    assert (Hsc : type_syntax_ok core = true) by (specialize (Hsy td Htd); subst td; exact Hsy).
    destruct (Hgood p' HP Hsc) as [_ Hobj].
    unfold conforms in Hconf. rewrite Er in Hconf. destruct w as [| | |tn fs]; try discriminate.
    apply andb_true_iff in Hconf as [Hc Hc3]. apply andb_true_iff in Hc as [Hc1 Hc2]. apply bytes_eqb_true in Hc1. subst tn.
    assert (Hobjc : objc S (op_sels o) r r fs = true).
    { unfold objc.
      assert (Hcomp : composite S r = true).
      { unfold sel_fuel in Ha. rewrite all_structs_S in Ha. apply andb_true_iff in Ha as [Ha _].
        apply (env_local_elim _ _ _ _ Ha). }
      assert (Hobjt : is_object_type S r = true).
      { destruct (schema_roots S HS) as [Hq Hm]. unfold root_type in Er. destruct (op_type o).
        - inversion Er; subst r. exact Hq.
        - apply Hm. exact Er. }
      rewrite Hcomp, Hobjt, Hc2. simpl.
      assert (Hsub : subtype S r r = true).
      { unfold is_object_type in Hobjt. unfold subtype. destruct (lookup_type S r) as [[n0 ifs fs0| | | |]|] eqn:El; try discriminate.
        apply find_some_name in El as [El _]. simpl in El. subst n0. apply bytes_eqb_refl. }
      rewrite Hsub. simpl. exact Hc3. }
    destruct (Hobj r fs Hobjc) as [k [v [Hdv Hlv]]].
    exists k, v. split.
    - intros fu Hfu. unfold decode_op. try rewrite <- Ep. pose proof (lookup_def_In p' td HND' Htd) as Hl. subst td. simpl in Hl. rewrite Hl.
      rewrite (decode_def_struct_like _ _ _ _ Hsl). apply Hdv. exact Hfu.
    - intros pl. unfold expected. rewrite Er. apply Hlv.
  Qed.
End TheoremsS.

(** ** the same about [generate_real] (LoadSchema first) *)
Lemma generate_real_loadable D S valid d : schema_loadable S = true -> generate_real D S valid d = generate_s S valid d.
Proof. intros HL. rewrite generate_real_unfold. rewrite (load_schema_roundtrip S HL). reflexivity. Qed.

Theorem real_s_accepts : forall D S d,
  env S d = true -> schema_loadable S = true ->
  exists p, generate_real D S (doc_valid S d) d = GOk p /\
            cl_struct_members p /\ cl_references p /\ cl_method_forwarders p /\
            NoDup (map td_name (p_defs p)) /\
            forallb (fun e : name * list (name * name) => negb (go_keyword (fst e))) (p_enums p) = true /\
            (forall dfn, In dfn (p_defs p) -> type_syntax_ok (td_type dfn) = true).
Proof. intros D S d H1 HL. rewrite (generate_real_loadable D S _ d HL). apply gen_s_accepts; assumption. Qed.

Theorem real_s_decodes : forall D S d,
  env S d = true -> schema_loadable S = true ->
  forall p o opname w,
    generate_real D S (doc_valid S d) d = GOk p ->
    In o (d_ops d) -> op_name o = Some opname -> conforms S o w = true ->
    exists n v, (forall fuel, (n <= fuel)%nat -> decode_op p fuel opname (json_of w) = DOk v) /\
                (forall pl, In pl (leaves v) <-> In pl (expected S o w)).
Proof.
  intros D S d H1 HL p o opname w Hg. rewrite (generate_real_loadable D S _ d HL) in Hg.
  apply (gen_s_decodes S d H1 p o opname w Hg).
Qed.

(** ** identifiers: the fields of every declaration, the emitted enum blocks, the sel<T><n> helpers
    (ClientGenDeclSafeS.v).  [lex_fields]: every response key, composite type name, fragment name
    and type condition gives a usable Go field name (true of every GraphQL name but "_", whose
    field would be the blank identifier - known finding blank-field-name) *)
Definition lex_fields (S : schema) (d : document) : bool :=
  forallb (fun k => go_ident_ok (field_name k)) (KeysD d ++ DashD S d).

Theorem gen_s_idents S d p :
  schema_ok S = true -> lex_fields S d = true -> generate_s S (doc_valid S d) d = GOk p ->
  (forall dfn, In dfn (p_defs p) -> idents_ok (td_type dfn) = true) /\
  NoDup (map fst (p_enums p)) /\
  (forall n' cs, In (n', cs) (p_enums p) ->
     exists n vs, In (DEnum n vs) (s_types S) /\ n' = enum_go_name S d n /\ cs = map (fun v => (const_go_name S d n v, v)) vs) /\
  NoDup (map snd (DX (p_defs p))) /\
  (forall ix, In ix (DX (p_defs p)) -> In (fst ix) (composites S)) /\
  (forallb (fun t => negb (ends_with_digit t)) (composites S) = true ->
   NoDup (flat_map (fun x => sel_names (td_type x)) (p_defs p))).
Proof.
  intros HS Hlex Hgen. unfold generate_s, generate_raw_s in Hgen.
  destruct (doc_valid S d); [|discriminate]. cbn [negb] in Hgen.
  destruct (process_defs_s S (map (fun f => (fr_name f, fr_cond f)) (d_frags d)) (enum_go_name S d) (const_go_name S d)
                           (Datatypes.S (doc_size d)) (defs_of S d) {| g_enums := []; g_count := 0; g_json := false |} [] false)
    as [[[st out] errored]| | |] eqn:Ep; try discriminate.
  destruct errored; [discriminate|].
  unfold lex_fields in Hlex. rewrite forallb_forall in Hlex.
  assert (HP0 : PIs S (enum_go_name S d) (const_go_name S d) {| g_enums := []; g_count := 0; g_json := false |} []).
  { unfold PIs, StOKs. cbn. split; [split; [intros n cs [] | constructor]|]. split; [intros q []|]. split; [constructor | intros x []]. }
  pose proof (process_PIs S _ (enum_go_name S d) (const_go_name S d) (KeysD d) (DashD S d)
                (fun k Hk => Hlex k (in_or_app _ _ _ (or_introl Hk))) (fun k Hk => Hlex k (in_or_app _ _ _ (or_intror Hk)))
                (fun x Hx => in_or_app _ _ _ (or_introl Hx))
                (enum_go_name_not_keyword_In S d) (no_scalars S HS) _ _ _ _ _ _ _ _ Ep HP0 (defs_SelsIn S d))
    as ([E1 E2] & P2 & P3 & P4).
  set (q := {| p_enums := g_enums st; p_defs := out; p_json := g_json st |}) in *.
  destruct (program_syntax_ok q); [|discriminate]. inversion Hgen; subst p. cbn [p_defs p_enums q].
  split; [intros dfn Hd; apply (P4 dfn Hd)|]. split; [exact E2|]. split; [exact E1|]. split; [exact P3|].
  split; [intros ix Hix; apply (P2 ix Hix)|].
  intros Hdig. rewrite forallb_forall in Hdig.
  assert (HSN : flat_map (fun x => sel_names (td_type x)) out = map ixname (DX out)).
  { unfold DX. rewrite map_flat_map. apply flat_map_ext_in. intros x _. apply sel_names_ix. }
  rewrite HSN. apply NoDup_ixnames; [exact P3|]. intros ix Hix. apply negb_true_iff. apply Hdig. apply (P2 ix Hix).
Qed.

Theorem real_s_idents : forall D S d p,
  schema_ok S = true -> schema_loadable S = true -> lex_fields S d = true ->
  generate_real D S (doc_valid S d) d = GOk p ->
  (forall dfn, In dfn (p_defs p) -> idents_ok (td_type dfn) = true) /\
  NoDup (map fst (p_enums p)) /\
  (forall n' cs, In (n', cs) (p_enums p) ->
     exists n vs, In (DEnum n vs) (s_types S) /\ n' = enum_go_name S d n /\ cs = map (fun v => (const_go_name S d n v, v)) vs) /\
  NoDup (map snd (DX (p_defs p))) /\
  (forall ix, In ix (DX (p_defs p)) -> In (fst ix) (composites S)) /\
  (forallb (fun t => negb (ends_with_digit t)) (composites S) = true ->
   NoDup (flat_map (fun x => sel_names (td_type x)) (p_defs p))).
Proof. intros D S d p HS HL Hlex Hg. rewrite (generate_real_loadable D S _ d HL) in Hg. apply (gen_s_idents S d p HS Hlex Hg). Qed.
