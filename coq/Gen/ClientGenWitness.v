(** * Gen/ClientGenWitness.v — C20: concrete instances.

    [ex_doc] over [ex_schema] meets every hypothesis of the main theorems (used by Examples/C20.v);
    the defects repaired in the repository (DESIGN.md section 6 rows 27-29 and the union type
    condition) are reproduced on the model with the corresponding [quirks] flag; the two known
    findings are exhibited on the model of the current code. *)
From Coq Require Import List NArith ZArith Bool String.
From ApiFu Require Import Base.Sexp Gen.GoTypes Gen.ClientGenModel Gen.DecodeModel Gen.ClientGenSpec.
Import ListNotations.
Open Scope list_scope.
Open Scope string_scope.

Definition T (s : string) : gqltype := TNamed (bs s).
Definition NN (t : gqltype) : gqltype := TNonNull t.
Definition F (n : string) (sub : list selection) : selection := SField None (bs n) sub.
Definition FA (a n : string) (sub : list selection) : selection := SField (Some (bs a)) (bs n) sub.
Definition ON (c : string) (sub : list selection) : selection := SInline (Some (bs c)) sub.
Definition INL (sub : list selection) : selection := SInline None sub.
Definition SP (f : string) : selection := SSpread (bs f) [] [].

(** interface Node {id: ID!}; union Actor = User | Org; enum Color;
    User implements Node {id name login color friends: [User!]}; Org implements Node {id title};
    Query {node: Node, nodes: [Node]!, actor: Actor, me: User!} *)
Definition ex_schema : schema :=
  {| s_query := bs "Query"; s_mutation := None;
     s_types :=
       [ DEnum (bs "Color") [bs "RED"; bs "dark_blue"];
         DIface (bs "Node") [(bs "id", NN (T "ID"))];
         DUnion (bs "Actor") [bs "User"; bs "Org"];
         DObj (bs "User") [bs "Node"]
              [(bs "id", NN (T "ID")); (bs "name", T "String"); (bs "login", NN (T "String"));
               (bs "color", T "Color"); (bs "score", T "Float"); (bs "age", NN (T "Int"));
               (bs "friends", TList (NN (T "User")))];
         DObj (bs "Org") [bs "Node"] [(bs "id", NN (T "ID")); (bs "title", T "String")];
         DObj (bs "Query") []
              [(bs "node", T "Node"); (bs "nodes", NN (TList (T "Node"))); (bs "actor", T "Actor"); (bs "me", NN (T "User"))] ] |}.

Definition mkdoc (ops : list opdef) (frs : list fragdef) : document :=
  let d0 := {| d_ops := ops; d_frags := frs |} in
  match link_doc d0 with Some d => d | None => d0 end.

Definition q (n : string) (sels : list selection) : opdef :=
  {| op_type := OpQuery; op_name := Some (bs n); op_sels := sels |}.

(** query Q {
      nodes { t: __typename id ... on User { name } ... on User { login friends { id } login friends { name id } }
              ... { id2: id } ...F }
      me { age ... on Actor { __typename ... on User { color score } } } }
    fragment F on Org { title ... on Node { __typename id } } *)
Definition ex_op : opdef :=
  q "Q" [ F "nodes" [ FA "t" "__typename" []; F "id" [];
                      ON "User" [F "name" []];
                      ON "User" [F "login" []; F "friends" [F "id" []]; F "login" []; F "friends" [F "name" []; F "id" []]];
                      INL [FA "id2" "id" []];
                      SP "F" ];
          F "me" [ F "age" []; ON "Actor" [F "__typename" []; ON "User" [F "color" []; F "score" []]] ] ].
Definition ex_doc : document :=
  mkdoc [ex_op]
        [ {| fr_name := bs "F"; fr_cond := bs "Org";
             fr_sels := [F "title" []; ON "Node" [F "__typename" []; F "id" []]] |} ].
Definition ex_op_linked : opdef := match d_ops ex_doc with o :: _ => o | [] => ex_op end.

Definition S_ (s : string) : rv := RLeaf (LStr (bs s)).

(** a response: a User, an Org and null in the list; nulls at nullable positions; an empty list *)
Definition ex_resp : rv :=
  RObj (bs "Query")
    [ (bs "nodes",
       RList [ RObj (bs "User") [ (bs "t", S_ "User"); (bs "id", S_ "u1"); (bs "name", RNull); (bs "login", S_ "ann");
                                  (bs "friends", RList [RObj (bs "User") [(bs "id", S_ "u2"); (bs "name", S_ "bob")]]); (bs "id2", S_ "u1") ];
               RObj (bs "Org") [ (bs "t", S_ "Org"); (bs "id", S_ "o1"); (bs "id2", S_ "o1"); (bs "title", S_ "acme");
                                 (bs "__typename", S_ "Org") ];
               RNull ]);
      (bs "me", RObj (bs "User") [ (bs "age", RLeaf (LNum (NI 41))); (bs "__typename", S_ "User");
                                   (bs "color", S_ "dark_blue"); (bs "score", RLeaf (LNum (NF 4609434218613702656))) ]) ].

Definition leaves_agree (p : program) (S : schema) (o : opdef) (opname : string) (w : rv) : bool :=
  match decode_op p 200 (bs opname) (json_of w) with
  | DOk v => forallb (fun pl => existsb (pl_eqb pl) (expected S o w)) (leaves v) &&
             forallb (fun pl => existsb (pl_eqb pl) (leaves v)) (expected S o w)
  | _ => false
  end.

(** ** the repaired defects, on the model of the code before each repair *)
Definition quirk27 : quirks := {| q_overwrite_inline := true; q_fixed_typename := false; q_nil_cond_panics := false; q_no_union_cond := false; q_no_field_merge := false |}.
Definition quirk28 : quirks := {| q_overwrite_inline := false; q_fixed_typename := true; q_nil_cond_panics := false; q_no_union_cond := false; q_no_field_merge := false |}.
Definition quirk29 : quirks := {| q_overwrite_inline := false; q_fixed_typename := false; q_nil_cond_panics := true; q_no_union_cond := false; q_no_field_merge := false |}.
Definition quirk_union : quirks := {| q_overwrite_inline := false; q_fixed_typename := false; q_nil_cond_panics := false; q_no_union_cond := true; q_no_field_merge := false |}.

(** row 27: query A { node { __typename ... on User { name } ... on User { login } } } *)
Definition op27 : opdef := q "A" [F "node" [F "__typename" []; ON "User" [F "name" []]; ON "User" [F "login" []]]].
Definition doc27 : document := mkdoc [op27] [].
Definition resp27 : rv :=
  RObj (bs "Query") [(bs "node", RObj (bs "User") [(bs "__typename", S_ "User"); (bs "name", S_ "n"); (bs "login", S_ "l")])].

(** row 28: query C { node { t: __typename ... on User { name } } } *)
Definition doc28 : document := mkdoc [q "C" [F "node" [FA "t" "__typename" []; ON "User" [F "name" []]]]] [].

(** row 29: query D { node { __typename ... { id } } } *)
Definition doc29 : document := mkdoc [q "D" [F "node" [F "__typename" []; INL [F "id" []]]]] [].

(** union condition: query E { node { __typename ... on Actor { __typename ... on User { name } } } } *)
Definition opU : opdef := q "E" [F "node" [F "__typename" []; ON "Actor" [F "__typename" []; ON "User" [F "name" []]]]].
Definition docU : document := mkdoc [opU] [].
Definition respU : rv :=
  RObj (bs "Query") [(bs "node", RObj (bs "User") [(bs "__typename", S_ "User"); (bs "name", S_ "n")])].

(** a response key selected twice: query M { me { friends { id } id friends { name } id } } *)
Definition quirk_merge : quirks := {| q_overwrite_inline := false; q_fixed_typename := false; q_nil_cond_panics := false; q_no_union_cond := false; q_no_field_merge := true |}.
Definition opM : opdef := q "M" [F "me" [F "friends" [F "id" []]; F "id" []; F "friends" [F "name" []]; F "id" []]].
Definition docM : document := mkdoc [opM] [].
Definition respM : rv :=
  RObj (bs "Query") [(bs "me", RObj (bs "User") [(bs "friends", RList [RObj (bs "User") [(bs "id", S_ "u2"); (bs "name", S_ "bob")]]);
                                                 (bs "id", S_ "u1")])].

(** ** the known findings, on the model of the current code *)
(** member-name-clash: query K { node { __typename user: id ... on User { name } } } *)
Definition docK1 : document := mkdoc [q "K" [F "node" [F "__typename" []; FA "user" "id" []; ON "User" [F "name" []]]]] [].

(** decl-name-clash: enum E { A a }: both constants are EA *)
Definition schemaK2 : schema :=
  {| s_query := bs "Query"; s_mutation := None;
     s_types := [ DEnum (bs "E") [bs "A"; bs "a"]; DObj (bs "Query") [] [(bs "e", T "E")] ] |}.
Definition docK2 : document := mkdoc [q "K" [F "e" []]] [].

(** ** statements about the witnesses (all by computation) *)
Definition in_envelope (S : schema) (d : document) : bool :=
  env S d && negb (excl_member_clash S d) && negb (excl_decl_clash S d).

(** the generator produced a program and [f] holds of it *)
Definition generated_and (r : gen_result) (f : program -> bool) : bool :=
  match r with GOk p => f p | _ => false end.

Lemma generated_and_elim r f : generated_and r f = true -> exists p, r = GOk p /\ f p = true.
Proof. destruct r; try discriminate. intros H. exists p. split; [reflexivity | exact H]. Qed.

Lemma ex_in_envelope : in_envelope ex_schema ex_doc = true.
Proof. vm_compute. reflexivity. Qed.

Lemma ex_conforms : conforms ex_schema ex_op_linked ex_resp = true.
Proof. vm_compute. reflexivity. Qed.

Lemma ex_generates :
  generated_and (generate no_quirks ex_schema (doc_valid ex_schema ex_doc) ex_doc)
    (fun p => wf_program p && leaves_agree p ex_schema ex_op_linked "Q" ex_resp &&
              Nat.leb 15 (List.length (expected ex_schema ex_op_linked ex_resp))) = true.
Proof. vm_compute. reflexivity. Qed.

(** row 27 before the repair: the operation is in the envelope, the output is well formed, but a
    selected leaf is not in the decoded value *)
Lemma refuted_before_fix_27 :
  in_envelope ex_schema doc27 = true /\
  conforms ex_schema (hd op27 (d_ops doc27)) resp27 = true /\
  generated_and (generate quirk27 ex_schema (doc_valid ex_schema doc27) doc27)
    (fun p => negb (leaves_agree p ex_schema (hd op27 (d_ops doc27)) "A" resp27)) = true.
Proof. repeat split; vm_compute; reflexivity. Qed.

(** row 28 before the repair: the output is not well formed (switch on a field that does not exist) *)
Lemma refuted_before_fix_28 :
  in_envelope ex_schema doc28 = true /\
  generated_and (generate quirk28 ex_schema (doc_valid ex_schema doc28) doc28) (fun p => negb (wf_program p)) = true.
Proof. split; vm_compute; reflexivity. Qed.

(** row 29 before the repair: the generator panics *)
Lemma refuted_before_fix_29 :
  in_envelope ex_schema doc29 = true /\ generate quirk29 ex_schema (doc_valid ex_schema doc29) doc29 = GPanic.
Proof. split; vm_compute; reflexivity. Qed.

(** union type condition before the repair: the fragment is never decoded *)
Lemma refuted_before_fix_union :
  in_envelope ex_schema docU = true /\
  conforms ex_schema (hd opU (d_ops docU)) respU = true /\
  generated_and (generate quirk_union ex_schema (doc_valid ex_schema docU) docU)
    (fun p => negb (leaves_agree p ex_schema (hd opU (d_ops docU)) "E" respU)) = true.
Proof. repeat split; vm_compute; reflexivity. Qed.

(** a response key selected twice, before the repair: the sub-selection of the first selection is
    not in the generated type, its leaf is lost *)
Lemma refuted_before_fix_field_merge :
  in_envelope ex_schema docM = true /\
  conforms ex_schema (hd opM (d_ops docM)) respM = true /\
  generated_and (generate quirk_merge ex_schema (doc_valid ex_schema docM) docM)
    (fun p => negb (leaves_agree p ex_schema (hd opM (d_ops docM)) "M" respM)) = true.
Proof. repeat split; vm_compute; reflexivity. Qed.

Lemma fixed_field_merge :
  generated_and (generate no_quirks ex_schema (doc_valid ex_schema docM) docM)
    (fun p => wf_program p && leaves_agree p ex_schema (hd opM (d_ops docM)) "M" respM) = true.
Proof. vm_compute. reflexivity. Qed.

(** with the repairs, the same operations are handled *)
Lemma fixed_27_28_29_union :
  generated_and (generate no_quirks ex_schema (doc_valid ex_schema doc27) doc27)
    (fun p => wf_program p && leaves_agree p ex_schema (hd op27 (d_ops doc27)) "A" resp27) = true /\
  generated_and (generate no_quirks ex_schema (doc_valid ex_schema doc28) doc28) wf_program = true /\
  generated_and (generate no_quirks ex_schema (doc_valid ex_schema doc29) doc29) wf_program = true /\
  generated_and (generate no_quirks ex_schema (doc_valid ex_schema docU) docU)
    (fun p => wf_program p && leaves_agree p ex_schema (hd opU (d_ops docU)) "E" respU) = true.
Proof. repeat split; vm_compute; reflexivity. Qed.

(** known finding member-name-clash: in the envelope, excluded by [excl_member_clash], and the
    current generator's output is not well formed (duplicate field User) *)
Lemma refuted_member_name_clash :
  env ex_schema docK1 = true /\ excl_member_clash ex_schema docK1 = true /\
  generated_and (generate no_quirks ex_schema (doc_valid ex_schema docK1) docK1) (fun p => negb (wf_program p)) = true.
Proof. repeat split; vm_compute; reflexivity. Qed.

(** known finding decl-name-clash: two enum constants named EA *)
Lemma refuted_decl_name_clash :
  env schemaK2 docK2 = true /\ excl_member_clash schemaK2 docK2 = false /\ excl_decl_clash schemaK2 docK2 = true /\
  generated_and (generate no_quirks schemaK2 (doc_valid schemaK2 docK2) docK2) (fun p => negb (wf_program p)) = true.
Proof. repeat split; vm_compute; reflexivity. Qed.

(** the same selection sets with the generator of the current tree (fix "two members of a selection
    set the same struct field"): the clashing members get distinct fields (User, User_), the
    output is well formed and decodes *)
Definition respK1 : rv :=
  RObj (bs "Query") [(bs "node", RObj (bs "User") [(bs "__typename", S_ "User"); (bs "user", S_ "u1"); (bs "name", S_ "ann")])].
Definition docK3 : document :=
  mkdoc [q "K" [F "node" [F "__typename" []; FA "typename__" "id" []; FA "User" "id" []; ON "User" [F "name" []]]]] [].
Definition respK3 : rv :=
  RObj (bs "Query") [(bs "node", RObj (bs "User") [(bs "__typename", S_ "User"); (bs "typename__", S_ "u1"); (bs "User", S_ "u1"); (bs "name", S_ "ann")])].

(** leaves of the decoded value and the selected leaves, fragment labels compared up to the
    underscores appended to a clashing field name *)
Definition norm_step (s : pstep) : pstep := match s with PFrag f => PFrag (rev (strip_us_rev (rev f))) | _ => s end.
Definition norm_pl (pl : path * leaf) : path * leaf := (map norm_step (fst pl), snd pl).
Definition leaves_agree_norm (p : program) (S : schema) (o : opdef) (opname : string) (w : rv) : bool :=
  match decode_op p 200 (bs opname) (json_of w) with
  | DOk v => forallb (fun pl => existsb (pl_eqb (norm_pl pl)) (map norm_pl (expected S o w))) (leaves v) &&
             forallb (fun pl => existsb (pl_eqb (norm_pl pl)) (map norm_pl (leaves v))) (expected S o w)
  | _ => false
  end.

Lemma fixed_member_name_clash :
  env ex_schema docK1 = true /\ excl_member_clash ex_schema docK1 = true /\
  generated_and (generate_s ex_schema (doc_valid ex_schema docK1) docK1)
    (fun p => wf_program p && leaves_agree_norm p ex_schema (hd opM (d_ops docK1)) "K" respK1) = true /\
  env ex_schema docK3 = true /\ excl_member_clash ex_schema docK3 = true /\
  generated_and (generate_s ex_schema (doc_valid ex_schema docK3) docK3)
    (fun p => wf_program p && leaves_agree_norm p ex_schema (hd opM (d_ops docK3)) "K" respK3) = true.
Proof. repeat split; vm_compute; reflexivity. Qed.

(** decl-name-clash with the generator of the current tree (fix "an enum named like a generated type,
    a reserved identifier or another enum's constant"): the second constant is EA_, the output is
    well formed and decodes *)
Definition respK2 : rv := RObj (bs "Query") [(bs "e", S_ "a")].
Definition schemaK5 : schema :=
  {| s_query := bs "Query"; s_mutation := None;
     s_types := [ DEnum (bs "KData") [bs "x"]; DEnum (bs "string") [bs "y"];
                  DObj (bs "Query") [] [(bs "e", T "KData"); (bs "f", T "string")] ] |}.
Definition docK5 : document := mkdoc [q "K" [F "e" []; F "f" []]] [].
Definition respK5 : rv := RObj (bs "Query") [(bs "e", S_ "x"); (bs "f", RNull)].

Lemma fixed_decl_name_clash :
  env schemaK2 docK2 = true /\ decl_safe schemaK2 docK2 = false /\
  generated_and (generate_s schemaK2 (doc_valid schemaK2 docK2) docK2)
    (fun p => wf_program p && leaves_agree p schemaK2 (hd opM (d_ops docK2)) "K" respK2) = true /\
  env schemaK5 docK5 = true /\ decl_safe schemaK5 docK5 = false /\
  generated_and (generate_s schemaK5 (doc_valid schemaK5 docK5) docK5)
    (fun p => wf_program p && leaves_agree p schemaK5 (hd opM (d_ops docK5)) "K" respK5) = true.
Proof. repeat split; vm_compute; reflexivity. Qed.

(** what is left of decl-name-clash: a clash that involves a sel<T><n> helper type (here: an enum
    named selQuery0) is not repaired *)
Definition schemaK8 : schema :=
  {| s_query := bs "Query"; s_mutation := None;
     s_types := [ DEnum (bs "selQuery0") [bs "x"]; DObj (bs "Query") [] [(bs "e", T "selQuery0")] ] |}.
Definition docK8 : document := mkdoc [q "K" [ON "Query" [F "e" []]]] [].

Lemma refuted_sel_name_clash :
  env schemaK8 docK8 = true /\ excl_member_clash schemaK8 docK8 = false /\ decl_safe schemaK8 docK8 = false /\
  generated_and (generate_s schemaK8 (doc_valid schemaK8 docK8) docK8) (fun p => negb (wf_program p)) = true.
Proof. repeat split; vm_compute; reflexivity. Qed.
