(** * Gen/ClientGenProofs.v — C20: the generator model accepts every operation of the envelope,
    its output is well formed, and decoding a response shaped by the operation into the generated
    type yields exactly the selected leaves. *)
From Coq Require Import List NArith ZArith Bool String Lia Permutation.
From ApiFu Require Import Base.Sexp Gen.GoTypes Gen.ClientGenModel Gen.DecodeModel Gen.ClientGenSpec
     Gen.ClientGenLemmas Gen.DecodeLemmas.
Import ListNotations.
Open Scope list_scope.
Open Scope nat_scope.

(** ** sizes *)
Lemma inner_size_eq l :
  (fix go (l : list selection) : nat := match l with [] => O | x :: r => (sel_size x + go r)%nat end) l = sels_size l.
Proof. induction l as [|x r IH]; [reflexivity | simpl; rewrite IH; reflexivity]. Qed.

Lemma sel_size_field a f sub : sel_size (SField a f sub) = S (sels_size sub).
Proof. simpl. rewrite inner_size_eq. reflexivity. Qed.
Lemma sel_size_inline c sub : sel_size (SInline c sub) = S (sels_size sub).
Proof. simpl. rewrite inner_size_eq. reflexivity. Qed.
Lemma sel_size_spread f c body : sel_size (SSpread f c body) = S (sels_size body).
Proof. simpl. rewrite inner_size_eq. reflexivity. Qed.

Lemma sels_size_In s sels : In s sels -> sel_size s <= sels_size sels.
Proof.
  induction sels as [|x r IH]; simpl; [intros []|].
  intros [H|H]; [subst; lia | apply IH in H; lia].
Qed.

Lemma sels_size_app a b : sels_size (a ++ b) = sels_size a + sels_size b.
Proof. induction a as [|x r IH]; simpl; [reflexivity | rewrite IH; lia]. Qed.

Lemma merged_size_le t cond sels : sels_size (merged_inline t cond sels) <= sels_size sels.
Proof.
  unfold merged_inline. induction sels as [|x r IH]; simpl; [lia|].
  rewrite sels_size_app. destruct x as [a f sub|c sub|f c body]; simpl sels_size; try lia.
  destruct (bytes_eqb (inline_cond t c) cond); [|simpl; lia].
  rewrite sel_size_inline. lia.
Qed.

Lemma merged_size_lt t cond sels c sub :
  In (SInline c sub) sels -> inline_cond t c = cond ->
  sels_size (merged_inline t cond sels) < sels_size sels.
Proof.
  unfold merged_inline. induction sels as [|x r IH]; simpl; [intros []|].
  intros [H|H] E.
  - subst x. rewrite E, bytes_eqb_refl. rewrite sels_size_app, sel_size_inline.
    pose proof (merged_size_le t cond r) as Hle. unfold merged_inline in Hle. lia.
  - specialize (IH H E). rewrite sels_size_app.
    destruct x as [a f sub'|c' sub'|f c' body]; simpl sels_size; try lia.
    destruct (bytes_eqb (inline_cond t c') cond); [rewrite sel_size_inline; lia | simpl; lia].
Qed.

(** ** schema views *)
Lemma merged_field_size_le k sels : sels_size (merged_field k sels) <= sels_size sels.
Proof.
  unfold merged_field. induction sels as [|x r IH]; simpl; [lia|].
  rewrite sels_size_app. destruct x as [a f sub|c sub|f c body]; simpl sels_size; try lia.
  destruct (bytes_eqb (sel_key a f) k); [|simpl; lia].
  rewrite sel_size_field. lia.
Qed.

Lemma merged_field_size_lt k sels a f sub :
  In (SField a f sub) sels -> sel_key a f = k -> sels_size (merged_field k sels) < sels_size sels.
Proof.
  unfold merged_field. induction sels as [|x r IH]; simpl; [intros []|].
  intros [H|H] E.
  - subst x. rewrite E, bytes_eqb_refl. rewrite sels_size_app, sel_size_field.
    pose proof (merged_field_size_le k r) as Hle. unfold merged_field in Hle. lia.
  - specialize (IH H E). rewrite sels_size_app.
    destruct x as [a' f' sub'|c' sub'|f' c' body]; simpl sels_size; try lia.
    destruct (bytes_eqb (sel_key a' f') k); [rewrite sel_size_field; lia | simpl; lia].
Qed.

Lemma merged_field_nil k sels : (forall a f sub, In (SField a f sub) sels -> sel_key a f = k -> sub = []) ->
  merged_field k sels = [].
Proof.
  induction sels as [|x r IH]; simpl; [reflexivity|]. intros H.
  destruct x as [a f sub|c sub|f c body]; simpl.
  - destruct (bytes_eqb (sel_key a f) k) eqn:E.
    + apply bytes_eqb_true in E. rewrite (H a f sub (or_introl eq_refl) E). simpl.
      apply IH. intros a' f' sub' Hi. apply H. right. exact Hi.
    + apply IH. intros a' f' sub' Hi. apply H. right. exact Hi.
  - apply IH. intros a' f' sub' Hi. apply H. right. exact Hi.
  - apply IH. intros a' f' sub' Hi. apply H. right. exact Hi.
Qed.

Lemma find_some_name (S : schema) n d : lookup_type S n = Some d -> tdef_name d = n /\ In d (s_types S).
Proof.
  unfold lookup_type. intros H. apply find_some in H as [H1 H2]. apply bytes_eqb_true in H2. split; assumption.
Qed.

Section Schema.
  Variable S : schema.
  Hypothesis HS : schema_ok S = true.

  Lemma schema_ok_elim :
    NoDup (map tdef_name (s_types S)) /\
    (forall d, In d (s_types S) -> tdef_name d <> []) /\
    (forall d, In d (s_types S) -> builtin_of (tdef_name d) = None) /\
    (forall d, In d (s_types S) ->
       match d with
       | DScalar _ => False
       | DObj _ ifs _ => NoDup ifs /\ forall i, In i ifs -> exists fs, lookup_type S i = Some (DIface i fs)
       | DUnion _ ms => NoDup ms /\ forall x, In x ms -> is_object_type S x = true
       | _ => True
       end).
  Proof.
    unfold schema_ok in HS.
    apply andb_true_iff in HS as [H H6]. apply andb_true_iff in H as [H H5].
    apply andb_true_iff in H as [H H4]. apply andb_true_iff in H as [H H3].
    apply andb_true_iff in H as [H1 H2].
    split; [apply nodupb_NoDup; exact H1|]. split.
    { intros d HI. rewrite forallb_forall in H2. specialize (H2 d HI). destruct (tdef_name d); [discriminate | discriminate]. }
    split.
    { intros d HI. rewrite forallb_forall in H3. specialize (H3 d HI). destruct (builtin_of (tdef_name d)); [discriminate | reflexivity]. }
    intros d HI. rewrite forallb_forall in H4. specialize (H4 d HI). destruct d as [n ifs fs|n fs|n ms|n vs|n]; try exact I.
    - apply andb_true_iff in H4 as [Ha Hb]. split; [apply nodupb_NoDup; exact Ha|].
      intros i Hi. rewrite forallb_forall in Hb. specialize (Hb i Hi).
      destruct (lookup_type S i) as [[| ni fsi | | |]|] eqn:E; try discriminate.
      exists fsi. apply find_some_name in E as E'. destruct E' as [E' _]. simpl in E'. subst ni. reflexivity.
    - apply andb_true_iff in H4 as [Ha Hb]. split; [apply nodupb_NoDup; exact Ha|].
      intros x Hx. rewrite forallb_forall in Hb. apply Hb. exact Hx.
    - discriminate.
  Qed.

  Lemma schema_names_nodup : NoDup (map tdef_name (s_types S)).
  Proof. apply schema_ok_elim. Qed.

  Lemma schema_not_builtin d : In d (s_types S) -> builtin_of (tdef_name d) = None.
  Proof. apply schema_ok_elim. Qed.

  Lemma schema_no_scalar n d : lookup_type S n = Some d -> match d with DScalar _ => False | _ => True end.
  Proof.
    intros H. apply find_some_name in H as [_ HI].
    destruct schema_ok_elim as [_ [_ [_ H4]]]. specialize (H4 d HI). destruct d; try exact I. exact H4.
  Qed.

  Lemma composite_lookup n : composite S n = true ->
    exists d, lookup_type S n = Some d /\ builtin_of n = None /\
              match d with DObj _ _ _ | DIface _ _ | DUnion _ _ => True | _ => False end.
  Proof.
    unfold composite. destruct (lookup_type S n) as [d|] eqn:E; [|discriminate].
    intros H. exists d. split; [reflexivity|]. destruct (find_some_name _ _ _ E) as [H1 H2].
    split; [rewrite <- H1; apply schema_not_builtin; exact H2|]. destruct d; try exact I; discriminate.
  Qed.

  Lemma lookup_In_unique d : In d (s_types S) -> lookup_type S (tdef_name d) = Some d.
  Proof.
    intros HI. unfold lookup_type. pose proof schema_names_nodup as ND.
    induction (s_types S) as [|x r IH]; [destruct HI|]. simpl in *.
    inversion ND as [|? ? Hn ND']; subst. destruct HI as [H|H].
    - subst x. rewrite bytes_eqb_refl. reflexivity.
    - destruct (bytes_eqb (tdef_name x) (tdef_name d)) eqn:E.
      + apply bytes_eqb_true in E. exfalso. apply Hn. rewrite E. apply in_map. exact H.
      + apply IH; assumption.
  Qed.
End Schema.

(** ** the envelope, unpacked *)
Section EnvLocal.
  Variable S : schema.
  Variable frs : list fragdef.

  Definition sel_local (t : name) (s : selection) : bool :=
    match s with
    | SField _ f sub =>
        if is_typename f then is_nil sub
        else match field_type S t f with
             | None => false
             | Some ft => if composite S (unwrap ft) then negb (is_nil sub)
                          else is_nil sub && leaf_type S (unwrap ft)
             end
    | SInline c _ => composite S (inline_cond t c) && overlap S (inline_cond t c) t
    | SSpread n c body =>
        composite S c && overlap S c t &&
        match find_frag frs n with
        | Some fr => bytes_eqb (fr_cond fr) c && sels_eqb (fr_sels fr) body
        | None => false
        end
    end.

  Lemma all_pairs_elim {A} (p : A -> A -> bool) l : all_pairs p l = true ->
    forall x y, In x l -> In y l -> x = y \/ p x y = true \/ p y x = true.
  Proof.
    induction l as [|z r IH]; simpl; [intros _ x y []|].
    intros H. apply andb_true_iff in H as [H1 H2]. rewrite forallb_forall in H1.
    intros x y [Hx|Hx] [Hy|Hy].
    - left. congruence.
    - subst z. right. left. apply H1. exact Hy.
    - subst z. right. right. apply H1. exact Hx.
    - apply (IH H2); assumption.
  Qed.

  Lemma keys_mergeable_elim kfs : keys_mergeable kfs = true ->
    forall k1 f1 k2 f2, In (k1, f1) kfs -> In (k2, f2) kfs -> lower_bytes k1 = lower_bytes k2 -> k1 = k2 /\ f1 = f2.
  Proof.
    intros H k1 f1 k2 f2 H1 H2 E. unfold keys_mergeable in H.
    destruct (all_pairs_elim _ _ H _ _ H1 H2) as [Heq|[Hp|Hp]].
    - inversion Heq. split; reflexivity.
    - simpl in Hp. rewrite E, bytes_eqb_refl in Hp. simpl in Hp. apply andb_true_iff in Hp as [Ha Hb].
      apply bytes_eqb_true in Ha. apply bytes_eqb_true in Hb. split; assumption.
    - simpl in Hp. rewrite E, bytes_eqb_refl in Hp. simpl in Hp. apply andb_true_iff in Hp as [Ha Hb].
      apply bytes_eqb_true in Ha. apply bytes_eqb_true in Hb. split; symmetry; assumption.
  Qed.

  Lemma env_local_elim t sels : env_local S frs t sels = true ->
    composite S t = true /\
    (forall k f, In (k, f) (direct_fields sels) -> begins_with_letter k = true \/ (is_typename k = true /\ is_typename f = true)) /\
    (forall k1 f1 k2 f2, In (k1, f1) (direct_fields sels) -> In (k2, f2) (direct_fields sels) ->
                         lower_bytes k1 = lower_bytes k2 -> k1 = k2 /\ f1 = f2) /\
    (has_fragment sels = true -> is_object_type S t = true \/ exists k, first_typename sels = Some k) /\
    (forall s, In s sels -> sel_local t s = true).
  Proof.
    unfold env_local. intros H.
    apply andb_true_iff in H as [H H5]. apply andb_true_iff in H as [H H4].
    apply andb_true_iff in H as [H H3]. apply andb_true_iff in H as [H1 H2].
    split; [exact H1|]. split.
    { intros k f HI. rewrite forallb_forall in H2. specialize (H2 _ HI). simpl in H2.
      apply orb_true_iff in H2 as [H2|H2]; [left; exact H2 | right; apply andb_true_iff in H2; exact H2]. }
    split; [apply keys_mergeable_elim; exact H3|]. split.
    { intros Hf. rewrite Hf in H4. simpl in H4. apply orb_true_iff in H4 as [H4|H4]; [left; exact H4|].
      right. destruct (first_typename sels) as [k|]; [exists k; reflexivity | discriminate]. }
    intros s HI. rewrite forallb_forall in H5. specialize (H5 s HI). unfold sel_local. exact H5.
  Qed.
End EnvLocal.

Lemma all_structs_S S P f t sels :
  all_structs S P (Datatypes.S f) t sels =
  P t sels &&
  forallb (fun s => match s with
                    | SField a fn _ =>
                        if is_typename fn then true
                        else match field_type S t fn with
                             | Some ft => if composite S (unwrap ft)
                                          then all_structs S P f (unwrap ft) (merged_field (sel_key a fn) sels) else true
                             | None => true
                             end
                    | SInline c _ => let c' := inline_cond t c in all_structs S P f c' (merged_inline t c' sels)
                    | SSpread _ c body => all_structs S P f c body
                    end) sels.
Proof. reflexivity. Qed.

Lemma field_type_lookup S t f ft : field_type S t f = Some ft ->
  exists d fs, lookup_type S t = Some d /\ assoc f fs = Some ft /\
               ((exists n ifs, d = DObj n ifs fs) \/ (exists n, d = DIface n fs)).
Proof.
  unfold field_type. destruct (lookup_type S t) as [[n ifs fs|n fs|n ms|n vs|n]|]; try discriminate.
  - intros H. exists (DObj n ifs fs), fs. split; [reflexivity|]. split; [exact H|]. left. exists n, ifs. reflexivity.
  - intros H. exists (DIface n fs), fs. split; [reflexivity|]. split; [exact H|]. right. exists n. reflexivity.
Qed.

(** ** the generator accepts *)
Section GenTotal.
  Variable S : schema.
  Variable frs : list fragdef.
  Hypothesis HS : schema_ok S = true.
  Let fragTypes := map (fun f => (fr_name f, fr_cond f)) frs.
  Notation gen := (gen_named no_quirks S fragTypes).
  Notation EL := (env_local S frs).

  Lemma gen_leaf fuel n sels st : leaf_type S n = true ->
    exists core st', gen (Datatypes.S fuel) n sels st = Ok (core, true, st').
  Proof.
    unfold leaf_type. simpl. unfold gen_named_body. destruct (builtin_of n) as [b|].
    - intros _. eexists. eexists. reflexivity.
    - destruct (lookup_type S n) as [[? ? ?|? ?|? ?|? vs|?]|]; try discriminate; intros _; eexists; eexists; reflexivity.
  Qed.

  Lemma has_fragment_In sels s : In s sels -> (match s with SField _ _ _ => false | _ => true end) = true -> has_fragment sels = true.
  Proof. intros HI Hs. unfold has_fragment. apply existsb_exists. exists s. split; assumption. Qed.

  Lemma typename_guard t d sels s :
    EL t sels = true -> lookup_type S t = Some d -> In s sels ->
    (match s with SField _ _ _ => false | _ => true end) = true ->
    negb (match first_typename sels with Some _ => true | None => false end) && negb (is_object d) = false.
  Proof.
    intros He Hl HI Hs. apply env_local_elim in He as [_ [_ [_ [Ht _]]]].
    destruct (Ht (has_fragment_In _ _ HI Hs)) as [Ho|[k Hk]].
    - unfold is_object_type in Ho. rewrite Hl in Ho. destruct d; try discriminate. simpl. apply andb_false_r.
    - rewrite Hk. reflexivity.
  Qed.

  Lemma gen_total : forall fuel n sels st f',
    all_structs S EL f' n sels = true -> sels_size sels < fuel ->
    exists core st', gen fuel n sels st = Ok (core, true, st').
  Proof.
    induction fuel as [|fuel IH]; intros n sels st f' Ha Hsz; [lia|].
    destruct f' as [|f']; [discriminate|]. rewrite all_structs_S in Ha. apply andb_true_iff in Ha as [He Hall].
    pose proof (env_local_elim _ _ _ _ He) as [Hc [_ [_ [_ Hloc]]]].
    destruct (composite_lookup S HS n Hc) as [d [Hl [Hb Hd]]].
    simpl. unfold gen_named_body. rewrite Hb, Hl.
    assert (Hcomp : exists r, gen_composite no_quirks S fragTypes (gen fuel) n d sels st = Ok r /\ snd (fst r) = true).
    { unfold gen_composite.
      set (hasTn := match first_typename sels with Some _ => true | None => false end).
      assert (Hloop : forall rest a, incl rest sels ->
                exists a', loop no_quirks S fragTypes (gen fuel) n d hasTn sels rest a = Ok a').
      { induction rest as [|s rest IHr]; intros a Hin; [exists a; reflexivity|].
        simpl.
        assert (Hs : In s sels) by (apply Hin; left; reflexivity).
        assert (Hstep : exists a', step no_quirks S fragTypes (gen fuel) n d hasTn sels s a = Ok a').
        { destruct a as [[[[fields conds] done] fdone] st0]. unfold step.
          pose proof (Hloc s Hs) as Hsl. rewrite forallb_forall in Hall. pose proof (Hall s Hs) as Has.
          destruct s as [al f sub|c sub|f c body].
          - (* field *)
            cbn [q_no_field_merge no_quirks negb andb].
            destruct (mem (sel_key al f) fdone); [eexists; reflexivity|].
            simpl in Hsl. destruct (is_typename f) eqn:Etn; [eexists; reflexivity|].
            destruct (field_type S n f) as [ft|] eqn:Eft; [|discriminate].
            destruct (field_type_lookup _ _ _ _ Eft) as [d' [fs [Hl' [Hassoc Hd']]]].
            rewrite Hl in Hl'. inversion Hl'; subst d'.
            assert (Hgt : exists g st', gen_type (gen fuel) ft (merged_field (sel_key al f) sels) st0 = Ok (g, st')).
            { unfold gen_type.
              destruct (composite S (unwrap ft)) eqn:Ecomp.
              - destruct (IH (unwrap ft) (merged_field (sel_key al f) sels) st0 f' Has) as [core [st' Hg]].
                + pose proof (merged_field_size_lt (sel_key al f) sels al f sub Hs eq_refl). lia.
                + rewrite Hg. eexists. eexists. reflexivity.
              - apply andb_true_iff in Hsl as [Hnil Hleaf].
                destruct fuel as [|fuel']; [pose proof (sels_size_In _ _ Hs) as Hle; rewrite sel_size_field in Hle; lia|].
                destruct (gen_leaf fuel' (unwrap ft) (merged_field (sel_key al f) sels) st0 Hleaf) as [core [st' Hg]].
                rewrite Hg. eexists. eexists. reflexivity. }
            destruct Hgt as [g [st' Hg]].
            destruct Hd' as [[n' [ifs Ed]]|[n' Ed]]; subst d; rewrite Hassoc, Hg; eexists; reflexivity.
          - (* inline fragment *)
            unfold hasTn. rewrite (typename_guard n d sels _ He Hl Hs eq_refl).
            simpl in Hsl. apply andb_true_iff in Hsl as [Hcc _].
            assert (Hex : match c with None => q_nil_cond_panics no_quirks | Some c' => negb (named_exists S c') end = false).
            { destruct c as [c'|]; [|reflexivity]. simpl in Hcc. unfold named_exists.
              destruct (composite_lookup S HS c' Hcc) as [dc [Hlc [Hbc _]]]. rewrite Hbc, Hlc. reflexivity. }
            rewrite Hex. simpl negb. simpl andb.
            destruct (mem (inline_cond n c) done); [eexists; reflexivity|].
            simpl in Has.
            destruct (IH (inline_cond n c) (merged_inline n (inline_cond n c) sels) st0 f' Has) as [core [st' Hg]].
            + pose proof (merged_size_lt n (inline_cond n c) sels c sub Hs eq_refl). lia.
            + unfold gen_type. simpl unwrap. cbn [q_overwrite_inline no_quirks]. rewrite Hg. eexists. reflexivity.
          - (* spread *)
            unfold hasTn. rewrite (typename_guard n d sels _ He Hl Hs eq_refl). eexists. reflexivity. }
        destruct Hstep as [a' Ha']. rewrite Ha'. apply IHr. intros x Hx. apply Hin. right. exact Hx. }
      destruct (Hloop sels ([], [], [], [], st) (incl_refl _)) as [[[[[fields conds] done] fdone] st1] Hl1].
      rewrite Hl1. destruct conds; eexists; (split; [reflexivity | reflexivity]). }
    destruct Hcomp as [[[core b] st'] [Hr Hb']]. simpl in Hb'. subst b.
    destruct d; try contradiction; exists core, st'; exact Hr.
  Qed.
End GenTotal.
