(** * Gen/LoadSchemaModel.v — C20: how gql-client-gen's LoadSchema rebuilds the type of a field from
    the introspection JSON (graphql/schema/introspection: query.go fragment TypeRef,
    schema_data.go TypeData.getType / FieldData.getFieldDefinition / GetSchemaDefinition).

    - [introspect_ref]: what the server's __Type resolvers return for a (wrapped) type: a chain of
      {kind, name, ofType} objects, one per wrapper, ending in the named type;
    - [query_ref n]: what the introspection query selects of it: fragment TypeRef asks for kind and
      name and [n] = 7 nested levels of ofType; below that ofType is not selected and decodes to nil;
    - [get_type]: TypeData.getType (LIST / NON_NULL need a non-nil ofType, anything else is looked
      up by name among the declared types);
    - [load_schema]: the field types of objects and interfaces rebuilt this way (the part of
      GetSchemaDefinition the generator depends on; names, interfaces, union members and enum values
      are copied by name and are not wrapped).
    No proofs in this file. *)
From Coq Require Import List NArith Bool String.
From ApiFu Require Import Base.Sexp Gen.GoTypes Gen.ClientGenModel.
Import ListNotations.
Open Scope list_scope.

Inductive refkind := KList | KNonNull | KNamed.
Inductive tref := TR (kind : refkind) (nm : name) (ofType : option tref).

Fixpoint introspect_ref (t : gqltype) : tref :=
  match t with
  | TNamed n => TR KNamed n None
  | TList t' => TR KList [] (Some (introspect_ref t'))
  | TNonNull t' => TR KNonNull [] (Some (introspect_ref t'))
  end.

(** the levels of ofType the introspection query asks for *)
Definition typeref_depth : nat := 7.

Fixpoint query_ref (n : nat) (r : tref) : tref :=
  match r with
  | TR k nm o =>
      TR k nm (match n with
               | O => None
               | Datatypes.S n' => match o with Some r' => Some (query_ref n' r') | None => None end
               end)
  end.

Section Load.
  Variable S : schema.

  Definition type_declared (n : name) : bool :=
    match builtin_of n with
    | Some _ => true
    | None => match lookup_type S n with Some _ => true | None => false end
    end.

  Fixpoint get_type (r : tref) : option gqltype :=
    match r with
    | TR KList _ o => match o with
                      | None => None                               (* "null ofType for list type" *)
                      | Some r' => match get_type r' with Some t => Some (TList t) | None => None end
                      end
    | TR KNonNull _ o => match o with
                         | None => None                            (* "null ofType for non-null type" *)
                         | Some r' => match get_type r' with Some t => Some (TNonNull t) | None => None end
                         end
    | TR KNamed nm _ => if type_declared nm then Some (TNamed nm) else None   (* "type not found" *)
    end.

  Definition load_type (t : gqltype) : option gqltype := get_type (query_ref typeref_depth (introspect_ref t)).

  Fixpoint load_fields (fs : list (name * gqltype)) : option (list (name * gqltype)) :=
    match fs with
    | [] => Some []
    | (f, t) :: r =>
        match load_type t, load_fields r with
        | Some t', Some r' => Some ((f, t') :: r')
        | _, _ => None
        end
    end.

  Definition load_typedef (d : typedef) : option typedef :=
    match d with
    | DObj n ifs fs => match load_fields fs with Some fs' => Some (DObj n ifs fs') | None => None end
    | DIface n fs => match load_fields fs with Some fs' => Some (DIface n fs') | None => None end
    | _ => Some d
    end.

  Fixpoint load_typedefs (ds : list typedef) : option (list typedef) :=
    match ds with
    | [] => Some []
    | d :: r => match load_typedef d, load_typedefs r with
                | Some d', Some r' => Some (d' :: r')
                | _, _ => None
                end
    end.

  Definition load_schema : option schema :=
    match load_typedefs (s_types S) with
    | Some ds => Some {| s_query := s_query S; s_mutation := s_mutation S; s_types := ds |}
    | None => None
    end.
End Load.

(** the generator as run from the command line: LoadSchema, then Generate *)
Definition generate_cli (Q : quirks) (S : schema) (valid : bool) (d : document) : gen_result :=
  match load_schema S with
  | Some S' => generate Q S' valid d
  | None => GError
  end.

(** ** deprecated members

    A field or an enum value with a DeprecationReason is listed by the server's __Type.fields /
    __Type.enumValues resolvers only when the argument includeDeprecated is true (it defaults to
    false).  The introspection query asks with includeDeprecated: true in both places
    ([the_query]); [load_schema_q] is [load_schema] with the members the query gets to see. *)
Record deprecations := { dep_fields : list (name * name);      (* (type, field) *)
                         dep_values : list (name * name) }.    (* (enum, value) *)
Record intro_query := { iq_fields_deprecated : bool; iq_values_deprecated : bool }.
Definition the_query : intro_query := {| iq_fields_deprecated := true; iq_values_deprecated := true |}.

Definition is_dep (l : list (name * name)) (tn x : name) : bool :=
  existsb (fun p => bytes_eqb (fst p) tn && bytes_eqb (snd p) x) l.

Definition listed_fields (Qy : intro_query) (D : deprecations) (tn : name) (fs : list (name * gqltype)) : list (name * gqltype) :=
  filter (fun f => iq_fields_deprecated Qy || negb (is_dep (dep_fields D) tn (fst f))) fs.
Definition listed_values (Qy : intro_query) (D : deprecations) (tn : name) (vs : list name) : list name :=
  filter (fun v => iq_values_deprecated Qy || negb (is_dep (dep_values D) tn v)) vs.

Definition listed_typedef (Qy : intro_query) (D : deprecations) (d : typedef) : typedef :=
  match d with
  | DObj n ifs fs => DObj n ifs (listed_fields Qy D n fs)
  | DIface n fs => DIface n (listed_fields Qy D n fs)
  | DEnum n vs => DEnum n (listed_values Qy D n vs)
  | _ => d
  end.

(** what the server's introspection lists of [S] *)
Definition listed_schema (Qy : intro_query) (D : deprecations) (S : schema) : schema :=
  {| s_query := s_query S; s_mutation := s_mutation S; s_types := map (listed_typedef Qy D) (s_types S) |}.

Definition load_schema_q (Qy : intro_query) (D : deprecations) (S : schema) : option schema :=
  load_schema (listed_schema Qy D S).

(** ... with the generator of the current tree and the introspection query as it is written *)
Definition generate_real (D : deprecations) (S : schema) (valid : bool) (d : document) : gen_result :=
  match load_schema_q the_query D S with
  | Some S' => generate_s S' valid d
  | None => GError
  end.

(** number of list / non-null wrappers around the named type *)
Fixpoint wrappers (t : gqltype) : nat :=
  match t with TNamed _ => O | TList t' => Datatypes.S (wrappers t') | TNonNull t' => Datatypes.S (wrappers t') end.

(** every field type of the schema has at most [typeref_depth] wrappers and names a declared type *)
Definition field_types (S : schema) : list gqltype :=
  flat_map (fun d => match d with DObj _ _ fs | DIface _ fs => map snd fs | _ => [] end) (s_types S).
Definition type_loadable (S : schema) (t : gqltype) : bool :=
  Nat.leb (wrappers t) typeref_depth && type_declared S (unwrap t).
Definition schema_loadable (S : schema) : bool := forallb (type_loadable S) (field_types S).
