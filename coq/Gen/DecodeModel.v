(** * Gen/DecodeModel.v — the fragment of encoding/json decoding that the generated types rely on
    (C20): [json.Unmarshal] of a JSON value into a value of an abstract Go type.

    Modelled (not verified; compared with the real encoding/json on every case):
    - struct decoding key by key: a key goes to the exported field whose JSON name (tag name, or
      Go name when untagged) equals it, otherwise to the first one equal to it ignoring ASCII
      case; fields tagged "-" and unexported fields take no part; unknown keys are skipped;
    - [null] into a pointer or slice sets nil, into anything else leaves the zero value;
    - a type mismatch is an error of the whole call;
    - the custom [UnmarshalJSON] the generator writes for [sel..] types: decode into [base]
      (the same struct without the method), copy, then the statement groups in order;
    - [type XFragment selT3] has the method only through the generated forwarder.
    Not modelled: when two keys of one object go to the same field, Go decodes the second on top
    of the first value; the model answers [DUnmodelled] (responses of in-envelope operations
    never do this).
    No proofs in this file. *)
From Coq Require Import List NArith ZArith Bool String.
From ApiFu Require Import Base.Sexp Gen.GoTypes.
Import ListNotations.
Open Scope list_scope.
Open Scope N_scope.

Inductive json :=
| JNull
| JBool (b : bool)
| JNum (n : numv)
| JStr (s : bytes)
| JArr (l : list json)
| JObj (kvs : list (bytes * json)).

Inductive dres (A : Type) :=
| DOk (a : A)
| DError
| DFuel
| DUnmodelled.   (* two keys of one object land in the same struct field: Go decodes the second
                    on top of the first; this model does not describe that *)
Arguments DOk {A} a.
Arguments DError {A}.
Arguments DFuel {A}.
Arguments DUnmodelled {A}.

Definition dbind {A B} (r : dres A) (f : A -> dres B) : dres B :=
  match r with
  | DOk a => f a
  | DError => DError
  | DFuel => DFuel
  | DUnmodelled => DUnmodelled
  end.

Fixpoint dmap {A B} (f : A -> dres B) (l : list A) : dres (list B) :=
  match l with
  | [] => DOk []
  | x :: r => dbind (f x) (fun y => dbind (dmap f r) (fun ys => DOk (y :: ys)))
  end.

(** zero value of a type (a [GFragRef] only ever occurs under a pointer) *)
Fixpoint zero (t : gotype) : goval :=
  match t with
  | GString => VStr []
  | GEnum _ => VStr []
  | GScalar _ => VStr []
  | GInt => VInt 0
  | GFloat => VFloat (NI 0)
  | GBool => VBool false
  | GIface => VNil
  | GEmpty => VNil
  | GPtr _ => VNil
  | GSlice _ => VNilSlice
  | GStruct fs => VStruct (map (fun f : name * gotag * gotype => (fst (fst f), snd (fst f), zero (snd f))) fs)
  | GSel _ _ fs _ => VStruct (map (fun f : name * gotag * gotype => (fst (fst f), snd (fst f), zero (snd f))) fs)
  | GFragRef _ => VStruct []
  end.

Definition exported (n : name) : bool :=
  match n with
  | c :: _ => is_upper c
  | [] => false
  end.

(** the JSON name of a struct field, if it takes part in decoding *)
Definition json_name (f : gofield) : option bytes :=
  if negb (exported (gf_name f)) then None
  else match gf_tag f with
       | TagNone => Some (gf_name f)
       | TagKey k => Some k
       | TagDash => None
       | TagBoth _ => None
       end.

Fixpoint find_index {A} (p : A -> bool) (l : list A) : option nat :=
  match l with
  | [] => None
  | x :: r => if p x then Some O else match find_index p r with Some i => Some (Datatypes.S i) | None => None end
  end.

(** the field a JSON key is decoded into *)
Definition field_for_key (fs : list gofield) (key : bytes) : option nat :=
  match find_index (fun f => match json_name f with Some n => bytes_eqb n key | None => false end) fs with
  | Some i => Some i
  | None => find_index (fun f => match json_name f with Some n => equal_fold n key | None => false end) fs
  end.

Fixpoint set_nth {A} (i : nat) (x : A) (l : list A) : list A :=
  match l, i with
  | [], _ => []
  | _ :: r, O => x :: r
  | y :: r, Datatypes.S i' => y :: set_nth i' x r
  end.

Definition sval : Type := list (name * gotag * goval).

Definition set_field (i : nat) (v : goval) (sv : sval) : sval :=
  match nth_error sv i with
  | Some (n, tg, _) => set_nth i (n, tg, v) sv
  | None => sv
  end.

Section Decode.
  Variable P : program.

  (** one level of decoding, the decoder for the parts being [dec] *)
  Definition dec_t : Type := gotype -> json -> dres goval.

  (** a JSON object into a struct, key by key *)
  Fixpoint decode_kvs (dec : dec_t) (fs : list gofield) (kvs : list (bytes * json)) (written : list nat) (sv : sval)
    : dres sval :=
    match kvs with
    | [] => DOk sv
    | (k, v) :: rest =>
        match field_for_key fs k with
        | None => decode_kvs dec fs rest written sv
        | Some i =>
            if existsb (Nat.eqb i) written then DUnmodelled
            else
              match nth_error fs i with
              | Some fld => dbind (dec (gf_type fld) v) (fun x => decode_kvs dec fs rest (i :: written) (set_field i x sv))
              | None => DError
              end
        end
    end.

  Definition zero_fields (fs : list gofield) : sval := map (fun f : gofield => (gf_name f, gf_tag f, zero (gf_type f))) fs.

  Definition decode_struct (dec : dec_t) (fs : list gofield) (j : json) : dres sval :=
    match j with
    | JNull => DOk (zero_fields fs)
    | JObj kvs => decode_kvs dec fs kvs [] (zero_fields fs)
    | _ => DError
    end.

  (** [json.Unmarshal(b, &s.fname)] *)
  Definition step_target (dec : dec_t) (fs : list gofield) (j : json) (fname : name) (sv : sval) : dres sval :=
    match find_index (fun fld : gofield => bytes_eqb (gf_name fld) fname) fs with
    | None => DError
    | Some i =>
        match nth_error fs i with
        | Some fld => dbind (dec (gf_type fld) j) (fun x => DOk (set_field i x sv))
        | None => DError
        end
    end.

  (** the statement groups of a generated UnmarshalJSON, after [*s = base] *)
  Fixpoint run_steps (dec : dec_t) (fs : list gofield) (j : json) (base : sval) (steps : list ustep) (sv : sval)
    : dres sval :=
    match steps with
    | [] => DOk sv
    | UAlways fname :: rest => dbind (step_target dec fs j fname sv) (run_steps dec fs j base rest)
    | USwitch tn oks fname :: rest =>
        match find_index (fun fld : gofield => bytes_eqb (gf_name fld) tn) fs with
        | None => DError
        | Some i =>
            match nth_error base i with
            | Some (_, _, VStr s) =>
                if mem s (match oks with [] => [[]] | _ => oks end)
                then dbind (step_target dec fs j fname sv) (run_steps dec fs j base rest)
                else run_steps dec fs j base rest sv
            | _ => DError
            end
        end
    end.

  (** a declared type: [type XFragment selT3] has the method only through the forwarder *)
  Definition decode_def (dec : dec_t) (d : typedefn) (j : json) : dres goval :=
    match td_type d, td_forward d with
    | GSel _ _ fs _, false => dec (GStruct fs) j
    | t', _ => dec t' j
    end.

  Definition decode_body (dec : dec_t) (t : gotype) (j : json) : dres goval :=
    match t with
    | GString | GEnum _ =>
        match j with JStr s => DOk (VStr s) | JNull => DOk (VStr []) | _ => DError end
    | GInt =>
        match j with JNum (NI z) => DOk (VInt z) | JNull => DOk (VInt 0) | _ => DError end
    | GFloat =>
        match j with JNum n => DOk (VFloat n) | JNull => DOk (VFloat (NI 0)) | _ => DError end
    | GBool =>
        match j with JBool b => DOk (VBool b) | JNull => DOk (VBool false) | _ => DError end
    | GPtr t' =>
        match j with
        | JNull => DOk VNil
        | _ => dbind (dec t' j) (fun v => DOk (VPtr v))
        end
    | GSlice t' =>
        match j with
        | JNull => DOk VNilSlice
        | JArr l => dbind (dmap (dec t') l) (fun vs => DOk (VSlice vs))
        | _ => DError
        end
    | GStruct fs => dbind (decode_struct dec fs j) (fun sv => DOk (VStruct sv))
    | GSel _ _ fs steps =>
        dbind (decode_struct dec fs j) (fun base =>
          dbind (run_steps dec fs j base steps base) (fun sv => DOk (VStruct sv)))
    | GFragRef fr =>
        match lookup_def P (frag_type_name fr) with
        | None => DError
        | Some d => decode_def dec d j
        end
    | GIface | GEmpty | GScalar _ => DError
    end.

  Fixpoint decode (fuel : nat) : dec_t :=
    match fuel with
    | O => fun _ _ => DFuel
    | Datatypes.S f => decode_body (decode f)
    end.

  (** [json.Unmarshal(resp, &v)] with [v] of the type declared for operation [op] *)
  Definition decode_op (fuel : nat) (op : name) (j : json) : dres goval :=
    match lookup_def P (data_type_name op) with
    | None => DError
    | Some d => decode_def (decode fuel) d j
    end.
End Decode.
