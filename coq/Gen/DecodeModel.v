(** * Gen/DecodeModel.v — the fragment of encoding/json decoding that the generated types rely on
    (C20): [json.Unmarshal] of a JSON value into a value of an abstract Go type.

    Modelled (not verified; compared with the real encoding/json on every case):
    - struct decoding key by key: a key goes to the exported field whose JSON name (tag name, or
      Go name when untagged) equals it, otherwise to the first one equal to it ignoring ASCII
      case; fields tagged "-" and unexported fields take no part; unknown keys are skipped;
    - [null] into a pointer or slice sets nil, into anything else leaves the zero value;
    - a type mismatch is an error of the whole call;
    - the custom [UnmarshalJSON] the generator writes for [sel..] types: decode into [base]
      (the same struct without the method), copy, then the statement groups in order;
    - [type XFragment selT3] has the method only through the generated forwarder.
    Not modelled: a repeated key decodes on top of the previous value in Go; here the later value
    replaces the earlier (responses never repeat keys).
    No proofs in this file. *)
From Coq Require Import List NArith ZArith Bool String.
From ApiFu Require Import Base.Sexp Gen.GoTypes.
Import ListNotations.
Open Scope list_scope.
Open Scope N_scope.

Inductive json :=
| JNull
| JBool (b : bool)
| JNum (n : numv)
| JStr (s : bytes)
| JArr (l : list json)
| JObj (kvs : list (bytes * json)).

Inductive dres (A : Type) := DOk (a : A) | DError | DFuel.
Arguments DOk {A} a.
Arguments DError {A}.
Arguments DFuel {A}.

Definition dbind {A B} (r : dres A) (f : A -> dres B) : dres B :=
  match r with
  | DOk a => f a
  | DError => DError
  | DFuel => DFuel
  end.

Fixpoint dmap {A B} (f : A -> dres B) (l : list A) : dres (list B) :=
  match l with
  | [] => DOk []
  | x :: r => dbind (f x) (fun y => dbind (dmap f r) (fun ys => DOk (y :: ys)))
  end.

(** zero value of a type (a [GFragRef] only ever occurs under a pointer) *)
Fixpoint zero (t : gotype) : goval :=
  match t with
  | GString => VStr []
  | GEnum _ => VStr []
  | GScalar _ => VStr []
  | GInt => VInt 0
  | GFloat => VFloat (NI 0)
  | GBool => VBool false
  | GIface => VNil
  | GEmpty => VNil
  | GPtr _ => VNil
  | GSlice _ => VNilSlice
  | GStruct fs =>
      VStruct ((fix go (fs : list (name * gotag * gotype)) : list (name * gotag * goval) :=
                  match fs with
                  | [] => []
                  | (n, tg, t') :: r => (n, tg, zero t') :: go r
                  end) fs)
  | GSel _ _ fs _ =>
      VStruct ((fix go (fs : list (name * gotag * gotype)) : list (name * gotag * goval) :=
                  match fs with
                  | [] => []
                  | (n, tg, t') :: r => (n, tg, zero t') :: go r
                  end) fs)
  | GFragRef _ => VStruct []
  end.

Definition exported (n : name) : bool :=
  match n with
  | c :: _ => is_upper c
  | [] => false
  end.

(** the JSON name of a struct field, if it takes part in decoding *)
Definition json_name (f : gofield) : option bytes :=
  if negb (exported (gf_name f)) then None
  else match gf_tag f with
       | TagNone => Some (gf_name f)
       | TagKey k => Some k
       | TagDash => None
       | TagBoth _ => None
       end.

Fixpoint find_index {A} (p : A -> bool) (l : list A) : option nat :=
  match l with
  | [] => None
  | x :: r => if p x then Some O else match find_index p r with Some i => Some (Datatypes.S i) | None => None end
  end.

(** the field a JSON key is decoded into *)
Definition field_for_key (fs : list gofield) (key : bytes) : option nat :=
  match find_index (fun f => match json_name f with Some n => bytes_eqb n key | None => false end) fs with
  | Some i => Some i
  | None => find_index (fun f => match json_name f with Some n => equal_fold n key | None => false end) fs
  end.

Fixpoint set_nth {A} (i : nat) (x : A) (l : list A) : list A :=
  match l, i with
  | [], _ => []
  | _ :: r, O => x :: r
  | y :: r, Datatypes.S i' => y :: set_nth i' x r
  end.

Definition sval : Type := list (name * gotag * goval).

Definition set_field (i : nat) (v : goval) (sv : sval) : sval :=
  match nth_error sv i with
  | Some (n, tg, _) => set_nth i (n, tg, v) sv
  | None => sv
  end.

Section Decode.
  Variable P : program.

  Fixpoint decode (fuel : nat) (t : gotype) (j : json) {struct fuel} : dres goval :=
    match fuel with
    | O => DFuel
    | Datatypes.S f =>
        let decode_struct (fs : list gofield) : dres sval :=
          match j with
          | JNull => match zero (GStruct fs) with VStruct z => DOk z | _ => DError end
          | JObj kvs =>
              (fix go (kvs : list (bytes * json)) (sv : sval) : dres sval :=
                 match kvs with
                 | [] => DOk sv
                 | (k, v) :: rest =>
                     match field_for_key fs k with
                     | None => go rest sv
                     | Some i =>
                         match nth_error fs i with
                         | Some fld => dbind (decode f (gf_type fld) v) (fun x => go rest (set_field i x sv))
                         | None => DError
                         end
                     end
                 end) kvs (match zero (GStruct fs) with VStruct z => z | _ => [] end)
          | _ => DError
          end in
        match t with
        | GString | GEnum _ =>
            match j with JStr s => DOk (VStr s) | JNull => DOk (VStr []) | _ => DError end
        | GInt =>
            match j with JNum (NI z) => DOk (VInt z) | JNull => DOk (VInt 0) | _ => DError end
        | GFloat =>
            match j with JNum n => DOk (VFloat n) | JNull => DOk (VFloat (NI 0)) | _ => DError end
        | GBool =>
            match j with JBool b => DOk (VBool b) | JNull => DOk (VBool false) | _ => DError end
        | GPtr t' =>
            match j with
            | JNull => DOk VNil
            | _ => dbind (decode f t' j) (fun v => DOk (VPtr v))
            end
        | GSlice t' =>
            match j with
            | JNull => DOk VNilSlice
            | JArr l => dbind (dmap (decode f t') l) (fun vs => DOk (VSlice vs))
            | _ => DError
            end
        | GStruct fs => dbind (decode_struct fs) (fun sv => DOk (VStruct sv))
        | GSel _ _ fs steps =>
            dbind (decode_struct fs) (fun base =>
              (fix run (steps : list ustep) (sv : sval) : dres goval :=
                 match steps with
                 | [] => DOk (VStruct sv)
                 | st :: rest =>
                     let target (fname : name) : dres sval :=
                       match find_index (fun fld : gofield => bytes_eqb (gf_name fld) fname) fs with
                       | None => DError
                       | Some i =>
                           match nth_error fs i with
                           | Some fld => dbind (decode f (gf_type fld) j) (fun x => DOk (set_field i x sv))
                           | None => DError
                           end
                       end in
                     match st with
                     | UAlways fname => dbind (target fname) (run rest)
                     | USwitch tn oks fname =>
                         match find_index (fun fld : gofield => bytes_eqb (gf_name fld) tn) fs with
                         | None => DError
                         | Some i =>
                             match nth_error base i with
                             | Some (_, _, VStr s) =>
                                 if mem s (match oks with [] => [[]] | _ => oks end)
                                 then dbind (target fname) (run rest)
                                 else run rest sv
                             | _ => DError
                             end
                         end
                     end
                 end) steps base)
        | GFragRef fr =>
            match lookup_def P (frag_type_name fr) with
            | None => DError
            | Some d =>
                match td_type d, td_forward d with
                | GSel _ _ fs _, false => decode f (GStruct fs) j     (* method set not inherited *)
                | t', _ => decode f t' j
                end
            end
        | GIface | GEmpty | GScalar _ => DError
        end
    end.

  (** [json.Unmarshal(resp, &v)] with [v] of the type declared for operation [op] *)
  Definition decode_op (fuel : nat) (op : name) (j : json) : dres goval :=
    match lookup_def P (data_type_name op) with
    | None => DError
    | Some d =>
        match td_type d, td_forward d with
        | GSel _ _ fs _, false => decode fuel (GStruct fs) j
        | t', _ => decode fuel t' j
        end
    end.
End Decode.
