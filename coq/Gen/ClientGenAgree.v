(** * Gen/ClientGenAgree.v — C20: the generator of the current tree ([generate_s]: three member maps,
    field names made unique by appended underscores) and the generator the proofs are carried out
    on ([generate]: one map, the Go name a function of the key alone) return the same program
    whenever no two members of a selection set derive the same field name
    ([excl_member_clash] = false).  So every theorem about [generate] is a theorem about the code
    that exists, under that hypothesis. *)
From Coq Require Import List NArith ZArith Bool String Lia Permutation.
From ApiFu Require Import Base.Sexp Gen.GoTypes Gen.ClientGenModel Gen.DecodeModel Gen.ClientGenSpec
     Gen.ClientGenLemmas Gen.DecodeLemmas Gen.ClientGenProofs Gen.ClientGenGood Gen.ClientGenFinal
     Gen.ClientGenDecode Gen.ClientGenMain Gen.ClientGenDeclSafe Gen.LoadSchemaModel Gen.LoadSchemaProofs.
Import ListNotations.
Open Scope list_scope.
Open Scope nat_scope.

(** ** names: without a clash every member keeps [field_name] of its key *)
Definition base (k : name) : name := field_name (untk k).

Lemma fresh_free fuel taken n : mem n taken = false -> fresh (Datatypes.S fuel) taken n = n.
Proof. intros H. simpl. rewrite H. reflexivity. Qed.

Lemma assign_free : forall keys taken acc,
  NoDup (map base keys) -> (forall k, In k keys -> ~ In (base k) taken) ->
  fst (assign keys taken acc) = acc ++ map (fun k => (k, base k)) keys.
Proof.
  induction keys as [|k r IH]; intros taken acc ND Hfree; simpl; [rewrite app_nil_r; reflexivity|].
  inversion ND as [|? ? Hn ND']; subst.
  assert (Hm : mem (field_name (untk k)) taken = false) by (apply mem_false; apply (Hfree k); left; reflexivity).
  rewrite Hm. rewrite IH; [rewrite <- app_assoc; reflexivity | exact ND'|].
  intros k' Hk' [E|Hin].
  - apply Hn. change (field_name (untk k) = base k') in E. change (field_name (untk k)) with (base k) in E. rewrite E. apply in_map. exact Hk'.
  - apply (Hfree k' (or_intror Hk') Hin).
Qed.

Lemma gname_base L k : gname (map (fun k => (k, base k)) L) k = base k.
Proof.
  unfold gname. induction L as [|x r IH]; simpl; [reflexivity|].
  destruct (bytes_eqb x k) eqn:E; [apply bytes_eqb_true in E; subst; reflexivity | exact IH].
Qed.

Lemma insert_name_perm k l : Permutation (k :: l) (insert_name k l).
Proof.
  induction l as [|x r IH]; simpl; [apply Permutation_refl|].
  destruct (bytes_leb k x); [apply Permutation_refl|].
  eapply Permutation_trans; [apply perm_swap|]. apply perm_skip. exact IH.
Qed.

Lemma sort_names_perm l : Permutation l (sort_names l).
Proof.
  induction l as [|x r IH]; simpl; [apply Permutation_refl|].
  eapply Permutation_trans; [apply perm_skip; exact IH | apply insert_name_perm].
Qed.

Lemma class_keys_In c keys x : In x (class_keys c keys) <-> In x keys /\ kind_of x = c.
Proof.
  unfold class_keys. split.
  - intros H. apply (Permutation_in _ (Permutation_sym (sort_names_perm _))) in H.
    apply filter_In in H as [H1 H2]. apply N.eqb_eq in H2. split; assumption.
  - intros [H1 H2]. apply (Permutation_in _ (sort_names_perm _)). apply filter_In. split; [exact H1 | apply N.eqb_eq; exact H2].
Qed.

Lemma class_keys_nodup c keys : NoDup keys -> NoDup (class_keys c keys).
Proof. intros H. unfold class_keys. apply (Permutation_NoDup (sort_names_perm _)). apply NoDup_filter. exact H. Qed.

Lemma NoDup_app3 {A} (a b : list A) : NoDup a -> NoDup b -> (forall x, In x a -> In x b -> False) -> NoDup (a ++ b).
Proof.
  induction a as [|x r IH]; simpl; [intros _ H _; exact H|]. intros N1 N2 Hd. inversion N1; subst.
  constructor.
  - intro H. apply in_app_iff in H as [H|H]; [contradiction | apply (Hd x); [left; reflexivity | exact H]].
  - apply IH; [assumption | assumption | intros y Hy; apply Hd; right; exact Hy].
Qed.

Lemma assign_names_plain fields :
  NoDup (map fst fields) -> NoDup (map base (map fst fields)) ->
  forall k, gname (assign_names fields) k = base k.
Proof.
  intros ND NB k. unfold assign_names.
  set (keys := map fst fields) in *.
  set (L := class_keys 0%N keys ++ class_keys 1%N keys ++ class_keys 2%N keys).
  assert (HL : NoDup L).
  { unfold L. apply NoDup_app3; [apply class_keys_nodup; exact ND | apply NoDup_app3; try (apply class_keys_nodup; exact ND)|].
    - intros x H1 H2. apply class_keys_In in H1 as [_ H1]. apply class_keys_In in H2 as [_ H2]. rewrite H1 in H2. discriminate.
    - intros x H1 H2. apply class_keys_In in H1 as [_ H1]. apply in_app_iff in H2 as [H2|H2]; apply class_keys_In in H2 as [_ H2]; rewrite H1 in H2; discriminate. }
  assert (Hin : incl L keys).
  { intros x Hx. unfold L in Hx. repeat (apply in_app_iff in Hx as [Hx|Hx]); apply class_keys_In in Hx; apply Hx. }
  rewrite (assign_free L [] []); [apply gname_base | apply (NoDup_map_inj_on base L keys HL Hin NB) | intros k0 _ []].
Qed.

(** ** the accumulator of the current generator = the old accumulator with its keys marked *)
Section Retag.
  Variable m : name.
  Variable all : list selection.

  Definition inline_names : list name :=
    flat_map (fun s => match s with SInline c _ => [inline_cond m c] | _ => [] end) all.
  Definition rm (x : name) : name := if mem x inline_names then tk 1%N x else tk 2%N x.
  Definition rk (dash : bool) (k : name) : name := if dash then rm k else tk 0%N k.
  Definition R (e : name * (gotype * bool)) : name * (gotype * bool) := (rk (snd (snd e)) (fst e), snd e).
  Definition Rc (e : name * list name) : name * list name := (fst e, map rm (snd e)).
  Definition RA (a : acc) : acc :=
    let '(fields, conds, done, fdone, st) := a in (map R fields, map Rc conds, done, fdone, st).

  Lemma untk_rk dash k : untk (rk dash k) = k.
  Proof. unfold rk, rm. destruct dash; [destruct (mem k inline_names)|]; reflexivity. Qed.

  Lemma rk_inj d1 k1 d2 k2 : rk d1 k1 = rk d2 k2 -> k1 = k2.
  Proof. intros H. rewrite <- (untk_rk d1 k1), <- (untk_rk d2 k2), H. reflexivity. Qed.

  Lemma aset_R k v fields :
    (forall e, In e fields -> fst e = k -> snd (snd e) = snd v) ->
    map R (aset k v fields) = aset (rk (snd v) k) v (map R fields).
  Proof.
    induction fields as [|[k0 v0] r IH]; intros H; simpl; [reflexivity|].
    destruct (bytes_eqb k0 k) eqn:E.
    - apply bytes_eqb_true in E. subst k0. pose proof (H (k, v0) (or_introl eq_refl) eq_refl) as Hd. simpl in Hd.
      unfold R at 2. cbn [fst snd]. rewrite Hd, bytes_eqb_refl. unfold R at 1. cbn [fst snd]. reflexivity.
    - unfold R at 2. cbn [fst snd].
      destruct (bytes_eqb (rk (snd v0) k0) (rk (snd v) k)) eqn:E2.
      + apply bytes_eqb_true in E2. apply rk_inj in E2. subst k0. rewrite bytes_eqb_refl in E. discriminate.
      + cbn [map]. unfold R at 1. cbn [fst snd]. f_equal. apply IH. intros e He. apply H. right. exact He.
  Qed.

  Lemma aappend_Rc k x conds : map Rc (aappend k x conds) = aappend k (rm x) (map Rc conds).
  Proof.
    induction conds as [|[k0 l] r IH]; [reflexivity|].
    change (map Rc ((k0, l) :: r)) with ((k0, map rm l) :: map Rc r).
    cbn [aappend]. destruct (bytes_eqb k0 k).
    - change (map Rc ((k0, l ++ [x]) :: r)) with ((k0, map rm (l ++ [x])) :: map Rc r). rewrite map_app. reflexivity.
    - change (map Rc ((k0, l) :: aappend k x r)) with ((k0, map rm l) :: map Rc (aappend k x r)). rewrite IH. reflexivity.
  Qed.
End Retag.

(** ** one pass over a selection set *)
Definition GT : name -> list selection -> gotype -> Prop := fun _ _ _ => True.
Definition TT : gstate -> gotype -> Prop := fun _ _ => True.
Definition ET : gstate -> gstate -> Prop := fun _ _ => True.

Section StepAgree.
  Variable S : schema.
  Variable frs : list fragdef.
  Let fragTypes := map (fun f => (fr_name f, fr_cond f)) frs.
  Variables rec_p rec_s : rec_t.
  Variable m : name.
  Variable d : typedef.
  Variable all : list selection.
  Variable hasTn : bool.

  Hypothesis Hrec_b : forall mm sub st core b st',
    sub_call S m all mm sub -> rec_p mm sub st = Ok (core, b, st') -> b = true.
  Hypothesis Hrec_eq : forall mm sub st, sub_call S m all mm sub -> rec_s mm sub st = rec_p mm sub st.
  Hypothesis Hlookup : lookup_type S m = Some d.
  Hypothesis Hmembers : members_distinct m all = true.
  Hypothesis Hspreads : forall f c body, In (SSpread f c body) all -> In f (map fr_name frs).
  Hypothesis Hkeys : forall a f sub a' f' sub', In (SField a f sub) all -> In (SField a' f' sub') all ->
                                                sel_key a f = sel_key a' f' -> f = f'.
  Hypothesis Hlocal : forall s, In s all -> sel_local S frs m s = true.

  Notation InvT := (Inv S frs GT TT ET m all).
  Notation RAm := (RA m all).

  Definition oRA (o : outcome acc) : outcome acc :=
    match o with Ok a => Ok (RAm a) | Err => Err | Panic => Panic | OutOfFuel => OutOfFuel end.

  Lemma HrecT : forall mm sub st core b st',
    sub_call S m all mm sub -> rec_p mm sub st = Ok (core, b, st') ->
    b = true /\ ET st st' /\ TT st' core /\ GT mm sub core.
  Proof. intros mm sub st core b st' H1 H2. split; [apply (Hrec_b _ _ _ _ _ _ H1 H2) | repeat split]. Qed.

  Definition dash_of (s : selection) : bool := match s with SField _ _ _ => false | _ => true end.

  Lemma entry_dash st0 pre s rest fields conds done fdone st e :
    all = pre ++ s :: rest -> InvT st0 pre (fields, conds, done, fdone, st) ->
    In e fields -> fst e = mkey m s -> snd (snd e) = dash_of s.
  Proof.
    intros Hall HI He Ek. destruct e as [k [T dash]]. cbn [fst snd] in Ek |- *. unfold Inv in HI.
    destruct HI as (_ & _ & I3 & _). destruct (I3 _ _ _ He) as [Hsrc _]. rewrite Hall in Hmembers.
    assert (Hkind : forall s', In s' pre -> mkey m s' = k -> mkind s' = mkind s).
    { intros s' Hs' E. apply (same_key_same_kind m pre s rest s' Hmembers Hs'). congruence. }
    destruct Hsrc as [[Hd [a [f [sub [H1 [H2 _]]]]]]|[[Hd [c [sub [H1 [H2 _]]]]]|[Hd [c [body [H1 _]]]]]]; subst dash.
    - pose proof (Hkind (SField a f sub) H1 (eq_sym H2)) as Hk. destruct s; [reflexivity | discriminate Hk | discriminate Hk].
    - pose proof (Hkind (SInline c sub) H1 (eq_sym H2)) as Hk. destruct s; [discriminate Hk | reflexivity | reflexivity].
    - pose proof (Hkind (SSpread k c body) H1 eq_refl) as Hk. destruct s; [discriminate Hk | reflexivity | reflexivity].
  Qed.

  Lemma rm_inline c sub : In (SInline c sub) all -> rm m all (inline_cond m c) = tk 1%N (inline_cond m c).
  Proof.
    intros H. unfold rm. assert (Hm : mem (inline_cond m c) (inline_names m all) = true).
    { apply mem_In. unfold inline_names. apply in_flat_map. exists (SInline c sub). split; [exact H | left; reflexivity]. }
    rewrite Hm. reflexivity.
  Qed.

  Lemma rm_spread f c body : In (SSpread f c body) all -> rm m all f = tk 2%N f.
  Proof.
    intros H. unfold rm. destruct (mem f (inline_names m all)) eqn:Em; [|reflexivity]. exfalso.
    apply mem_In in Em. unfold inline_names in Em. apply in_flat_map in Em as [s [Hs Hx]].
    destruct s as [a0 f0 s0|c' sub'|f0 c0 b0]; [destruct Hx | | destruct Hx]. destruct Hx as [Hx|[]].
    apply (kinds_disjoint m all (SInline c' sub') (SSpread f c body) Hmembers Hs H); [simpl; exact Hx | discriminate].
  Qed.

  Lemma gen_type_eq ft sub st : sub_call S m all (unwrap ft) sub -> gen_type rec_s ft sub st = gen_type rec_p ft sub st.
  Proof. intros H. unfold gen_type. rewrite (Hrec_eq _ _ st H). reflexivity. Qed.

  Lemma step_agree st0 pre s rest a :
    all = pre ++ s :: rest -> InvT st0 pre a ->
    step_s S fragTypes rec_s m d hasTn all s (RAm a) = oRA (step no_quirks S fragTypes rec_p m d hasTn all s a).
  Proof.
    intros Hall HI. assert (Hs : In s all) by (rewrite Hall; apply in_app_iff; right; left; reflexivity).
    destruct a as [[[[fields conds] done] fdone] st].
    assert (Hdash : forall e, In e fields -> fst e = mkey m s -> snd (snd e) = dash_of s).
    { intros e He Ek. apply (entry_dash st0 pre s rest fields conds done fdone st e Hall HI He Ek). }
    pose proof (Hlocal s Hs) as Hloc.
    destruct s as [al f sub|c sub|f c body]; unfold step, step_s; cbn [RA].
    - (* field *)
      cbn [q_no_field_merge no_quirks negb andb]. set (k := sel_key al f) in *.
      destruct (mem k fdone); [reflexivity|].
      destruct (is_typename f) eqn:Etn.
      + simpl. rewrite (aset_R m all k (GString, false) fields); [reflexivity|]. intros e He Ek. apply (Hdash e He Ek).
      + simpl in Hloc. rewrite Etn in Hloc. destruct (field_type S m f) as [ft|] eqn:Eft; [|discriminate].
        destruct (field_type_lookup _ _ _ _ Eft) as [d' [fs [Hl' [Hassoc Hd']]]]. rewrite Hlookup in Hl'. inversion Hl'; subst d'.
        assert (Hsc : sub_call S m all (unwrap ft) (merged_field k all)).
        { left. exists al, f, sub. split; [exact Hs|]. split; [exact Etn|]. split; [reflexivity|]. exists ft. split; [exact Eft | reflexivity]. }
        destruct Hd' as [[n [ifs Ed]]|[n Ed]]; subst d; rewrite Hassoc; rewrite (gen_type_eq ft _ st Hsc);
          destruct (gen_type rec_p ft (merged_field k all) st) as [[g st']| | |]; try reflexivity;
          simpl; rewrite (aset_R m all k (g, false) fields); try reflexivity; intros e He Ek; apply (Hdash e He Ek).
    - (* inline fragment *)
      destruct (negb hasTn && negb (is_object d)); [reflexivity|].
      cbn [q_nil_cond_panics no_quirks].
      destruct (match c with None => false | Some c' => negb (named_exists S c') end); [reflexivity|].
      cbn [q_overwrite_inline no_quirks negb andb]. set (cond := inline_cond m c) in *.
      destruct (mem cond done); [reflexivity|].
      assert (Hsc : sub_call S m all (unwrap (TNamed cond)) (merged_inline m cond all)).
      { right. exists c, sub. split; [exact Hs|]. split; reflexivity. }
      rewrite (gen_type_eq (TNamed cond) _ st Hsc).
      destruct (gen_type rec_p (TNamed cond) (merged_inline m cond all) st) as [[g st']| | |]; try reflexivity.
      simpl. rewrite (aset_R m all cond (g, true) fields); [|intros e He Ek; apply (Hdash e He Ek)].
      rewrite aappend_Rc. cbn [snd rk]. unfold cond. rewrite (rm_inline c sub Hs). reflexivity.
    - (* spread *)
      destruct (negb hasTn && negb (is_object d)); [reflexivity|].
      simpl. rewrite (aset_R m all f (GPtr (GFragRef f), true) fields); [|intros e He Ek; apply (Hdash e He Ek)].
      rewrite aappend_Rc. cbn [snd rk]. rewrite (rm_spread f c body Hs). reflexivity.
  Qed.

  Lemma loop_agree st0 : forall rest pre a,
    all = pre ++ rest -> InvT st0 pre a ->
    loop_s S fragTypes rec_s m d hasTn all rest (RAm a) = oRA (loop no_quirks S fragTypes rec_p m d hasTn all rest a).
  Proof.
    induction rest as [|s rest IH]; intros pre a Hall HI; [reflexivity|].
    cbn [loop loop_s]. rewrite (step_agree st0 pre s rest a Hall HI).
    destruct (step no_quirks S fragTypes rec_p m d hasTn all s a) as [a1| | |] eqn:Es; try reflexivity.
    cbn [oRA]. apply (IH (pre ++ [s]) a1); [rewrite <- app_assoc; exact Hall|].
    apply (step_inv S frs GT TT ET (fun _ => I) (fun _ _ _ _ _ => I) (fun _ _ _ _ _ => I) (fun _ => I) (fun _ _ _ => I)
                    (fun _ _ _ => I) (fun _ _ _ _ => I) rec_p m d all hasTn HrecT Hlookup Hmembers Hspreads Hkeys Hlocal
                    st0 pre s rest a a1 Hall HI Es).
  Qed.
End StepAgree.

(** ** the struct built from the finished maps *)
Lemma NoDup_map_weaker {A B C} (f : A -> B) (g : A -> C) l :
  (forall x y, f x = f y -> g x = g y) -> NoDup (map g l) -> NoDup (map f l).
Proof.
  intros H. induction l as [|x r IH]; simpl; [constructor|]. intros ND. inversion ND as [|? ? Hn ND']; subst.
  constructor; [|apply IH; exact ND']. intro Hi. apply in_map_iff in Hi as [y [E Hy]]. apply Hn.
  apply in_map_iff. exists y. split; [apply H; exact E | exact Hy].
Qed.

Section CompositeAgree.
  Variable S : schema.
  Variable frs : list fragdef.
  Let fragTypes := map (fun f => (fr_name f, fr_cond f)) frs.
  Variable m : name.
  Variable d : typedef.
  Variable all : list selection.
  Variable fields : list (name * (gotype * bool)).
  Variable conds : list (name * list name).
  Hypothesis F1 : NoDup (map fst fields).
  Hypothesis F3 : forall k T dash, In (k, (T, dash)) fields -> entry_src S GT m all all k T dash.
  Hypothesis Hmembers : members_distinct m all = true.
  Hypothesis Huu : forall k T, In (k, (T, true)) fields -> starts_uu k = false.

  Let names := assign_names (map (R m all) fields).

  Lemma names_base k : gname names k = base k.
  Proof.
    unfold names. apply assign_names_plain.
    - rewrite map_map. apply (NoDup_map_weaker _ (fun e : name * (gotype * bool) => fst e)); [|exact F1].
      intros x y E. unfold R in E. cbn [fst] in E. apply (rk_inj m all _ _ _ _ E).
    - rewrite !map_map. unfold base, R. cbn [fst]. 
      assert (E : map (fun x : name * (gotype * bool) => field_name (untk (rk m all (snd (snd x)) (fst x)))) fields = map field_name (map fst fields)).
      { rewrite map_map. apply map_ext. intros e. rewrite untk_rk. reflexivity. }
      rewrite E. rewrite <- names_mk_fields.
      apply (Permutation_NoDup (Permutation_map gf_name (Permutation_sym (sort_fields_perm (map mk_field fields))))).
      apply (fs_names_nodup S GT m all fields F1 F3 Hmembers).
  Qed.

  Lemma mk_field_agree e : In e fields -> mk_field_s names (R m all e) = mk_field e.
  Proof.
    intros He. destruct e as [k [T dash]]. unfold R, mk_field_s, mk_field. cbn [fst snd].
    rewrite names_base. unfold base. rewrite untk_rk. destruct dash.
    - rewrite (field_name_fold k (Huu k T He)). reflexivity.
    - reflexivity.
  Qed.

  Lemma fs_agree : sort_fields (map (mk_field_s names) (map (R m all) fields)) = sort_fields (map mk_field fields).
  Proof.
    f_equal. rewrite map_map. apply map_ext_in. intros e He. apply (mk_field_agree e He).
  Qed.

  Lemma steps_agree tnKey :
    mk_steps_s S names m d (match assoc (tk 0%N tnKey) names with Some x => x | None => field_name tnKey end) (map (Rc m all) conds) =
    mk_steps no_quirks S m d tnKey conds.
  Proof.
    assert (Etn : match assoc (tk 0%N tnKey) names with Some x => x | None => field_name tnKey end = field_name tnKey).
    { pose proof (names_base (tk 0%N tnKey)) as H. unfold gname, base in H. cbn [untk tk tl] in H. exact H. }
    rewrite Etn. unfold mk_steps_s, mk_steps. rewrite flat_map_concat_map, map_map, <- flat_map_concat_map.
    apply flat_map_ext. intros [tc ms]. unfold Rc. cbn [fst snd].
    assert (Eg : forall x, gname names (rm m all x) = field_name x).
    { intros x. rewrite names_base. unfold base, rm. destruct (mem x (inline_names m all)); reflexivity. }
    destruct (is_known no_quirks S m d tc); rewrite map_map; apply map_ext; intros x; rewrite Eg; reflexivity.
  Qed.
End CompositeAgree.

(** ** the generators agree on every admissible selection set *)
Section GenAgree.
  Variable S : schema.
  Variable frs : list fragdef.
  Hypothesis HS : schema_ok S = true.
  Let fragTypes := map (fun f => (fr_name f, fr_cond f)) frs.
  Variables Keys Dash : list name.
  Hypothesis HDash : forall k, In k Dash -> starts_uu k = false.
  Hypothesis HComp : incl (composites S) Dash.
  Variable en : name -> name.
  Variable cn : name -> name -> name.
  Hypothesis Hen : forall n, en n = n.
  Hypothesis Hcn : forall n v, cn n v = enum_const n v.
  Notation gen := (gen_named no_quirks S fragTypes).
  Notation gens := (gen_named_s S fragTypes en cn).
  Notation SelsInD := (SelsIn Keys Dash).

  Lemma gen_agree : forall fuel mm sels st,
    (composite S mm = true -> exists f', all_structs S (EL2 S frs) f' mm sels = true /\ SelsInD sels) ->
    (composite S mm = false -> sels = []) ->
    gens fuel mm sels st = gen fuel mm sels st.
  Proof.
    induction fuel as [|fuel IH]; intros mm sels st Hc Hnc; [reflexivity|].
    simpl. unfold gen_named_body_s, gen_named_body.
    destruct (builtin_of mm) as [bi|] eqn:Eb; [reflexivity|].
    destruct (lookup_type S mm) as [d|] eqn:El; [|reflexivity].
    assert (Hcomp : match d with DObj _ _ _ | DIface _ _ | DUnion _ _ => True | _ => False end ->
                    gen_composite_s S fragTypes (gens fuel) mm d sels st = gen_composite no_quirks S fragTypes (gen fuel) mm d sels st).
    { intros Hd.
      assert (Hcm : composite S mm = true) by (unfold composite; rewrite El; destruct d; try contradiction; reflexivity).
      destruct (Hc Hcm) as [f' [Ha Hsel]]. destruct f' as [|f']; [discriminate|].
      rewrite all_structs_S in Ha. apply andb_true_iff in Ha as [He Hall]. rewrite forallb_forall in Hall.
      unfold EL2 in He. apply andb_true_iff in He as [Hel Hmem].
      pose proof (env_local_elim _ _ _ _ Hel) as [_ [_ [Hnd [_ Hloc]]]].
      assert (Hsamef : forall a f sub a2 f2 sub2, In (SField a f sub) sels -> In (SField a2 f2 sub2) sels ->
                                                  sel_key a f = sel_key a2 f2 -> f = f2).
      { intros a f sub a2 f2 sub2 H1 H2 E.
        assert (D1 : In (sel_key a f, f) (direct_fields sels)) by (unfold direct_fields; apply in_flat_map; exists (SField a f sub); split; [exact H1 | left; reflexivity]).
        assert (D2 : In (sel_key a2 f2, f2) (direct_fields sels)) by (unfold direct_fields; apply in_flat_map; exists (SField a2 f2 sub2); split; [exact H2 | left; reflexivity]).
        destruct (Hnd _ _ _ _ D1 D2) as [_ Ef]; [rewrite E; reflexivity | exact Ef]. }
      assert (Hspreads : forall f c body, In (SSpread f c body) sels -> In f (map fr_name frs)).
      { intros f c body Hs. pose proof (Hloc _ Hs) as Hsl. simpl in Hsl. apply andb_true_iff in Hsl as [_ Hsl].
        destruct (find_frag frs f) as [fr|] eqn:Ef; [|discriminate]. unfold find_frag in Ef. apply find_some in Ef as [H1 H2].
        apply bytes_eqb_true in H2. rewrite <- H2. apply in_map. exact H1. }
      (* what a recursive call is made on *)
      assert (Hsub : forall mm' sub, sub_call S mm sels mm' sub ->
                (composite S mm' = true -> exists f0, all_structs S (EL2 S frs) f0 mm' sub = true /\ SelsInD sub) /\
                (composite S mm' = false -> sub = [] /\ leaf_type S mm' = true)).
      { intros mm' sub Hsc.
        destruct Hsc as [[a [f [sub1 [Hs [Htnf [Esub [ft [Eft Eu]]]]]]]]|[c [sub0 [Hs [Emm Esub]]]]].
        - pose proof (Hall _ Hs) as Has. cbv beta iota in Has. rewrite Htnf, Eft, Eu in Has.
          pose proof (Hloc _ Hs) as Hsl. simpl in Hsl. rewrite Htnf, Eft, Eu in Hsl.
          split.
          + intros Hc'. rewrite Hc' in Has. exists f'. split; [rewrite Esub; exact Has|]. rewrite Esub. apply SelsIn_merged_field. exact Hsel.
          + intros Hc'. rewrite Hc' in Hsl. apply andb_true_iff in Hsl as [_ Hleaf]. split; [|exact Hleaf].
            rewrite Esub. apply merged_field_nil. intros a2 f2 sub2 Hs2 Ek.
            assert (Ef2 : f2 = f) by (apply (Hsamef a2 f2 sub2 a f sub1 Hs2 Hs); exact Ek). subst f2.
            pose proof (Hloc _ Hs2) as Hsl2. simpl in Hsl2. rewrite Htnf, Eft, Eu, Hc' in Hsl2.
            apply andb_true_iff in Hsl2 as [Hn2 _]. destruct sub2; [reflexivity | discriminate].
        - pose proof (Hall _ Hs) as Has. cbv beta iota zeta in Has. rewrite <- Emm, <- Esub in Has.
          pose proof (Hloc _ Hs) as Hsl. simpl in Hsl. apply andb_true_iff in Hsl as [Hcc _]. rewrite <- Emm in Hcc.
          split.
          + intros _. exists f'. split; [exact Has|]. rewrite Esub. apply SelsIn_merged_inline. exact Hsel.
          + intros Hc'. rewrite Hc' in Hcc. discriminate. }
      assert (Hrec_eq : forall mm' sub st0, sub_call S mm sels mm' sub -> gens fuel mm' sub st0 = gen fuel mm' sub st0).
      { intros mm' sub st0 Hsc. destruct (Hsub mm' sub Hsc) as [H1 H2]. apply IH; [exact H1 | intros Hc'; apply (H2 Hc')]. }
      assert (Hrec_b : forall mm' sub st0 core b st', sub_call S mm sels mm' sub -> gen fuel mm' sub st0 = Ok (core, b, st') -> b = true).
      { intros mm' sub st0 core b st' Hsc Hg. destruct (Hsub mm' sub Hsc) as [H1 H2].
        destruct (composite S mm') eqn:Ecm.
        - destruct (H1 eq_refl) as [f0 [Ha0 _]].
          destruct (gen_good S frs HS (Datatypes.S (sels_size sub)) sub (Nat.lt_succ_diag_r _) fuel mm' st0 core b st' f0 Ha0 Hg) as [Hb _]. exact Hb.
        - destruct (H2 eq_refl) as [Esn Hleaf]. subst sub.
          destruct (gen_leaf_good S frs HS fuel mm' st0 core b st' Hleaf Ecm Hg) as [Hb _]. exact Hb. }
      unfold gen_composite_s, gen_composite. cbn [q_fixed_typename no_quirks].
      set (hasTn := match first_typename sels with Some _ => true | None => false end).
      pose proof (loop_agree S frs (gen fuel) (gens fuel) mm d sels hasTn Hrec_b Hrec_eq El Hmem Hspreads Hsamef Hloc st sels []
                             ([], [], [], [], st) eq_refl (inv_init S frs GT TT ET (fun _ => I) mm sels st)) as Hloop.
      cbn [RA map] in Hloop. fold fragTypes in Hloop. rewrite Hloop.
      destruct (loop no_quirks S fragTypes (gen fuel) mm d hasTn sels sels ([], [], [], [], st)) as [[[[[fields conds] done] fdone] st1]| | |] eqn:Eloop; try reflexivity.
      pose proof (loop_inv S frs GT TT ET (fun _ => I) (fun _ _ _ _ _ => I) (fun _ _ _ _ _ => I) (fun _ => I) (fun _ _ _ => I)
                           (fun _ _ _ => I) (fun _ _ _ _ => I) (gen fuel) mm d sels hasTn
                           (HrecT S (gen fuel) mm sels Hrec_b) El Hmem Hspreads Hsamef Hloc
                           st sels [] ([], [], [], [], st) (fields, conds, done, fdone, st1) eq_refl
                           (inv_init S frs GT TT ET (fun _ => I) mm sels st) Eloop) as HInv.
      unfold Inv in HInv. destruct HInv as (I1 & I2 & I3 & _).
      assert (F3 : forall k T dash, In (k, (T, dash)) fields -> entry_src S GT mm sels sels k T dash) by (intros k T dash H; apply (I3 _ _ _ H)).
      assert (Huu : forall k T, In (k, (T, true)) fields -> starts_uu k = false).
      { intros k T H. apply HDash. destruct (F3 _ _ _ H) as [[Hdd _]|[[_ [c [sub [Hs [Ek _]]]]]|[_ [c [body [Hs _]]]]]]; [discriminate| |].
        - subst k. destruct c as [c'|]; simpl.
          + destruct (SelsIn_inline Keys Dash _ _ _ Hs Hsel) as [_ Hc']. apply Hc'. reflexivity.
          + apply HComp. apply (composite_In S mm d El Hd).
        - apply (SelsIn_spread Keys Dash _ _ _ _ Hs Hsel). }
      cbn [oRA RA].
      rewrite (fs_agree S mm sels fields I1 F3 Hmem Huu).
      rewrite (steps_agree S mm d sels fields conds I1 F3 Hmem).
      destruct conds; reflexivity. }
    destruct d as [n0 ifs fs|n0 fs|n0 ms|n0 vs|n0]; try reflexivity; try (apply Hcomp; exact I).
    (* an enum: the pre-assigned names are the usual ones *)
    rewrite Hen. unfold emit_enum_s, emit_enum. rewrite Hen.
    destruct (assoc mm (g_enums st)); [reflexivity|].
    assert (E : map (fun v => (cn mm v, v)) vs = map (fun v => (enum_const mm v, v)) vs) by (apply map_ext; intros v; rewrite Hcn; reflexivity).
    rewrite E. reflexivity.
  Qed.
End GenAgree.

(** ** declarations: under [decl_safe] the pre-assigned names are the usual ones *)
Lemma assign_gen_free {K} (base : K -> name) : forall keys taken acc,
  NoDup (map base keys) -> (forall k, In k keys -> ~ In (base k) taken) ->
  assign_gen base keys taken acc = (acc ++ map (fun k => (k, base k)) keys, rev (map base keys) ++ taken).
Proof.
  induction keys as [|k r IH]; intros taken acc ND Hfree; simpl; [rewrite app_nil_r; reflexivity|].
  inversion ND as [|? ? Hn ND']; subst.
  assert (Hm : mem (base k) taken = false) by (apply mem_false; apply (Hfree k); left; reflexivity).
  rewrite Hm. rewrite IH; [rewrite <- !app_assoc; reflexivity | exact ND'|].
  intros k' Hk' [E|Hin].
  - apply Hn. rewrite E. apply in_map. exact Hk'.
  - apply (Hfree k' (or_intror Hk') Hin).
Qed.

Lemma reserved_is : reserved_identifiers = go_reserved ++ [bs "json"].
Proof. reflexivity. Qed.

Section DeclNames.
  Variable S : schema.
  Variable d : document.
  Hypothesis Hsafe : decl_safe S d = true.

  Lemma doc_decl_names_Dn : doc_decl_names d = Dn d.
  Proof. unfold doc_decl_names, Dn, frag_names. rewrite map_map. reflexivity. Qed.

  Lemma declared_parts :
    NoDup (map fst (enumsS S)) /\ NoDup (flat_map consts_of (enumsS S)) /\
    (forall x, In x (map fst (enumsS S)) -> ~ In x (reserved_identifiers ++ doc_decl_names d)) /\
    (forall x, In x (flat_map consts_of (enumsS S)) ->
               ~ In x (rev (map (fun n : name => n) (map fst (enumsS S))) ++ reserved_identifiers ++ doc_decl_names d)).
  Proof.
    destruct (decl_safe_elim S d Hsafe) as (D1 & D2 & _ & D4 & _).
    unfold declared in D1. destruct (NoDup_app_elim _ _ D1) as [NEs [NCD DisE]]. destruct (NoDup_app_elim _ _ NCD) as [NCs [_ DisC]].
    assert (Hres : forall x, In x (declared S d) -> ~ In x reserved_identifiers).
    { intros x Hx Hr. rewrite reserved_is in Hr. apply in_app_iff in Hr as [Hr|[Hr|[]]].
      - pose proof (go_ident_not_reserved x (D2 x Hx)) as Hm. apply mem_false in Hm. apply Hm. exact Hr.
      - subst x. apply D4. exact Hx. }
    split; [exact NEs|]. split; [exact NCs|]. split.
    - intros x Hx Hi. apply in_app_iff in Hi as [Hi|Hi].
      + apply (Hres x); [unfold declared; apply in_app_iff; left; exact Hx | exact Hi].
      + rewrite doc_decl_names_Dn in Hi. apply (DisE x Hx). apply in_app_iff. right. exact Hi.
    - intros x Hx Hi. apply in_app_iff in Hi as [Hi|Hi].
      + rewrite map_id in Hi. apply in_rev in Hi. apply (DisE x Hi). apply in_app_iff. left. exact Hx.
      + apply in_app_iff in Hi as [Hi|Hi].
        * apply (Hres x); [unfold declared; apply in_app_iff; right; apply in_app_iff; left; exact Hx | exact Hi].
        * rewrite doc_decl_names_Dn in Hi. apply (DisC x Hx Hi).
  Qed.

  Lemma enum_map_is :
    enum_name_map S d = (map (fun k : name => (k, k)) (map fst (enumsS S)),
                         rev (map (fun n : name => n) (map fst (enumsS S))) ++ reserved_identifiers ++ doc_decl_names d).
  Proof.
    destruct declared_parts as (N1 & _ & F1 & _).
    unfold enum_name_map. change (schema_enums S) with (enumsS S).
    rewrite (assign_gen_free (fun n : name => n)); [reflexivity | rewrite map_id; exact N1 | exact F1].
  Qed.

  Lemma enum_go_name_id n : enum_go_name S d n = n.
  Proof.
    unfold enum_go_name. rewrite enum_map_is. cbn [fst].
    induction (map fst (enumsS S)) as [|x r IH]; simpl; [reflexivity|].
    destruct (bytes_eqb x n) eqn:E; [apply bytes_eqb_true in E; exact E | exact IH].
  Qed.

  Lemma const_go_name_id n v : const_go_name S d n v = enum_const n v.
  Proof.
    destruct declared_parts as (_ & N2 & _ & F2).
    unfold const_go_name. rewrite enum_go_name_id.
    change (n ++ const_suffix v) with (enum_const n v).
    unfold const_name_map. rewrite enum_map_is. cbn [snd]. change (schema_enums S) with (enumsS S).
    set (base := fun nv : name * name => enum_go_name S d (fst nv) ++ const_suffix (snd nv)).
    set (ckeys := flat_map (fun e : name * list name => map (fun v0 => (fst e, v0)) (snd e)) (enumsS S)).
    assert (Eb : forall nv, base nv = enum_const (fst nv) (snd nv)) by (intros nv; unfold base; rewrite enum_go_name_id; reflexivity).
    assert (Em' : forall l, map base (flat_map (fun e : name * list name => map (fun v0 => (fst e, v0)) (snd e)) l) = flat_map consts_of l).
    { induction l as [|e r IH]; [reflexivity|]. simpl. rewrite map_app, IH. f_equal.
      unfold consts_of. rewrite map_map. apply map_ext. intros v0. rewrite Eb. reflexivity. }
    assert (Em : map base ckeys = flat_map consts_of (enumsS S)) by (apply Em').
    rewrite (assign_gen_free base ckeys).
    2: { pose proof N2 as X. rewrite <- Em in X. exact X. }
    2: { intros k Hk. apply F2. pose proof (in_map base ckeys k Hk) as X. rewrite Em in X. exact X. }
    cbn [fst app]. clear Em. induction ckeys as [|[a b] r IH]; simpl; [reflexivity|].
    destruct (bytes_eqb a n && bytes_eqb b v) eqn:E; [|exact IH].
    apply andb_true_iff in E as [E1 E2]. apply bytes_eqb_true in E1. apply bytes_eqb_true in E2. subst a b. rewrite Eb. reflexivity.
  Qed.
End DeclNames.

(** ** whole documents *)
Section DocAgree.
  Variable S : schema.
  Variable d : document.
  Hypothesis Henv : env S d = true.
  Hypothesis Hmc : excl_member_clash S d = false.
  Hypothesis Hsafe : decl_safe S d = true.

  Let frs := d_frags d.
  Let fragTypes := map (fun f => (fr_name f, fr_cond f)) frs.
  Let fuel := Datatypes.S (doc_size d).

  Lemma process_defs_agree : forall defs st out e,
    Forall (def_ok S frs fuel) defs -> (forall x, In x defs -> SelsIn (KeysD d) (DashD S d) (snd (fst x))) ->
    process_defs_s S fragTypes (enum_go_name S d) (const_go_name S d) fuel defs st out e =
    process_defs no_quirks S fuel fragTypes defs st out e.
  Proof.
    destruct (decl_safe_elim S d Hsafe) as (_ & _ & _ & _ & _ & D6 & _).
    assert (HS : schema_ok S = true) by (unfold env in Henv; do 3 (apply andb_true_iff in Henv as [Henv _]); exact Henv).
    assert (HDash : forall k, In k (DashD S d) -> starts_uu k = false) by (intros k Hk; apply (D6 k Hk)).
    assert (HComp : incl (composites S) (DashD S d)) by (intros x Hx; unfold DashD; apply in_app_iff; left; exact Hx).
    induction defs as [|[[root sels] dname] rest IH]; intros st out e Hok Hs; [reflexivity|].
    inversion Hok as [|? ? [r [dn [Hr [Hdn [Ha Hsz]]]]] Hok']; subst. cbn [fst snd] in Hr, Hdn, Ha, Hsz. subst root dname.
    assert (Hs' : forall x, In x rest -> SelsIn (KeysD d) (DashD S d) (snd (fst x))) by (intros x Hx; apply Hs; right; exact Hx).
    cbn [process_defs process_defs_s].
    assert (Hcr : composite S r = true).
    { pose proof Ha as Ha2. unfold sel_fuel in Ha2. rewrite all_structs_S in Ha2. apply andb_true_iff in Ha2 as [He _]. unfold EL2 in He.
      apply andb_true_iff in He as [Hel _]. apply (env_local_elim _ _ _ _ Hel). }
    unfold fragTypes. rewrite (gen_agree S frs HS (KeysD d) (DashD S d) HDash HComp (enum_go_name S d) (const_go_name S d)
                                         (enum_go_name_id S d Hsafe) (const_go_name_id S d Hsafe) fuel r sels st).
    - fold fragTypes. destruct (gen_named no_quirks S fragTypes fuel r sels st) as [[[core b] st1]| | |]; try reflexivity; apply IH; assumption.
    - intros _. exists (sel_fuel sels). split; [exact Ha | apply (Hs _ (or_introl eq_refl))].
    - intros Hc. rewrite Hcr in Hc. discriminate.
  Qed.

  Theorem generate_agree : generate_s S (doc_valid S d) d = generate no_quirks S (doc_valid S d) d.
  Proof.
    unfold generate_s, generate, generate_raw_s, generate_raw.
    destruct (doc_valid S d); [|reflexivity]. cbn [negb].
    fold frs. fold fragTypes. fold fuel.
    rewrite (process_defs_agree (defs_of S d) _ _ _ (defs_ok S d Henv Hmc) (defs_SelsIn S d)). reflexivity.
  Qed.

  Theorem generate_real_agree D : schema_loadable S = true ->
    generate_real D S (doc_valid S d) d = generate_cli no_quirks S (doc_valid S d) d.
  Proof.
    intros HL. rewrite generate_real_unfold. unfold generate_cli. rewrite (load_schema_roundtrip S HL). apply generate_agree.
  Qed.
End DocAgree.
