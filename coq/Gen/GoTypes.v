(** * Gen/GoTypes.v — the abstract Go types gql-client-gen emits (C20), Go values of those types,
    and the leaves of a value.

    The generator's output is Go source text; the model produces this abstract form of the same
    declarations instead.  No proofs in this file. *)
From Coq Require Import List NArith ZArith Bool String Ascii.
From ApiFu Require Import Base.Sexp.
Import ListNotations.
Open Scope list_scope.
Open Scope N_scope.

Definition name := bytes.

(** byte strings from Coq string literals (construction only; never pattern-matched) *)
Fixpoint bs (s : string) : bytes :=
  match s with
  | EmptyString => []
  | String c r => N_of_ascii c :: bs r
  end.

(** ** ASCII helpers (GraphQL names are ASCII letters, digits and underscores) *)
Definition is_lower (c : N) : bool := (97 <=? c) && (c <=? 122).
Definition is_upper (c : N) : bool := (65 <=? c) && (c <=? 90).
Definition is_letter (c : N) : bool := is_lower c || is_upper c.
Definition is_digit (c : N) : bool := (48 <=? c) && (c <=? 57).
Definition upper (c : N) : N := if is_lower c then c - 32 else c.
Definition lower (c : N) : N := if is_upper c then c + 32 else c.
Definition lower_bytes (s : bytes) : bytes := map lower s.

(** [strings.EqualFold] on ASCII *)
Definition equal_fold (a b : bytes) : bool := bytes_eqb (lower_bytes a) (lower_bytes b).

(** lexicographic order on byte strings (Go's string comparison) *)
Fixpoint bytes_leb (a b : bytes) : bool :=
  match a, b with
  | [], _ => true
  | _ :: _, [] => false
  | x :: xs, y :: ys => if x <? y then true else if y <? x then false else bytes_leb xs ys
  end.

Definition mem (x : bytes) (l : list bytes) : bool := existsb (bytes_eqb x) l.

(** ** Abstract Go types *)

(** struct tags as the generator writes them: none, [`json:"-"`], [`json:"k"`], or both
    (two back-quoted tags after one field: not Go syntax) *)
Inductive gotag := TagNone | TagDash | TagKey (k : name) | TagBoth (k : name).

(** one statement group of a generated [UnmarshalJSON] after [*s = base]:
    [UAlways f]            [json.Unmarshal(b, &s.f)]
    [USwitch tn oks f]     [switch base.tn { case oks...: json.Unmarshal(b, &s.f) }] *)
Inductive ustep := UAlways (f : name) | USwitch (tn : name) (oks : list name) (f : name).

Inductive gotype :=
| GString | GInt | GFloat | GBool
| GIface                       (* interface{} *)
| GEmpty                       (* the empty string where a type is expected *)
| GEnum (n : name)             (* [type n string], declared by the enum block *)
| GScalar (n : name)           (* a custom scalar's name used verbatim (never declared) *)
| GPtr (t : gotype)
| GSlice (t : gotype)
| GStruct (fs : list (name * gotag * gotype))
| GSel (tname : name) (idx : N) (fs : list (name * gotag * gotype)) (steps : list ustep)
    (* the named type "sel<tname><idx>" together with its declaration:
       [type sel.. struct{fs}] and the [UnmarshalJSON] made of [steps] *)
| GFragRef (f : name).         (* the named type "<f>Fragment", declared by a [generateTypeDef] *)

Definition gofield : Type := name * gotag * gotype.
Definition gf_name (f : gofield) : name := fst (fst f).
Definition gf_tag (f : gofield) : gotag := snd (fst f).
Definition gf_type (f : gofield) : gotype := snd f.

(** [generateTypeDef name original]: [type name original], plus a forwarding [UnmarshalJSON]
    when [original] is a bare identifier *)
Record typedefn := { td_name : name; td_forward : bool; td_type : gotype }.

Record program := {
  p_enums : list (name * list (name * name));   (* enum type, its (constant name, value) pairs *)
  p_defs : list typedefn;
  p_json : bool                                  (* requiresJSONImport *)
}.

Definition lookup_def (p : program) (n : name) : option typedefn :=
  find (fun d => bytes_eqb (td_name d) n) (p_defs p).

Definition frag_type_name (f : name) : name := (f ++ bs "Fragment")%list.
Definition data_type_name (op : name) : name := (op ++ bs "Data")%list.

(** ** Go values of these types *)

(** numbers in the canonical form the harness gives them (both for what the server sent and for
    what the decoder produced): an integer, or the IEEE-754 bits of a non-integral float64 *)
Inductive numv := NI (z : Z) | NF (bits : N).

Inductive goval :=
| VNil                                  (* nil pointer *)
| VPtr (v : goval)
| VNilSlice
| VSlice (l : list goval)
| VStr (s : bytes)
| VInt (z : Z)
| VFloat (n : numv)
| VBool (b : bool)
| VStruct (fs : list (name * gotag * goval)).

(** ** Leaves *)
Inductive pstep := PKey (k : bytes) | PFrag (f : bytes) | PIdx (i : N).
Definition path := list pstep.
Inductive leaf := LNull | LEmpty | LBool (b : bool) | LStr (s : bytes) | LNum (n : numv).

Definition prefix (s : pstep) (l : list (path * leaf)) : list (path * leaf) :=
  map (fun pl => (s :: fst pl, snd pl)) l.

Fixpoint indexed {A} (i : N) (l : list A) : list (N * A) :=
  match l with
  | [] => []
  | x :: xs => (i, x) :: indexed (i + 1) xs
  end.

(** the label under which the leaves below a fragment are listed: the lower-cased name of the Go
    field that holds the fragment, without leading and trailing underscores (the generator moves a
    leading "__" of the name to the end, and may append underscores to make the field name unique)
    = the lower-cased type condition / fragment name, without leading and trailing underscores *)
Fixpoint strip_us_rev (r : bytes) : bytes :=
  match r with
  | c :: r' => if (c =? 95)%N then strip_us_rev r' else r
  | [] => []
  end.
Definition strip_us (l : bytes) : bytes := rev (strip_us_rev (rev l)).
Definition frag_label (n : bytes) : bytes := strip_us_rev (strip_us (lower_bytes n)).

(** the (path, leaf) pairs of a decoded value, as the decode program's reflection walk lists them *)
Fixpoint leaves (v : goval) : list (path * leaf) :=
  match v with
  | VNil => [([], LNull)]
  | VPtr v' => leaves v'
  | VNilSlice => [([], LNull)]
  | VSlice [] => [([], LEmpty)]
  | VSlice l =>
      (fix go (i : N) (l : list goval) : list (path * leaf) :=
         match l with
         | [] => []
         | x :: xs => prefix (PIdx i) (leaves x) ++ go (i + 1) xs
         end) 0 l
  | VStr s => [([], LStr s)]
  | VInt z => [([], LNum (NI z))]
  | VFloat n => [([], LNum n)]
  | VBool b => [([], LBool b)]
  | VStruct fs =>
      (fix go (fs : list (name * gotag * goval)) : list (path * leaf) :=
         match fs with
         | [] => []
         | (n, tg, x) :: rest =>
             (match tg with
              | TagDash | TagBoth _ =>
                  match x with
                  | VNil => []
                  | _ => prefix (PFrag (frag_label n)) (leaves x)
                  end
              | TagKey k => prefix (PKey (lower_bytes k)) (leaves x)
              | TagNone => prefix (PKey (lower_bytes n)) (leaves x)
              end) ++ go rest
         end) fs
  end.

(** ** Decidable equalities used by the checker *)
Definition numv_eqb (a b : numv) : bool :=
  match a, b with
  | NI x, NI y => Z.eqb x y
  | NF x, NF y => N.eqb x y
  | _, _ => false
  end.

Definition leaf_eqb (a b : leaf) : bool :=
  match a, b with
  | LNull, LNull => true
  | LEmpty, LEmpty => true
  | LBool x, LBool y => Bool.eqb x y
  | LStr x, LStr y => bytes_eqb x y
  | LNum x, LNum y => numv_eqb x y
  | _, _ => false
  end.

Definition pstep_eqb (a b : pstep) : bool :=
  match a, b with
  | PKey x, PKey y => bytes_eqb x y
  | PFrag x, PFrag y => bytes_eqb x y
  | PIdx x, PIdx y => N.eqb x y
  | _, _ => false
  end.

Fixpoint path_eqb (a b : path) : bool :=
  match a, b with
  | [], [] => true
  | x :: xs, y :: ys => pstep_eqb x y && path_eqb xs ys
  | _, _ => false
  end.

Definition pl_eqb (a b : path * leaf) : bool := path_eqb (fst a) (fst b) && leaf_eqb (snd a) (snd b).
