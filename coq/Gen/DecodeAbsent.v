(** * Gen/DecodeAbsent.v — C20: a key that is absent from a response object leaves the zero value.

    @include / @skip (which the generator ignores when it builds the types) make the executor
    leave out the keys of the selections that are skipped.  In the model of encoding/json, as in
    encoding/json, decoding an object into a struct starts from the zero struct and writes one
    field per key that names it: a field no key of the object is decoded into holds the zero value
    of its type afterwards ([decode_struct_absent]). *)
From Coq Require Import List NArith Bool String Lia.
From ApiFu Require Import Base.Sexp Gen.GoTypes Gen.DecodeModel.
Import ListNotations.

Lemma nth_error_set_nth_other {A} (x : A) : forall l i j, i <> j -> nth_error (set_nth j x l) i = nth_error l i.
Proof.
  induction l as [|y r IH]; intros i j Hij; [destruct j; reflexivity|].
  destruct j as [|j]; destruct i as [|i]; simpl; try reflexivity; [contradiction|]. apply IH. intro E. apply Hij. rewrite E. reflexivity.
Qed.

Lemma nth_error_set_field_other i j v sv : i <> j -> nth_error (set_field j v sv) i = nth_error sv i.
Proof.
  intros Hij. unfold set_field. destruct (nth_error sv j) as [[[n tg] old]|]; [|reflexivity].
  apply nth_error_set_nth_other. exact Hij.
Qed.

Lemma decode_kvs_untouched dec fs i : forall kvs written sv sv',
  decode_kvs dec fs kvs written sv = DOk sv' ->
  (forall k v, In (k, v) kvs -> field_for_key fs k <> Some i) ->
  nth_error sv' i = nth_error sv i.
Proof.
  induction kvs as [|[k v] rest IH]; intros written sv sv' H Hno; simpl in H; [inversion H; reflexivity|].
  assert (Hrest : forall k0 v0, In (k0, v0) rest -> field_for_key fs k0 <> Some i) by (intros k0 v0 Hi; apply (Hno k0 v0); right; exact Hi).
  destruct (field_for_key fs k) as [j|] eqn:Ef; [|apply (IH _ _ _ H Hrest)].
  destruct (existsb (Nat.eqb j) written); [discriminate|].
  destruct (nth_error fs j) as [fld|]; [|discriminate].
  destruct (dec (gf_type fld) v) as [x| | |]; simpl in H; try discriminate.
  rewrite (IH _ _ _ H Hrest). apply nth_error_set_field_other.
  intro E. subst j. apply (Hno k v (or_introl eq_refl)). exact Ef.
Qed.

(** a field that no key of the object is decoded into holds the zero value of its type *)
Theorem decode_struct_absent dec fs kvs sv' i fld :
  decode_struct dec fs (JObj kvs) = DOk sv' ->
  nth_error fs i = Some fld ->
  (forall k v, In (k, v) kvs -> field_for_key fs k <> Some i) ->
  nth_error sv' i = Some (gf_name fld, gf_tag fld, zero (gf_type fld)).
Proof.
  intros H Hf Hno. unfold decode_struct in H. rewrite (decode_kvs_untouched dec fs i kvs [] _ _ H Hno).
  unfold zero_fields. rewrite nth_error_map, Hf. reflexivity.
Qed.
