Require Import Coq.extraction.Extraction.
Require Import Coq.extraction.ExtrOcamlBasic.
From ApiFu Require Import Base.Sexp Transport.EnvelopeCheck.
Extraction Language OCaml.
Extraction "c17.ml" EnvelopeCheck.check.
