Require Import Coq.extraction.Extraction.
Require Import Coq.extraction.ExtrOcamlBasic.
From ApiFu Require Import Base.Sexp Ws.WsCheck.
Extraction Language OCaml.
Extraction "c08.ml" WsCheck.check.
