Require Import Coq.extraction.Extraction.
Require Import Coq.extraction.ExtrOcamlBasic.
From ApiFu Require Import Base.Sexp Exe.ExecCheck.
Extraction Language OCaml.
Extraction "c01.ml" ExecCheck.check.
