Require Import Coq.extraction.Extraction.
Require Import Coq.extraction.ExtrOcamlBasic.
From ApiFu Require Import Base.Sexp ExeA.ArgCheck.
Extraction Language OCaml.
Extraction "c01.ml" ArgCheck.check.
