Require Import Coq.extraction.Extraction.
Require Import Coq.extraction.ExtrOcamlBasic.
From ApiFu Require Import Base.Sexp Fut.FutCheck.
Extraction Language OCaml.
Extraction "c02.ml" FutCheck.check.
