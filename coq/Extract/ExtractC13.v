Require Import Coq.extraction.Extraction.
Require Import Coq.extraction.ExtrOcamlBasic.
From ApiFu Require Import Base.Sexp Feat.FeaturesCheck.
Extraction Language OCaml.
Extraction "c13.ml" FeaturesCheck.check.
