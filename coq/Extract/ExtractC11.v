Require Import Coq.extraction.Extraction.
Require Import Coq.extraction.ExtrOcamlBasic.
From ApiFu Require Import Base.Sexp Serial.SerialCheck.
Extraction Language OCaml.
Extraction "c11.ml" SerialCheck.check.
