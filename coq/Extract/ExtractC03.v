Require Import Coq.extraction.Extraction.
Require Import Coq.extraction.ExtrOcamlBasic.
From ApiFu Require Import Base.Sexp Pipe.ComposeCheck.
Extraction Language OCaml.
Extraction "c03.ml" ComposeCheck.check.
