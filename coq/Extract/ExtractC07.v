Require Import Coq.extraction.Extraction.
Require Import Coq.extraction.ExtrOcamlBasic.
From ApiFu Require Import Base.Sexp Lex.LexCheck.
Extraction Language OCaml.
Extraction "c07.ml" LexCheck.check.
