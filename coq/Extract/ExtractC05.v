Require Import Coq.extraction.Extraction.
Require Import Coq.extraction.ExtrOcamlBasic.
From ApiFu Require Import Base.Sexp Val.CoerceCheck.
Extraction Language OCaml.
Extraction "c05.ml" CoerceCheck.check.
