Require Import Coq.extraction.Extraction.
Require Import Coq.extraction.ExtrOcamlBasic.
From ApiFu Require Import Base.Sexp Cplx.ComplexityCheck.
Extraction Language OCaml.
Extraction "c12.ml" ComplexityCheck.check.
