Require Import Coq.extraction.Extraction.
Require Import Coq.extraction.ExtrOcamlBasic.
From ApiFu Require Import Base.Sexp Api.PersistedQueryCheck.
Extraction Language OCaml.
Extraction "c18.ml" PersistedQueryCheck.check.
