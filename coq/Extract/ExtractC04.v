Require Import Coq.extraction.Extraction.
Require Import Coq.extraction.ExtrOcamlBasic.
From ApiFu Require Import Base.Sexp Vld.ValidatorCheck.
Extraction Language OCaml.
Extraction "c04.ml" ValidatorCheck.check.
