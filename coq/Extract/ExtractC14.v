Require Import Coq.extraction.Extraction.
Require Import Coq.extraction.ExtrOcamlBasic.
From ApiFu Require Import Base.Sexp Cost.CostCheck.
Extraction Language OCaml.
Extraction "c14.ml" CostCheck.check.
