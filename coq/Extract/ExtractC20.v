Require Import Coq.extraction.Extraction.
Require Import Coq.extraction.ExtrOcamlBasic.
From ApiFu Require Import Base.Sexp Gen.ClientGenCheck.
Extraction Language OCaml.
Extraction "c20.ml" ClientGenCheck.check.
