Require Import Coq.extraction.Extraction.
Require Import Coq.extraction.ExtrOcamlBasic.
From ApiFu Require Import Base.Sexp TimeConn.TimeCheck.
Extraction Language OCaml.
Extraction "c16.ml" TimeCheck.check.
