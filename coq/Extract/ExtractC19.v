Require Import Coq.extraction.Extraction.
Require Import Coq.extraction.ExtrOcamlBasic.
From ApiFu Require Import Base.Sexp JsonApi.JsonApiCheck.
Extraction Language OCaml.
Extraction "c19.ml" JsonApiCheck.check.
