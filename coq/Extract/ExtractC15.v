Require Import Coq.extraction.Extraction.
Require Import Coq.extraction.ExtrOcamlBasic.
From ApiFu Require Import Base.Sexp Idle.IdleCheck.
Extraction Language OCaml.
Extraction "c15.ml" IdleCheck.check.
