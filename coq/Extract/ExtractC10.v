Require Import Coq.extraction.Extraction.
Require Import Coq.extraction.ExtrOcamlBasic.
From ApiFu Require Import Base.Sexp Intro.IntrospectCheck.
Extraction Language OCaml.
Extraction "c10.ml" IntrospectCheck.check.
