Require Import Coq.extraction.Extraction.
Require Import Coq.extraction.ExtrOcamlBasic.
From ApiFu Require Import Base.Sexp Relay.RelayCheck.
Extraction Language OCaml.
Extraction "c09.ml" RelayCheck.check.
