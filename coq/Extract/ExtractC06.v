Require Import Coq.extraction.Extraction.
Require Import Coq.extraction.ExtrOcamlBasic.
From ApiFu Require Import Base.Sexp Syn.ParserCheck.
Extraction Language OCaml.
Extraction "c06.ml" ParserCheck.check.
