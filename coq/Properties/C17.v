(** * C17 — every transport yields the same response for the same operation.
    This file contains only statements closed by [exact] and their [Print Assumptions].

    Vocabulary (Transport/EnvelopeModel.v, Transport/EnvelopeSpec.v):
    - [op] = (query, variables, operationName); [wf_op]: the variables are a value a Go map can hold;
    - [encode render t id o]: the canonical envelope by which a client submits [o] over transport [t]
      (GET parameters / POST json body / POST graphql body / POST json with ?query= /
       graphql-ws start / graphql-transport-ws subscribe); [carries t o]: [t] has room for [o];
    - [decode qk parse_std parse_jsi w]: what NewRequestFromHTTP resp. the socket dispatcher reads
      from envelope [w] ([fixed] = the repaired code, [pinned] = the tree as found);
    - [respond ... t a c id o]: the marshalled response payload(s) a client gets for [o] over [t] from API
      [a] in a session with context [c], together with the calls made into the (abstract) pipeline;
    - [http_well_formed], [ws_well_formed]: the envelope is JSON of the right shape, with a supported
      method and content type.

    FULL STATEMENT of the property, for reference: for every API configuration and every
    (query, variables, operationName), the canonical response via [t] is the same for all
    transports that can carry the request, with and without the clone path; every malformed envelope
    gets a 4xx status and leaves the resolver log empty.
    What is proved here is that statement for the transcription of the envelope code over an
    *abstract* pipeline (parser, validator, cost rule, executor are section variables: the point is
    that every transport calls the same functions with the same arguments).  PARTIAL, and named as
    hypotheses below: (1) the JSON text layer (encoding/json on HTTP, jsoniter on the sockets,
    net/url, mime) is not modelled — [std_faithful], [jsi_faithful]: both parsers read back what the
    client's serialiser wrote; (2) the clone path — [schema_obs_eq]: the schema built from the
    preprocessed clone is observationally equal to the one built directly (property C10's subject);
    (3) PersistedQueryExtension is the identity on requests without extensions (proved in C18).
    All three are exercised on every run by the correspondence check. *)
From Coq Require Import List NArith ZArith Bool.
From ApiFu Require Import Base.Sexp Transport.EnvelopeModel Transport.EnvelopeSpec Transport.EnvelopeProofs.
From ApiFu Require Import Transport.JsonText Transport.JsonTextProofs Transport.EnvelopeCompose.
From ApiFu Require Import Transport.WireModel Transport.WireProofs Transport.InitModel Transport.InitProofs.
From ApiFu Require Import Transport.StreamModel Transport.StreamProofs.
From ApiFu Require Api.PersistedQueryModel.
Import ListNotations.

Section C17.
  (** the JSON text layer (trusted, exercised): a client serialiser and the two server parsers *)
  Variable render : json -> bytes.
  Variable parse_std parse_jsi : bytes -> jparse.
  Variable clean : json -> Prop.
  Hypothesis std_faithful : forall j, clean j -> parse_std (render j) = PTree j.
  Hypothesis jsi_faithful : forall j, clean j -> parse_jsi (render j) = PTree j.
  Hypothesis render_nonempty : forall j, clean j -> is_empty (render j) = false.

  (** ** envelope_roundtrip_t: decoding is a left inverse of the canonical encoding *)

  (** HTTP GET carries every operation (URL length limits are outside the model) *)
  Theorem C17_envelope_roundtrip_get : forall id o,
    wf_op o = true -> (forall j, In j (sent_json HttpGet o) -> clean j) ->
    decode fixed parse_std parse_jsi (encode render HttpGet id o) = Some (o, None).
  Proof. exact (roundtrip_get render parse_std parse_jsi clean std_faithful render_nonempty). Qed.

  (** HTTP POST application/json carries every operation *)
  Theorem C17_envelope_roundtrip_post_json : forall id o,
    wf_op o = true -> (forall j, In j (sent_json HttpPostJson o) -> clean j) ->
    decode fixed parse_std parse_jsi (encode render HttpPostJson id o) = Some (o, None).
  Proof. exact (roundtrip_post_json render parse_std parse_jsi clean std_faithful). Qed.

  (** HTTP POST application/graphql carries a query without variables and operation name *)
  Theorem C17_envelope_roundtrip_post_graphql : forall id o,
    carries HttpPostGraphql o = true ->
    decode fixed parse_std parse_jsi (encode render HttpPostGraphql id o) = Some (o, None).
  Proof. exact (roundtrip_post_graphql render parse_std parse_jsi). Qed.

  (** graphql-ws start and graphql-transport-ws subscribe carry every operation *)
  Theorem C17_envelope_roundtrip_graphql_ws : forall id o,
    wf_op o = true -> (forall j, In j (sent_json WsGraphqlWs o) -> clean j) ->
    decode fixed parse_std parse_jsi (encode render WsGraphqlWs id o) = Some (o, None).
  Proof. exact (roundtrip_ws render parse_std parse_jsi clean jsi_faithful GraphqlWS). Qed.

  Theorem C17_envelope_roundtrip_graphql_transport_ws : forall id o,
    wf_op o = true -> (forall j, In j (sent_json WsTransportWs o) -> clean j) ->
    decode fixed parse_std parse_jsi (encode render WsTransportWs id o) = Some (o, None).
  Proof. exact (roundtrip_ws render parse_std parse_jsi clean jsi_faithful TransportWS). Qed.

  (** the sixth shape the code declares (POST application/json with the query in the URL; this is
      where defect 24 was), and all six at once *)
  Theorem C17_envelope_roundtrip : forall t id o,
    wf_op o = true -> carries t o = true -> (forall j, In j (sent_json t o) -> clean j) ->
    decode fixed parse_std parse_jsi (encode render t id o) = Some (o, None).
  Proof. exact (envelope_roundtrip render parse_std parse_jsi clean std_faithful jsi_faithful render_nonempty). Qed.

  (** ** the decoders accept exactly the well-formed envelopes; every refusal is a 4xx *)
  Theorem C17_http_accepts_iff_well_formed : forall e,
    (exists r, new_request_from_http fixed parse_std e = Accept r) <-> http_well_formed parse_std e = true.
  Proof. exact (http_accept_iff_well_formed parse_std). Qed.

  Theorem C17_http_refusal_is_4xx : forall e c,
    new_request_from_http fixed parse_std e = Reject c -> (c = 400 \/ c = 405)%Z.
  Proof. exact (http_reject_4xx parse_std fixed). Qed.

  Theorem C17_ws_start_iff_well_formed : forall p f,
    f_type f = start_type p ->
    (exists id q v n, handle_message parse_jsi p true (Some f) = WsStart id q v n) <-> ws_well_formed parse_jsi (Some f) = true.
  Proof. exact (ws_start_iff_well_formed parse_jsi). Qed.

  (** ** beyond the canonical envelopes: the same text — any bytes — read as POST application/json
      body (no ?query=) and as start / subscribe payload gives the same operation (both are decoded
      by encoding/json since the repair; before it the sockets used jsoniter, see
      [C17_ws_payload_library_refuted_before_fix]) *)
  Theorem C17_post_body_and_ws_payload_agree : forall text p id o x,
    decode fixed parse_std parse_std (WHttp {| e_method := m_post; e_media := mt_json; e_url := []; e_body := text |}) = Some (o, x) ->
    decode fixed parse_std parse_std (WWs p {| f_type := start_type p; f_id := id; f_payload := Some text |}) = Some (o, None).
  Proof. exact (post_body_and_ws_payload_agree parse_std). Qed.

  (** ** the pipeline behind the envelopes: abstract *)
  Variables Schema Features Ctx Doc Resp SchemaDef : Type.
  Variable no_features : Features.
  Variable parse_validate : Schema -> Features -> Z * Z -> bytes -> bytes -> option gomap -> pv_result Doc Resp.
  Variable is_subscription : Doc -> bytes -> bool.
  Variable execute : bool -> Schema -> exec_request Features Doc -> Z -> Resp.
  Variable run_subscription : bool -> Schema -> exec_request Features Doc -> Z -> list Resp.
  Variable pq_ext : (request -> Resp * list (event Features Ctx Doc)) -> request -> Resp * list (event Features Ctx Doc).
  Variable marshal : Resp -> option bytes.      (* jsoniter.Marshal; None = does not marshal (HTTP 500 / no data frame) *)
  Variable build : SchemaDef -> Schema.
  Variable clone : SchemaDef -> SchemaDef.
  (** C18 ([C18_disabled_equiv]): no extensions, no effect; and the wrapper only calls its argument *)
  Hypothesis pq_no_ext : forall ex r, r_ext r = None -> pq_ext ex r = ex r.
  Hypothesis pq_ext_ext : forall ex1 ex2, (forall r, ex1 r = ex2 r) -> forall r, pq_ext ex1 r = pq_ext ex2 r.

  Let resp := respond no_features parse_validate is_subscription execute run_subscription pq_ext marshal fixed parse_std parse_jsi render.
  Let serve := serve_graphql no_features parse_validate execute pq_ext marshal fixed parse_std.
  Let servews := serve_ws (Ctx := Ctx) parse_validate is_subscription execute run_subscription marshal parse_jsi.

  (** ** transport_same_response: for every API (any feature function, default cost, Execute hook,
      persisted-query storage), session context and operation that is not a subscription and whose
      response marshals (C03), any two transports that can carry it deliver the same response bytes
      and make the same calls into the pipeline (same features, same cost rule inputs, same request
      for the executor) *)
  Theorem C17_transport_same_response : forall t1 t2 (a : api Schema Features Ctx) c id1 id2 o,
    wf_op o = true -> carries t1 o = true -> carries t2 o = true ->
    (forall j, In j (sent_json t1 o) \/ In j (sent_json t2 o) -> clean j) ->
    (forall d cost, parse_validate (a_schema a) (features_of no_features a c) (a_default_cost a) (o_query o) (o_opname o) (o_vars o) = PVOk d cost ->
                    is_subscription d (o_opname o) = false) ->
    (forall r tr, validate_execute parse_validate execute a (features_of no_features a c) (request_of o) = (r, tr) -> marshal r <> None) ->
    resp t1 a c id1 o = resp t2 a c id2 o /\ exists body, fst (resp t1 a c id1 o) = Some [body].
  Proof.
    exact (transport_same_response Schema Features Ctx Doc Resp no_features parse_validate is_subscription execute run_subscription
             pq_ext marshal render parse_std parse_jsi clean std_faithful jsi_faithful render_nonempty pq_no_ext).
  Qed.

  (** subscriptions exist on the sockets only; the two socket protocols agree on every operation *)
  Theorem C17_ws_same_response : forall (a : api Schema Features Ctx) c id o,
    wf_op o = true -> clean (body_json true o) ->
    resp WsGraphqlWs a c id o = resp WsTransportWs a c id o.
  Proof.
    exact (ws_same_response Schema Features Ctx Doc Resp no_features parse_validate is_subscription execute run_subscription
             pq_ext marshal render parse_std parse_jsi clean std_faithful jsi_faithful render_nonempty).
  Qed.

  (** feature plumbing: on every transport the validator and the executor get exactly
      [Config.Features(session context)] (or the empty set when no function is configured) *)
  Theorem C17_transport_features : forall t (a : api Schema Features Ctx) c id o,
    wf_op o = true -> carries t o = true -> (forall j, In j (sent_json t o) -> clean j) ->
    forall ev, In ev (snd (resp t a c id o)) ->
      match ev with
      | EvFeatures c' => c' = c /\ a_features a <> None
      | EvValidate f _ _ _ => f = features_of no_features a c
      | EvExecute x _ | EvSubscribe x _ => x_features x = features_of no_features a c
      end.
  Proof.
    exact (transport_features Schema Features Ctx Doc Resp no_features parse_validate is_subscription execute run_subscription
             pq_ext marshal render parse_std parse_jsi clean std_faithful jsi_faithful render_nonempty pq_no_ext).
  Qed.

  (** ** envelope_malformed_4xx_no_exec: bad JSON, a JSON value of the wrong shape, an unsupported
      content type or method: a 4xx status and no call into the pipeline (the event list is empty) *)
  Theorem C17_envelope_malformed_4xx_no_exec : forall (a : api Schema Features Ctx) c e,
    http_well_formed parse_std e = false ->
    exists code, serve a c e = (HttpError code, []) /\ (400 <= code < 500)%Z.
  Proof. exact (malformed_http_4xx_no_exec Schema Features Ctx Doc Resp no_features parse_validate execute pq_ext marshal parse_std). Qed.

  (** sockets: a start / subscribe message that is not well formed (or arrives before
      connection_init, or is no message at all) is ignored or closes the connection with 4400 *)
  Theorem C17_envelope_malformed_ws_no_exec : forall (a : api Schema Features Ctx) p di hf fo,
    (match fo with Some f => f_type f = start_type p | None => True end) ->
    di && ws_well_formed parse_jsi fo = false ->
    servews a p di hf fo = (WsNothing, []) \/ servews a p di hf fo = (WsCloses 4400, []).
  Proof. exact (malformed_ws_no_exec Schema Features Ctx Doc Resp parse_validate is_subscription execute run_subscription marshal parse_jsi). Qed.

  (** ** stage 2, the clone path: an API whose schema was built from the preprocessed clone answers
      every envelope of every transport like the API built directly — given that the two schemas
      are observationally equal *)
  Theorem C17_clone_same_response : forall (cfg : config Features Ctx SchemaDef) pre,
    schema_obs_eq parse_validate execute run_subscription (build (pre (clone (c_def cfg)))) (build (c_def cfg)) ->
    (forall c e, serve (api_of_config build clone (with_preprocess Features Ctx SchemaDef cfg (Some pre))) c e =
                 serve (api_of_config build clone (with_preprocess Features Ctx SchemaDef cfg None)) c e) /\
    (forall p di hf fo, servews (api_of_config build clone (with_preprocess Features Ctx SchemaDef cfg (Some pre))) p di hf fo =
                        servews (api_of_config build clone (with_preprocess Features Ctx SchemaDef cfg None)) p di hf fo).
  Proof.
    exact (clone_same_response Schema Features Ctx Doc Resp SchemaDef no_features parse_validate is_subscription execute run_subscription
             pq_ext marshal build clone parse_std parse_jsi pq_ext_ext).
  Qed.
End C17.

(** ** stage B: the JSON text layer inside the model.
    [parse_text fl numval] (Transport/JsonText.v) is a Gallina reader for the bytes of a body, URL
    parameter or payload as encoding/json ([StdJson]) resp. jsoniter ([Jsoniter]) reads them — the
    correspondence check runs it on the raw bytes of every envelope; [print numprint] is the canonical
    client serialiser.  What remains trusted of the text layer is the conversion of number tokens:
    [numprint] (the client's formatting of a float64) and [numval] (strconv.ParseFloat), tied by the
    four hypotheses below.  [tclean fl numclean j]: the numbers of [j] are [numclean], and (for
    encoding/json, which rewrites bytes that are not UTF-8) its strings and member names are valid
    UTF-8 ([utf8_ok]: exactly the sequences utf8.DecodeRune accepts).  [parse_json] is [parse_text]
    within the libraries' nesting limit (more than 10000 open arrays / objects: refused);
    [text_clean numprint numclean j] = [tclean StdJson numclean j] and the text of [j] stays within the limit.  Since the third repair every
    transport reads JSON with encoding/json. *)
Section C17Bytes.
  Variable numval : bytes -> option N.
  Variable numprint : N -> bytes.
  Variable numclean : N -> Prop.
  Hypothesis num_nonempty : forall b, numclean b -> numprint b <> [].
  Hypothesis num_chars : forall b, numclean b -> forallb num_char (numprint b) = true.
  Hypothesis num_grammar : forall b, numclean b -> num_ok (numprint b) = true.
  Hypothesis num_back : forall b, numclean b -> numval (numprint b) = Some b.

  (** the reader is a left inverse of the serialiser: every value, any nesting depth, both flavours *)
  Theorem C17_json_text_roundtrip : forall fl j,
    tclean fl numclean j -> parse_text fl numval (print numprint j) = PTree j.
  Proof. exact (fun fl => parse_print fl numval numprint numclean num_nonempty num_chars num_grammar num_back). Qed.

  (** envelope_roundtrip over bytes, all six shapes: the operation is read back from the bytes of its
      canonical envelope *)
  Theorem C17_envelope_roundtrip_bytes : forall t id o,
    wf_op o = true -> carries t o = true -> (forall j, In j (sent_json t o) -> text_clean numprint numclean j) ->
    decode fixed (parse_json StdJson numval) (parse_json StdJson numval) (encode (print numprint) t id o) = Some (o, None).
  Proof.
    exact (C17_envelope_roundtrip (print numprint) (parse_json StdJson numval) (parse_json StdJson numval) (text_clean numprint numclean)
             (std_faithful_bytes numval numprint numclean num_nonempty num_chars num_grammar num_back)
             (std_faithful_bytes numval numprint numclean num_nonempty num_chars num_grammar num_back)
             (render_nonempty_bytes_clean numprint numclean num_nonempty num_chars)).
  Qed.

  (** transport_same_response over bytes, composed with C18: the persisted-query wrapper is C18's
      model ([pq_of]: [PersistedQueryModel.step] on a storage in any state [st]); its two properties
      used here follow from C18's theorem ([disabled_equiv]) and are no longer hypotheses *)
  Theorem C17_transport_same_response_bytes :
    forall (Schema Features Ctx Doc Resp : Type) (no_features : Features)
           (parse_validate : Schema -> Features -> Z * Z -> bytes -> bytes -> option gomap -> pv_result Doc Resp)
           (is_subscription : Doc -> bytes -> bool)
           (execute : bool -> Schema -> exec_request Features Doc -> Z -> Resp)
           (run_subscription : bool -> Schema -> exec_request Features Doc -> Z -> list Resp)
           (marshal : Resp -> option bytes)
           (sha : bytes -> bytes) (not_found : Resp) (st : PersistedQueryModel.storage),
    let pq := pq_of Resp (event Features Ctx Doc) sha not_found st in
    let resp := respond no_features parse_validate is_subscription execute run_subscription pq marshal fixed
                        (parse_json StdJson numval) (parse_json StdJson numval) (print numprint) in
    forall t1 t2 (a : api Schema Features Ctx) c id1 id2 o,
    wf_op o = true -> carries t1 o = true -> carries t2 o = true ->
    (forall j, In j (sent_json t1 o) \/ In j (sent_json t2 o) -> text_clean numprint numclean j) ->
    (forall d cost, parse_validate (a_schema a) (features_of no_features a c) (a_default_cost a) (o_query o) (o_opname o) (o_vars o) = PVOk d cost ->
                    is_subscription d (o_opname o) = false) ->
    (forall r tr, validate_execute parse_validate execute a (features_of no_features a c) (request_of o) = (r, tr) -> marshal r <> None) ->
    resp t1 a c id1 o = resp t2 a c id2 o /\ exists body, fst (resp t1 a c id1 o) = Some [body].
  Proof.
    exact (fun Schema Features Ctx Doc Resp no_features parse_validate is_subscription execute run_subscription marshal sha not_found st =>
             C17_transport_same_response (print numprint) (parse_json StdJson numval) (parse_json StdJson numval) (text_clean numprint numclean)
               (std_faithful_bytes numval numprint numclean num_nonempty num_chars num_grammar num_back)
               (std_faithful_bytes numval numprint numclean num_nonempty num_chars num_grammar num_back)
               (render_nonempty_bytes_clean numprint numclean num_nonempty num_chars)
               Schema Features Ctx Doc Resp no_features parse_validate is_subscription execute run_subscription
               (pq_of Resp (event Features Ctx Doc) sha not_found st) marshal
               (pq_of_no_ext Resp (event Features Ctx Doc) sha not_found st)).
  Qed.
  (** ** the response side: the answer on the wire (Transport/WireModel.v).
      [wire_respond t a c id o]: what the client that submits [o] over [t] receives — HTTP: status,
      Content-Type, body ([http_frame]); a socket: the text frames sent for operation [id]
      ([ws_frame]: id, type data / next / complete, payload).  [frame_answer t id ps] is the
      transport's framing of the marshalled responses [ps].  Every GraphQL-level outcome (syntax /
      validation error, cost limit, execution error, PersistedQueryNotFound) is a response value:
      HTTP answers 200 application/json with it, a socket sends it in a data / next frame followed by
      complete; only a malformed envelope (4xx, text/plain) and a response that does not marshal (500 /
      no data frame) are framed differently.
      transport_same_response, strengthened: the two wire answers are the two framings of ONE response
      body, and the pipeline saw the same calls *)
  Theorem C17_transport_same_wire_answer :
    forall (Schema Features Ctx Doc Resp : Type) (no_features : Features)
           (parse_validate : Schema -> Features -> Z * Z -> bytes -> bytes -> option gomap -> pv_result Doc Resp)
           (is_subscription : Doc -> bytes -> bool)
           (execute : bool -> Schema -> exec_request Features Doc -> Z -> Resp)
           (run_subscription : bool -> Schema -> exec_request Features Doc -> Z -> list Resp)
           (marshal : Resp -> option bytes)
           (sha : bytes -> bytes) (not_found : Resp) (st : PersistedQueryModel.storage),
    let pq := pq_of Resp (event Features Ctx Doc) sha not_found st in
    let resp := respond no_features parse_validate is_subscription execute run_subscription pq marshal fixed
                        (parse_json StdJson numval) (parse_json StdJson numval) (print numprint) in
    let wire := wire_respond no_features parse_validate is_subscription execute run_subscription pq marshal fixed
                        (parse_json StdJson numval) (parse_json StdJson numval) (print numprint) in
    forall t1 t2 (a : api Schema Features Ctx) c id1 id2 o,
    wf_op o = true -> carries t1 o = true -> carries t2 o = true ->
    (forall j, In j (sent_json t1 o) \/ In j (sent_json t2 o) -> text_clean numprint numclean j) ->
    (forall d cost, parse_validate (a_schema a) (features_of no_features a c) (a_default_cost a) (o_query o) (o_opname o) (o_vars o) = PVOk d cost ->
                    is_subscription d (o_opname o) = false) ->
    (forall r tr, validate_execute parse_validate execute a (features_of no_features a c) (request_of o) = (r, tr) -> marshal r <> None) ->
    exists body,
      wire t1 a c id1 o = frame_answer t1 id1 [body] /\ wire t2 a c id2 o = frame_answer t2 id2 [body] /\
      snd (resp t1 a c id1 o) = snd (resp t2 a c id2 o).
  Proof.
    exact (fun Schema Features Ctx Doc Resp no_features parse_validate is_subscription execute run_subscription marshal sha not_found st =>
             transport_same_wire_answer (print numprint) (parse_json StdJson numval) (parse_json StdJson numval) (text_clean numprint numclean)
               (std_faithful_bytes numval numprint numclean num_nonempty num_chars num_grammar num_back)
               (std_faithful_bytes numval numprint numclean num_nonempty num_chars num_grammar num_back)
               (render_nonempty_bytes_clean numprint numclean num_nonempty num_chars)
               Schema Features Ctx Doc Resp no_features parse_validate is_subscription execute run_subscription
               (pq_of Resp (event Features Ctx Doc) sha not_found st) marshal
               (pq_of_no_ext Resp (event Features Ctx Doc) sha not_found st)).
  Qed.
End C17Bytes.

(** ** feature plumbing on a socket: connection_init (Transport/InitModel.v, graphqlWSHandler.HandleInit).
    A connection starts with the context [c0] of the upgrade request and the nil feature set; every
    connection_init message (also a repeated one) first lets Config.HandleGraphQLWSInit replace the
    context (an error refuses the init and closes the connection), then computes the feature set from
    the NEW context.  Hence the effective feature set of a socket operation is
    Config.Features(the context returned by the latest accepted init's hook) — and the transport
    theorems above, which describe a socket session by one context [c] ([handle_init a c]), apply with
    [c] = that context: a principal installed by the init hook gets the same answers as the same
    principal installed by HTTP middleware whenever Config.Features maps the two contexts to the same
    set ([C17_transport_same_response] takes one [c] for both). *)
Theorem C17_ws_effective_features :
  forall (Schema Features Ctx : Type) (no_features : Features) (hook : option (Ctx -> option bytes -> option Ctx))
         (a : api Schema Features Ctx) c0 inits st',
    inits <> [] -> run_inits hook false a (c0, no_features) inits = Some st' ->
    ctx_after hook c0 inits = Some (fst st') /\ snd st' = features_of no_features a (fst st').
Proof. exact ws_effective_features. Qed.

Theorem C17_ws_session_is_handle_init :
  forall (Schema Features Ctx : Type) (no_features : Features) (hook : option (Ctx -> option bytes -> option Ctx))
         (Doc : Type) (a : api Schema Features Ctx) c0 inits st',
    inits <> [] -> run_inits hook false a (c0, no_features) inits = Some st' ->
    snd st' = fst (handle_init (Doc := Doc) no_features a (fst st')).
Proof. exact ws_session_is_handle_init. Qed.

(** with the two steps of HandleInit swapped (seed C17-5) the feature set belongs to the context
    before the hook ran *)
Theorem C17_init_order_refuted_when_swapped :
  exists (a : api unit bool bool) (hook : option (bool -> option bytes -> option bool)) c0 inits st',
    inits <> [] /\ run_inits hook true a (c0, false) inits = Some st' /\
    snd st' <> features_of false a (fst st').
Proof. exact init_order_refuted_when_swapped. Qed.

(** ** the body of an HTTP request as a stream (Transport/StreamModel.v).  [delivered f sent]: what the
    handler can read when the client sends [sent] framed by [f] (Content-Length n / chunked with any
    chunk sizes) and whether the stream ends before the announced length.
    The framing does not matter as long as the bytes arrive: the same answer, the same calls *)
Theorem C17_body_framing_irrelevant :
  forall (Schema Features Ctx Doc Resp : Type) (no_features : Features)
         (parse_validate : Schema -> Features -> Z * Z -> bytes -> bytes -> option gomap -> pv_result Doc Resp)
         (execute : bool -> Schema -> exec_request Features Doc -> Z -> Resp)
         (pq_ext : (request -> Resp * list (event Features Ctx Doc)) -> request -> Resp * list (event Features Ctx Doc))
         (marshal : Resp -> option bytes) (parse : bytes -> jparse) (a : api Schema Features Ctx) c e,
    (forall f, delivered f (e_body e) = (e_body e, false) ->
       serve_graphql_wire no_features parse_validate execute pq_ext marshal parse a c e f =
       serve_graphql no_features parse_validate execute pq_ext marshal fixed parse a c e) /\
    (forall sizes, serve_graphql_wire no_features parse_validate execute pq_ext marshal parse a c e (Chunked sizes) =
       serve_graphql no_features parse_validate execute pq_ext marshal fixed parse a c e).
Proof.
  exact (fun Schema Features Ctx Doc Resp nf pv ex pq m parse a c e =>
           conj (serve_framing_irrelevant Schema Features Ctx Doc Resp nf pv ex pq m parse a c e)
                (serve_chunked_same Schema Features Ctx Doc Resp nf pv ex pq m parse a c e)).
Qed.

(** a Content-Length smaller than what is sent: the request is the one of the prefix; a POST body (either
    media type) that ends before the announced length: 400, and no call into the pipeline *)
Theorem C17_short_length_is_prefix : forall parse ig qk e n,
  (n <= length (e_body e))%nat ->
  new_request_from_wire ig qk parse e (ContentLength n) = new_request_from_http qk parse (with_body e (firstn n (e_body e))).
Proof. exact short_length_is_prefix. Qed.

Theorem C17_early_body_refused :
  forall (Schema Features Ctx Doc Resp : Type) (no_features : Features)
         (parse_validate : Schema -> Features -> Z * Z -> bytes -> bytes -> option gomap -> pv_result Doc Resp)
         (execute : bool -> Schema -> exec_request Features Doc -> Z -> Resp)
         (pq_ext : (request -> Resp * list (event Features Ctx Doc)) -> request -> Resp * list (event Features Ctx Doc))
         (marshal : Resp -> option bytes) (parse : bytes -> jparse) (a : api Schema Features Ctx) c e n,
    (length (e_body e) < n)%nat -> e_method e = m_post -> (e_media e = mt_json \/ e_media e = mt_graphql) ->
    serve_graphql_wire no_features parse_validate execute pq_ext marshal parse a c e (ContentLength n) = (HttpError 400, []).
Proof. exact serve_early_end_refused. Qed.

(** the fourth repaired defect: application/graphql ignored the read error *)
Theorem C17_graphql_read_error_refuted_before_fix :
  exists (e : envelope) n r,
    (length (e_body e) < n)%nat /\ e_method e = m_post /\ e_media e = mt_graphql /\
    new_request_from_wire true fixed (fun _ => PBad) e (ContentLength n) = Accept r /\
    new_request_from_wire false fixed (fun _ => PBad) e (ContentLength n) = Reject 400.
Proof. exact graphql_read_error_refuted_before_fix. Qed.

(** the framing functions are injective on response bytes: answers that are equal on the wire carry
    the same response(s); so "same wire answer modulo framing" determines the response *)
Theorem C17_framing_injective :
  (forall t id b b', http_transport t = true -> frame_answer t id [b] = frame_answer t id [b'] -> b = b') /\
  (forall t id ps ps', http_transport t = false -> frame_answer t id ps = frame_answer t id ps' -> ps = ps') /\
  (forall p id x y, ws_frame p (WsData id x) = ws_frame p (WsData id y) -> x = y).
Proof. exact (conj frame_answer_inj_http (conj frame_answer_inj_ws ws_frame_data_inj)). Qed.

(** whenever a client is answered with payloads [ps], the bytes it receives are the framing of [ps]:
    for every API, transport, operation — including subscriptions (several data frames) and error
    responses *)
Theorem C17_wire_is_framing_of_response :
  forall (Schema Features Ctx Doc Resp : Type) (no_features : Features)
         (parse_validate : Schema -> Features -> Z * Z -> bytes -> bytes -> option gomap -> pv_result Doc Resp)
         (is_subscription : Doc -> bytes -> bool)
         (execute : bool -> Schema -> exec_request Features Doc -> Z -> Resp)
         (run_subscription : bool -> Schema -> exec_request Features Doc -> Z -> list Resp)
         (pq_ext : (request -> Resp * list (event Features Ctx Doc)) -> request -> Resp * list (event Features Ctx Doc))
         (marshal : Resp -> option bytes) (qk : quirks) (parse_std parse_jsi : bytes -> jparse) (render : json -> bytes)
         t (a : api Schema Features Ctx) c id o ps,
    fst (respond no_features parse_validate is_subscription execute run_subscription pq_ext marshal qk parse_std parse_jsi render t a c id o) = Some ps ->
    wire_respond no_features parse_validate is_subscription execute run_subscription pq_ext marshal qk parse_std parse_jsi render t a c id o
    = frame_answer t id ps.
Proof. exact wire_of_respond. Qed.

(** a malformed HTTP envelope on the wire: a 4xx status, Content-Type text/plain, no call *)
Theorem C17_malformed_http_wire :
  forall (parse_std : bytes -> jparse) (Schema Features Ctx Doc Resp : Type) (no_features : Features)
         (parse_validate : Schema -> Features -> Z * Z -> bytes -> bytes -> option gomap -> pv_result Doc Resp)
         (execute : bool -> Schema -> exec_request Features Doc -> Z -> Resp)
         (pq_ext : (request -> Resp * list (event Features Ctx Doc)) -> request -> Resp * list (event Features Ctx Doc))
         (marshal : Resp -> option bytes) (a : api Schema Features Ctx) c e,
    http_well_formed parse_std e = false ->
    exists code, http_frame (fst (serve_graphql no_features parse_validate execute pq_ext marshal fixed parse_std a c e)) =
                 {| hw_status := code; hw_ctype := ct_text; hw_body := None |} /\ (400 <= code < 500)%Z /\
                 snd (serve_graphql no_features parse_validate execute pq_ext marshal fixed parse_std a c e) = [].
Proof. exact malformed_http_wire. Qed.

(** ** the two repaired defects, kept as witnesses against the pinned code *)

(** defect 24: POST application/json with the query in the URL and body {} lost the operation *)
Theorem C17_post_url_query_refuted_before_fix :
  wf_op op_a = true /\ carries HttpPostUrlQuery op_a = true /\
  toy_parse (toy_render (body_json false op_a)) = PTree (body_json false op_a) /\
  decode pinned toy_parse toy_parse (encode toy_render HttpPostUrlQuery [] op_a) <> Some (op_a, None) /\
  decode fixed toy_parse toy_parse (encode toy_render HttpPostUrlQuery [] op_a) = Some (op_a, None).
Proof. exact post_url_query_refuted_before_fix. Qed.

(** bytes after the JSON value of a POST body ("{}}" here) were not looked at: bad JSON, executed *)
Theorem C17_trailing_bytes_refuted_before_fix :
  let e := {| e_method := m_post; e_media := mt_json; e_url := []; e_body := [123; 125; 125]%N |} in
  http_well_formed toy_parse e = false /\
  (exists r, new_request_from_http pinned toy_parse e = Accept r) /\
  new_request_from_http fixed toy_parse e = Reject 400.
Proof. exact trailing_bytes_refuted_before_fix. Qed.

(** the third repaired defect: socket payloads were decoded by jsoniter, HTTP bodies by encoding/json;
    the same bytes gave different variables (a member named "variable" + U+017F), a different query
    (a repeated member ending in null) or a different string (an unpaired surrogate escape followed by
    an escaped pair) depending on the transport *)
Theorem C17_ws_payload_library_refuted_before_fix :
  (exists text o1 o2, payload_op StdJson text = Some o1 /\ payload_op Jsoniter text = Some o2 /\ o_vars o1 <> o_vars o2) /\
  (exists text o1 o2, payload_op StdJson text = Some o1 /\ payload_op Jsoniter text = Some o2 /\ o_query o1 <> o_query o2) /\
  (exists text s1 s2,
     parse_text StdJson (fun _ => None) text = PTree (JStr s1) /\
     parse_text Jsoniter (fun _ => None) text = PTree (JStr s2) /\ s1 <> s2).
Proof. exact ws_payload_library_refuted_before_fix. Qed.

Print Assumptions C17_envelope_roundtrip_get.
Print Assumptions C17_envelope_roundtrip_post_json.
Print Assumptions C17_envelope_roundtrip_post_graphql.
Print Assumptions C17_envelope_roundtrip_graphql_ws.
Print Assumptions C17_envelope_roundtrip_graphql_transport_ws.
Print Assumptions C17_envelope_roundtrip.
Print Assumptions C17_http_accepts_iff_well_formed.
Print Assumptions C17_http_refusal_is_4xx.
Print Assumptions C17_ws_start_iff_well_formed.
Print Assumptions C17_post_body_and_ws_payload_agree.
Print Assumptions C17_transport_same_response.
Print Assumptions C17_ws_same_response.
Print Assumptions C17_transport_features.
Print Assumptions C17_envelope_malformed_4xx_no_exec.
Print Assumptions C17_envelope_malformed_ws_no_exec.
Print Assumptions C17_clone_same_response.
Print Assumptions C17_json_text_roundtrip.
Print Assumptions C17_envelope_roundtrip_bytes.
Print Assumptions C17_transport_same_response_bytes.
Print Assumptions C17_transport_same_wire_answer.
Print Assumptions C17_ws_effective_features.
Print Assumptions C17_ws_session_is_handle_init.
Print Assumptions C17_init_order_refuted_when_swapped.
Print Assumptions C17_body_framing_irrelevant.
Print Assumptions C17_short_length_is_prefix.
Print Assumptions C17_early_body_refused.
Print Assumptions C17_graphql_read_error_refuted_before_fix.
Print Assumptions C17_framing_injective.
Print Assumptions C17_wire_is_framing_of_response.
Print Assumptions C17_malformed_http_wire.
Print Assumptions C17_ws_payload_library_refuted_before_fix.
Print Assumptions C17_post_url_query_refuted_before_fix.
Print Assumptions C17_trailing_bytes_refuted_before_fix.
