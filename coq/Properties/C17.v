(** placeholder *)
From Coq Require Import List.
From ApiFu Require Import Base.Sexp Transport.EnvelopeModel.
Theorem C17_placeholder : key_is k_query k_query = true.
Proof. exact (eq_refl true). Qed.
Print Assumptions C17_placeholder.
