(** * C02 — the response is independent of sync/async resolution and of the promise order.
    This file contains only statements closed by [exact] and their [Print Assumptions].

    Vocabulary (all definitions are short and executable):
    - a request after field collection is a plan tree [selset] (Fut/Plan.v): per selection set the
      ordered (response key, field plan); a field plan [FP tag nn res] says whether the resolver
      answers through a promise ([tag = Some t]) or directly, whether the field type is non-null,
      and the resolver's outcome [res] (an error, or a value: null / leaf / wrong kind / list /
      object with its sub-selection);
    - [run fixed_flags sigma md fuel jfuel root] (Fut/ExecAsync.v over Fut/Future.v) is the model
      of executor.go + future.go as repaired (flags = the three [fix:] commits): [sigma] is the idle
      handler (round number, outstanding promises |-> promises fulfilled in that round), [md] is
      [Query] or [Mutation] (root fields serial), [fuel] bounds the idle rounds and [jfuel] the
      depth of the JSON projection; the outcome is [Done resp], [Stuck] (an idle round that
      fulfils nothing: the real executor spins for ever) or [OutOfFuel];
      a promise whose tag is at least [pre_base] (2^32) is *prefilled*: its resolver sends the
      result before it returns the channel, so it needs no idle round — every theorem below
      quantifies over such promises too (they are just plans);
    - [fair sigma]: every idle round fulfils at least one outstanding promise;
    - [run_sync root] (Fut/ExecSync.v) is the reference: GraphQL's ExecuteSelectionSet /
      CompleteValue with every resolver answering directly; no futures, no heap;
    - [conforms root d errs] (Fut/FutSpec.v): [d] is the reference's data; the errors can be
      matched one-to-one with distinct landing sites of the plan ([sites]: the nullable positions
      and the root, each with the errors the semantics allows to end there); every
      failure-null visible in the data ([visible_nulls]) has its error;
    - [same_outcomes a b]: equal after erasing which resolvers are asynchronous ([strip]);
    - [wf root]: response keys within one selection set pairwise different and non-empty (what
      field collection guarantees). *)
From Coq Require Import List NArith ZArith Bool.
From ApiFu Require Import Base.Sexp Fut.Plan Fut.Future Fut.ExecAsync Fut.ExecSync Fut.Denote Fut.SubPerm
     Fut.Live Fut.AsyncWrap Fut.AsyncRun Fut.FutSpec Fut.VisibleProofs Fut.SyncMust Fut.FutProofs
     Fut.BridgeC01 Fut.BridgeProofs Fut.BridgeNulls Fut.BridgeCands Fut.BridgeCompose Fut.NoPrefill Fut.NoIdle.
From ApiFu Require ExeA.ArgData ExeA.ArgArgs ExeA.ArgSpec ExeA.ArgModel ExeA.ArgHyps Val.Values.
Import ListNotations.

(** ** the property *)

(** Every run under a fair idle handler finishes within one idle round per promise, and its
    response conforms to the plan: same data as the synchronous reference, one admissible error
    per landing site at most, an error for every visible failure-null.  Queries and mutations. *)
Theorem C02_run_conforms : forall md sigma fuel jfuel root,
  fair sigma -> count_async root <= fuel -> resp_depth root < jfuel ->
  exists r, run fixed_flags sigma md fuel jfuel root = Done r /\
            conforms root (r_data r) (r_errors r) /\
            r_data r = data_shape root /\
            r_rounds r <= r_promises r /\ r_promises r <= count_async root.
Proof. exact run_conforms. Qed.

(** Any two choices of the asynchronous resolvers and any two fair schedules: both runs finish,
    with the same data, and both responses conform to the one plan. *)
Theorem C02_async_schedule_independent : forall md root1 root2 sigma1 sigma2 fuel1 fuel2 jfuel,
  same_outcomes root1 root2 ->
  fair sigma1 -> fair sigma2 ->
  count_async root1 <= fuel1 -> count_async root2 <= fuel2 -> resp_depth root1 < jfuel ->
  exists r1 r2,
    run fixed_flags sigma1 md fuel1 jfuel root1 = Done r1 /\
    run fixed_flags sigma2 md fuel2 jfuel root2 = Done r2 /\
    r_data r1 = r_data r2 /\
    conforms root1 (r_data r1) (r_errors r1) /\
    conforms root1 (r_data r2) (r_errors r2).
Proof. exact schedule_independent. Qed.

(** The same executor with every resolver answering directly never calls the idle handler, and
    its response conforms to the plan of the asynchronous request. *)
Theorem C02_sync_instance : forall md sigma fuel jfuel root,
  fair sigma -> resp_depth root < jfuel ->
  exists r, run fixed_flags sigma md fuel jfuel (strip root) = Done r /\
            conforms root (r_data r) (r_errors r) /\ r_rounds r = 0 /\ r_promises r = 0.
Proof. exact sync_instance. Qed.

(** No error more than once. *)
Theorem C02_async_no_duplicate_error : forall md sigma fuel jfuel root,
  wf root = true -> fair sigma -> count_async root <= fuel -> resp_depth root < jfuel ->
  exists r, run fixed_flags sigma md fuel jfuel root = Done r /\ NoDup (r_errors r).
Proof. exact no_duplicate_error. Qed.

(** [conforms] alone already excludes duplicates (so it does for the implementation's output
    whenever the oracle accepts it). *)
Theorem C02_conforms_no_duplicate : forall root d errs,
  wf root = true -> conforms root d errs -> NoDup errs.
Proof. exact conforms_NoDup. Qed.

(** Finitely many idle rounds: at most one per promise, at most as many promises as the plan has
    asynchronous field invocations (part of [C02_run_conforms], stated on its own). *)
Theorem C02_async_rounds_bounded : forall md sigma root,
  fair sigma ->
  exists r, run fixed_flags sigma md (count_async root) (S (resp_depth root)) root = Done r /\
            r_rounds r <= r_promises r /\ r_promises r <= count_async root.
Proof. exact rounds_bounded. Qed.

(** No object with a missing, blank or unset response key: the data is exactly [data_shape]
    (every object carries the response keys of its selection set, in order), and no key of it is
    blank. *)
Theorem C02_async_no_blank_key : forall md sigma fuel jfuel root,
  wf root = true -> fair sigma -> count_async root <= fuel -> resp_depth root < jfuel ->
  exists r, run fixed_flags sigma md fuel jfuel root = Done r /\
            match r_data r with Some j => has_blank_key j = false | None => True end.
Proof. exact no_blank_key. Qed.

(** "data": null never comes without an error. *)
Theorem C02_async_data_or_error : forall md sigma fuel jfuel root,
  fair sigma -> count_async root <= fuel -> resp_depth root < jfuel ->
  exists r, run fixed_flags sigma md fuel jfuel root = Done r /\ (r_data r = None -> r_errors r <> []).
Proof. exact data_or_error. Qed.

(** ** "the same error for every null left visible in that data"

    What holds for every request: the landing sites and the visible failure-nulls are the same
    for every choice of asynchronous resolvers, and each visible failure-null receives an error
    admissible at its site (and, by [conforms], only one). *)
Theorem C02_error_sites_independent : forall root1 root2 d1 e1 d2 e2,
  same_outcomes root1 root2 ->
  conforms root1 d1 e1 -> conforms root2 d2 e2 ->
  sites root1 = sites root2 /\ visible_nulls root1 = visible_nulls root2 /\
  forall x, In x (visible_nulls root1) ->
    (exists a, In a e1 /\ In a (snd x)) /\ (exists b, In b e2 /\ In b (snd x)).
Proof. exact error_sites_independent. Qed.

(** The literal statement, under the exclusion of the known finding admissible-error-differs
    (every visible failure-null admits exactly one error): any two runs report the same error for
    every visible failure-null, and it is the only error that can land there. *)
Theorem C02_same_error_for_every_null : forall md root1 root2 sigma1 sigma2 fuel1 fuel2 jfuel,
  excl_admissible_error_differs root1 = false ->
  same_outcomes root1 root2 ->
  fair sigma1 -> fair sigma2 ->
  count_async root1 <= fuel1 -> count_async root2 <= fuel2 -> resp_depth root1 < jfuel ->
  exists r1 r2,
    run fixed_flags sigma1 md fuel1 jfuel root1 = Done r1 /\
    run fixed_flags sigma2 md fuel2 jfuel root2 = Done r2 /\
    r_data r1 = r_data r2 /\
    forall x, In x (visible_nulls root1) ->
      exists e, snd x = [e] /\ In e (r_errors r1) /\ In e (r_errors r2) /\
                (forall e', lands e' x -> e' = e).
Proof. exact same_error_when_single_candidate. Qed.

(** The synchronous reference itself conforms to its plan (in particular it reports an error for
    every failure-null it leaves visible), and under the same exclusion every run reports, for
    every visible failure-null, exactly the error the reference reports. *)
Theorem C02_sync_reference_conforms : forall root,
  conforms root (sr_data (run_sync root)) (sr_errors (run_sync root)).
Proof. exact run_sync_conforms. Qed.

Theorem C02_same_error_as_reference : forall md sigma fuel jfuel root,
  excl_admissible_error_differs root = false ->
  fair sigma -> count_async root <= fuel -> resp_depth root < jfuel ->
  exists r, run fixed_flags sigma md fuel jfuel root = Done r /\
    r_data r = sr_data (run_sync root) /\
    forall x, In x (visible_nulls root) ->
      exists e, snd x = [e] /\ In e (r_errors r) /\ In e (sr_errors (run_sync root)).
Proof. exact same_error_as_reference. Qed.

(** Without the exclusion the literal statement is false of the faithful model, as it is of the
    code (oracle key admissible-error-differs, a [known:] finding): the same request, the same
    outcomes, one resolver made asynchronous — a different error for the same null … *)
Theorem C02_same_error_refuted :
  exists root1 root2 sigma r1 r2,
    wf root1 = true /\ same_outcomes root1 root2 /\ fair sigma /\
    run fixed_flags sigma Query (count_async root1) (S (resp_depth root1)) root1 = Done r1 /\
    run fixed_flags sigma Query (count_async root2) (S (resp_depth root1)) root2 = Done r2 /\
    r_data r1 = r_data r2 /\
    exists x e1 e2, In x (visible_nulls root1) /\
      r_errors r1 = [e1] /\ r_errors r2 = [e2] /\ lands e1 x /\ lands e2 x /\ e1 <> e2.
Proof. exact same_error_refuted. Qed.

(** … and one request under two fulfilment orders. *)
Theorem C02_same_error_refuted_by_schedule :
  exists root sigma1 sigma2 r1 r2,
    wf root = true /\ fair sigma1 /\ fair sigma2 /\
    run fixed_flags sigma1 Query (count_async root) (S (resp_depth root)) root = Done r1 /\
    run fixed_flags sigma2 Query (count_async root) (S (resp_depth root)) root = Done r2 /\
    r_data r1 = r_data r2 /\
    exists x e1 e2, In x (visible_nulls root) /\
      r_errors r1 = [e1] /\ r_errors r2 = [e2] /\ lands e1 x /\ lands e2 x /\ e1 <> e2.
Proof. exact same_error_refuted_by_schedule. Qed.

(** ** composition with C01: every schedule yields the ExecuteRequest-algorithm response

    (C01's model is coq/ExeA: the one its check ties to the code, with field arguments.)
    [plan_of code S D E fuel W] (Fut/BridgeC01.v) turns C01's world — schema [S], parsed document
    [D], variables [E], resolver-outcome tree [W] — into a plan tree by following C01's reference
    ([ArgSpec]): CollectFields, field kinds, the argument step of ExecuteField ([s_with_args]: C05's
    CoerceArgumentValues, then the outcome stored under [field_key name arguments]),
    ResolveAbstractType and result coercion are C01's own definitions, used as they are; a
    coerced leaf value j becomes [VLeaf (code j)] for an arbitrary coding [code] of leaf values
    into integers, and [tr code] translates C01's response values accordingly.

    Three bridge lemmas about the plan itself — [C02_bridge_data]: the data the plan denotes is
    C01's reference data; [C02_bridge_null_paths]: the reference's failure-nulls sit at exactly the
    response paths of the plan's visible nulls (no typing hypothesis needed);
    [C02_bridge_candidates]: for a typed document, also with the same candidate errors —
    and their composition with C01_exec_data_eq and C02_run_conforms:
    [C02_every_schedule_yields_ExecuteRequest_response] (one operation) and
    [C02_every_schedule_yields_request_response] (a whole request). *)
Theorem C02_bridge_data : forall code S D E fuel W,
  data_shape (plan_of code S D E fuel W) =
  tr_data code (ArgSpec.data (ArgSpec.exec_spec S D E fuel W)).
Proof. exact bridge_data. Qed.


Theorem C02_bridge_null_paths : forall code S D E fuel W,
  null_paths (ArgSpec.failure_nulls (ArgSpec.exec_spec S D E fuel W)) =
  site_paths (visible_nulls (plan_of code S D E fuel W)).
Proof. exact bridge_null_paths. Qed.


(** The candidates.  [null_sites] erases the source locations of C01's errors,
    [plan_sites] the error kinds of this plan's; what is left of a failure-null is its response path
    and the response paths of the errors that may explain it.  For a typed document (C01's [doc_ok],
    which also keeps CollectFields from running out of fuel) the two readings coincide, so
    [conforms] — every visible failure-null gets exactly one error, one of its candidates — says
    of every schedule what C01_exec_errors_complete says of the synchronous executor: each
    failure-null of the reference is explained by one of the errors the reference admits there.
    What remains outside: source locations (C01's), messages, and leaf values cross as [code j]. *)
Theorem C02_bridge_candidates : forall code S D E fuel n W,
  ArgSpec.doc_ok S D E fuel n = true ->
  null_sites (ArgSpec.failure_nulls (ArgSpec.exec_spec S D E fuel W)) =
  plan_sites (visible_nulls (plan_of code S D E fuel W)).
Proof. exact bridge_candidates. Qed.

Theorem C02_every_schedule_yields_ExecuteRequest_response :
  forall (code : ArgData.json -> Z) S D E fuel n W d errs md root sigma fuelr jfuel,
  ArgHyps.type_names_okb S = true -> ArgHyps.doc_positions_okb D = true ->
  ArgSpec.doc_ok S D E fuel n = true ->
  ArgModel.run ArgModel.fixed S D E fuel W = ArgModel.Done d errs ->
  same_outcomes root (plan_of code S D E fuel W) ->
  fair sigma -> count_async root <= fuelr -> resp_depth root < jfuel ->
  exists r, run fixed_flags sigma md fuelr jfuel root = Done r /\
            r_data r = tr_data code d /\
            null_sites (ArgSpec.failure_nulls (ArgSpec.exec_spec S D E fuel W)) = plan_sites (visible_nulls root) /\
            conforms root (r_data r) (r_errors r).
Proof. exact schedule_yields_reference_response. Qed.

(** The same for a whole request of C01's current model (coq/ExeA: field arguments through C05's
    CoerceArgumentValues, operation selection and variable coercion in front — [run_request]):
    when the request determines an operation [o] and its variables coerce to [vv]. *)
Theorem C02_every_schedule_yields_request_response :
  forall (code : ArgData.json -> Z) S R opname raw fuel n W o vv d errs md root sigma fuelr jfuel,
  ArgSpec.s_get_operation R (ArgSpec.opname_of opname) = Some o ->
  ArgModel.coerce_request_vars S o raw = Values.Ok vv ->
  ArgHyps.type_names_okb S = true -> ArgHyps.doc_positions_okb (ArgData.doc_of R o vv) = true ->
  ArgSpec.doc_ok S (ArgData.doc_of R o vv) (ArgArgs.env_of_vars vv) fuel n = true ->
  ArgModel.run_request ArgModel.fixed S R opname raw fuel W = ArgModel.Done d errs ->
  same_outcomes root (plan_of code S (ArgData.doc_of R o vv) (ArgArgs.env_of_vars vv) fuel W) ->
  fair sigma -> count_async root <= fuelr -> resp_depth root < jfuel ->
  exists r, run fixed_flags sigma md fuelr jfuel root = Done r /\
            r_data r = tr_data code d /\
            null_sites (ArgSpec.failure_nulls (ArgSpec.exec_spec S (ArgData.doc_of R o vv) (ArgArgs.env_of_vars vv) fuel W)) =
            plan_sites (visible_nulls root) /\
            conforms root (r_data r) (r_errors r).
Proof. exact schedule_yields_request_response. Qed.

(** ** plans without prefilled promises (requested by C15)

    [nopre root]: no promise tag of the plan is prefilled.  [NP s s']: the step from [s] to [s']
    appends only promises that are numbered consecutively and are NOT done, and adds no entry to
    [s_chans] (it may take entries out).  [NPclo c]: every callback stored in the closure [c], and
    every future a continuation of it will ever return, moves the state by such a step.
    For such a plan, building the root future and every poll ([invoke]) of what was built — to any
    depth, whatever was fulfilled in between — is an [NP] step: channel entries and done promises
    come from the idle handler alone. *)
Theorem C02_no_prefill_build : forall root p s f s',
  nopre root = true -> exec_sel fixed_flags root p s = (f, s') -> NP s s' /\ NPfut f.
Proof. exact no_prefill_build. Qed.

Theorem C02_no_prefill_build_field : forall fp p s f s1 f1 s2,
  nopre_f fp = true -> exec_field fixed_flags fp p s = (f, s1) ->
  catch_if_nullable (fp_nn fp) f s1 = (f1, s2) -> NP s s2 /\ NPfut f1.
Proof. exact no_prefill_build_field. Qed.

Theorem C02_no_prefill_poll : forall c s c' ro s',
  NPclo c -> invoke fixed_flags c s = (c', ro, s') -> NP s s' /\ NPclo c'.
Proof. exact no_prefill_poll. Qed.

Theorem C02_no_prefill_wait_wrap : forall c, NPclo c -> NPclo (CMap wait_fn c).
Proof. exact no_prefill_wait_wrap. Qed.

Theorem C02_no_prefill_polls_append_blocked : forall root p s0 c s1,
  nopre root = true -> exec_sel fixed_flags root p s0 = (Pending c, s1) ->
  NP s0 s1 /\
  forall s c' ro s', invoke fixed_flags (CMap wait_fn c) s = (c', ro, s') ->
    NP s s' /\ match ro with Some _ => True | None => NPclo c' end.
Proof. exact no_prefill_polls_append_blocked. Qed.

(** ** a request without an idle handler (executor.go wait(): "No idle handler defined.")

    [run_nil fl md jfuel root] (Fut/NoIdle.v) is the executor with [Request.IdleHandler == nil]: [wait]
    polls once and, if the future is still pending, gives up with an error that has no path.
    An execution that needs no idle round — every resolver answers directly or through a promise
    that is already fulfilled — is the same execution with and without a handler; so everything
    the theorems above say of [run … 0 …] holds of it. *)
Theorem C02_no_idle_handler_agrees : forall fl sigma md jfuel root r,
  run fl sigma md 0 jfuel root = Done r -> run_nil fl md jfuel root = Done r.
Proof. exact run_nil_agrees. Qed.

(** ** supporting statements *)

(** [conforms] does not see which resolvers are asynchronous. *)
Theorem C02_conforms_tag_blind : forall a b d errs,
  same_outcomes a b -> conforms a d errs -> conforms b d errs.
Proof. exact conforms_same_outcomes. Qed.

(** The structural definition of the visible failure-nulls agrees with the reading of the data the
    oracle uses: a site (with a non-empty list of admissible errors) at whose response path the
    data shows null.  Hence [conforms] can equally be stated by reading the data. *)
Theorem C02_visible_nulls_agree : forall root, wf root = true ->
  forall x, In x (sites root) ->
    (visible_failure_null (data_shape root) x = true <-> In x (visible_nulls root)).
Proof. exact visible_nulls_agree. Qed.

Theorem C02_conforms_by_reading : forall root d errs, wf root = true ->
  (conforms root d errs <->
   d = sr_data (run_sync root) /\
   (exists ls, Forall2 lands errs ls /\ sub_perm ls (sites root)) /\
   forall x, In x (sites root) -> visible_failure_null d x = true -> exists e, In e errs /\ lands e x).
Proof. exact conforms_by_reading. Qed.

(** The reference's own errors land one per site, and its data has the declared shape. *)
Theorem C02_sync_reference_lands : forall root,
  sr_data (run_sync root) = data_shape root /\
  exists ls, Forall2 lands (sr_errors (run_sync root)) ls /\ sub_perm ls (sites root).
Proof. exact sync_reference_lands. Qed.

(** The step half of the simulation ("poll_sound"): invoking the closure of a live
    selection-set future, in any state satisfying the heap invariant, yields a live future or a
    result meeting the position's specification, and every side effect is paid for out of the
    future's own account of unfired landing sites and unreceived promises — which is why no
    callback runs twice. *)
Theorem C02_poll_sound : forall root p,
  StepSpec (fun G s => LiveS G s root p) (spec_I (VObj root) p).
Proof. exact poll_sound. Qed.

(** The idle-handler contract: an idle call that finds no outstanding promise ends the model run
    as [Stuck] whatever the handler does; [wait] returns a ready future without any idle call; no
    run under a fair handler is [Stuck] (or out of fuel).  Hence the executor calls the idle handler
    only while a promise is outstanding and never after completion. *)
Theorem C02_idle_needs_outstanding : forall sigma s, outstanding s = [] -> idle sigma s = None.
Proof. exact idle_needs_outstanding. Qed.

Theorem C02_wait_ready_no_idle : forall fl sigma fuel r s, wait fl sigma fuel (Ready r) s = Done (r, s).
Proof. exact wait_ready_no_idle. Qed.

Theorem C02_run_never_stuck : forall md sigma fuel jfuel root,
  fair sigma -> count_async root <= fuel -> resp_depth root < jfuel ->
  run fixed_flags sigma md fuel jfuel root <> Stuck /\ run fixed_flags sigma md fuel jfuel root <> OutOfFuel.
Proof. exact run_never_stuck. Qed.

(** The scheduler family the correspondence check runs the model under (an idle round fulfils
    the outstanding promises of minimal rank) is fair, so the theorems above speak about every
    case the check evaluates. *)
Theorem C02_check_schedules_fair : forall ranks, fair (sigma_ranks ranks).
Proof. exact sigma_ranks_fair. Qed.

(** ** the repaired defects, kept as witnesses (one pinned-tree flag switched back on) *)

(** MapOk / MapOkToAny / MapOkValue dropping the error of a not-ready future: a promise failing
    beneath a non-null type yields {"": null} and no error. *)
Theorem C02_refuted_when_mapok_drops_error :
  exists root sigma r, wf root = true /\ fair sigma /\
    run flags_drop_err sigma Query (count_async root) (S (resp_depth root)) root = Done r /\
    r_errors r = [] /\ r_data r <> sr_data (run_sync root) /\
    exists j, r_data r = Some j /\ has_blank_key j = true.
Proof. exact refuted_when_mapok_drops_error. Qed.

(** After ranging over its futures by value: an error reported once per idle round. *)
Theorem C02_refuted_when_after_ranges_by_value :
  exists root sigma r, wf root = true /\ fair sigma /\
    run flags_after_by_value sigma Query (count_async root) (S (resp_depth root)) root = Done r /\
    ~ NoDup (r_errors r).
Proof. exact refuted_when_after_ranges_by_value. Qed.

(** The non-null wrapper's ready branch turning an inner error into Ok(nil). *)
Theorem C02_refuted_when_nonnull_swallows_error :
  exists root sigma r, wf root = true /\ fair sigma /\
    run flags_nn_swallows sigma Query (count_async root) (S (resp_depth root)) root = Done r /\
    r_errors r = [] /\ r_data r <> sr_data (run_sync root).
Proof. exact refuted_when_nonnull_swallows_error. Qed.

Print Assumptions C02_run_conforms.
Print Assumptions C02_async_schedule_independent.
Print Assumptions C02_sync_instance.
Print Assumptions C02_async_no_duplicate_error.
Print Assumptions C02_conforms_no_duplicate.
Print Assumptions C02_async_rounds_bounded.
Print Assumptions C02_async_no_blank_key.
Print Assumptions C02_async_data_or_error.
Print Assumptions C02_error_sites_independent.
Print Assumptions C02_same_error_for_every_null.
Print Assumptions C02_sync_reference_conforms.
Print Assumptions C02_same_error_as_reference.
Print Assumptions C02_same_error_refuted.
Print Assumptions C02_same_error_refuted_by_schedule.
Print Assumptions C02_bridge_data.
Print Assumptions C02_bridge_null_paths.
Print Assumptions C02_bridge_candidates.
Print Assumptions C02_every_schedule_yields_ExecuteRequest_response.
Print Assumptions C02_every_schedule_yields_request_response.
Print Assumptions C02_no_prefill_build.
Print Assumptions C02_no_prefill_build_field.
Print Assumptions C02_no_prefill_poll.
Print Assumptions C02_no_prefill_wait_wrap.
Print Assumptions C02_no_prefill_polls_append_blocked.
Print Assumptions C02_no_idle_handler_agrees.
Print Assumptions C02_conforms_tag_blind.
Print Assumptions C02_visible_nulls_agree.
Print Assumptions C02_conforms_by_reading.
Print Assumptions C02_sync_reference_lands.
Print Assumptions C02_poll_sound.
Print Assumptions C02_idle_needs_outstanding.
Print Assumptions C02_wait_ready_no_idle.
Print Assumptions C02_run_never_stuck.
Print Assumptions C02_check_schedules_fair.
Print Assumptions C02_refuted_when_mapok_drops_error.
Print Assumptions C02_refuted_when_after_ranges_by_value.
Print Assumptions C02_refuted_when_nonnull_swallows_error.
