(** placeholder while the correspondence is being established *)
From ApiFu Require Import Fut.Plan Fut.ExecSync.
Theorem C02_placeholder : forall p r, sync_nn false p r = r.
Proof. exact (fun p r => eq_refl). Qed.
Print Assumptions C02_placeholder.
