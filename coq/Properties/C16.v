(** placeholder while the correspondence is being built *)
From Coq Require Import List.
Theorem C16_placeholder : True.
Proof. exact I. Qed.
Print Assumptions C16_placeholder.
