(** * C16 — time-based connections honour every filter and issue sufficient range queries.

    This file contains only statements, each closed by [exact], and their [Print Assumptions].

    Reading guide.  [conn V g ps want_info a] (TimeConn/TimeModel.v) is the transcription of the
    connection field built by [apifu.TimeBasedConnection]: it returns the outcome (error /
    process crash / page with optional page info) and the (min, max, limit) range queries handed
    to the application's getter [g].  [V = current] is the code after the three repairs,
    [V = pinned] the tree before them.  [ps i] says how the i-th getter call hands over its result
    (synchronously or through a promise; an empty result as a slice or as the untyped nil).
    [TimeRef E a] (TimeConn/TimeSpec.v) is the reference page: the edges of [E] whose cursor lies
    strictly between the after and before cursors and whose time lies in
    [atOrAfterTime, beforeTime), in (time, id) order, truncated by first / last.
    [honours g E] is the getter's documented contract; [representable E] says that every edge
    time is one an int64 nanosecond count can express (between Go's zero time and year 3000). *)
From Coq Require Import List NArith ZArith Bool Sorted.
From ApiFu Require Import Base.Sexp TimeConn.TimeModel TimeConn.TimeSpec TimeConn.TimeProofs
  TimeConn.TimeErrModel TimeConn.TimeErrProofs TimeConn.TimeCursorCodec TimeConn.TimeCursorCodecProofs
  TimeConn.GoTimeModel TimeConn.GoTimeProofs TimeConn.TimeCostProofs TimeConn.TimeVerdictProofs.
From ApiFu Require Cost.CostModel.
Import ListNotations.
Open Scope Z_scope.

(** ** The reference is well defined *)

(** the cursor order (nanoseconds, then id bytes) is a strict total order *)
Theorem C16_cursor_order_strict_total :
  (forall a, cursor_ltb a a = false) /\
  (forall a b c, cursor_ltb a b = true -> cursor_ltb b c = true -> cursor_ltb a c = true) /\
  (forall a b, cursor_ltb a b = true \/ a = b \/ cursor_ltb b a = true).
Proof. exact cursor_order_strict_total. Qed.

(** the list of all matching edges is strictly increasing in that order and contains exactly the
    edges of E that satisfy every supplied filter — whatever sorting function computes it *)
Theorem C16_reference_characterised : forall E a, NoDup E ->
  StronglySorted (fun x y => cursor_ltb x y = true) (matching E a) /\
  forall e, In e (matching E a) <-> In e E /\ matches a e = true.
Proof. exact matching_spec. Qed.

(** a strictly increasing list is determined by its elements: modelling [sort.Slice] by insertion
    sort loses nothing on data sets without duplicate cursors *)
Theorem C16_sorted_list_unique : forall l1 l2,
  StronglySorted (fun x y => cursor_ltb x y = true) l1 ->
  StronglySorted (fun x y => cursor_ltb x y = true) l2 ->
  (forall x, In x l1 <-> In x l2) -> l1 = l2.
Proof. exact ssorted_unique. Qed.

(** ** Stage 1 *)

(** Every returned edge is an edge of the connection and satisfies every filter the client
    supplied (after, before, atOrAfterTime, beforeTime) — for every getter that returns only
    edges inside the range it was asked for, however it hands them over. *)
Theorem C16_time_filters_hold : forall E g ps want_info a es info e,
  (forall q x, In x (g q) -> In x E /\ in_range q x = true) ->
  fst (conn current g ps want_info a) = OPage es info -> In e es ->
  In e E /\ matches a e = true.
Proof. exact time_filters_hold. Qed.

(** The issued range queries are sufficient: every edge of the reference page is returned by
    one of the queries the connection issued — also when many edges share a cursor's timestamp. *)
Theorem C16_time_sufficient : forall E g ps want_info a e,
  honours g E -> NoDup E -> representable E -> args_ok a = true ->
  In e (TimeRef E a) ->
  exists q, In q (snd (conn current g ps want_info a)) /\ In e (g q).
Proof. exact time_sufficient_issued. Qed.

(** ** Stage 2 *)

(** The page is exactly the reference page, for every honouring getter. *)
Theorem C16_time_result_eq : forall E g ps want_info a,
  honours g E -> NoDup E -> representable E -> args_ok a = true ->
  exists info, fst (conn current g ps want_info a) = OPage (TimeRef E a) info.
Proof. exact time_result_eq_stmt. Qed.

(** startCursor / endCursor are the cursors of the first / last returned edge, and hasNextPage
    (with first) / hasPreviousPage (with last) says exactly whether more matching edges exist. *)
Theorem C16_time_page_info : forall E g ps a,
  honours g E -> NoDup E -> representable E -> args_ok a = true ->
  exists info,
    fst (conn current g ps true a) = OPage (TimeRef E a) (Some info)
    /\ start_c info = hd_error (TimeRef E a) /\ end_c info = last_error (TimeRef E a)
    /\ (match a_first a with Some _ => has_next info | None => has_prev info end) = more_ref E a.
Proof. exact time_page_info_stmt. Qed.

(** Promise mode = synchronous mode: any mixture of synchronous and promised getter results,
    nil or not, yields the same outcome and the same queries. *)
Theorem C16_time_promise_eq_sync : forall E g ps want_info a,
  honours g E ->
  conn current g ps want_info a = conn current g all_sync want_info a.
Proof. exact time_promise_eq_sync. Qed.

(** ... and no hand-over of results can crash the adapter (any getter at all). *)
Theorem C16_time_no_panic : forall g ps want_info a,
  fst (conn current g ps want_info a) <> OPanic.
Proof. exact time_no_panic. Qed.

(** Walking forward (first:n, then after:endCursor while hasNextPage) visits every edge inside
    the time window exactly once, in order; the walk needs at most |E|+1 requests. *)
Theorem C16_time_walk_fwd_exact : forall E g ps n from to fuel,
  honours g E -> NoDup E -> representable E -> 1 <= n -> (length E < fuel)%nat ->
  walk_fwd current g fuel ps n from to CAbsent
  = WDone (sort (filter (fun e => from_ok from e && to_ok to e) E)).
Proof. exact time_walk_fwd_stmt. Qed.

(** Walking backward (last:n, then before:startCursor while hasPreviousPage) likewise. *)
Theorem C16_time_walk_bwd_exact : forall E g ps n from to fuel,
  honours g E -> NoDup E -> representable E -> 1 <= n -> (length E < fuel)%nat ->
  walk_bwd current g fuel ps n from to CAbsent
  = WDone (sort (filter (fun e => from_ok from e && to_ok to e) E)).
Proof. exact time_walk_bwd_stmt. Qed.

(** ** The repaired defects, kept as witnesses: the statements above are false of the pinned tree *)

(** DESIGN §6 row 20: an after cursor older than atOrAfterTime whose timestamp other edges
    share — an edge violating the time filter is returned. *)
Theorem C16_filters_refuted_before_fix :
  exists E g a es info e,
    honours g E /\ NoDup E /\ representable E /\ args_ok a = true /\
    fst (conn pinned g all_sync true a) = OPage es info /\ In e es /\ matches a e = false.
Proof. exact filters_refuted_before_fix. Qed.

(** a cursor at the largest int64 nanosecond: the page differs from the reference (an edge twice) *)
Theorem C16_result_refuted_before_wrap_fix :
  exists E g a es info,
    honours g E /\ NoDup E /\ representable E /\ args_ok a = true /\
    fst (conn pinned g all_sync true a) = OPage es info /\ es <> TimeRef E a.
Proof. exact result_refuted_before_wrap_fix. Qed.

(** DESIGN §6 row 32: an empty range handed over as nil through a promise crashes the process,
    while the synchronous path answers with the empty page. *)
Theorem C16_panic_before_fix :
  exists E g ps a,
    honours g E /\ NoDup E /\ representable E /\ args_ok a = true /\
    fst (conn pinned g ps true a) = OPanic /\
    fst (conn pinned g all_sync true a)
    = OPage [] (Some {| has_prev := false; has_next := false; start_c := None; end_c := None |}).
Proof. exact panic_before_fix. Qed.

(** ** The contract cannot be weakened to time order alone

    The Go doc of EdgeGetter does not say how "the start / end of the range" orders edges with
    equal timestamps.  A getter that honours (min, max, limit) with respect to time only, with its
    own tie-break, makes the connection return a page different from the reference — so the id
    tie-break in [honours] is a real requirement on applications (a documentation gap, not a
    defect of the code). *)
Theorem C16_tiebreak_by_id_needed :
  exists E g a es info,
    NoDup E /\ representable E /\ args_ok a = true /\ honours_time_only g E /\
    fst (conn current g all_sync true a) = OPage es info /\ es <> TimeRef E a.
Proof. exact tiebreak_by_id_needed. Qed.

(** ** Stage B: failing getter calls, totalCount, mixed hand-overs, the order of resolution

    [xconn V F g ps s tc a] (TimeConn/TimeErrModel.v) transcribes the same Go code with the
    getter's error result, [join]'s error path and [totalCount] included.  [ps i] now also says
    whether the i-th getter call fails ([Err id]), and whether it hands the failure over
    synchronously or through its promise; [s] says which of pageInfo / totalCount the request
    selects, [tc] is what the application's ResolveTotalCount answers.  The result is the outcome
    (argument error / field null with an error / crash / page with page info and total count), the
    range queries actually issued, and the number of ResolveTotalCount calls.  [F = true]: the
    fourth and fifth repair (typed nil error values, answers that are not slices) are present.
    [hand ps i = xp (ps i)] forgets the errors, [with_total] adds totalCount to an outcome of the
    error-free transcription [conn].  [no_bad ps]: no call answers with a value that is neither nil
    nor a slice ([BadValue]; those answers have their own theorems at the end of this section). *)

(** As long as no issued call fails, the connection with errors and totalCount IS the error-free
    transcription (so every theorem above carries over to it, for every mixture of synchronous and
    promised results), with totalCount = the application's answer. *)
Theorem C16_time_no_failure_is_conn : forall V g ps s tc a, no_bad ps ->
  winner ps (range_queries V (cur_of (a_after a)) (cur_of (a_before a)) (a_from a) (a_to a) (limit_of a)) = None ->
  xconn V true g ps s tc a = with_total s tc (conn V g (hand ps) (want_info s) a).
Proof. exact xconn_no_failure. Qed.

(** An error from any issued range query fails the field with THAT error — never a partial page,
    whatever the other queries returned, synchronously or through promises: the field is null with
    the error [winner] names and only the queries up to a synchronous failure were issued.  (In the
    lazy first/last = 0 path a failing totalCount may be reported beside it.) *)
Theorem C16_time_getter_error_fails_field : forall V g ps s tc a id n, no_bad ps ->
  arg_error a = false -> fetches s a = true ->
  winner ps (range_queries V (cur_of (a_after a)) (cur_of (a_before a)) (a_from a) (a_to a) (limit_of a)) = Some (id, n) ->
  exists more tcn,
    xconn V true g ps s tc a
    = (XFieldError (EGetter id :: more),
       firstn n (range_queries V (cur_of (a_after a)) (cur_of (a_before a)) (a_from a) (a_to a) (limit_of a)), tcn)
    /\ more = (if lazy_of a then total_err_of s tc else [])
    /\ (lazy_of a = false -> tcn = Some O).
Proof. exact xconn_failure. Qed.

(** Which error wins when several calls fail: an error some ISSUED call really raised; the first
    synchronous failure in issue order if there is one (nothing is issued after it; it beats a
    failing promise obtained earlier), otherwise the first failing promise in issue order. *)
Theorem C16_time_winner_sound : forall ps qs id n,
  winner ps qs = Some (id, n) ->
  (n <= length qs)%nat /\
  exists k, (k < n)%nat /\ call_fails (ps k) = Some id /\
    ((by_promise (xp (ps k)) = false /\ n = S k /\ forall j, (j < k)%nat -> fails_sync (ps j) = None)
     \/ (by_promise (xp (ps k)) = true /\ n = length qs
         /\ (forall j, (j < n)%nat -> fails_sync (ps j) = None)
         /\ forall j, (j < k)%nat -> fails_promise (ps j) = None)).
Proof. exact winner_sound. Qed.

(** ... and some error wins as soon as one of the calls fails. *)
Theorem C16_time_winner_complete : forall ps qs,
  winner ps qs = None -> forall j, (j < length qs)%nat -> call_fails (ps j) = None.
Proof. exact winner_complete. Qed.

(** No partial page: a page is returned only if none of the issued calls failed. *)
Theorem C16_time_page_means_no_failure : forall g ps s tc a es info total issued tcn, no_bad ps ->
  xconn current true g ps s tc a = (XPage es info total, issued, tcn) ->
  forall j, (j < length issued)%nat -> call_fails (ps j) = None.
Proof. exact xconn_page_no_failure. Qed.

(** The full result with totalCount: for every honouring getter whose calls do not fail, however
    each call hands its result over (any mixture of synchronous slices, promises, nil, typed nil
    error values), the page is the reference page, totalCount is the application's answer obtained
    by exactly one ResolveTotalCount call iff it is selected; a failing ResolveTotalCount nulls
    the field with its error. *)
Theorem C16_time_result_with_total : forall E g ps s tc a,
  honours g E -> NoDup E -> representable E -> args_ok a = true ->
  no_bad ps -> (forall j, call_fails (ps j) = None) ->
  match total_err_of s tc with
  | [] => exists info, fst (fst (xconn current true g ps s tc a)) = XPage (TimeRef E a) info (total_of s tc)
                       /\ snd (xconn current true g ps s tc a) = Some (tc_calls_of s)
  | errs => fst (fst (xconn current true g ps s tc a)) = XFieldError errs
  end.
Proof. exact xconn_result. Qed.

(** The winner does not depend on the order in which the promises resolve: [join] reads the
    promises in issue order; whatever the order of arrival [sched] (any list mentioning every
    promise), it ends with the error of the first failing promise in issue order, or with all
    values in issue order. *)
Theorem C16_time_join_schedule_independent : forall prs sched,
  (forall k, (k < length prs)%nat -> In k sched) ->
  join_sched prs sched =
  match first_perr prs with Some id => JErr id | None => JDone (pvals prs) end.
Proof. exact join_schedule_independent. Qed.

(** ... and the failure is reported as soon as the promises up to the failing one have resolved. *)
Theorem C16_time_join_error_needs_only_prefix : forall prs sched k id,
  nth_error prs k = Some (PErr id) -> first_perr (firstn k prs) = None ->
  (forall j, (j <= k)%nat -> In j sched) ->
  join_sched prs sched = JErr id.
Proof. exact join_error_needs_only_prefix. Qed.

(** An answer that is neither nil nor a slice (a string, a map, a promise that a promise resolved
    to) from a call that is issued, no real error anywhere: the field is null with the library's
    "non-slice" error, synchronously or through a promise. *)
Theorem C16_time_non_slice_answer_is_an_error : forall V g ps s tc a k,
  arg_error a = false -> fetches s a = true ->
  (forall j, call_fails (ps j) = None) ->
  (k < length (range_queries V (cur_of (a_after a)) (cur_of (a_before a)) (a_from a) (a_to a) (limit_of a)))%nat ->
  xerr (ps k) = BadValue ->
  exists more, fst (fst (xconn V true g ps s tc a)) = XFieldError (ENonSlice :: more).
Proof. exact xconn_bad_value. Qed.

(** Whatever the getter answers (errors, nil, typed nil, non-slices, promises of any of these) and
    whatever ResolveTotalCount answers: the adapter never crashes. *)
Theorem C16_time_no_crash_whatever_the_getter_answers : forall g ps s tc a,
  fst (fst (xconn current true g ps s tc a)) <> XPanic.
Proof. exact xconn_no_panic. Qed.

(** The fifth repaired defect: before it such an answer crashed — through a promise inside
    [join]'s goroutine, which ends the process. *)
Theorem C16_non_slice_panic_before_fix :
  exists g a,
    args_ok a = true /\
    fst (fst (xconn current false g bad_promise s_info (TCVal 0) a)) = XPanic /\
    fst (fst (xconn current false g bad_sync s_info (TCVal 0) a)) = XPanic /\
    fst (fst (xconn current true g bad_promise s_info (TCVal 0) a)) = XFieldError [ENonSlice] /\
    fst (fst (xconn current true g bad_sync s_info (TCVal 0) a)) = XFieldError [ENonSlice].
Proof. exact non_slice_panic_before_fix. Qed.

(** The fourth repaired defect: a getter returning a typed nil error value synchronously failed
    the field with a made-up error, while the same answer through a promise gave the page. *)
Theorem C16_typed_nil_error_refuted_before_fix :
  exists E g a,
    honours g E /\ NoDup E /\ representable E /\ args_ok a = true /\
    fst (fst (xconn current false g typed_nil_sync s_info (TCVal 0) a)) = XFieldError [EBogus] /\
    (exists info, fst (fst (xconn current false g typed_nil_promise s_info (TCVal 0) a)) = XPage (TimeRef E a) (Some info) None) /\
    (exists info, fst (fst (xconn current true g typed_nil_sync s_info (TCVal 0) a)) = XPage (TimeRef E a) (Some info) None).
Proof. exact typed_nil_error_refuted_before_fix. Qed.

(** ** Stage B: the cursors as the strings that travel

    [tb_encode] / [tb_decode] (TimeConn/TimeCursorCodec.v) transcribe SerializeCursor /
    DeserializeCursor for the struct TimeBasedCursor{Nano int64; Id string}, composed from C09's
    model of base64url and msgpack (Relay/CursorCodec.v).  [wire_ok c]: the nanoseconds fit an
    int64, the id is shorter than 2^32 bytes. *)

(** Every cursor the server emits is accepted back and denotes the same (time, id) position. *)
Theorem C16_cursor_codec_roundtrip : forall c, wire_ok c -> tb_decode (tb_encode c) = DCur c.
Proof. exact tb_roundtrip. Qed.

(** An emitted cursor is never the empty string (which the resolver reads as "no cursor"), so
    feeding endCursor back as [after] always reaches the cursor itself. *)
Theorem C16_cursor_string_as_argument : forall c,
  tb_encode c <> [] /\ (wire_ok c -> arg_of_wire (Some (tb_encode c)) = Some (CCursor c)).
Proof. exact cursor_string_as_argument. Qed.

(** The walks of the statement with the cursor STRINGS the server emitted: first:n, then
    after:<the endCursor string> while hasNextPage (and backwards likewise) visits every edge of
    the window exactly once, in order. *)
Theorem C16_time_walk_fwd_by_cursor_string : forall E g ps n from to fuel,
  honours g E -> NoDup E -> representable E -> (forall e, In e E -> wire_ok e) ->
  1 <= n -> (length E < fuel)%nat ->
  walk_fwd_wire g fuel ps n from to None
  = WDone (sort (filter (fun e => from_ok from e && to_ok to e) E)).
Proof. exact time_walk_fwd_wire_stmt. Qed.

Theorem C16_time_walk_bwd_by_cursor_string : forall E g ps n from to fuel,
  honours g E -> NoDup E -> representable E -> (forall e, In e E -> wire_ok e) ->
  1 <= n -> (length E < fuel)%nat ->
  walk_bwd_wire g fuel ps n from to None
  = WDone (sort (filter (fun e => from_ok from e && to_ok to e) E)).
Proof. exact time_walk_bwd_wire_stmt. Qed.

(** ** Stage B: [time.Time] is not an integer

    [gtime] (TimeConn/GoTimeModel.v) is Go's time.Time as far as the connection code uses it:
    int64 seconds since year 1, nanoseconds within the second, an optional monotonic reading, a
    location; [inst t] is the instant it denotes (nanoseconds since the Unix epoch, unbounded).
    [range_queries_t] transcribes TimeBasedRangeQueries with [Before] / [After] / [Equal] /
    [Add] on such values; [new_cursor] / [cursor_time] are NewTimeBasedCursor / Time(). *)

(** Comparisons compare instants: locations never matter, and a monotonic reading only when both
    values carry one (no value that reaches the connection code does: DateTime arguments come from
    UnmarshalText, cursor times from time.Unix). *)
Theorem C16_time_comparisons_are_instants : forall t u, g_ok t -> g_ok u ->
  g_before t u = (inst t <? inst u) /\ g_after t u = (inst u <? inst t) /\ g_equal t u = (inst t =? inst u).
Proof. exact comparisons_are_instants. Qed.

(** The integer transcription [range_queries] used by all theorems above is exactly what the
    time.Time-level code computes — for EVERY atOrAfterTime / beforeTime a DateTime can express
    (any year, any zone offset; also before Go's zero time and after the year 3000) and every
    cursor. *)
Theorem C16_range_queries_at_time_level_exact : forall after before from to limit,
  opt_wf from -> opt_wf to -> opt_int64 after -> opt_int64 before ->
  map inst_query (range_queries_t after before from to limit)
  = range_queries current after before (option_map inst from) (option_map inst to) limit.
Proof. exact range_queries_t_exact. Qed.

(** The hypothesis "an edge is identified with its cursor" (edge time = cursor time) holds for
    cursors built with NewTimeBasedCursor exactly when the edge's time is an int64 nanosecond count
    (1677-09-21 .. 2262-04-11), whatever its location or monotonic reading ... *)
Theorem C16_cursor_denotes_edge_time_iff_int64 : forall t id,
  inst (cursor_time (new_cursor t id)) = inst t <-> int64 (inst t).
Proof. exact cursor_time_roundtrip_iff. Qed.

(** ... and fails outside: UnixNano wraps silently, an edge of the year 2300 gets a cursor of
    1715 and sorts before an edge of 2020, an edge of 1600 after it (known limitation of the int64
    cursor; the DateTime scalar itself accepts the years 0-9999). *)
Theorem C16_cursor_order_refuted_outside_int64 :
  g_wf t_1600 /\ g_wf t_2020 /\ g_wf t_2300 /\
  inst t_1600 < inst t_2020 < inst t_2300 /\
  cursor_ltb (new_cursor t_2300 []) (new_cursor t_2020 []) = true /\
  cursor_ltb (new_cursor t_2020 []) (new_cursor t_1600 []) = true /\
  inst (cursor_time (new_cursor t_2300 [])) <> inst t_2300.
Proof. exact cursor_order_refuted_outside_int64. Qed.

(** ** Stage B: cost (composition with C14's model of the connection cost functions)

    A time-based connection is built with [Connection], so its cost function is
    [defaultConnectionCost] and the cost of its [edges] field reads the edge count stored in the
    context (Cost/CostModel.v: [default_connection_cost], [edges_cost], [connection_edge_count]).
    The resolver cost is 1, and the multiplier announced for the edges is never exceeded by the
    page the connection returns — which has exactly the length C14's model of the resolver's edge
    count predicts for the number of matching edges. *)
Theorem C16_time_cost_bounds_page : forall U (ctx : CostModel.kctx U) E g ps want_info a,
  honours g E -> NoDup E -> representable E -> args_ok a = true ->
  exists info m,
    fst (conn current g ps want_info a) = OPage (TimeRef E a) info
    /\ CostModel.fc_r (CostModel.default_connection_cost (argval_of (a_first a)) (argval_of (a_last a)) ctx) = 1
    /\ edges_multiplier a ctx = Some m
    /\ Z.of_nat (length (TimeRef E a)) <= m
    /\ CostModel.connection_edge_count (argval_of (a_first a)) (argval_of (a_last a)) (Z.of_nat (length (matching E a)))
       = Some (Z.of_nat (length (TimeRef E a))).
Proof. exact time_cost_bounds_page. Qed.

(** ** Final round: the complete verdict — real errors and non-slice answers together

    The theorems on failing calls above assume [no_bad ps]; the priority between a real error and
    a non-slice answer was so far only compared per case.  [verdict ps qs] (TimeConn/
    TimeVerdictProofs.v) says what ends the fetch for EVERY way the calls can answer:
    (1) the first synchronous call in issue order that fails or answers a non-slice value;
    (2) otherwise the first promise in issue order that resolves to an error; (3) otherwise, if
    some promise resolved to a non-slice value, the non-slice error — so a real error of any
    promise beats a non-slice value of an earlier promise; (4) otherwise nothing. *)

(** The verdict decides the outcome of the connection field completely, with no hypothesis on the
    calls: the error it names nulls the field (only the queries up to a synchronous stop were
    issued, ResolveTotalCount is not called outside the lazy path), and without a verdict the
    connection is the error-free transcription plus totalCount. *)
Theorem C16_time_verdict_decides : forall V g ps s tc a,
  arg_error a = false -> fetches s a = true ->
  let qs := range_queries V (cur_of (a_after a)) (cur_of (a_before a)) (a_from a) (a_to a) (limit_of a) in
  match verdict ps qs with
  | Some (st, n) =>
      exists tcn,
        xconn V true g ps s tc a
        = (XFieldError (ferr_of_stop st :: (if lazy_of a then total_err_of s tc else [])), firstn n qs, tcn)
        /\ (lazy_of a = false -> tcn = Some O)
  | None => xconn V true g ps s tc a = with_total s tc (conn V g (hand ps) (want_info s) a)
  end.
Proof. exact xconn_verdict. Qed.

(** No verdict exactly when every call that would be issued answered cleanly (no error, no
    non-slice value) ... *)
Theorem C16_time_no_verdict_means_clean_calls : forall ps qs,
  verdict ps qs = None -> forall j, (j < length qs)%nat -> clean_call (ps j).
Proof. exact verdict_none_clean. Qed.

(** ... so a page (when edges are fetched at all) is never returned beside a failed or non-slice
    answer — the no-partial-page theorem without [no_bad]. *)
Theorem C16_time_page_means_no_verdict : forall V g ps s tc a es info total issued tcn,
  fetches s a = true ->
  xconn V true g ps s tc a = (XPage es info total, issued, tcn) ->
  verdict ps (range_queries V (cur_of (a_after a)) (cur_of (a_before a)) (a_from a) (a_to a) (limit_of a)) = None.
Proof. exact xconn_page_no_verdict. Qed.

(** Without non-slice answers the verdict is the winner of the error theorems. *)
Theorem C16_time_verdict_extends_winner : forall ps qs, no_bad ps ->
  verdict ps qs = match winner ps qs with Some (id, n) => Some (SErr id, n) | None => None end.
Proof. exact verdict_no_bad. Qed.

Print Assumptions C16_cursor_order_strict_total.
Print Assumptions C16_reference_characterised.
Print Assumptions C16_sorted_list_unique.
Print Assumptions C16_time_filters_hold.
Print Assumptions C16_time_sufficient.
Print Assumptions C16_time_result_eq.
Print Assumptions C16_time_page_info.
Print Assumptions C16_time_promise_eq_sync.
Print Assumptions C16_time_no_panic.
Print Assumptions C16_time_walk_fwd_exact.
Print Assumptions C16_time_walk_bwd_exact.
Print Assumptions C16_filters_refuted_before_fix.
Print Assumptions C16_result_refuted_before_wrap_fix.
Print Assumptions C16_panic_before_fix.
Print Assumptions C16_tiebreak_by_id_needed.
Print Assumptions C16_time_no_failure_is_conn.
Print Assumptions C16_time_getter_error_fails_field.
Print Assumptions C16_time_winner_sound.
Print Assumptions C16_time_winner_complete.
Print Assumptions C16_time_page_means_no_failure.
Print Assumptions C16_time_result_with_total.
Print Assumptions C16_time_join_schedule_independent.
Print Assumptions C16_time_join_error_needs_only_prefix.
Print Assumptions C16_typed_nil_error_refuted_before_fix.
Print Assumptions C16_cursor_codec_roundtrip.
Print Assumptions C16_cursor_string_as_argument.
Print Assumptions C16_time_walk_fwd_by_cursor_string.
Print Assumptions C16_time_walk_bwd_by_cursor_string.
Print Assumptions C16_time_comparisons_are_instants.
Print Assumptions C16_range_queries_at_time_level_exact.
Print Assumptions C16_cursor_denotes_edge_time_iff_int64.
Print Assumptions C16_cursor_order_refuted_outside_int64.
Print Assumptions C16_time_cost_bounds_page.
Print Assumptions C16_time_non_slice_answer_is_an_error.
Print Assumptions C16_time_no_crash_whatever_the_getter_answers.
Print Assumptions C16_non_slice_panic_before_fix.
Print Assumptions C16_time_verdict_decides.
Print Assumptions C16_time_no_verdict_means_clean_calls.
Print Assumptions C16_time_page_means_no_verdict.
Print Assumptions C16_time_verdict_extends_winner.
